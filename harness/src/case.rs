//! A validation case: configuration, wire request, provider script — and its protocol line.
use crate::util::*;

#[derive(Clone, Debug, PartialEq)]
pub enum ProvErr {
    Sig(&'static str), // SignatureError kind name
    Foreign,
}

#[derive(Clone, Debug, PartialEq)]
pub enum Answer {
    Key { key: Vec<u8>, identity: String },
    Err(ProvErr),
}

#[derive(Clone, Debug)]
pub struct Case {
    pub s3: bool,
    pub fold: bool,
    pub region: String,
    pub service: String,
    /// server time: seconds since the epoch and nanoseconds
    pub now: (i64, u32),
    pub always: Vec<String>,
    pub ifreq: Vec<String>,
    pub prefixes: Vec<String>,
    /// use VecSignedHeaderRequirements (true) or SliceSignedHeaderRequirements (false)
    pub vec_reqs: bool,
    pub method: String,
    /// request target as given to `http::Uri` (origin-form or absolute-form)
    pub uri: String,
    /// headers in arrival order
    pub headers: Vec<(String, Vec<u8>)>,
    pub body: Vec<u8>,
    /// provider behaviour: readiness error (None = ready), pending polls before ready / before answer, answer
    pub ready_err: Option<ProvErr>,
    pub pending_ready: u32,
    pub pending_answer: u32,
    pub answer: Answer,
}

pub const KINDS: [&str; 12] = [
    "ExpiredToken",
    "IO",
    "InternalServiceError",
    "InvalidBodyEncoding",
    "InvalidClientTokenId",
    "InvalidContentType",
    "InvalidRequestMethod",
    "IncompleteSignature",
    "InvalidURIPath",
    "MalformedQueryString",
    "MissingAuthenticationToken",
    "SignatureDoesNotMatch",
];

impl Case {
    pub fn now_ns(&self) -> i128 {
        self.now.0 as i128 * 1_000_000_000 + self.now.1 as i128
    }

    /// The protocol fields (without the leading keyword). `path`/`query` are what `http::Uri`
    /// reports for the request target; `other` is what the `encoding` crate says about the charset.
    pub fn fields(&self, path: &str, query: Option<&str>, other: &str) -> String {
        let hdrs = if self.headers.is_empty() {
            ".".to_string()
        } else {
            self.headers
                .iter()
                .map(|(n, v)| format!("{}:{}", hx(n.to_ascii_lowercase().as_bytes()), hx(v)))
                .collect::<Vec<_>>()
                .join(",")
        };
        let perr = |e: &ProvErr| match e {
            ProvErr::Sig(k) => format!("E{}", k),
            ProvErr::Foreign => "F".to_string(),
        };
        let ready = match &self.ready_err {
            None => "R".to_string(),
            Some(e) => perr(e),
        };
        let answer = match &self.answer {
            Answer::Key { key, identity } => format!("K{}:{}", hx(key), hx(identity.as_bytes())),
            Answer::Err(e) => perr(e),
        };
        format!(
            "{} {} {} {} {} {} {} {} {} {} {} {} {} {} {} {}",
            self.s3 as u8,
            self.fold as u8,
            hx(self.region.as_bytes()),
            hx(self.service.as_bytes()),
            self.now_ns(),
            hx_list(&self.always),
            hx_list(&self.ifreq),
            hx_list(&self.prefixes),
            hx(self.method.as_bytes()),
            hx(path.as_bytes()),
            hx_opt(query.map(|q| q.as_bytes())),
            hdrs,
            hx(&self.body),
            other,
            ready,
            answer
        )
    }

    pub fn describe(&self) -> String {
        let hdrs = self.headers.iter().map(|(n, v)| format!("{}: {}", n, show(v))).collect::<Vec<_>>().join(" | ");
        format!(
            "{} {} [{}] body={}B s3={} fold={} now={}.{:09} region={} service={} reqs=({:?},{:?},{:?})",
            self.method,
            show(self.uri.as_bytes()),
            hdrs,
            self.body.len(),
            self.s3,
            self.fold,
            self.now.0,
            self.now.1,
            self.region,
            self.service,
            self.always,
            self.ifreq,
            self.prefixes
        )
    }
}
