/-
  C11 at the level of the whole validation: a header that is neither consulted by the authentication
  logic, nor signed, nor subject to a declared requirement has no influence on the outcome.
-/
import SigV4.Spec.ValidateSpec
import SigV4.Spec.HeaderSpec
import SigV4.Lemmas.Headers
import SigV4.Lemmas.C05

namespace SigV4

/-- Header names the authentication logic itself reads. -/
def consultedHeaders : List Bytes :=
  [AUTHORIZATION, X_AMZ_DATE_LOWER, DATE, X_AMZ_SECURITY_TOKEN_LOWER, CONTENT_TYPE]

/-- What the caller sees of a result apart from the (necessarily different) header list. -/
def Returned.sansHeaders (r : Returned) : Bytes × Option Bytes × Bytes × Bytes :=
  (r.method, r.rebuiltUri, r.body, r.identity)

/-- The request with one more header inserted at position `i` of the arrival order. -/
def Request.insertHeader (req : Request) (i : Nat) (extra : Bytes × Bytes) : Request :=
  { req with headers := req.headers.take i ++ extra :: req.headers.drop i }


/-! ### Helper lemmas -/

/-- Two header maps agree away from the name `e`. -/
def AgreeOff (e : Bytes) (m' m : HeaderMap) : Prop :=
  ∀ k, k ≠ e → assocGet m' k = assocGet m k

theorem c11v_firstHeader_insert (hs : HeaderList) (extra : Bytes × Bytes) (name : Bytes)
    (h : asciiLower extra.1 ≠ name) (i : Nat) :
    firstHeader (hs.take i ++ extra :: hs.drop i) name = firstHeader hs name := by
  induction hs generalizing i with
  | nil =>
    obtain ⟨k, v⟩ := extra
    simp only [List.take_nil, List.drop_nil, List.nil_append]
    simp only [] at h
    simp [firstHeader, h]
  | cons e rest ih =>
    cases i with
    | zero =>
      obtain ⟨k, v⟩ := extra
      simp only [] at h
      simp only [List.take_zero, List.drop_zero, List.nil_append]
      rw [firstHeader]
      simp only [h, if_false]
    | succ j =>
      obtain ⟨k', v'⟩ := e
      simp only [List.take_succ_cons, List.drop_succ_cons, List.cons_append]
      rw [firstHeader, firstHeader, ih j]

theorem c11v_agree_insert (hs : HeaderList) (extra : Bytes × Bytes) (i : Nat) :
    AgreeOff (asciiLower extra.1) (normalizeHeaders (hs.take i ++ extra :: hs.drop i) [])
      (normalizeHeaders hs []) := by
  intro k hk
  rw [normalizeHeaders_get', normalizeHeaders_get', valuesOf_insert hs extra i k (fun h => hk h.symm)]

theorem c11v_mem_keys_of_agree (e : Bytes) (m' m : HeaderMap) (h : AgreeOff e m' m) (k : Bytes)
    (hk : k ≠ e) : k ∈ m'.map Prod.fst ↔ k ∈ m.map Prod.fst := by
  rw [← assocGet_isSome_iff, ← assocGet_isSome_iff, h k hk]

theorem c11v_fromRequestParts (H : Bytes → Bytes) (opts : Options) (other : OtherCharset)
    (req : Request) (i : Nat) (extra : Bytes × Bytes) (hct : asciiLower extra.1 ≠ CONTENT_TYPE) :
    fromRequestParts H opts other (req.insertHeader i extra) =
      (fromRequestParts H opts other req).map (fun fp =>
        { fp with creq := { fp.creq with
            headers := normalizeHeaders (req.headers.take i ++ extra :: req.headers.drop i) [] } }) := by
  have hc : contentTypeCharset (req.headers.take i ++ extra :: req.headers.drop i)
      = contentTypeCharset req.headers := by
    unfold contentTypeCharset
    rw [c11v_firstHeader_insert _ _ _ hct]
  have hf : foldsBody opts (req.headers.take i ++ extra :: req.headers.drop i)
      = foldsBody opts req.headers := by
    unfold foldsBody
    rw [hc]
  unfold fromRequestParts
  simp only [Request.insertHeader, hc, hf]
  split
  · rfl
  · rfl
  · split
    · rfl
    · rfl
    · split
      · split
        · rfl
        · rfl
        · split
          · rfl
          · rfl
          · split <;> (split <;> rfl)
      · rfl

theorem c11v_extractAuthParams (c : CanonReq) (hd : HeaderMap)
    (ha : assocGet hd AUTHORIZATION = assocGet c.headers AUTHORIZATION)
    (hx : assocGet hd X_AMZ_DATE_LOWER = assocGet c.headers X_AMZ_DATE_LOWER)
    (hdt : assocGet hd DATE = assocGet c.headers DATE)
    (ht : assocGet hd X_AMZ_SECURITY_TOKEN_LOWER = assocGet c.headers X_AMZ_SECURITY_TOKEN_LOWER) :
    extractAuthParams { c with headers := hd } = extractAuthParams c := by
  have e1 : ∀ ah, authParamsFromHeader { c with headers := hd } ah = authParamsFromHeader c ah := by
    intro ah
    unfold authParamsFromHeader firstOf
    simp only [hx, hdt, ht]
  have e2 : ∀ alg, authParamsFromQuery { c with headers := hd } alg = authParamsFromQuery c alg := by
    intro alg
    rfl
  unfold extractAuthParams
  simp only [ha, e1, e2]

theorem c11v_headerLine (m' m : HeaderMap) (name : Bytes) (h : assocGet m' name = assocGet m name) :
    headerLine m' name = headerLine m name := by
  unfold headerLine
  rw [h]

theorem c11v_requirementsMet (reqs : Requirements) (e : Bytes) (m' m : HeaderMap)
    (signed : List Bytes) (hag : AgreeOff e m' m)
    (h2 : e ∉ reqs.ifInRequest.map asciiLower)
    (h3 : ∀ p ∈ reqs.prefixes, (asciiLower p).isPrefixOf e = false) :
    requirementsMet reqs m' signed = requirementsMet reqs m signed := by
  rw [Bool.eq_iff_iff, requirementsMet_eq_true_iff, requirementsMet_eq_true_iff]
  refine and_congr Iff.rfl (and_congr Iff.rfl (and_congr ?_ ?_))
  · refine forall_congr' fun c => forall_congr' fun hc => ?_
    have hne : asciiLower c ≠ e := fun he => h2 (he ▸ List.mem_map_of_mem hc)
    rw [c11v_mem_keys_of_agree e m' m hag _ hne]
  · refine forall_congr' fun p => forall_congr' fun hp => forall_congr' fun n => ?_
    by_cases hn : n = e
    · subst hn
      have := h3 p hp
      simp [this]
    · rw [c11v_mem_keys_of_agree e m' m hag _ hn]

theorem c11v_getAuthenticator (H : Bytes → Bytes) (reqs : Requirements) (c : CanonReq) (e : Bytes)
    (hd : HeaderMap) (hag : AgreeOff e hd c.headers)
    (h1 : e ∉ consultedHeaders)
    (h2 : e ∉ reqs.ifInRequest.map asciiLower)
    (h3 : ∀ p ∈ reqs.prefixes, (asciiLower p).isPrefixOf e = false)
    (h4 : ∀ ap, extractAuthParams c = .ok ap → e ∉ ap.signedHeaders) :
    getAuthenticator H reqs { c with headers := hd } = getAuthenticator H reqs c := by
  simp only [consultedHeaders, List.mem_cons, List.not_mem_nil, or_false, not_or] at h1
  obtain ⟨ha, hx, hdt, ht, _⟩ := h1
  have hex : extractAuthParams { c with headers := hd } = extractAuthParams c :=
    c11v_extractAuthParams c hd (hag _ (Ne.symm ha)) (hag _ (Ne.symm hx)) (hag _ (Ne.symm hdt))
      (hag _ (Ne.symm ht))
  unfold getAuthenticator getAuthParams
  rw [hex]
  cases hap : extractAuthParams c with
  | err k => rfl
  | panic p => rfl
  | ok ap =>
    simp only []
    rw [c11v_requirementsMet reqs e hd c.headers ap.signedHeaders hag h2 h3]
    have hcr : canonicalRequest { c with headers := hd } ap.signedHeaders
        = canonicalRequest c ap.signedHeaders := by
      unfold canonicalRequest
      simp only []
      rw [flatMap_congr' ap.signedHeaders (headerLine hd) (headerLine c.headers)]
      intro name hn
      apply c11v_headerLine
      apply hag
      intro he
      exact h4 ap hap (he ▸ hn)
    by_cases hr : requirementsMet reqs c.headers ap.signedHeaders = true
    · simp only [hr, if_true]
      unfold authenticatorOf
      simp only [hcr]
    · simp only [hr]
      rfl

theorem unsigned_header_irrelevant_lemma {σ : Type} (H : Bytes → Bytes) (cfg : Config) (P : Provider σ) (s : σ)
    (req : Request) (i : Nat) (extra : Bytes × Bytes)
    (h1 : asciiLower extra.1 ∉ consultedHeaders)
    (h2 : asciiLower extra.1 ∉ cfg.reqs.ifInRequest.map asciiLower)
    (h3 : ∀ p ∈ cfg.reqs.prefixes, (asciiLower p).isPrefixOf (asciiLower extra.1) = false)
    (h4 : ∀ fp ap, fromRequestParts H cfg.opts cfg.other req = .ok fp → extractAuthParams fp.creq = .ok ap →
            asciiLower extra.1 ∉ ap.signedHeaders) :
    (validate H cfg P s (req.insertHeader i extra)).out.map Returned.sansHeaders
        = (validate H cfg P s req).out.map Returned.sansHeaders ∧
    (validate H cfg P s (req.insertHeader i extra)).calls = (validate H cfg P s req).calls ∧
    (validate H cfg P s (req.insertHeader i extra)).state = (validate H cfg P s req).state := by
  have hct : asciiLower extra.1 ≠ CONTENT_TYPE := by
    intro he
    apply h1
    simp [consultedHeaders, he]
  unfold validate
  rw [c11v_fromRequestParts H cfg.opts cfg.other req i extra hct]
  cases hfp : fromRequestParts H cfg.opts cfg.other req with
  | err k => simp
  | panic p => simp
  | ok fp =>
    simp only [Outcome.map_ok]
    have hh := fromRequestParts_headers H cfg.opts cfg.other req fp hfp
    have hag : AgreeOff (asciiLower extra.1)
        (normalizeHeaders (req.headers.take i ++ extra :: req.headers.drop i) []) fp.creq.headers := by
      rw [hh]
      exact c11v_agree_insert req.headers extra i
    rw [c11v_getAuthenticator H cfg.reqs fp.creq (asciiLower extra.1) _ hag h1 h2 h3
      (fun ap hap => h4 fp ap hfp hap)]
    cases getAuthenticator H cfg.reqs fp.creq with
    | err k => simp
    | panic p => simp
    | ok a =>
      simp only []
      cases (validateSignature H P s a cfg.region cfg.service cfg.now).out with
      | err k => simp
      | panic p => simp
      | ok resp => simp [Returned.sansHeaders, Request.insertHeader]

end SigV4

#print axioms SigV4.unsigned_header_irrelevant_lemma
