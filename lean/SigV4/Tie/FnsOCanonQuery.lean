/-
  SigV4.Tie.FnsOCanonQuery — `canonicalize_query_to_string` (src/canonical.rs), translated statement by statement from
  /repo/src on this run (SigV4/Source/GeneratedFnsO.lean), is the model's `canonQuery`: every (name, value) pair of the
  map except those named `X-Amz-Signature`, sorted by name and then by value, rendered `name=value`, joined by `&` —
  for every map, whatever the order in which its entries are listed (with `C10.canonQuery_map_order_invariant`: whatever
  order the `HashMap` iterates in).
-/
import SigV4.Source.GeneratedFnsO
import SigV4.Model.Uri

namespace SigV4.Tie

open SigV4

namespace CanonQuery

theorem forIn_cons_ok {α β : Type} (x : α) (xs : List α) (b b' : β) (f : α → β → Outcome (ForInStep β))
    (h : f x b = .ok (.yield b')) : forIn (x :: xs) b f = forIn xs b' f := by
  simp only [List.forIn_cons, h, bind, Outcome.bind_ok]

theorem strLe_eq : ∀ a b : Bytes, Rust.strLe a b = bytesLe a b
  | [], _ => by simp only [Rust.strLe, bytesLe]
  | _ :: _, [] => by simp only [Rust.strLe, bytesLe]
  | a :: as, b :: bs => by simp only [Rust.strLe, bytesLe, strLe_eq as bs]

theorem pairLe_eq (x y : Bytes × Bytes) : Rust.pairLe x y = pairLe x y := by
  simp only [Rust.pairLe, pairLe, strLe_eq]

theorem insertPair_eq (x : Bytes × Bytes) : ∀ l, Rust.insertPair x l = insertBy pairLe x l
  | [] => rfl
  | y :: ys => by simp only [Rust.insertPair, insertBy, pairLe_eq, insertPair_eq x ys]

theorem sortPairs_eq : ∀ l, Rust.sortPairs l = sortBy pairLe l
  | [] => rfl
  | x :: xs => by simp only [Rust.sortPairs, sortBy, insertPair_eq, sortPairs_eq xs]

theorem join_eq (sep : Bytes) : ∀ l : List Bytes, Rust.join sep l = joinWith sep l
  | [] => rfl
  | [x] => rfl
  | x :: y :: rest => by simp only [Rust.join, joinWith, join_eq sep (y :: rest)]

/-- The generated inner loop body (`for value in values`), restated. -/
def innerBody (key : Bytes) (value : Bytes) (r : List (Bytes × Bytes)) : Outcome (ForInStep (List (Bytes × Bytes))) :=
  Outcome.ok (ForInStep.yield (r ++ [(key, value)]))

theorem inner (key : Bytes) (values : List Bytes) : ∀ r : List (Bytes × Bytes),
    forIn values r (innerBody key) = Outcome.ok (r ++ values.map fun v => (key, v)) := by
  induction values with
  | nil => intro r; simp [pure]
  | cons v vs ih =>
    intro r
    rw [forIn_cons_ok v vs r (r ++ [(key, v)]) _ rfl, ih]
    simp [List.append_assoc]

/-- The generated outer loop body (`for (key, values) in query_parameters`), restated. -/
def outerBody (kv : Bytes × List Bytes) (r : List (Bytes × Bytes)) : Outcome (ForInStep (List (Bytes × Bytes))) :=
  if (kv.1 != ([0x58, 0x2D, 0x41, 0x6D, 0x7A, 0x2D, 0x53, 0x69, 0x67, 0x6E, 0x61, 0x74, 0x75, 0x72, 0x65] : Bytes)) = true then
    (forIn kv.2 r (innerBody kv.1)).bind fun r => Outcome.ok (ForInStep.yield r)
  else Outcome.ok (ForInStep.yield r)

theorem outerBody_eq (kv : Bytes × List Bytes) (r : List (Bytes × Bytes)) :
    outerBody kv r = .ok (.yield (r ++ queryPairs [kv])) := by
  unfold outerBody queryPairs
  have hX : ([0x58, 0x2D, 0x41, 0x6D, 0x7A, 0x2D, 0x53, 0x69, 0x67, 0x6E, 0x61, 0x74, 0x75, 0x72, 0x65] : Bytes)
      = X_AMZ_SIGNATURE := rfl
  rw [hX]
  by_cases h : kv.1 = X_AMZ_SIGNATURE
  · simp [h]
  · simp [h, inner]

theorem queryPairs_cons (kv : Bytes × List Bytes) (m : QueryMap) :
    queryPairs (kv :: m) = queryPairs [kv] ++ queryPairs m := by
  unfold queryPairs
  by_cases h : kv.1 = X_AMZ_SIGNATURE <;> simp [h]

theorem outer (m : QueryMap) : ∀ r : List (Bytes × Bytes),
    forIn m r outerBody = Outcome.ok (r ++ queryPairs m) := by
  induction m with
  | nil => intro r; simp [pure, queryPairs]
  | cons x xs ih =>
    intro r
    rw [forIn_cons_ok x xs _ _ _ (outerBody_eq x r), ih, queryPairs_cons x xs, List.append_assoc]

end CanonQuery

open CanonQuery in
theorem canonicalize_query_to_string : ∀ f, Src.canonical.canonicalize_query_to_string? = some f →
    ∀ (fuel : Nat) (m : QueryMap), f fuel m = .ok (canonQuery m) := by
  intro f hf
  first
    | (simp only [Src.canonical.canonicalize_query_to_string?, Option.some.injEq] at hf
       subst hf
       intro fuel m
       unfold Src.fnO.canonicalize_query_to_string
       simp only [bind, pure]
       show (forIn m [] outerBody).bind _ = _
       rw [outer]
       simp only [Outcome.bind_ok, canonQuery, join_eq, sortPairs_eq, List.nil_append]
       rfl)
    | (simp [Src.canonical.canonicalize_query_to_string?] at hf)

end SigV4.Tie

#print axioms SigV4.Tie.canonicalize_query_to_string
