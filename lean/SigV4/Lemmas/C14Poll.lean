/- The polled validation future refines the big-step model (C14: pending states and re-polls). -/
import SigV4.Model.Poll
import SigV4.Spec.ValidateSpec
import SigV4.Lemmas.C14

namespace SigV4

/-! ### Auxiliary: one poll followed by the rest of the loop -/

/-- What `pollLoop` does with the result of one poll. -/
def pollCont (H : Bytes → Bytes) (cfg : Config) (e : PollEntry) (req : Request) (fuel : Nat)
    (r : PollState × PollLog × PollOut) (polls : Nat) : Option (Outcome Returned × PollLog × Nat) :=
  match r with
  | (_, log', .ready out) => some (out, log', polls + 1)
  | (st', log', .pending) => pollLoop H cfg e req fuel st' log' (polls + 1)

theorem pollLoop_succ (H : Bytes → Bytes) (cfg : Config) (e : PollEntry) (req : Request) (fuel : Nat)
    (st : PollState) (log : PollLog) (polls : Nat) :
    pollLoop H cfg e req (fuel + 1) st log polls =
      pollCont H cfg e req fuel (pollValidate H cfg e req st log) polls := by
  rw [pollLoop]
  unfold pollCont
  split <;> rename_i h <;> simp only [h]

/-- The outcome once the provider's future has resolved. -/
def answerOut (H : Bytes → Bytes) (e : PollEntry) (req : Request) (fp : FromParts) (a : Authenticator)
    (sts : Bytes) : Outcome Returned :=
  match e.answer with
  | .error pe => .err pe.toKind
  | .ok resp =>
    if (ctEq a.signature (hexLower (hmac H resp.key sts))).1 then
      .ok (Returned.mk req.method req.headers fp.rebuiltUri fp.body resp.identity)
    else .err .SignatureDoesNotMatch

theorem pollAnswer_zero (H : Bytes → Bytes) (e : PollEntry) (req : Request) (fp : FromParts)
    (a : Authenticator) (sts : Bytes) (log : PollLog) :
    pollAnswer H e req fp a sts 0 log =
      (.finished, ⟨log.readyPolls, log.calls, log.futurePolls + 1⟩, .ready (answerOut H e req fp a sts)) := by
  unfold pollAnswer answerOut
  cases e.answer with
  | error pe => rfl
  | ok resp =>
    simp only
    split <;> rfl

theorem pollAnswer_succ (H : Bytes → Bytes) (e : PollEntry) (req : Request) (fp : FromParts)
    (a : Authenticator) (sts : Bytes) (n : Nat) (log : PollLog) :
    pollAnswer H e req fp a sts (n + 1) log =
      (.awaitingAnswer a sts n, ⟨log.readyPolls, log.calls, log.futurePolls + 1⟩, .pending) := rfl

/-- The answer phase: `n` more `Pending` results, then the answer. -/
theorem pollCont_answer (H : Bytes → Bytes) (cfg : Config) (e : PollEntry) (req : Request) (fp : FromParts)
    (hfp : fromRequestParts H cfg.opts cfg.other req = .ok fp) (a : Authenticator) (sts : Bytes) :
    ∀ (n fuel : Nat) (log : PollLog) (polls : Nat), n ≤ fuel →
      pollCont H cfg e req fuel (pollAnswer H e req fp a sts n log) polls =
        some (answerOut H e req fp a sts,
          ⟨log.readyPolls, log.calls, log.futurePolls + n + 1⟩, polls + n + 1) := by
  intro n
  induction n with
  | zero =>
    intro fuel log polls _
    rw [pollAnswer_zero]
    rfl
  | succ n ih =>
    intro fuel log polls hf
    obtain ⟨fuel', rfl⟩ : ∃ f, fuel = f + 1 := ⟨fuel - 1, by omega⟩
    rw [pollAnswer_succ]
    show pollLoop H cfg e req (fuel' + 1) _ _ _ = _
    rw [pollLoop_succ]
    have hv : ∀ lg, pollValidate H cfg e req (.awaitingAnswer a sts n) lg = pollAnswer H e req fp a sts n lg := by
      intro lg; unfold pollValidate; simp only [hfp]
    rw [hv, ih fuel' _ _ (by omega)]
    simp only [Option.some.injEq, Prod.mk.injEq, PollLog.mk.injEq, true_and]
    omega

theorem pollReady_succ (H : Bytes → Bytes) (cfg : Config) (e : PollEntry) (req : Request) (fp : FromParts)
    (a : Authenticator) (sts : Bytes) (n : Nat) (log : PollLog) :
    pollReady H cfg e req fp a sts (n + 1) log =
      (.awaitingReady a sts n, ⟨log.readyPolls + 1, log.calls, log.futurePolls⟩, .pending) := rfl

theorem pollReady_zero_err (H : Bytes → Bytes) (cfg : Config) (e : PollEntry) (req : Request) (fp : FromParts)
    (a : Authenticator) (sts : Bytes) (log : PollLog) (pe : ProvErr) (he : e.readyErr = some pe) :
    pollReady H cfg e req fp a sts 0 log =
      (.finished, ⟨log.readyPolls + 1, log.calls, log.futurePolls⟩, .ready (.err pe.toKind)) := by
  unfold pollReady
  simp only [he]

theorem pollReady_zero_ok (H : Bytes → Bytes) (cfg : Config) (e : PollEntry) (req : Request) (fp : FromParts)
    (a : Authenticator) (sts : Bytes) (log : PollLog) (he : e.readyErr = none) :
    pollReady H cfg e req fp a sts 0 log =
      pollAnswer H e req fp a sts e.pendingAnswer
        ⟨log.readyPolls + 1, log.calls ++ [providerReqOf a cfg.region cfg.service], log.futurePolls⟩ := by
  unfold pollReady
  simp only [he]
  rfl

theorem pollValidate_awaitingReady (H : Bytes → Bytes) (cfg : Config) (e : PollEntry) (req : Request)
    (fp : FromParts) (hfp : fromRequestParts H cfg.opts cfg.other req = .ok fp) (a : Authenticator)
    (sts : Bytes) (n : Nat) (log : PollLog) :
    pollValidate H cfg e req (.awaitingReady a sts n) log = pollReady H cfg e req fp a sts n log := by
  unfold pollValidate
  simp only [hfp]

/-- The readiness phase ending in an error: `n` more `Pending` results, then the error. -/
theorem pollCont_ready_err (H : Bytes → Bytes) (cfg : Config) (e : PollEntry) (req : Request) (fp : FromParts)
    (hfp : fromRequestParts H cfg.opts cfg.other req = .ok fp) (a : Authenticator) (sts : Bytes)
    (pe : ProvErr) (he : e.readyErr = some pe) :
    ∀ (n fuel : Nat) (log : PollLog) (polls : Nat), n ≤ fuel →
      pollCont H cfg e req fuel (pollReady H cfg e req fp a sts n log) polls =
        some (.err pe.toKind, ⟨log.readyPolls + n + 1, log.calls, log.futurePolls⟩, polls + n + 1) := by
  intro n
  induction n with
  | zero =>
    intro fuel log polls _
    rw [pollReady_zero_err H cfg e req fp a sts log pe he]
    rfl
  | succ n ih =>
    intro fuel log polls hf
    obtain ⟨fuel', rfl⟩ : ∃ f, fuel = f + 1 := ⟨fuel - 1, by omega⟩
    rw [pollReady_succ]
    show pollLoop H cfg e req (fuel' + 1) _ _ _ = _
    rw [pollLoop_succ, pollValidate_awaitingReady H cfg e req fp hfp, ih fuel' _ _ (by omega)]
    simp only [Option.some.injEq, Prod.mk.injEq, PollLog.mk.injEq, true_and, and_true]
    omega

/-- The readiness phase ending `Ok`: `n` more `Pending` results, then the call and the answer phase. -/
theorem pollCont_ready_ok (H : Bytes → Bytes) (cfg : Config) (e : PollEntry) (req : Request) (fp : FromParts)
    (hfp : fromRequestParts H cfg.opts cfg.other req = .ok fp) (a : Authenticator) (sts : Bytes)
    (he : e.readyErr = none) :
    ∀ (n fuel : Nat) (log : PollLog) (polls : Nat), n + e.pendingAnswer ≤ fuel →
      pollCont H cfg e req fuel (pollReady H cfg e req fp a sts n log) polls =
        some (answerOut H e req fp a sts,
          ⟨log.readyPolls + n + 1, log.calls ++ [providerReqOf a cfg.region cfg.service],
            log.futurePolls + e.pendingAnswer + 1⟩, polls + n + e.pendingAnswer + 1) := by
  intro n
  induction n with
  | zero =>
    intro fuel log polls hf
    rw [pollReady_zero_ok H cfg e req fp a sts log he,
      pollCont_answer H cfg e req fp hfp a sts e.pendingAnswer fuel _ polls (by omega)]
    simp only [Option.some.injEq, Prod.mk.injEq, true_and]
    omega
  | succ n ih =>
    intro fuel log polls hf
    obtain ⟨fuel', rfl⟩ : ∃ f, fuel = f + 1 := ⟨fuel - 1, by omega⟩
    rw [pollReady_succ]
    show pollLoop H cfg e req (fuel' + 1) _ _ _ = _
    rw [pollLoop_succ, pollValidate_awaitingReady H cfg e req fp hfp, ih fuel' _ _ (by omega)]
    simp only [Option.some.injEq, Prod.mk.injEq, PollLog.mk.injEq, true_and, and_true]
    omega

theorem pollValidate_start (H : Bytes → Bytes) (cfg : Config) (e : PollEntry) (req : Request)
    (fp : FromParts) (hfp : fromRequestParts H cfg.opts cfg.other req = .ok fp) (a : Authenticator)
    (hga : getAuthenticator H cfg.reqs fp.creq = .ok a)
    (hpre : prevalidate a cfg.region cfg.service cfg.now = .ok ()) (sts : Bytes)
    (hsts : stringToSign a = .ok sts) (log : PollLog) :
    pollValidate H cfg e req .start log = pollReady H cfg e req fp a sts e.pendingReady log := by
  unfold pollValidate
  simp only [hfp, hga, hpre, hsts]

/-- A first poll that is refused before the key lookup. -/
theorem pollLoop_immediate (H : Bytes → Bytes) (cfg : Config) (e : PollEntry) (req : Request)
    (out : Outcome Returned) (st : PollState)
    (hv : pollValidate H cfg e req .start {} = (st, {}, .ready out))
    (hb : validate H cfg e.bigStep () req = { out := out, state := (), calls := [] })
    (fuel : Nat) (hf : e.pendingReady + e.pendingAnswer + 1 ≤ fuel) :
    ∃ log k, pollLoop H cfg e req fuel .start {} 0 = some ((validate H cfg e.bigStep () req).out, log, k) ∧
      log.calls = (validate H cfg e.bigStep () req).calls ∧ log.calls.length ≤ 1 ∧
      k ≤ e.pendingReady + e.pendingAnswer + 1 ∧
      (log.calls ≠ [] → log.readyPolls = e.pendingReady + 1 ∧ e.readyErr = none ∧
        log.futurePolls = e.pendingAnswer + 1 ∧ k = e.pendingReady + e.pendingAnswer + 1) := by
  obtain ⟨f, rfl⟩ : ∃ f, fuel = f + 1 := ⟨fuel - 1, by omega⟩
  refine ⟨{}, 1, ?_, ?_, ?_, ?_, ?_⟩
  · rw [pollLoop_succ, hv, hb]; rfl
  · rw [hb]
  · exact Nat.zero_le _
  · omega
  · intro h; exact absurd rfl h

/-- Polling the validation future to completion gives exactly the big-step outcome and provider
calls, whatever the numbers of `Pending` results; it takes at most `pendingReady + pendingAnswer + 1`
polls; the provider is called at most once, and only after readiness resolved `Ok` (all
`pendingReady + 1` readiness polls have happened and none reported an error). -/
theorem poll_refines_bigstep_lemma (H : Bytes → Bytes) (cfg : Config) (e : PollEntry) (req : Request)
    (fuel : Nat) (hf : e.pendingReady + e.pendingAnswer + 1 ≤ fuel) :
    ∃ log k, pollLoop H cfg e req fuel .start {} 0 = some ((validate H cfg e.bigStep () req).out, log, k) ∧
      log.calls = (validate H cfg e.bigStep () req).calls ∧ log.calls.length ≤ 1 ∧
      k ≤ e.pendingReady + e.pendingAnswer + 1 ∧
      (log.calls ≠ [] → log.readyPolls = e.pendingReady + 1 ∧ e.readyErr = none ∧
        log.futurePolls = e.pendingAnswer + 1 ∧ k = e.pendingReady + e.pendingAnswer + 1) := by
  cases hfp : fromRequestParts H cfg.opts cfg.other req with
  | err k =>
    exact pollLoop_immediate H cfg e req (.err k) .finished (by simp only [pollValidate, hfp])
      (by simp only [validate, hfp]) fuel hf
  | panic p =>
    exact pollLoop_immediate H cfg e req (.panic p) .finished (by simp only [pollValidate, hfp])
      (by simp only [validate, hfp]) fuel hf
  | ok fp =>
  cases hga : getAuthenticator H cfg.reqs fp.creq with
  | err k =>
    exact pollLoop_immediate H cfg e req (.err k) .finished (by simp only [pollValidate, hfp, hga])
      (by simp only [validate, hfp, hga]) fuel hf
  | panic p =>
    exact pollLoop_immediate H cfg e req (.panic p) .finished (by simp only [pollValidate, hfp, hga])
      (by simp only [validate, hfp, hga]) fuel hf
  | ok a =>
  cases hpre : prevalidate a cfg.region cfg.service cfg.now with
  | err k =>
    exact pollLoop_immediate H cfg e req (.err k) .finished (by simp only [pollValidate, hfp, hga, hpre])
      (by simp only [validate, validateSignature, hfp, hga, hpre]) fuel hf
  | panic p =>
    exact pollLoop_immediate H cfg e req (.panic p) .finished (by simp only [pollValidate, hfp, hga, hpre])
      (by simp only [validate, validateSignature, hfp, hga, hpre]) fuel hf
  | ok u =>
  cases u
  cases hsts : stringToSign a with
  | err k =>
    exact pollLoop_immediate H cfg e req (.err k) .finished (by simp only [pollValidate, hfp, hga, hpre, hsts])
      (by simp only [validate, validateSignature, hfp, hga, hpre, hsts]) fuel hf
  | panic p =>
    exact pollLoop_immediate H cfg e req (.panic p) .finished (by simp only [pollValidate, hfp, hga, hpre, hsts])
      (by simp only [validate, validateSignature, hfp, hga, hpre, hsts]) fuel hf
  | ok sts =>
  obtain ⟨f, rfl⟩ : ∃ f, fuel = f + 1 := ⟨fuel - 1, by omega⟩
  rw [pollLoop_succ, pollValidate_start H cfg e req fp hfp a hga hpre sts hsts]
  cases hre : e.readyErr with
  | some pe =>
    rw [pollCont_ready_err H cfg e req fp hfp a sts pe hre e.pendingReady f _ 0 (by omega)]
    have hb : validate H cfg e.bigStep () req = { out := .err pe.toKind, state := (), calls := [] } := by
      simp only [validate, validateSignature, getSigningKey, PollEntry.bigStep, hfp, hga, hpre, hsts, hre]
    rw [hb]
    refine ⟨_, _, rfl, rfl, Nat.zero_le _, by omega, fun h => absurd rfl h⟩
  | none =>
    rw [pollCont_ready_ok H cfg e req fp hfp a sts hre e.pendingReady f _ 0 (by omega)]
    have hb : validate H cfg e.bigStep () req =
        { out := answerOut H e req fp a sts, state := (),
          calls := [providerReqOf a cfg.region cfg.service] } := by
      simp only [validate, validateSignature, getSigningKey, PollEntry.bigStep, answerOut, providerReqOf,
        hfp, hga, hpre, hsts, hre]
      cases hans : e.answer with
      | error pe2 => simp only
      | ok resp =>
        by_cases hct : (ctEq a.signature (hexLower (hmac H resp.key sts))).1 = true
        · simp only [hct, if_true]
        · simp only [hct, Bool.false_eq_true, if_false]
    rw [hb]
    refine ⟨_, _, rfl, rfl, Nat.le_refl _, by omega, fun _ => ⟨by simp, rfl, by simp, by omega⟩⟩

/-- A request that fails a pre-check is refused in the very first poll, without touching the provider. -/
theorem poll_precheck_failure_immediate_lemma (H : Bytes → Bytes) (cfg : Config) (e : PollEntry) (req : Request)
    (h : (∃ k, authOf H cfg req = .err k) ∨
         (∃ a k, authOf H cfg req = .ok a ∧ prevalidate a cfg.region cfg.service cfg.now = .err k)) :
    ∃ out, pollLoop H cfg e req 1 .start {} 0 = some (out, {}, 1) ∧ (∃ k, out = .err k) := by
  rw [pollLoop_succ]
  rcases h with ⟨k, hk⟩ | ⟨a, k, ha, hpre⟩
  · unfold authOf at hk
    cases hfp : fromRequestParts H cfg.opts cfg.other req with
    | err k' =>
      refine ⟨.err k', ?_, k', rfl⟩
      simp only [pollValidate, hfp]; rfl
    | panic p => rw [hfp] at hk; cases hk
    | ok fp =>
      rw [hfp] at hk
      simp only at hk
      refine ⟨.err k, ?_, k, rfl⟩
      simp only [pollValidate, hfp, hk]; rfl
  · obtain ⟨fp, hfp, hga, _⟩ := validate_of_authOf_ok H cfg e.bigStep () req a ha
    refine ⟨.err k, ?_, k, rfl⟩
    simp only [pollValidate, hfp, hga, hpre]; rfl

/-- A readiness error ends the validation without any call, after exactly `pendingReady + 1` polls. -/
theorem poll_ready_error_lemma (H : Bytes → Bytes) (cfg : Config) (e : PollEntry) (req : Request)
    (a : Authenticator) (pe : ProvErr)
    (ha : authOf H cfg req = .ok a) (hp : prevalidate a cfg.region cfg.service cfg.now = .ok ())
    (he : e.readyErr = some pe) :
    ∃ log, pollLoop H cfg e req (e.pendingReady + 1) .start {} 0 = some (.err pe.toKind, log, e.pendingReady + 1) ∧
      log.calls = [] ∧ log.readyPolls = e.pendingReady + 1 := by
  obtain ⟨fp, hfp, hga, _⟩ := validate_of_authOf_ok H cfg e.bigStep () req a ha
  obtain ⟨sts, hsts⟩ := stringToSign_ok_of_prevalidate hp
  rw [pollLoop_succ, pollValidate_start H cfg e req fp hfp a hga hp sts hsts,
    pollCont_ready_err H cfg e req fp hfp a sts pe he e.pendingReady e.pendingReady _ 0 (Nat.le_refl _)]
  refine ⟨⟨e.pendingReady + 1, [], 0⟩, ?_, rfl, rfl⟩
  simp only [Nat.zero_add]

end SigV4

#print axioms SigV4.poll_refines_bigstep_lemma
#print axioms SigV4.poll_precheck_failure_immediate_lemma
#print axioms SigV4.poll_ready_error_lemma
