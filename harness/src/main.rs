//! Correspondence and oracle harness for the Lean model of scratchstack-aws-signature.
//! Usage: harness <C01..C19|ALL> <quick|thorough> [seed]   |   harness replay <file>
use sigv4_verif_harness::*;
use sigv4_verif_harness::util::*;

static LAST_PANIC: std::sync::Mutex<String> = std::sync::Mutex::new(String::new());

fn main() {
    let r = std::panic::catch_unwind(real_main);
    if r.is_err() {
        eprintln!("HARNESS-PANIC {}", LAST_PANIC.lock().map(|g| g.clone()).unwrap_or_default());
        std::process::exit(101);
    }
}

fn real_main() {
    let args: Vec<String> = std::env::args().collect();
    if args.len() < 3 {
        eprintln!("usage: harness <property> <quick|thorough> [seed]");
        std::process::exit(2);
    }
    // panics inside the crate under test are caught and reported per case; the hook only remembers the last one
    // so that a panic of the harness itself can be shown (see the end of main)
    std::panic::set_hook(Box::new(|info| {
        if let Ok(mut g) = LAST_PANIC.lock() {
            *g = format!("{}", info);
        }
    }));
    let prop = args[1].clone();
    if prop == "c18child" {
        props_runtime::c18_child(&args[2], args[3].parse().unwrap());
        return;
    }
    if prop == "C07" {
        // the tracer is a separate binary (it replaces memcmp/bcmp for its own process only)
        let exe = std::env::current_exe().unwrap().with_file_name("cttrace");
        let seed = args.get(3).cloned().unwrap_or_else(|| "20260929".into());
        let st = std::process::Command::new(exe).arg(&args[2]).arg(seed).status().expect("cttrace");
        std::process::exit(st.code().unwrap_or(2));
    }
    // a logger that formats every record is installed for every check; except in the C17 check (which reads the
    // records at a fixed level) the level flips between Trace and Off from one call into the crate to the next
    props_runtime::install_logger();
    if prop != "C17" {
        imp::LOG_FLIP.store(true, std::sync::atomic::Ordering::Relaxed);
    }
    let thorough = args[2] == "thorough";
    let seed: u64 = args.get(3).and_then(|s| s.parse().ok()).unwrap_or(20260929);
    let mut ctx = Ctx { rng: Rng::new(seed), drv: driver::Driver::spawn(), rep: Report::default(), thorough, seed };
    let t0 = std::time::Instant::now();
    if prop.starts_with('C') {
        corpus::run_corpus(&mut ctx, &prop);
    }
    match prop.as_str() {
        "selftest" => props_direct::selftest(&mut ctx),
        "C01" => props_validate::c01(&mut ctx),
        "C02" => props_validate::c02(&mut ctx),
        "C03" => props_validate::c03(&mut ctx),
        "C04" => props_validate::c04(&mut ctx),
        "C05" => props_validate::c05(&mut ctx),
        "C06" => props_direct::c06(&mut ctx),
        "C08" => props_validate2::c08(&mut ctx),
        "C09" => props_direct::c09(&mut ctx),
        "C10" => props_direct::c10(&mut ctx),
        "C11" => props_validate2::c11(&mut ctx),
        "C12" => props_validate2::c12(&mut ctx),
        "C13" => props_validate2::c13(&mut ctx),
        "C14" => props_validate2::c14(&mut ctx),
        "C15" => props_validate2::c15(&mut ctx),
        "C16" => props_direct::c16(&mut ctx),
        "C17" => props_runtime::c17(&mut ctx),
        "C18" => props_runtime::c18(&mut ctx),
        "C19" => props_validate::c19(&mut ctx),
        _ => {
            eprintln!("unknown property {}", prop);
            std::process::exit(2);
        }
    }
    // stages added after the seventh round of seeded changes (histories, reuse, unusual shapes)
    {
        use props_round7 as r7;
        let p = prop.as_str();
        if ["C01", "C02"].contains(&p) { r7::interleaved_pairs(&mut ctx, p); }
        if p == "C02" { let _ = r7::declared_payload_hash(&mut ctx, p); }
        if ["C02", "C15"].contains(&p) { let d = r7::absolute_form_authorities(&mut ctx, p); if p == "C15" { props_validate2::check_passthrough(&mut ctx, d); } }
        if ["C02", "C09"].contains(&p) { r7::long_paths(&mut ctx, p); }
        if ["C03", "C04", "C14"].contains(&p) { r7::authenticator_histories(&mut ctx, p); }
        if p == "C04" { r7::slow_wallclock_provider(&mut ctx, p); }
        if ["C09", "C10", "C18"].contains(&p) { r7::shared_component_histories(&mut ctx, p); }
        if p == "C11" { r7::special_header_names(&mut ctx, p); }
        if ["C12", "C15"].contains(&p) { r7::resubmit_returned_parts(&mut ctx, p); }
        if ["C12", "C19"].contains(&p) { r7::folded_repeats_many_names(&mut ctx, p); }
        if ["C13", "C14"].contains(&p) { r7::provider_error_kinds(&mut ctx, p); }
        if p == "C16" { r7::long_timestamp_pairs(&mut ctx); }
        if p == "C17" { props_runtime::c17_levels_and_histories(&mut ctx); }
        if p == "C05" { r7::mirrored_query_params(&mut ctx, p); r7::unsigned_token_header(&mut ctx, p); }
        // stages added after the eighth round
        if ["C01", "C14", "C15"].contains(&p) { r7::adapter_histories(&mut ctx, p); }
        if p == "C03" { r7::colliding_configs(&mut ctx, p); }
        if p == "C04" { r7::expires_parameter(&mut ctx, p); }
        if ["C02", "C08"].contains(&p) { r7::high_bytes_everywhere(&mut ctx, p); }
        if p == "C11" { r7::token_alphabet_header_names(&mut ctx, p); r7::canonical_request_histories(&mut ctx, p); }
        if p == "C16" { r7::leap_seconds_and_double_encoding(&mut ctx, p); }
        if p == "C19" { r7::empty_auth_items(&mut ctx, p); }
        if ["C12", "C13"].contains(&p) { r7::empty_body_bad_charset(&mut ctx, p); }
        // stages added after the ninth round
        if ["C01", "C02"].contains(&p) { r7::method_letter_case(&mut ctx, p); }
        if ["C02", "C10", "C12"].contains(&p) { r7::other_charsets(&mut ctx, p); }
        if p == "C03" { r7::long_scope_near_misses(&mut ctx, p); }
        if p == "C05" { r7::prefix_equals_name_and_padded_entries(&mut ctx, p); }
        if p == "C10" { r7::thousand_parameters(&mut ctx, p); }
        if p == "C11" { r7::sensitive_header_values(&mut ctx, p); }
        if ["C12", "C15"].contains(&p) { r7::bad_fold_then_good_fold(&mut ctx, p); }
        if p == "C15" { let d = r7::address_session_values(&mut ctx, p); props_validate2::check_passthrough(&mut ctx, d); }
        if ["C05", "C11"].contains(&p) { r7::duplicate_case_requirement_histories(&mut ctx, p); }
        if ["C13", "C14"].contains(&p) { r7::long_signature_behind_failing_lookup(&mut ctx, p); }
        // stages added after the tenth (small) round
        if ["C04", "C16"].contains(&p) { r7::same_month_days_and_early_years(&mut ctx, p); }
        if ["C08", "C15"].contains(&p) { r7::empty_principal_accepts(&mut ctx, p); }
        if ["C16", "C19", "C13"].contains(&p) { r7::malformed_amz_date_beside_date(&mut ctx, p); }
        if ["C08", "C16"].contains(&p) { r7::tokens_and_damaged_dates(&mut ctx, p); }
        if ["C13", "C19"].contains(&p) { r7::many_auth_items(&mut ctx, p); }
        if ["C15", "C08"].contains(&p) { let d = r7::too_long_then_folded(&mut ctx, p); if p == "C15" { props_validate2::check_passthrough(&mut ctx, d); } }
        if ["C01", "C15"].contains(&p) { let d = r7::declared_payload_hash(&mut ctx, p); if p == "C15" { props_validate2::check_passthrough(&mut ctx, d); } }
    }
    // properties stated about the validation as a whole also need every function on the validation path to
    // correspond to its model
    if ["C01", "C02", "C03", "C04", "C05", "C08", "C11", "C12", "C13", "C14", "C15", "C17", "C18", "C19"].contains(&prop.as_str()) {
        ctx.dependency_suite();
    }
    ctx.rep.add("model_answers", ctx.drv.asked);
    ctx.rep.add("wall_ms", t0.elapsed().as_millis() as u64);
    ctx.rep.print();
    println!("DONE");
}
