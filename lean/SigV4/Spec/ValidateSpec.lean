/-
  SigV4.Spec.ValidateSpec — vocabulary shared by the properties stated on `validate`:
  the authenticator a request gives rise to, the freshness window, the scope rule.
-/
import SigV4.Model.Validate

namespace SigV4

/-- The authenticator a request yields under a configuration (rules 1-9): canonicalisation,
parameter extraction, signed-header requirements, date parsing. -/
def authOf (H : Bytes → Bytes) (cfg : Config) (req : Request) : Outcome Authenticator :=
  match fromRequestParts H cfg.opts cfg.other req with
  | .ok fp => getAuthenticator H cfg.reqs fp.creq
  | .err k => .err k
  | .panic p => .panic p

/-- `now - 15 min ≤ t ≤ now + 15 min`, both bounds inclusive, at nanosecond resolution. -/
def inWindow (t now : Int) : Prop := now - ALLOWED_MISMATCH ≤ t ∧ t ≤ now + ALLOWED_MISMATCH

instance (t now : Int) : Decidable (inWindow t now) := by unfold inWindow; infer_instance

/-- Server times for which `now ± 15 min` is representable by chrono (years -262143 … 262142);
outside this range the code falls back to comparing with `now` itself. -/
def nowRepresentable (now : Int) : Prop :=
  CHRONO_MIN ≤ now - ALLOWED_MISMATCH ∧ now + ALLOWED_MISMATCH ≤ CHRONO_MAX

instance (now : Int) : Decidable (nowRepresentable now) := by unfold nowRepresentable; infer_instance

/-- The credential-scope rule (rules 12 and 13) on its own. -/
def scopeCheck (a : Authenticator) (region service : Bytes) : Outcome Unit :=
  match splitOn 0x2F a.credential with
  | [_, cdate, cregion, cservice, cterm] =>
    if cregion = region ∧ cservice = service ∧ cterm = AWS4_REQUEST_TERM
        ∧ cdate = fmtDate (utcDate a.timestamp) then .ok ()
    else .err .SignatureDoesNotMatch
  | _ => .err .IncompleteSignature
where AWS4_REQUEST_TERM : Bytes := b!"aws4_request"

/-- The key-provider request a validated authenticator gives rise to. -/
def providerReqOf (a : Authenticator) (region service : Bytes) : ProviderReq :=
  { accessKey := (splitFirst 0x2F a.credential).1, sessionToken := a.sessionToken,
    date := utcDate a.timestamp, region := region, service := service }

end SigV4
