#!/usr/bin/env python3
"""merge.py <workdir> <Props names…> -- <Lemmas names…>: copy proved files from an agent work copy after
checking that no theorem statement of the Props files changed and no forbidden token appears."""
import re, sys, shutil, os
work=sys.argv[1]; rest=sys.argv[2:]
i=rest.index('--') if '--' in rest else len(rest)
props, lemmas = rest[:i], rest[i+1:]
def stmts(p):
    s=open(p).read()
    return re.findall(r'(theorem [\s\S]*?):=\s*(?:by)?', s), re.findall(r'^#print axioms.*$', s, re.M), re.findall(r'^example[\s\S]*?:=', s, re.M)
bad=re.compile(r'\b(sorry|admit|native_decide|bv_decide|implemented_by|unsafe)\b|^\s*axiom\s|maxHeartbeats\s+0\b', re.M)
ok=True
for p in props:
    a=f'/verif/lean/SigV4/Props/{p}.lean'; b=f'{work}/SigV4/Props/{p}.lean'
    if stmts(a)!=stmts(b):
        print('STATEMENTS DIFFER in',p); ok=False
        sa,sb=stmts(a)[0],stmts(b)[0]
        for x in sa:
            if x not in sb: print('  missing/changed:',x[:200])
for f in [f'{work}/SigV4/Props/{p}.lean' for p in props]+[f'{work}/SigV4/Lemmas/{l}.lean' for l in lemmas]:
    src=open(f).read()
    src_nc=re.sub(r'/-[\s\S]*?-/','',src); src_nc=re.sub(r'--.*','',src_nc)
    m=bad.search(src_nc)
    if m: print('FORBIDDEN',m.group(0),'in',f); ok=False
if not ok: sys.exit(1)
for p in props: shutil.copy(f'{work}/SigV4/Props/{p}.lean', f'/verif/lean/SigV4/Props/{p}.lean')
for l in lemmas: shutil.copy(f'{work}/SigV4/Lemmas/{l}.lean', f'/verif/lean/SigV4/Lemmas/{l}.lean')
print('merged', props, lemmas)
