/-
  SigV4.Tie.FnsOQuery — `query_string_to_normalized_map` (src/canonical.rs), translated statement by statement from
  /repo/src on this run (SigV4/Source/GeneratedFnsO.lean: `split('&')`, `continue` on empty components,
  `splitn(2, '=')`, the element canonicaliser on name and value, the get_mut/insert idiom), is the model's
  `parseQuery`: same grouped map (entries in first-occurrence order, values in arrival order), same error, no panic.
-/
import SigV4.Tie.FnsOElem

namespace SigV4.Tie

open SigV4

namespace Query

theorem split_eq (c : UInt8) (s : Bytes) : Rust.split c s = splitOn c s := by
  induction s with
  | nil => rfl
  | cons x xs ih =>
    simp only [Rust.split, splitOn, ih]
    by_cases h : x = c
    · simp [h]
    · simp only [h, if_false]
      cases splitOn c xs <;> rfl

theorem splitOnce_eq (c : UInt8) (s : Bytes) :
    Rust.splitOnce c s = match splitFirst c s with
      | (a, some b) => some (a, b)
      | (_, none) => none := by
  induction s with
  | nil => simp [Rust.splitOnce, splitFirst]
  | cons x xs ih =>
    unfold Rust.splitOnce splitFirst
    by_cases h : x = c
    · simp [h]
    · simp only [h, if_false]
      rw [ih]
      rcases hsf : splitFirst c xs with ⟨a, b⟩
      cases b <;> simp

theorem mapPush_eq (m : List (Bytes × List Bytes)) (k v : Bytes) :
    Rust.mapPush m k v = assocPush m k v := by
  induction m with
  | nil => rfl
  | cons e rest ih =>
    rcases e with ⟨k', vs⟩
    simp only [Rust.mapPush, assocPush, ih]

/-- With no separator the first piece is the whole string. -/
theorem splitFirst_none (c : UInt8) (s a : Bytes) (h : splitFirst c s = (a, none)) : a = s := by
  induction s generalizing a with
  | nil => simp [splitFirst] at h; exact h
  | cons x xs ih =>
    unfold splitFirst at h
    by_cases hx : x = c
    · simp [hx] at h
    · simp only [hx, if_false] at h
      rcases hsf : splitFirst c xs with ⟨a', b'⟩
      rw [hsf] at h
      simp only [Prod.mk.injEq] at h
      rcases h with ⟨h1, h2⟩
      subst h2
      rw [← h1, ih a' hsf]

/-- The pieces of `splitFirst` are no longer than the string. -/
theorem splitFirst_len (c : UInt8) (s a : Bytes) (b : Option Bytes) (h : splitFirst c s = (a, b)) :
    a.length ≤ s.length ∧ (b.getD []).length ≤ s.length := by
  induction s generalizing a b with
  | nil =>
    simp [splitFirst] at h
    rcases h with ⟨h1, h2⟩
    subst h1 h2
    simp
  | cons x xs ih =>
    unfold splitFirst at h
    by_cases hx : x = c
    · simp [hx] at h
      rcases h with ⟨h1, h2⟩
      subst h1 h2
      simp
    · simp only [hx, if_false] at h
      rcases hsf : splitFirst c xs with ⟨a', b'⟩
      rw [hsf] at h
      simp only [Prod.mk.injEq] at h
      rcases h with ⟨h1, h2⟩
      subst h1 h2
      have := ih a' b' hsf
      simp only [List.length_cons]
      omega

/-- The pieces of `splitOn` are no longer than the string. -/
theorem splitOn_len (c : UInt8) (s : Bytes) : ∀ p ∈ splitOn c s, p.length ≤ s.length := by
  induction s with
  | nil => intro p hp; simp [splitOn] at hp; subst hp; simp
  | cons x xs ih =>
    intro p hp
    unfold splitOn at hp
    by_cases hx : x = c
    · simp only [hx, if_true, List.mem_cons] at hp
      rcases hp with hp | hp
      · subst hp; simp
      · have := ih p hp
        simp only [List.length_cons]; omega
    · simp only [hx, if_false] at hp
      rcases hs : splitOn c xs with _ | ⟨q, qs⟩
      · rw [hs] at hp
        simp at hp
        subst hp
        simp
      · rw [hs] at hp
        simp only [List.mem_cons] at hp
        rcases hp with hp | hp
        · subst hp
          have := ih q (by rw [hs]; exact List.mem_cons_self)
          simp only [List.length_cons]; omega
        · have := ih p (by rw [hs]; exact List.mem_cons_of_mem _ hp)
          simp only [List.length_cons]; omega

/-- The generated loop body. -/
def body (fuel : Nat) (component : Bytes) (result : List (Bytes × List Bytes)) :
    Outcome (ForInStep (List (Bytes × List Bytes))) :=
  if List.isEmpty component = true then pure (ForInStep.yield result)
  else
    let parts := Rust.splitn2 61 component
    do
    let key ← Rust.idxS parts 0 "query_string_to_normalized_map:index#1"
    let value ←
      (if decide (parts.length > 1) = true then
        (do return (← Rust.idxS parts 1 "query_string_to_normalized_map:index#2"))
        else (do return ([] : Bytes)))
    let norm_key ← Src.fnO.normalize_query_string_element fuel key
    let norm_value ← Src.fnO.normalize_query_string_element fuel value
    pure (ForInStep.yield (Rust.mapPush result norm_key norm_value))

theorem gen_eq (fuel : Nat) (q : Bytes) :
    Src.fnO.query_string_to_normalized_map fuel q =
      if List.isEmpty q = true then .ok []
      else (forIn (Rust.split 38 q) ([] : List (Bytes × List Bytes)) (body fuel)).bind fun r => .ok r := rfl

theorem body_eq (fuel : Nat) (comp : Bytes) (m : QueryMap) (h : comp.length < fuel) :
    body fuel comp m =
      if comp = [] then .ok (.yield m)
      else
        match normElem false (splitFirst 0x3D comp).1 with
        | .err k => .err k
        | .panic p => .panic p
        | .ok nk =>
          match normElem false ((splitFirst 0x3D comp).2.getD []) with
          | .err k => .err k
          | .panic p => .panic p
          | .ok nv => .ok (.yield (assocPush m nk nv)) := by
  unfold body
  by_cases hc : comp = []
  · subst hc; rfl
  · have hne : List.isEmpty comp = false := by cases comp <;> simp_all
    simp only [hne, hc, if_false, Bool.false_eq_true]
    rcases hsf : splitFirst 0x3D comp with ⟨a, b⟩
    have hlen := splitFirst_len _ _ _ _ hsf
    have hq := fun s h => normalize_query_string_element_proof _ rfl fuel s h
    cases b with
    | none =>
      have ha := splitFirst_none _ _ _ hsf
      subst ha
      have hp : Rust.splitn2 61 a = [a] := by
        simp only [Rust.splitn2, splitOnce_eq, hsf]
      simp only [hp, Rust.idxS, bind, pure, Outcome.bind, List.length_cons, List.length_nil]
      have e1 : decide (0 + 1 > 1) = false := by decide
      simp only [List.getElem?_cons_zero, Option.getD_none, e1, Bool.false_eq_true, if_false]
      rw [hq a h, hq [] (by simp at *; omega)]
      cases normElem false a <;> simp only []
      cases normElem false [] <;> simp only [mapPush_eq]
    | some b =>
      have hp : Rust.splitn2 61 comp = [a, b] := by
        simp only [Rust.splitn2, splitOnce_eq, hsf]
      simp only [hp, Rust.idxS, bind, pure, Outcome.bind, List.length_cons, List.length_nil]
      have e1 : decide (0 + 1 + 1 > 1) = true := by decide
      have e2 : [a, b][1]? = some b := rfl
      simp only [List.getElem?_cons_zero, Option.getD_some, e1, e2, if_true]
      simp only [Option.getD_some] at hlen
      rw [hq a (by omega), hq b (by omega)]
      cases normElem false a <;> simp only []
      cases normElem false b <;> simp only [mapPush_eq]

theorem loop_eq (fuel : Nat) (cs : List Bytes) (m : QueryMap) (h : ∀ c ∈ cs, c.length < fuel) :
    forIn cs m (body fuel) = queryLoop cs m := by
  induction cs generalizing m with
  | nil => rfl
  | cons c rest ih =>
    have hr : ∀ c ∈ rest, c.length < fuel := fun c' hc' => h c' (List.mem_cons_of_mem _ hc')
    rw [List.forIn_cons, body_eq fuel c m (h c List.mem_cons_self)]
    unfold queryLoop
    by_cases hc : c = []
    · simp only [hc, if_true]
      exact ih m hr
    · simp only [hc, if_false]
      cases normElem false (splitFirst 0x3D c).1 with
      | err k => rfl
      | panic p => rfl
      | ok nk =>
        cases normElem false ((splitFirst 0x3D c).2.getD []) with
        | err k => rfl
        | panic p => rfl
        | ok nv => exact ih _ hr

end Query

theorem query_string_to_normalized_map : ∀ f, Src.canonical.query_string_to_normalized_map? = some f →
    ∀ (fuel : Nat) (q : Bytes), q.length < fuel → f fuel q = parseQuery q := by
  intro f hf
  first
    | (simp only [Src.canonical.query_string_to_normalized_map?, Option.some.injEq] at hf
       subst hf
       intro fuel q h
       rw [Query.gen_eq, Query.split_eq, parseQuery]
       by_cases hq : q = []
       · subst hq; rfl
       · have hne : List.isEmpty q = false := by cases q <;> simp_all
         simp only [hne, hq, if_false, Bool.false_eq_true]
         rw [Query.loop_eq fuel _ _ (fun c hc => Nat.lt_of_le_of_lt (Query.splitOn_len _ _ c hc) h)]
         cases queryLoop (splitOn 38 q) [] <;> rfl)
    | (simp [Src.canonical.query_string_to_normalized_map?] at hf)

end SigV4.Tie

#print axioms SigV4.Tie.query_string_to_normalized_map
