/- Helper lemmas for C15. -/
import SigV4.Spec.ValidateSpec
import SigV4.Spec.UriSpec
import SigV4.Lemmas.C14
import SigV4.Lemmas.Query

namespace SigV4

/-! ### The two success shapes of `fromRequestParts` -/

theorem fromRequestParts_unfolded (H : Bytes → Bytes) (opts : Options) (other : OtherCharset)
    (req : Request) (fp : FromParts) (hf : foldsBody opts req.headers = false)
    (h : fromRequestParts H opts other req = .ok fp) :
    fp.rebuiltUri = none ∧ fp.body = req.body := by
  unfold fromRequestParts at h
  split at h
  · cases h
  · cases h
  · split at h
    · cases h
    · cases h
    · simp only [hf, Bool.false_eq_true, if_false, Outcome.ok.injEq] at h
      subst h
      exact ⟨rfl, rfl⟩

theorem fromRequestParts_folded (H : Bytes → Bytes) (opts : Options) (other : OtherCharset)
    (req : Request) (fp : FromParts) (hf : foldsBody opts req.headers = true)
    (h : fromRequestParts H opts other req = .ok fp) :
    fp.body = [] ∧
      fp.rebuiltUri = some (if canonQuery fp.creq.params = [] then fp.creq.path
                            else fp.creq.path ++ [0x3F] ++ canonQuery fp.creq.params) := by
  unfold fromRequestParts at h
  split at h
  · cases h
  · cases h
  · split at h
    · cases h
    · cases h
    · simp only [hf, if_true] at h
      split at h
      · cases h
      · cases h
      · split at h
        · cases h
        · cases h
        · split at h
          · rename_i hq
            split at h
            · cases h
            · simp only [Outcome.ok.injEq] at h
              subst h
              exact ⟨rfl, by simp only [hq, if_true]⟩
          · rename_i hq
            split at h
            · cases h
            · simp only [Outcome.ok.injEq] at h
              subst h
              exact ⟨rfl, by simp only [hq, if_false]⟩

/-! ### Merging URL and body parameters -/

theorem assocGet_assocExtend {β : Type} (m : List (Bytes × List β)) (k k' : Bytes) (vs : List β) :
    (assocGet (assocExtend m k vs) k').getD [] =
      if k = k' then (assocGet m k').getD [] ++ vs else (assocGet m k').getD [] := by
  induction m with
  | nil =>
    by_cases h : k = k' <;> simp [assocExtend, assocGet, h]
  | cons kv rest ih =>
    obtain ⟨k0, vs0⟩ := kv
    simp only [assocExtend]
    by_cases h0 : k0 = k
    · subst h0
      by_cases h : k0 = k' <;> simp [assocGet, h]
    · rw [if_neg h0]
      by_cases h1 : k0 = k'
      · subst h1
        have : ¬ k = k0 := fun e => h0 e.symm
        simp [assocGet, this]
      · simp only [assocGet, if_neg h1]
        exact ih

theorem assocGet_eq_none_of_not_mem {β : Type} (m : List (Bytes × β)) (k : Bytes)
    (h : k ∉ m.map (·.1)) : assocGet m k = none := by
  induction m with
  | nil => rfl
  | cons kv rest ih =>
    obtain ⟨k0, v0⟩ := kv
    simp only [List.map_cons, List.mem_cons, not_or] at h
    simp only [assocGet]
    rw [if_neg (fun e => h.1 e.symm)]
    exact ih h.2

theorem foldl_assocExtend_get (body acc : QueryMap) (k : Bytes) (hb : (body.map (·.1)).Nodup) :
    (assocGet (body.foldl (fun m kv => assocExtend m kv.1 kv.2) acc) k).getD [] =
      (assocGet acc k).getD [] ++ (assocGet body k).getD [] := by
  induction body generalizing acc with
  | nil => simp [assocGet]
  | cons kv rest ih =>
    obtain ⟨k0, vs0⟩ := kv
    simp only [List.map_cons, List.nodup_cons] at hb
    simp only [List.foldl_cons]
    rw [ih _ hb.2, assocGet_assocExtend]
    by_cases h : k0 = k
    · subst h
      simp [assocGet, assocGet_eq_none_of_not_mem rest k0 hb.1]
    · simp [assocGet, h]

/-! ### The output alphabet of the element normaliser -/

set_option maxRecDepth 100000 in
theorem hexDigitUpper_unreserved_aux : ∀ n : Fin 256,
    isUnreserved (hexDigitUpper ((UInt8.ofNat n.val) >>> (4 : UInt8))) = true ∧
    isUnreserved (hexDigitUpper ((UInt8.ofNat n.val) &&& (0xF : UInt8))) = true := by
  decide

theorem hexDigitUpper_unreserved (c : UInt8) :
    isUnreserved (hexDigitUpper (c >>> (4 : UInt8))) = true ∧
    isUnreserved (hexDigitUpper (c &&& (0xF : UInt8))) = true := by
  have := hexDigitUpper_unreserved_aux ⟨c.toNat, c.toNat_lt⟩
  simpa using this

/-- A byte the normaliser may emit: unreserved, or the escape character. -/
def okByte (c : UInt8) : Prop := isUnreserved c = true ∨ c = 0x25

theorem pctEncode_okByte (v : UInt8) : ∀ c ∈ pctEncode v, okByte c := by
  intro c hc
  simp only [pctEncode, List.mem_cons, List.not_mem_nil, or_false] at hc
  rcases hc with rfl | rfl | rfl
  · exact .inr rfl
  · exact .inl (hexDigitUpper_unreserved v).1
  · exact .inl (hexDigitUpper_unreserved v).2

theorem Outcome.map_eq_ok {α β : Type} {f : α → β} {x : Outcome α} {r : β}
    (h : Outcome.map f x = .ok r) : ∃ y, x = .ok y ∧ r = f y := by
  cases x with
  | ok y => simp only [Outcome.map_ok, Outcome.ok.injEq] at h; exact ⟨y, rfl, h.symm⟩
  | err k => cases h
  | panic p => cases h

theorem normElemRaw_alphabet (isPath : Bool) (s : Bytes) :
    ∀ r, normElemRaw isPath s = .ok r → ∀ c ∈ r, okByte c := by
  fun_induction normElemRaw isPath s with
  | case1 => intro r h; cases h; intro c hc; cases hc
  | case2 c rest hu ih =>
    intro r h
    obtain ⟨y, hy, rfl⟩ := Outcome.map_eq_ok h
    intro d hd
    rcases List.mem_cons.1 hd with rfl | hd
    · exact .inl hu
    · exact ih y hy d hd
  | case3 h1 h2 rest' a b hb ha v hv hu ih =>
    intro r h
    obtain ⟨y, hy, rfl⟩ := Outcome.map_eq_ok h
    intro d hd
    rcases List.mem_cons.1 hd with rfl | hd
    · exact .inl hv
    · exact ih y hy d hd
  | case4 h1 h2 rest' a b hb ha v hv hu ih =>
    intro r h
    obtain ⟨y, hy, rfl⟩ := Outcome.map_eq_ok h
    intro d hd
    rcases List.mem_append.1 hd with hd | hd
    · exact pctEncode_okByte v d hd
    · exact ih y hy d hd
  | case5 => intro r h; cases h
  | case6 => intro r h; cases h
  | case7 rest hu hc ih =>
    intro r h
    obtain ⟨y, hy, rfl⟩ := Outcome.map_eq_ok h
    intro d hd
    rcases List.mem_append.1 hd with hd | hd
    · simp only [List.mem_cons, List.not_mem_nil, or_false] at hd
      rcases hd with rfl | rfl | rfl
      · exact .inr rfl
      · exact .inl (by decide)
      · exact .inl (by decide)
    · exact ih y hy d hd
  | case8 c rest hu hc hp ih =>
    intro r h
    obtain ⟨y, hy, rfl⟩ := Outcome.map_eq_ok h
    intro d hd
    rcases List.mem_append.1 hd with hd | hd
    · exact pctEncode_okByte c d hd
    · exact ih y hy d hd

/-- A fixed point of the normaliser is written in the output alphabet: it has no `&` and no `=`. -/
theorem normElem_fixed_clean (isPath : Bool) (x : Bytes) (h : normElem isPath x = .ok x) :
    (0x26 : UInt8) ∉ x ∧ (0x3D : UInt8) ∉ x := by
  have hraw : normElemRaw isPath x = .ok x := by
    unfold normElem at h
    split at h
    · rename_i r hr
      split at h
      · cases h; exact hr
      · cases h
    · cases h
    · cases h
  have := normElemRaw_alphabet isPath x x hraw
  constructor
  · intro hm
    rcases this _ hm with h' | h'
    · revert h'; decide
    · revert h'; decide
  · intro hm
    rcases this _ hm with h' | h'
    · revert h'; decide
    · revert h'; decide

/-! ### Splitting a join -/

theorem c15_splitOn_append_sep (sep : UInt8) (x rest : Bytes) (hx : sep ∉ x) :
    splitOn sep (x ++ sep :: rest) = x :: splitOn sep rest := by
  induction x with
  | nil => simp [splitOn]
  | cons c cs ih =>
    simp only [List.mem_cons, not_or] at hx
    have hc : ¬ c = sep := fun e => hx.1 e.symm
    simp only [List.cons_append, splitOn, if_neg hc, ih hx.2]

theorem c15_splitOn_no_sep (sep : UInt8) (x : Bytes) (hx : sep ∉ x) : splitOn sep x = [x] := by
  induction x with
  | nil => rfl
  | cons c cs ih =>
    simp only [List.mem_cons, not_or] at hx
    have hc : ¬ c = sep := fun e => hx.1 e.symm
    simp only [splitOn, if_neg hc, ih hx.2]

theorem c15_splitOn_joinWith (sep : UInt8) (L : List Bytes) (hne : L ≠ []) (hL : ∀ x ∈ L, sep ∉ x) :
    splitOn sep (joinWith [sep] L) = L := by
  induction L with
  | nil => exact absurd rfl hne
  | cons x rest ih =>
    cases rest with
    | nil => exact c15_splitOn_no_sep sep x (hL x (List.mem_cons_self ..))
    | cons y rest' =>
      have hx := hL x (List.mem_cons_self ..)
      have hrest : ∀ z ∈ y :: rest', sep ∉ z := fun z hz => hL z (List.mem_cons_of_mem _ hz)
      have : joinWith [sep] (x :: y :: rest') = x ++ sep :: joinWith [sep] (y :: rest') := by
        simp [joinWith]
      rw [this, c15_splitOn_append_sep sep x _ hx, ih (by simp) hrest]

theorem splitFirst_append_sep (sep : UInt8) (k v : Bytes) (hk : sep ∉ k) :
    splitFirst sep (k ++ sep :: v) = (k, some v) := by
  induction k with
  | nil => simp [splitFirst]
  | cons c cs ih =>
    simp only [List.mem_cons, not_or] at hk
    have hc : ¬ c = sep := fun e => hk.1 e.symm
    simp only [List.cons_append, splitFirst, if_neg hc, ih hk.2]

theorem joinWith_eq_nil (sep : Bytes) (L : List Bytes) (hL : ∀ x ∈ L, x ≠ [])
    (h : joinWith sep L = []) : L = [] := by
  cases L with
  | nil => rfl
  | cons x rest =>
    exfalso
    have hx := hL x (List.mem_cons_self ..)
    cases rest with
    | nil => exact hx h
    | cons y rest' =>
      simp only [joinWith, List.append_eq_nil_iff] at h
      exact hx h.1.1

/-! ### Re-parsing a rendered pair list -/

/-- A (name, value) pair whose two halves are fixed points of the query element normaliser. -/
def normalPair (kv : Bytes × Bytes) : Prop :=
  normElem false kv.1 = .ok kv.1 ∧ normElem false kv.2 = .ok kv.2

theorem renderPair_ne_nil (kv : Bytes × Bytes) : renderPair kv ≠ [] := by
  simp [renderPair]

theorem renderPair_no_amp (kv : Bytes × Bytes) (h : normalPair kv) : (0x26 : UInt8) ∉ renderPair kv := by
  have h1 := (normElem_fixed_clean false kv.1 h.1).1
  have h2 := (normElem_fixed_clean false kv.2 h.2).1
  simp only [renderPair, List.mem_append, List.mem_cons, List.not_mem_nil, or_false, not_or]
  exact ⟨⟨h1, by decide⟩, h2⟩

theorem queryLoop_render (L : List (Bytes × Bytes)) (m0 : QueryMap) (hL : ∀ kv ∈ L, normalPair kv) :
    queryLoop (L.map renderPair) m0 = .ok (L.foldl (fun m kv => assocPush m kv.1 kv.2) m0) := by
  induction L generalizing m0 with
  | nil => rfl
  | cons kv rest ih =>
    have hkv := hL kv (List.mem_cons_self ..)
    have hrest : ∀ x ∈ rest, normalPair x := fun x hx => hL x (List.mem_cons_of_mem _ hx)
    have hsplit : splitFirst 0x3D (renderPair kv) = (kv.1, some kv.2) := by
      have := splitFirst_append_sep 0x3D kv.1 kv.2 (normElem_fixed_clean false kv.1 hkv.1).2
      simpa [renderPair] using this
    simp only [List.map_cons, List.foldl_cons]
    unfold queryLoop
    rw [if_neg (renderPair_ne_nil kv)]
    simp only [hsplit, Option.getD_some, hkv.1, hkv.2]
    exact ih _ hrest

/-- The round trip on a sorted, signature-free list of normal pairs. -/
theorem roundtrip_sorted (Q : List (Bytes × Bytes)) (hQ : ∀ kv ∈ Q, normalPair kv)
    (hsig : ∀ kv ∈ Q, kv.1 ≠ X_AMZ_SIGNATURE) :
    (parseQuery (joinWith [0x26] ((sortBy pairLe Q).map renderPair))).map canonQuery
      = .ok (joinWith [0x26] ((sortBy pairLe Q).map renderPair)) := by
  have hperm := sortBy_perm pairLe Q
  have hL : ∀ kv ∈ sortBy pairLe Q, normalPair kv := fun kv h => hQ kv (hperm.mem_iff.1 h)
  have hLsig : ∀ kv ∈ sortBy pairLe Q, kv.1 ≠ X_AMZ_SIGNATURE :=
    fun kv h => hsig kv (hperm.mem_iff.1 h)
  generalize hLdef : sortBy pairLe Q = L at hL hLsig
  unfold parseQuery
  by_cases hnil : joinWith [0x26] (L.map renderPair) = []
  · rw [if_pos hnil, hnil]
    rfl
  · rw [if_neg hnil]
    have hne : L.map renderPair ≠ [] := by
      intro e; rw [e] at hnil; exact hnil rfl
    have hamp : ∀ x ∈ L.map renderPair, (0x26 : UInt8) ∉ x := by
      intro x hx
      obtain ⟨kv, hkv, rfl⟩ := List.mem_map.1 hx
      exact renderPair_no_amp kv (hL kv hkv)
    rw [c15_splitOn_joinWith 0x26 _ hne hamp, queryLoop_render L [] hL]
    simp only [Outcome.map_ok, Outcome.ok.injEq]
    show canonQuery (groupPairs L) = _
    unfold canonQuery
    rw [queryPairs_eq_filter]
    congr 2
    have h1 : ((flattenMap (groupPairs L)).filter fun kv => kv.1 ≠ X_AMZ_SIGNATURE).Perm
        (L.filter fun kv => kv.1 ≠ X_AMZ_SIGNATURE) := (groupPairs_perm' L).filter _
    have h2 : (L.filter fun kv => kv.1 ≠ X_AMZ_SIGNATURE) = L :=
      List.filter_eq_self.2 fun kv hkv => by simpa using hLsig kv hkv
    rw [h2] at h1
    rw [sortBy_pairLe_eq_of_perm h1, ← hLdef]
    exact sortBy_pairLe_eq_of_perm hperm

theorem queryPairs_normal (m : QueryMap)
    (hm : ∀ kv ∈ m, ∀ v ∈ kv.2, normElem false kv.1 = .ok kv.1 ∧ normElem false v = .ok v) :
    (∀ kv ∈ queryPairs m, normalPair kv) ∧ (∀ kv ∈ queryPairs m, kv.1 ≠ X_AMZ_SIGNATURE) := by
  constructor
  · intro kv hkv
    simp only [queryPairs, List.mem_flatMap, List.mem_filter, List.mem_map] at hkv
    obtain ⟨e, ⟨he, _⟩, v, hv, rfl⟩ := hkv
    exact hm e he v hv
  · intro kv hkv
    simp only [queryPairs, List.mem_flatMap, List.mem_filter, List.mem_map] at hkv
    obtain ⟨e, ⟨_, hs⟩, v, _, rfl⟩ := hkv
    simpa using hs

end SigV4
