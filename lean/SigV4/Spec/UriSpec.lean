/-
  SigV4.Spec.UriSpec — the reference normal forms of properties C09/C10, written independently of
  the code: decode-then-encode for elements, a stack machine over *decoded* segments for paths, a
  sorted list of decoded pairs for queries.
-/
import SigV4.Model.Uri

namespace SigV4

/-- Percent-decoding. `plusIsSpace` is the query convention (`+` denotes a space). `none` on a
malformed escape. -/
def pctDecode (plusIsSpace : Bool) : Bytes → Option Bytes
  | [] => some []
  | c :: rest =>
    if c = 0x25 then
      match rest with
      | h1 :: h2 :: rest' =>
        match hexVal h1, hexVal h2 with
        | some a, some b => (pctDecode plusIsSpace rest').map ((a * 16 + b) :: ·)
        | _, _ => none
      | _ => none
    else if c = 0x2B ∧ plusIsSpace = true then (pctDecode plusIsSpace rest).map (0x20 :: ·)
    else (pctDecode plusIsSpace rest).map (c :: ·)

/-- Percent-encoding: unreserved bytes literal, everything else `%HH` (upper-case hex). -/
def pctEncodeAll (s : Bytes) : Bytes := s.flatMap fun c => if isUnreserved c then [c] else pctEncode c

def isUpperHexDigit (c : UInt8) : Bool := isDigit c || (0x41 ≤ c && c ≤ 0x46)

/-- All segments but the last that are empty are dropped ("empty segments are dropped"; the last
one records a trailing slash). -/
def dropMiddleEmpties : List Bytes → List Bytes
  | [] => []
  | [x] => [x]
  | x :: y :: rest => if x = [] then dropMiddleEmpties (y :: rest) else x :: dropMiddleEmpties (y :: rest)

/-- Dot-segment resolution over decoded segments; the stack is kept reversed. `none` when a `..`
climbs above the root. -/
def resolveDots : List Bytes → List Bytes → Option (List Bytes)
  | st, [] => some st.reverse
  | st, seg :: rest =>
    if seg = DOT then resolveDots st rest
    else if seg = DOTDOT then
      match st with
      | [] => none
      | _ :: st' => resolveDots st' rest
    else resolveDots (seg :: st) rest

/-- Reference canonical path over decoded segments. `plusIsSpace = true` is the reading the crate
implements for `+` inside a path; `false` is the reading of the property statement (a literal
`+` is the byte 0x2B and is re-encoded as `%2B`). `none` = invalid path. -/
def refPath (plusIsSpace : Bool) (s3 : Bool) (p : Bytes) : Option Bytes :=
  match p with
  | [] => some [0x2F]
  | c :: q =>
    if c ≠ 0x2F then none
    else
      match (splitOn 0x2F q).mapM (pctDecode plusIsSpace) with
      | none => none
      | some segs =>
        if s3 then some (0x2F :: joinWith [0x2F] (segs.map pctEncodeAll))
        else
          match resolveDots [] (dropMiddleEmpties segs) with
          | none => none
          | some st => some (0x2F :: joinWith [0x2F] (st.map pctEncodeAll))

/-- Result type adapter: reference `Option` to the model's `Outcome`. -/
def optToOutcome {α : Type} (k : ErrKind) : Option α → Outcome α
  | some a => .ok a
  | none => .err k

/-! ### Queries -/

/-- Decoded (name, value) of one non-empty component: split at the first `=`. -/
def decodeComponent (comp : Bytes) : Option (Bytes × Bytes) :=
  let (k, v?) := splitFirst 0x3D comp
  match pctDecode true k, pctDecode true (v?.getD []) with
  | some dk, some dv => some (dk, dv)
  | _, _ => none

/-- The decoded parameter list of a query string, in order; empty components are ignored. -/
def refQueryPairs (q : Bytes) : Option (List (Bytes × Bytes)) :=
  ((splitOn 0x26 q).filter (· ≠ [])).mapM decodeComponent

def encPair (kv : Bytes × Bytes) : Bytes × Bytes := (pctEncodeAll kv.1, pctEncodeAll kv.2)

/-- Reference canonical query of a decoded parameter list: encode once, drop the signature
parameter, sort by (name, value), render `name=value`, join with `&`. -/
def refCanonQuery (pairs : List (Bytes × Bytes)) : Bytes :=
  joinWith [0x26]
    ((sortBy pairLe ((pairs.map encPair).filter fun kv => kv.1 ≠ X_AMZ_SIGNATURE)).map renderPair)

/-- Grouping a pair list into a map the way the parser does: one entry per name in order of first
occurrence, values in order. -/
def groupPairs (l : List (Bytes × Bytes)) : QueryMap := l.foldl (fun m kv => assocPush m kv.1 kv.2) []

/-- All (name, value) pairs of a map. -/
def flattenMap (m : QueryMap) : List (Bytes × Bytes) := m.flatMap fun kv => kv.2.map fun v => (kv.1, v)

end SigV4
