/-
  SigV4.Tie.FromSourcePath — property statements about the functions *as translated from /repo/src on this run*,
  obtained by composing a tie theorem (generated function = model function) with a property theorem about the model.
  These say directly: the code the translator read satisfies the reference specification, for every input.
-/
import SigV4.Tie.FnsO
import SigV4.Props.C09

namespace SigV4.Tie.FromSource

open SigV4

/-- C09, from the source: `canonicalize_uri_path` as read from /repo/src is the reference normal form of the path
(decoded segments re-encoded once; dot segments resolved and empty segments dropped in standard mode, every segment
kept in S3 mode), and fails — with the invalid-path error and nothing else, never a panic — exactly when the
reference does. -/
theorem canonicalize_uri_path_is_reference : ∀ f, Src.canonical.canonicalize_uri_path? = some f →
    ∀ (fuel : Nat) (p : Bytes) (s3 : Bool), p.length + 2 ≤ fuel →
      f fuel p s3 = optToOutcome .InvalidURIPath (refPath true s3 p) := by
  intro f hf fuel p s3 h
  rw [Tie.canonicalize_uri_path f hf fuel p s3 h]
  exact C09.canonPath_eq_ref s3 p

/-- The same under the property's reading of `+` (an ordinary byte in a path), for paths without a literal `+`
(the known finding: see `C09.canonPath_plus_counterexample`). -/
theorem canonicalize_uri_path_is_reference_partial : ∀ f, Src.canonical.canonicalize_uri_path? = some f →
    ∀ (fuel : Nat) (p : Bytes) (s3 : Bool), p.length + 2 ≤ fuel → (0x2B : UInt8) ∉ p →
      f fuel p s3 = optToOutcome .InvalidURIPath (refPath false s3 p) := by
  intro f hf fuel p s3 h hp
  rw [Tie.canonicalize_uri_path f hf fuel p s3 h]
  exact C09.canonPath_spec_partial s3 p hp

/-- C08, from the source: the path canonicaliser as read from /repo/src never panics (no index out of range, no
failed assertion, no `unwrap` on `None`, no `usize` underflow, loops terminate within the fuel). -/
theorem canonicalize_uri_path_no_panic : ∀ f, Src.canonical.canonicalize_uri_path? = some f →
    ∀ (fuel : Nat) (p : Bytes) (s3 : Bool), p.length + 2 ≤ fuel → ∀ site, f fuel p s3 ≠ .panic site := by
  intro f hf fuel p s3 h site
  rw [Tie.canonicalize_uri_path f hf fuel p s3 h]
  exact (C09.canonPath_err_kind s3 p).2 site

/-- C09/C10, from the source: `normalize_uri_element` as read from /repo/src is percent-decoding followed by
percent-encoding, once. -/
theorem normalize_uri_element_is_decode_encode : ∀ f, Src.canonical.normalize_uri_element? = some f →
    ∀ (fuel : Nat) (s : Bytes), s.length < fuel →
      f fuel s .Path = optToOutcome .InvalidURIPath ((pctDecode true s).map pctEncodeAll) ∧
      f fuel s .Query = optToOutcome .MalformedQueryString ((pctDecode true s).map pctEncodeAll) := by
  intro f hf fuel s h
  obtain ⟨h1, h2⟩ := Tie.normalize_uri_element f hf fuel s h
  rw [h1, h2]
  exact ⟨C09.normElem_eq_spec true s, C09.normElem_eq_spec false s⟩

end SigV4.Tie.FromSource

#print axioms SigV4.Tie.FromSource.canonicalize_uri_path_is_reference
#print axioms SigV4.Tie.FromSource.canonicalize_uri_path_is_reference_partial
#print axioms SigV4.Tie.FromSource.canonicalize_uri_path_no_panic
#print axioms SigV4.Tie.FromSource.normalize_uri_element_is_decode_encode
