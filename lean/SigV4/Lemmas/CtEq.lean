/- Helper lemmas for C07. -/
import SigV4.Model.CtEq

namespace SigV4

end SigV4
