/-
  SigV4.Model.Hmac — HMAC (RFC 2104) over an arbitrary hash `H` with 64-byte blocks
  (src/crypto.rs:11-15 `hmac_sha256` is `hmac Sha256.sha256`).
-/
import SigV4.Model.Basic

namespace SigV4

/-- The key brought to block length: hashed if longer than a block, then zero-padded. -/
def hmacKeyBlock (H : Bytes → Bytes) (k : Bytes) : Bytes :=
  let k' := if k.length > 64 then H k else k
  k' ++ List.replicate (64 - k'.length) 0

def xorPad (p : UInt8) (k : Bytes) : Bytes := k.map (· ^^^ p)

def hmac (H : Bytes → Bytes) (k m : Bytes) : Bytes :=
  let kb := hmacKeyBlock H k
  H (xorPad 0x5c kb ++ H (xorPad 0x36 kb ++ m))

end SigV4
