/-
  Property C14 — the key provider is consulted once, last, and its failures never authenticate.
-/
import SigV4.Spec.ValidateSpec
import SigV4.Lemmas.C14
import SigV4.Lemmas.C14Poll

namespace SigV4.C14

/-- At most one provider call per validation. -/
theorem at_most_once {σ : Type} (H : Bytes → Bytes) (cfg : Config) (P : Provider σ) (s : σ) (req : Request) :
    (validate H cfg P s req).calls.length ≤ 1 := by
  rcases validate_cases H cfg P s req with ⟨hc, _⟩ | ⟨a, fp, sts, _, _, _, _, hv⟩
  · rw [hc]; exact Nat.zero_le _
  · rw [hv]
    simp only [finish]
    rcases getSigningKey_calls P s a cfg.region cfg.service with h | ⟨_, h⟩ <;> rw [h] <;> simp

/-- A call happens only for requests that passed every structural, signed-header, freshness and
scope check, only after readiness, and with the request built from the authenticator. -/
theorem only_after_prechecks {σ : Type} (H : Bytes → Bytes) (cfg : Config) (P : Provider σ) (s : σ)
    (req : Request) (c : ProviderReq) (hc : c ∈ (validate H cfg P s req).calls) :
    ∃ a, authOf H cfg req = .ok a ∧ prevalidate a cfg.region cfg.service cfg.now = .ok () ∧
      (P.ready s).1 = none ∧ c = providerReqOf a cfg.region cfg.service := by
  rcases validate_cases H cfg P s req with ⟨hcalls, _⟩ | ⟨a, fp, sts, ha, _, hpre, _, hv⟩
  · rw [hcalls] at hc; cases hc
  · rw [hv] at hc
    simp only [finish] at hc
    rcases getSigningKey_calls P s a cfg.region cfg.service with h | ⟨hr, h⟩
    · rw [h] at hc; cases hc
    · rw [h] at hc
      exact ⟨a, ha, hpre, hr, List.mem_singleton.1 hc⟩

/-- A request that fails any pre-check leaves the provider alone: no call, not even a readiness poll
(its state is untouched). -/
theorem defective_request_no_provider {σ : Type} (H : Bytes → Bytes) (cfg : Config) (P : Provider σ) (s : σ)
    (req : Request)
    (h : (∃ k, authOf H cfg req = .err k) ∨
         (∃ a k, authOf H cfg req = .ok a ∧ prevalidate a cfg.region cfg.service cfg.now = .err k)) :
    (validate H cfg P s req).calls = [] ∧ (validate H cfg P s req).state = s ∧
    ∃ k, (validate H cfg P s req).out = .err k := by
  rcases h with ⟨k, hk⟩ | ⟨a, k, ha, hpre⟩
  · rw [validate_of_authOf_err H cfg P s req k hk]
    exact ⟨rfl, rfl, k, rfl⟩
  · obtain ⟨fp, _, _, hv⟩ := validate_of_authOf_ok H cfg P s req a ha
    rw [hv, validateSignature_prevalidate_err H P s a _ _ _ k hpre]
    exact ⟨rfl, rfl, k, rfl⟩

/-- A provider that reports a readiness error is never called; the error is mapped like any other. -/
theorem not_ready_no_call {σ : Type} (H : Bytes → Bytes) (cfg : Config) (P : Provider σ) (s s' : σ)
    (req : Request) (a : Authenticator) (e : ProvErr)
    (ha : authOf H cfg req = .ok a) (hp : prevalidate a cfg.region cfg.service cfg.now = .ok ())
    (hr : P.ready s = (some e, s')) :
    (validate H cfg P s req).out = .err e.toKind ∧ (validate H cfg P s req).calls = [] ∧
    (validate H cfg P s req).state = s' := by
  obtain ⟨fp, _, _, hv⟩ := validate_of_authOf_ok H cfg P s req a ha
  obtain ⟨sts, hsts⟩ := stringToSign_ok_of_prevalidate hp
  rw [hv, validateSignature_of_prevalidate_ok H P s a _ _ _ sts hp hsts,
    getSigningKey_not_ready P s s' a _ _ e hr]
  exact ⟨rfl, rfl, rfl⟩

/-- Error mapping: a `SignatureError` from the provider is returned unchanged, anything else becomes
an internal failure (500). -/
theorem error_mapping {σ : Type} (H : Bytes → Bytes) (cfg : Config) (P : Provider σ) (s s' s'' : σ)
    (req : Request) (a : Authenticator) (e : ProvErr)
    (ha : authOf H cfg req = .ok a) (hp : prevalidate a cfg.region cfg.service cfg.now = .ok ())
    (hr : P.ready s = (none, s')) (hcall : P.call s' (providerReqOf a cfg.region cfg.service) = (.error e, s'')) :
    (validate H cfg P s req).out = .err e.toKind ∧
    (validate H cfg P s req).calls = [providerReqOf a cfg.region cfg.service] ∧
    (validate H cfg P s req).state = s'' := by
  obtain ⟨fp, _, _, hv⟩ := validate_of_authOf_ok H cfg P s req a ha
  obtain ⟨sts, hsts⟩ := stringToSign_ok_of_prevalidate hp
  rw [hv, validateSignature_of_prevalidate_ok H P s a _ _ _ sts hp hsts,
    getSigningKey_call_err P s s' s'' a _ _ e hr hcall]
  exact ⟨rfl, rfl, rfl⟩

theorem provErr_kinds : (∀ k, (ProvErr.sig k).toKind = k) ∧ ProvErr.foreign.toKind = .InternalServiceError ∧
    ErrKind.InternalServiceError.status = 500 := by
  exact ⟨fun _ => rfl, rfl, rfl⟩

/-- No provider error, readiness error or absent answer ever results in acceptance: success
requires readiness and a key, and the signature must verify under that key. -/
theorem never_ok_on_error {σ : Type} (H : Bytes → Bytes) (cfg : Config) (P : Provider σ) (s : σ)
    (req : Request) (r : Returned) (h : (validate H cfg P s req).out = .ok r) :
    ∃ a resp sts, authOf H cfg req = .ok a ∧ (P.ready s).1 = none ∧
      (P.call (P.ready s).2 (providerReqOf a cfg.region cfg.service)).1 = .ok resp ∧
      stringToSign a = .ok sts ∧ a.signature = hexLower (hmac H resp.key sts) ∧ r.identity = resp.identity := by
  rcases validate_cases H cfg P s req with ⟨_, _, hno, _⟩ | ⟨a, fp, sts, ha, _, _, hsts, hv⟩
  · exact absurd h (hno r)
  · rw [hv] at h
    simp only [finish] at h
    rcases getSigningKey_cases P s a cfg.region cfg.service with
      ⟨e, _, hg⟩ | ⟨_, e, _, hg⟩ | ⟨hr, resp, hcall, hg⟩
    · rw [hg] at h; cases h
    · rw [hg] at h; cases h
    · rw [hg] at h
      simp only at h
      by_cases hsig : a.signature = hexLower (hmac H resp.key sts)
      · rw [if_pos hsig] at h
        simp only [Outcome.map_ok, Outcome.ok.injEq] at h
        exact ⟨a, resp, sts, ha, hr, hcall, hsts, hsig, by rw [← h]⟩
      · rw [if_neg hsig] at h; cases h

/-- Histories: over any sequence of validations sharing one provider, every validation makes at
most one call, the provider state is threaded through in order, and each outcome is the outcome
of validating that request alone from the state the provider was left in. -/
theorem history {σ : Type} (H : Bytes → Bytes) (P : Provider σ) (s : σ) (l : List (Config × Request)) :
    let res := (validateMany H P s l).1
    res.length = l.length ∧ (∀ o ∈ res, o.2.length ≤ 1) ∧
    (res.flatMap (·.2)).length ≤ l.length := by
  induction l generalizing s with
  | nil => simp [validateMany]
  | cons x rest ih =>
    obtain ⟨cfg, req⟩ := x
    rw [validateMany_cons]
    obtain ⟨h1, h2, h3⟩ := ih (validate H cfg P s req).state
    have hone := at_most_once H cfg P s req
    refine ⟨?_, ?_, ?_⟩
    · simp only [List.length_cons, h1]
    · intro o ho
      rcases List.mem_cons.1 ho with rfl | ho
      · exact hone
      · exact h2 o ho
    · simp only [List.flatMap_cons, List.length_append, List.length_cons]
      omega

theorem history_step {σ : Type} (H : Bytes → Bytes) (P : Provider σ) (s : σ) (cfg : Config) (req : Request)
    (rest : List (Config × Request)) :
    validateMany H P s ((cfg, req) :: rest) =
      (((validate H cfg P s req).out, (validate H cfg P s req).calls)
          :: (validateMany H P (validate H cfg P s req).state rest).1,
        (validateMany H P (validate H cfg P s req).state rest).2) := by
  exact validateMany_cons H P s cfg req rest

/-- Across a history no request is ever accepted on a provider error. -/
theorem history_never_ok_on_error {σ : Type} (H : Bytes → Bytes) (P : Provider σ) (s : σ)
    (l : List (Config × Request)) (hP : ∀ st pr, ∃ e, (P.call st pr).1 = .error e) :
    ∀ o ∈ (validateMany H P s l).1, ∀ r, o.1 ≠ .ok r := by
  induction l generalizing s with
  | nil => intro o ho; simp [validateMany] at ho
  | cons x rest ih =>
    obtain ⟨cfg, req⟩ := x
    rw [history_step]
    intro o ho r hr
    rcases List.mem_cons.1 ho with rfl | ho
    · obtain ⟨a, resp, _, _, _, hcall, _⟩ := never_ok_on_error H cfg P s req r hr
      obtain ⟨e, he⟩ := hP (P.ready s).2 (providerReqOf a cfg.region cfg.service)
      rw [he] at hcall; cases hcall
    · exact ih _ o ho r hr

/-- Pending states and re-polls (model `SigV4/Model/Poll.lean`: the validation as a polled future over
`tower`'s `Oneshot` state machine). Polling to completion gives exactly the big-step outcome and
provider calls whatever the numbers of `Pending` results; the provider is called at most once and
only after all `pendingReady + 1` readiness polls, none of which reported an error; the future
resolves after exactly `pendingReady + pendingAnswer + 1` polls when the provider is reached. -/
theorem poll_refines_bigstep (H : Bytes → Bytes) (cfg : Config) (e : PollEntry) (req : Request)
    (fuel : Nat) (hf : e.pendingReady + e.pendingAnswer + 1 ≤ fuel) :
    ∃ log k, pollLoop H cfg e req fuel .start {} 0 = some ((validate H cfg e.bigStep () req).out, log, k) ∧
      log.calls = (validate H cfg e.bigStep () req).calls ∧ log.calls.length ≤ 1 ∧
      k ≤ e.pendingReady + e.pendingAnswer + 1 ∧
      (log.calls ≠ [] → log.readyPolls = e.pendingReady + 1 ∧ e.readyErr = none ∧
        log.futurePolls = e.pendingAnswer + 1 ∧ k = e.pendingReady + e.pendingAnswer + 1) :=
  poll_refines_bigstep_lemma H cfg e req fuel hf

/-- A request failing a pre-check is refused in the very first poll; the provider is not even polled. -/
theorem poll_precheck_failure_immediate (H : Bytes → Bytes) (cfg : Config) (e : PollEntry) (req : Request)
    (h : (∃ k, authOf H cfg req = .err k) ∨
         (∃ a k, authOf H cfg req = .ok a ∧ prevalidate a cfg.region cfg.service cfg.now = .err k)) :
    ∃ out, pollLoop H cfg e req 1 .start {} 0 = some (out, {}, 1) ∧ (∃ k, out = .err k) :=
  poll_precheck_failure_immediate_lemma H cfg e req h

/-- A readiness error ends the validation without any call, after exactly `pendingReady + 1` polls. -/
theorem poll_ready_error (H : Bytes → Bytes) (cfg : Config) (e : PollEntry) (req : Request)
    (a : Authenticator) (pe : ProvErr)
    (ha : authOf H cfg req = .ok a) (hp : prevalidate a cfg.region cfg.service cfg.now = .ok ())
    (he : e.readyErr = some pe) :
    ∃ log, pollLoop H cfg e req (e.pendingReady + 1) .start {} 0 = some (.err pe.toKind, log, e.pendingReady + 1) ∧
      log.calls = [] ∧ log.readyPolls = e.pendingReady + 1 :=
  poll_ready_error_lemma H cfg e req a pe ha hp he

end SigV4.C14

#print axioms SigV4.C14.at_most_once
#print axioms SigV4.C14.only_after_prechecks
#print axioms SigV4.C14.defective_request_no_provider
#print axioms SigV4.C14.not_ready_no_call
#print axioms SigV4.C14.error_mapping
#print axioms SigV4.C14.provErr_kinds
#print axioms SigV4.C14.never_ok_on_error
#print axioms SigV4.C14.history
#print axioms SigV4.C14.history_step
#print axioms SigV4.C14.history_never_ok_on_error
#print axioms SigV4.C14.poll_refines_bigstep
#print axioms SigV4.C14.poll_precheck_failure_immediate
#print axioms SigV4.C14.poll_ready_error
