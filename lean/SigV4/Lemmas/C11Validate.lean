/-
  C11 at the level of the whole validation: a header that is neither consulted by the authentication
  logic, nor signed, nor subject to a declared requirement has no influence on the outcome.
-/
import SigV4.Spec.ValidateSpec
import SigV4.Spec.HeaderSpec

namespace SigV4

/-- Header names the authentication logic itself reads. -/
def consultedHeaders : List Bytes :=
  [AUTHORIZATION, X_AMZ_DATE_LOWER, DATE, X_AMZ_SECURITY_TOKEN_LOWER, CONTENT_TYPE]

/-- What the caller sees of a result apart from the (necessarily different) header list. -/
def Returned.sansHeaders (r : Returned) : Bytes × Option Bytes × Bytes × Bytes :=
  (r.method, r.rebuiltUri, r.body, r.identity)

/-- The request with one more header inserted at position `i` of the arrival order. -/
def Request.insertHeader (req : Request) (i : Nat) (extra : Bytes × Bytes) : Request :=
  { req with headers := req.headers.take i ++ extra :: req.headers.drop i }

theorem unsigned_header_irrelevant_lemma {σ : Type} (H : Bytes → Bytes) (cfg : Config) (P : Provider σ) (s : σ)
    (req : Request) (i : Nat) (extra : Bytes × Bytes)
    (h1 : asciiLower extra.1 ∉ consultedHeaders)
    (h2 : asciiLower extra.1 ∉ cfg.reqs.ifInRequest.map asciiLower)
    (h3 : ∀ p ∈ cfg.reqs.prefixes, (asciiLower p).isPrefixOf (asciiLower extra.1) = false)
    (h4 : ∀ fp ap, fromRequestParts H cfg.opts cfg.other req = .ok fp → extractAuthParams fp.creq = .ok ap →
            asciiLower extra.1 ∉ ap.signedHeaders) :
    (validate H cfg P s (req.insertHeader i extra)).out.map Returned.sansHeaders
        = (validate H cfg P s req).out.map Returned.sansHeaders ∧
    (validate H cfg P s (req.insertHeader i extra)).calls = (validate H cfg P s req).calls ∧
    (validate H cfg P s (req.insertHeader i extra)).state = (validate H cfg P s req).state := by
  sorry

end SigV4
