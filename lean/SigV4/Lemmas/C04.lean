/- Helper lemmas for C04. -/
import SigV4.Spec.ValidateSpec

namespace SigV4

theorem ALLOWED_MISMATCH_val : ALLOWED_MISMATCH = 900000000000 := by decide
theorem CHRONO_MIN_val : CHRONO_MIN = -8334601228800000000000 := by decide
theorem CHRONO_MAX_val : CHRONO_MAX = 8210266876799999999999 := by decide

theorem minTs_of_representable (now : Int) (hr : nowRepresentable now) :
    minTs now = now - ALLOWED_MISMATCH := by
  unfold nowRepresentable at hr
  unfold minTs
  rw [if_neg (by omega)]

theorem maxTs_of_representable (now : Int) (hr : nowRepresentable now) :
    maxTs now = now + ALLOWED_MISMATCH := by
  unfold nowRepresentable at hr
  unfold maxTs
  rw [if_neg (by omega)]

theorem scopeCheck_term : scopeCheck.AWS4_REQUEST_TERM = b!"aws4_request" := rfl

/-- Inside the window `prevalidate` is the scope rule. -/
theorem prevalidate_eq_scopeCheck_of_inWindow (a : Authenticator) (region service : Bytes) (now : Int)
    (hr : nowRepresentable now) (h : inWindow a.timestamp now) :
    prevalidate a region service now = scopeCheck a region service := by
  unfold inWindow at h
  unfold prevalidate scopeCheck
  rw [minTs_of_representable now hr, maxTs_of_representable now hr]
  rw [if_neg (by omega), if_neg (by omega)]
  rfl

theorem prevalidate_err_of_not_inWindow (a : Authenticator) (region service : Bytes) (now : Int)
    (hr : nowRepresentable now) (h : ¬ inWindow a.timestamp now) :
    prevalidate a region service now = .err .SignatureDoesNotMatch := by
  unfold inWindow at h
  unfold prevalidate
  rw [minTs_of_representable now hr, maxTs_of_representable now hr]
  by_cases h1 : a.timestamp < now - ALLOWED_MISMATCH
  · rw [if_pos h1]
  · rw [if_neg h1, if_pos (by omega)]

/-- `prevalidate` succeeding implies being in the window (representable `now`). -/
theorem inWindow_of_prevalidate_ok (a : Authenticator) (region service : Bytes) (now : Int)
    (hr : nowRepresentable now) (h : prevalidate a region service now = .ok ()) :
    inWindow a.timestamp now := by
  by_cases hw : inWindow a.timestamp now
  · exact hw
  · rw [prevalidate_err_of_not_inWindow a region service now hr hw] at h
    cases h

/-! ### Structure of `validate` -/

/-- `authOf` succeeding exposes the two stages. -/
theorem authOf_ok {H : Bytes → Bytes} {cfg : Config} {req : Request} {a : Authenticator}
    (h : authOf H cfg req = .ok a) :
    ∃ fp, fromRequestParts H cfg.opts cfg.other req = .ok fp ∧
      getAuthenticator H cfg.reqs fp.creq = .ok a := by
  unfold authOf at h
  split at h
  · next fp hfp => exact ⟨fp, hfp, h⟩
  · cases h
  · cases h

/-- `validate` in terms of `validateSignature` once the authenticator is known. -/
theorem c04_validate_of_authOf_ok {σ : Type} {H : Bytes → Bytes} {cfg : Config} (P : Provider σ) (s : σ)
    {req : Request} {a : Authenticator} (h : authOf H cfg req = .ok a) :
    (validate H cfg P s req).calls = (validateSignature H P s a cfg.region cfg.service cfg.now).calls ∧
    (validate H cfg P s req).state = (validateSignature H P s a cfg.region cfg.service cfg.now).state ∧
    (∀ k, (validateSignature H P s a cfg.region cfg.service cfg.now).out = .err k →
        (validate H cfg P s req).out = .err k) ∧
    (∀ p, (validateSignature H P s a cfg.region cfg.service cfg.now).out = .panic p →
        (validate H cfg P s req).out = .panic p) ∧
    (∀ r, (validate H cfg P s req).out = .ok r →
        ∃ resp, (validateSignature H P s a cfg.region cfg.service cfg.now).out = .ok resp) := by
  obtain ⟨fp, hfp, hga⟩ := authOf_ok h
  unfold validate
  simp only [hfp, hga]
  cases hv : (validateSignature H P s a cfg.region cfg.service cfg.now).out <;> simp

/-- If `validate` is not stopped in the first two stages, there is an authenticator. -/
theorem authOf_ok_of_validate {σ : Type} {H : Bytes → Bytes} {cfg : Config} (P : Provider σ) (s : σ)
    {req : Request}
    (h : (∃ r, (validate H cfg P s req).out = .ok r) ∨ (validate H cfg P s req).calls ≠ []) :
    ∃ a, authOf H cfg req = .ok a := by
  unfold validate at h
  unfold authOf
  cases hfp : fromRequestParts H cfg.opts cfg.other req with
  | err k => simp [hfp] at h
  | panic p => simp [hfp] at h
  | ok fp =>
    simp only [hfp] at h ⊢
    cases hga : getAuthenticator H cfg.reqs fp.creq with
    | err k => simp [hga] at h
    | panic p => simp [hga] at h
    | ok a => exact ⟨a, rfl⟩

/-- When `prevalidate` fails, `validateSignature` stops there. -/
theorem validateSignature_of_prevalidate_err {σ : Type} (H : Bytes → Bytes) (P : Provider σ) (s : σ)
    (a : Authenticator) (region service : Bytes) (now : Int) (k : ErrKind)
    (h : prevalidate a region service now = .err k) :
    validateSignature H P s a region service now = { out := .err k, state := s, calls := [] } := by
  unfold validateSignature
  simp only [h]

/-- `prevalidate` never panics. -/
theorem prevalidate_not_panic (a : Authenticator) (region service : Bytes) (now : Int) (p : String) :
    prevalidate a region service now ≠ .panic p := by
  unfold prevalidate
  repeat' split
  all_goals simp

/-- A successful `validateSignature`, or one that made provider calls, passed `prevalidate`. -/
theorem prevalidate_ok_of_validateSignature {σ : Type} (H : Bytes → Bytes) (P : Provider σ) (s : σ)
    (a : Authenticator) (region service : Bytes) (now : Int)
    (h : (∃ resp, (validateSignature H P s a region service now).out = .ok resp) ∨
         (validateSignature H P s a region service now).calls ≠ []) :
    prevalidate a region service now = .ok () := by
  cases hp : prevalidate a region service now with
  | ok u => rfl
  | err k => rw [validateSignature_of_prevalidate_err H P s a region service now k hp] at h; simp at h
  | panic p => exact absurd hp (prevalidate_not_panic a region service now p)

/-! ### `C04.freshness_depends_only_on_instant` as stated is false; refutation and a corrected form -/

/-- Machine-checked refutation of the statement of `C04.freshness_depends_only_on_instant`: two
authenticators with the same (stale) instant but different credentials. -/
theorem freshness_depends_only_on_instant_refuted :
    ¬ (∀ (a a' : Authenticator) (region service : Bytes) (now : Int),
        nowRepresentable now → a.timestamp = a'.timestamp →
        ((prevalidate a region service now = scopeCheck a region service) ↔
         (prevalidate a' region service now = scopeCheck a' region service))) := by
  intro h
  have := h
    { creqSha := [], credential := b!"AKID/20150830/us-east-1x/iam/aws4_request", sessionToken := none,
      signature := [], timestamp := 1440938160000000000 }
    { creqSha := [], credential := b!"AKID/20150830/us-east-1/iam/aws4_request", sessionToken := none,
      signature := [], timestamp := 1440938160000000000 }
    b!"us-east-1" b!"iam" 0 (by decide) rfl
  revert this
  decide

/-- Corrected form: with the same instant, either both authenticators are judged by the scope rule
alone, or both are refused as a signature mismatch — whatever their other fields. -/
theorem freshness_verdict_depends_only_on_instant (a a' : Authenticator) (region service : Bytes)
    (now : Int) (hr : nowRepresentable now) (ht : a.timestamp = a'.timestamp) :
    (prevalidate a region service now = scopeCheck a region service ∧
      prevalidate a' region service now = scopeCheck a' region service) ∨
    (prevalidate a region service now = .err .SignatureDoesNotMatch ∧
      prevalidate a' region service now = .err .SignatureDoesNotMatch) := by
  by_cases hw : inWindow a.timestamp now
  · have hw' : inWindow a'.timestamp now := ht ▸ hw
    exact Or.inl ⟨prevalidate_eq_scopeCheck_of_inWindow a region service now hr hw,
      prevalidate_eq_scopeCheck_of_inWindow a' region service now hr hw'⟩
  · have hw' : ¬ inWindow a'.timestamp now := ht ▸ hw
    exact Or.inr ⟨prevalidate_err_of_not_inWindow a region service now hr hw,
      prevalidate_err_of_not_inWindow a' region service now hr hw'⟩

end SigV4
