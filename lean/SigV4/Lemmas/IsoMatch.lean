/- The ISO-8601 matcher against the rendering grammar. -/
import SigV4.Spec.TimeSpec

namespace SigV4

end SigV4
