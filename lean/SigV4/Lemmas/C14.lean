/- Helper lemmas for C14/C15 (structure of `validate`). -/
import SigV4.Spec.ValidateSpec

namespace SigV4

end SigV4
