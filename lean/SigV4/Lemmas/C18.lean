/- Helper lemmas for C18. -/
import SigV4.Spec.ValidateSpec
import SigV4.Spec.UriSpec
import SigV4.Lemmas.C01
import SigV4.Lemmas.C14
import SigV4.Lemmas.C17
import SigV4.Lemmas.Query

namespace SigV4

/-! ### Lookups and permutations -/

theorem assocGet_perm' {β : Type} {m m' : List (Bytes × β)} (k : Bytes) (h : m.Perm m')
    (hn : (m.map (·.1)).Nodup) : assocGet m k = assocGet m' k := by
  induction h with
  | nil => rfl
  | cons x _ ih =>
    obtain ⟨k', v⟩ := x
    simp only [List.map_cons, List.nodup_cons] at hn
    simp only [assocGet]
    rw [ih hn.2]
  | swap x y l =>
    obtain ⟨kx, vx⟩ := x
    obtain ⟨ky, vy⟩ := y
    simp only [List.map_cons, List.nodup_cons, List.mem_cons, not_or] at hn
    have hne : ky ≠ kx := hn.1.1
    simp only [assocGet]
    by_cases h1 : ky = k
    · by_cases h2 : kx = k
      · exact absurd (h1.trans h2.symm) hne
      · simp only [h1, h2, if_true, if_false]
    · by_cases h2 : kx = k
      · simp only [h1, h2, if_true, if_false]
      · simp only [h1, h2, if_false]
  | trans h1 _ ih1 ih2 =>
    rw [ih1 hn, ih2 ((h1.map _).nodup_iff.1 hn)]

theorem firstOf_perm {m m' : List (Bytes × List Bytes)} (k : Bytes) (h : m.Perm m')
    (hn : (m.map (·.1)).Nodup) : firstOf m k = firstOf m' k := by
  unfold firstOf
  rw [assocGet_perm' k h hn]

theorem headerLine_perm {m m' : HeaderMap} (h : m.Perm m') (hn : (m.map (·.1)).Nodup) :
    headerLine m = headerLine m' := by
  funext name
  unfold headerLine
  rw [assocGet_perm' name h hn]

/-! ### Parameter extraction -/

theorem authParamsFromHeader_congr (c c' : CanonReq) (ah : Bytes)
    (hh : ∀ k, firstOf c.headers k = firstOf c'.headers k) :
    authParamsFromHeader c ah = authParamsFromHeader c' ah := by
  unfold authParamsFromHeader
  simp only [hh]

theorem authParamsFromQuery_congr (c c' : CanonReq) (alg : Bytes)
    (hp : ∀ k, firstOf c.params k = firstOf c'.params k) :
    authParamsFromQuery c alg = authParamsFromQuery c' alg := by
  unfold authParamsFromQuery
  simp only [hp]

theorem extractAuthParams_congr (c c' : CanonReq)
    (hh : ∀ k, assocGet c.headers k = assocGet c'.headers k)
    (hp : ∀ k, assocGet c.params k = assocGet c'.params k) :
    extractAuthParams c = extractAuthParams c' := by
  have hfh : ∀ k, firstOf c.headers k = firstOf c'.headers k := fun k => by
    unfold firstOf; rw [hh]
  have hfp : ∀ k, firstOf c.params k = firstOf c'.params k := fun k => by
    unfold firstOf; rw [hp]
  unfold extractAuthParams
  rw [hh, hp]
  split
  · exact authParamsFromHeader_congr c c' _ hfh
  · exact authParamsFromQuery_congr c c' _ hfp
  all_goals rfl

/-! ### Unique keys -/

theorem keys_assocExtend {β : Type} (m : List (Bytes × List β)) (k : Bytes) (vs : List β) :
    (assocExtend m k vs).map (·.1) =
      if k ∈ m.map (·.1) then m.map (·.1) else m.map (·.1) ++ [k] := by
  induction m with
  | nil => simp [assocExtend]
  | cons kv rest ih =>
    obtain ⟨k', vs'⟩ := kv
    simp only [assocExtend]
    by_cases hk : k' = k
    · subst hk; simp
    · rw [if_neg hk]
      simp only [List.map_cons, ih, List.mem_cons]
      have hk' : ¬ k = k' := fun h => hk h.symm
      by_cases hm : k ∈ rest.map (·.1)
      · simp [hm]
      · simp [hm, hk']

theorem nodup_keys_assocExtend {β : Type} (m : List (Bytes × List β)) (k : Bytes) (vs : List β)
    (h : (m.map (·.1)).Nodup) : ((assocExtend m k vs).map (·.1)).Nodup := by
  rw [keys_assocExtend]
  split
  · exact h
  · rename_i hk
    rw [List.nodup_append]
    refine ⟨h, by simp, ?_⟩
    intro a ha b hb
    simp only [List.mem_singleton] at hb
    subst hb
    intro hab; subst hab; exact hk ha

theorem nodup_keys_mergeParams (url body : QueryMap) (h : (url.map (·.1)).Nodup) :
    ((mergeParams url body).map (·.1)).Nodup := by
  unfold mergeParams
  induction body generalizing url with
  | nil => exact h
  | cons kv rest ih =>
    simp only [List.foldl_cons]
    exact ih _ (nodup_keys_assocExtend url kv.1 kv.2 h)

theorem nodup_keys_queryLoop (comps : List Bytes) (m m' : QueryMap) (h : (m.map (·.1)).Nodup)
    (hq : queryLoop comps m = .ok m') : (m'.map (·.1)).Nodup := by
  induction comps generalizing m with
  | nil =>
    unfold queryLoop at hq
    cases hq
    exact h
  | cons comp rest ih =>
    unfold queryLoop at hq
    split at hq
    · exact ih m h hq
    · simp only at hq
      split at hq
      · cases hq
      · cases hq
      · split at hq
        · cases hq
        · cases hq
        · exact ih _ (nodup_keys_assocPush m _ _ h) hq

theorem nodup_keys_parseQuery (q : Bytes) (m : QueryMap) (h : parseQuery q = .ok m) :
    (m.map (·.1)).Nodup := by
  unfold parseQuery at h
  split at h
  · cases h; exact List.nodup_nil
  · exact nodup_keys_queryLoop _ [] m List.nodup_nil h

theorem nodup_keys_normalizeHeaders (hs : HeaderList) (m : HeaderMap) (h : (m.map (·.1)).Nodup) :
    ((normalizeHeaders hs m).map (·.1)).Nodup := by
  induction hs generalizing m with
  | nil => exact h
  | cons kv rest ih =>
    obtain ⟨k, v⟩ := kv
    unfold normalizeHeaders
    exact ih _ (nodup_keys_assocPush m _ _ h)

/-! ### State independence of one validation -/

theorem getSigningKey_out_calls {σ : Type} (P : Provider σ) (s : σ) (a : Authenticator)
    (region service : Bytes) :
    (getSigningKey P s a region service).out =
      (match (P.ready s).1 with
       | some e => .err e.toKind
       | none =>
         match (P.call (P.ready s).2 (providerReqOf a region service)).1 with
         | .error e => .err e.toKind
         | .ok r => .ok r) ∧
    (getSigningKey P s a region service).calls =
      (match (P.ready s).1 with
       | some _ => []
       | none => [providerReqOf a region service]) := by
  rcases getSigningKey_cases P s a region service with ⟨e, hr, hg⟩ | ⟨hr, e, hc, hg⟩ | ⟨hr, resp, hc, hg⟩
  · rw [hg, hr]; exact ⟨rfl, rfl⟩
  · rw [hg, hr, hc]; exact ⟨rfl, rfl⟩
  · rw [hg, hr, hc]; exact ⟨rfl, rfl⟩

theorem validate_out_calls_state_indep {σ : Type} (H : Bytes → Bytes) (cfg : Config) (P : Provider σ)
    (st st' : σ) (req : Request)
    (hpure : ∀ st st' pr, (P.ready st).1 = (P.ready st').1 ∧ (P.call st pr).1 = (P.call st' pr).1) :
    (validate H cfg P st req).out = (validate H cfg P st' req).out ∧
    (validate H cfg P st req).calls = (validate H cfg P st' req).calls := by
  rcases validate_split H cfg req with ⟨o, _, h⟩ | ⟨a, fp, sts, _, _, _, _, h⟩
  · rw [(h σ P st).1, (h σ P st').1]
    exact ⟨rfl, rfl⟩
  · rw [(h σ P st).1, (h σ P st').1]
    simp only [finish]
    obtain ⟨e1, e2⟩ := getSigningKey_out_calls P st a cfg.region cfg.service
    obtain ⟨e1', e2'⟩ := getSigningKey_out_calls P st' a cfg.region cfg.service
    rw [e1, e2, e1', e2', (hpure st st' (providerReqOf a cfg.region cfg.service)).1,
      (hpure (P.ready st).2 (P.ready st').2 (providerReqOf a cfg.region cfg.service)).2]
    exact ⟨rfl, rfl⟩

end SigV4
