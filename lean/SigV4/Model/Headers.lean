/-
  SigV4.Model.Headers — `normalize_header_value` (canonical.rs:1076-1102), `normalize_headers`
  (1061-1070), `get_content_type_and_charset` (1005-1033), and the UTF-8 / charset handling of
  `from_request_parts` (220-244).
-/
import SigV4.Model.Basic

namespace SigV4

/-- The `for c in value` loop of `normalize_header_value`; the flag is `last_was_space`. -/
def nhvLoop : Bool → Bytes → Bytes
  | _, [] => []
  | lws, c :: cs =>
    if c = 0x20 then
      if lws then nhvLoop true cs else 0x20 :: nhvLoop true cs
    else c :: nhvLoop false cs

/-- `normalize_header_value`: leading spaces dropped, runs collapsed, then trailing spaces popped.
(The code pops only when `last_was_space`; otherwise the last byte is not a space and popping is
the identity, so the unconditional form is the same function.) -/
def normHeaderValue (v : Bytes) : Bytes := dropWhileEnd (· == 0x20) (nhvLoop true v)

/-- A header multiset in arrival order; names as the `http` crate stores them (lower case). -/
abbrev HeaderList := List (Bytes × Bytes)

abbrev HeaderMap := List (Bytes × List Bytes)

/-- `normalize_headers`: group by lower-cased name, values normalised, per-name order preserved. -/
def normalizeHeaders : HeaderList → HeaderMap → HeaderMap
  | [], m => m
  | (k, v) :: rest, m => normalizeHeaders rest (assocPush m (asciiLower k) (normHeaderValue v))

def CONTENT_TYPE : Bytes := b!"content-type"
def CHARSET : Bytes := b!"charset"
def FORM_URLENCODED : Bytes := b!"application/x-www-form-urlencoded"

/-- First value of a header, as `HeaderMap::get` returns it (raw, not normalised). -/
def firstHeader (hs : HeaderList) (name : Bytes) : Option Bytes :=
  match hs with
  | [] => none
  | (k, v) :: rest => if asciiLower k = name then some v else firstHeader rest name

/-- The `for option in parts` loop of `get_content_type_and_charset`. -/
def charsetLoop : List Bytes → Option Bytes
  | [] => none
  | opt :: rest =>
    let (name, value?) := splitFirst 0x3D (trimAscii (trimAscii opt))
    if asciiLower (latin1ToString name) = CHARSET then
      match value? with
      | some v => some (latin1ToString v)
      | none => charsetLoop rest
    else charsetLoop rest

/-- `get_content_type_and_charset`: `none` without a Content-Type header, else the text before the
first `;` (trimmed, as a string) and the first `charset=` option. -/
def contentTypeCharset (hs : HeaderList) : Option (Bytes × Option Bytes) :=
  match firstHeader hs CONTENT_TYPE with
  | none => none
  | some v =>
    match (splitOn 0x3B v).map trimAscii with
    | [] => none   -- unreachable (`split` yields at least one piece; canonical.rs:1012 expect)
    | ct :: opts => some (latin1ToString ct, charsetLoop opts)

/-! ### UTF-8 validity (the `encoding` crate's strict UTF-8 decoder accepts exactly well-formed
UTF-8 per Unicode table 3-7: no overlongs, no surrogates, nothing above U+10FFFF). -/

def isCont (c : UInt8) : Bool := 0x80 ≤ c && c ≤ 0xBF

def utf8Valid : Bytes → Bool
  | [] => true
  | c :: rest =>
    if c < 0x80 then utf8Valid rest
    else if 0xC2 ≤ c && c ≤ 0xDF then
      match rest with
      | c1 :: rest' => isCont c1 && utf8Valid rest'
      | _ => false
    else if 0xE0 ≤ c && c ≤ 0xEF then
      match rest with
      | c1 :: c2 :: rest' =>
        let lo : UInt8 := if c = 0xE0 then 0xA0 else 0x80
        let hi : UInt8 := if c = 0xED then 0x9F else 0xBF
        (lo ≤ c1 && c1 ≤ hi) && isCont c2 && utf8Valid rest'
      | _ => false
    else if 0xF0 ≤ c && c ≤ 0xF4 then
      match rest with
      | c1 :: c2 :: c3 :: rest' =>
        let lo : UInt8 := if c = 0xF0 then 0x90 else 0x80
        let hi : UInt8 := if c = 0xF4 then 0x8F else 0xBF
        (lo ≤ c1 && c1 ≤ hi) && isCont c2 && isCont c3 && utf8Valid rest'
      | _ => false
    else false

/-- The characters `encoding_from_whatwg_label` trims (label.rs:13). -/
def isLabelWs (c : UInt8) : Bool := c == 0x20 || c == 0x0A || c == 0x0D || c == 0x09 || c == 0x0C

def normLabel (l : Bytes) : Bytes := asciiLower (dropWhileEnd isLabelWs (l.dropWhile isLabelWs))

def isUtf8Label (l : Bytes) : Bool :=
  let n := normLabel l
  n = b!"utf-8" || n = b!"utf8" || n = b!"unicode-1-1-utf-8"

/-- What the harness tells the model about a charset label that is *not* a UTF-8 label: whether the
`encoding` crate knows it and, if so, the result of strictly decoding the body with it
(the WHATWG table and the legacy decoders are dependencies, modelled as a parameter). -/
inductive OtherCharset where
  | unknown
  | undecodable
  | decoded (text : Bytes)
  deriving Repr

end SigV4
