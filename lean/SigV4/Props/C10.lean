/-
  Property C10 — the canonical query depends only on the multiset of decoded (name, value) pairs
  and is spec-sorted.
-/
import SigV4.Spec.UriSpec
import SigV4.Lemmas.Uri
import SigV4.Lemmas.Query

namespace SigV4.C10

/-- The parser yields exactly the decoded-then-encoded pairs of the non-empty components, grouped by
name in order of first occurrence with per-name value order preserved; it fails, with
`MalformedQueryString`, exactly when some component has a malformed escape. -/
theorem parseQuery_eq_spec (q : Bytes) :
    parseQuery q =
      optToOutcome .MalformedQueryString ((refQueryPairs q).map fun ps => groupPairs (ps.map encPair)) := by
  exact parseQuery_eq_spec' q

/-- Grouping loses and invents nothing: the map's pairs are a permutation of the input pairs, and
the values of each name keep their relative order. -/
theorem groupPairs_perm (l : List (Bytes × Bytes)) : (flattenMap (groupPairs l)).Perm l := by
  exact groupPairs_perm' l

theorem groupPairs_order (l : List (Bytes × Bytes)) (k : Bytes) :
    (flattenMap (groupPairs l)).filter (·.1 = k) = l.filter (·.1 = k) := by
  exact groupPairs_order' l k

/-- The canonical query string of a parsed query is the reference one of its decoded pairs. -/
theorem canonQuery_eq_ref (q : Bytes) (ps : List (Bytes × Bytes)) (h : refQueryPairs q = some ps) :
    (parseQuery q).map canonQuery = .ok (refCanonQuery ps) := by
  rw [parseQuery_canon, h]; rfl

/-- Independence of hash-iteration order: any reordering of the map's entries gives the same string. -/
theorem canonQuery_map_order_invariant (m m' : QueryMap) (h : m.Perm m') : canonQuery m = canonQuery m' := by
  exact canonQuery_perm h

/-- Independence of parameter order: the reference string depends only on the multiset of pairs. -/
theorem refCanonQuery_perm_invariant (ps ps' : List (Bytes × Bytes)) (h : ps.Perm ps') :
    refCanonQuery ps = refCanonQuery ps' := by
  exact refCanonQuery_perm h

/-- Hence permuting the `&`-separated components of a query does not change its canonical form. -/
theorem canonQuery_component_perm_invariant (q q' : Bytes)
    (h : (splitOn 0x26 q).Perm (splitOn 0x26 q')) :
    (parseQuery q).map canonQuery = (parseQuery q').map canonQuery := by
  exact parseQuery_canon_of_comp_perm q q' h

/-- Empty `&&` components are ignored. -/
theorem refQueryPairs_ignores_empty (q q' : Bytes)
    (h : (splitOn 0x26 q).filter (· ≠ []) = (splitOn 0x26 q').filter (· ≠ [])) :
    (parseQuery q).map canonQuery = (parseQuery q').map canonQuery := by
  exact parseQuery_canon_of_filter_eq q q' h

/-- Independence of wire spelling: components that decode alike canonicalise alike. -/
theorem canonQuery_respell_invariant (q q' : Bytes)
    (h : ((splitOn 0x26 q).filter (· ≠ [])).map decodeComponent
        = ((splitOn 0x26 q').filter (· ≠ [])).map decodeComponent) :
    (parseQuery q).map canonQuery = (parseQuery q').map canonQuery := by
  exact parseQuery_canon_of_decode_eq q q' h

/-- The emitted pairs are sorted by encoded name, then by encoded value, bytewise. -/
theorem canonQuery_sorted (m : QueryMap) :
    (sortBy pairLe (queryPairs m)).Pairwise (fun x y => pairLe x y = true) := by
  exact sortBy_pairwise pairLe_total pairLe_trans _

/-- `pairLe` is the lexicographic order: by name, and among equal names by value. -/
theorem pairLe_spec (x y : Bytes × Bytes) :
    pairLe x y = true ↔ (x.1 ≠ y.1 ∧ bytesLe x.1 y.1 = true) ∨ (x.1 = y.1 ∧ bytesLe x.2 y.2 = true) := by
  exact pairLe_iff x y

/-- `bytesLe` is a total order on byte strings (bytewise, a proper prefix first). -/
theorem bytesLe_total_order :
    (∀ a b, bytesLe a b = true ∨ bytesLe b a = true) ∧
    (∀ a b c, bytesLe a b = true → bytesLe b c = true → bytesLe a c = true) ∧
    (∀ a b, bytesLe a b = true → bytesLe b a = true → a = b) := by
  exact ⟨bytesLe_total, bytesLe_trans, bytesLe_antisymm⟩

/-- Every pair is listed — duplicates, empty names and empty values included — except those named
`X-Amz-Signature`: the sorted list is a permutation of the map's pairs minus that name. -/
theorem canonQuery_lists_all (m : QueryMap) :
    (sortBy pairLe (queryPairs m)).Perm ((flattenMap m).filter fun kv => kv.1 ≠ X_AMZ_SIGNATURE) := by
  rw [← queryPairs_eq_filter]; exact sortBy_perm _ _

/-- The finding repaired by the `fix:` commit: names that extend another name by a byte below `=`. -/
theorem sorted_counterexample_now_holds :
    (parseQuery b!"a=2&a-=1").map canonQuery = .ok b!"a=2&a-=1" := by
  decide

/-- Errors are `MalformedQueryString`; no panic. -/
theorem parseQuery_err_kind (q : Bytes) :
    (∀ k, parseQuery q = .err k → k = .MalformedQueryString) ∧ (∀ site, parseQuery q ≠ .panic site) := by
  exact parseQuery_err_kind' q

example : (parseQuery b!"b=%20+x&&a=2&a-=1&a=1&X-Amz-Signature=ff&=").map canonQuery
    = .ok b!"=&a=1&a=2&a-=1&b=%20%20x" := by decide
example : refQueryPairs b!"a=1&&b" = some [(b!"a", b!"1"), (b!"b", b!"")] := by decide

end SigV4.C10

#print axioms SigV4.C10.parseQuery_eq_spec
#print axioms SigV4.C10.groupPairs_perm
#print axioms SigV4.C10.groupPairs_order
#print axioms SigV4.C10.canonQuery_eq_ref
#print axioms SigV4.C10.canonQuery_map_order_invariant
#print axioms SigV4.C10.refCanonQuery_perm_invariant
#print axioms SigV4.C10.canonQuery_component_perm_invariant
#print axioms SigV4.C10.refQueryPairs_ignores_empty
#print axioms SigV4.C10.canonQuery_respell_invariant
#print axioms SigV4.C10.canonQuery_sorted
#print axioms SigV4.C10.pairLe_spec
#print axioms SigV4.C10.bytesLe_total_order
#print axioms SigV4.C10.canonQuery_lists_all
#print axioms SigV4.C10.sorted_counterexample_now_holds
#print axioms SigV4.C10.parseQuery_err_kind
