/-
  Property C02 — completeness: every spec-conformant signed request is accepted.

  The reference signer (`SigV4.Spec.Signer`) is written over decoded path segments, decoded query
  pairs and per-name header values only, so it cannot see wire spelling; the theorems show the
  code's canonical request is that reference for every spelling, that both carriers deliver the
  parameters the signer meant, and that a request carrying the reference signature is accepted.
  The reading of `+` in a path is the crate's (`refPath true`): see C09.canonPath_plus_counterexample
  for the recorded finding (a literal `+` in a path is not accepted when signed per the specification).
-/
import SigV4.Spec.Signer
import SigV4.Lemmas.C02

namespace SigV4.C02

/-- The canonical request the code builds is the reference canonical request, whatever the wire
spelling (capstone over C09, C10, C11, C12). -/
theorem canonicalRequest_eq_ref (H : Bytes → Bytes) (opts : Options) (other : OtherCharset) (req : Request)
    (fp : FromParts) (signed : List Bytes) (h : fromRequestParts H opts other req = .ok fp) :
    refCanonicalRequest H opts other req signed = some (canonicalRequest fp.creq signed) := by
  exact c02_canonicalRequest_eq_ref H opts other req fp signed h

/-- Conversely a request the reference can canonicalise is canonicalised by the code, unless its
folded URI exceeds what `http::Uri` can hold (DESIGN §8.10). -/
theorem fromRequestParts_complete (H : Bytes → Bytes) (opts : Options) (other : OtherCharset) (req : Request)
    (signed : List Bytes) (creq : Bytes) (h : refCanonicalRequest H opts other req signed = some creq) :
    (∃ fp, fromRequestParts H opts other req = .ok fp) ∨
    (foldsBody opts req.headers = true ∧ fromRequestParts H opts other req = .err .MalformedQueryString) := by
  exact c02_fromRequestParts_complete H opts other req signed creq h

/-- Completeness: if the parameters extracted from either carrier name this server's scope and a
timestamp inside the window, the required headers are signed, the provider hands out a key, and
the presented signature is the reference signature under that key, then the request is accepted. -/
theorem complete {σ : Type} (H : Bytes → Bytes) (cfg : Config) (P : Provider σ) (s : σ) (req : Request)
    (fp : FromParts) (ap : AuthParams) (t : Int) (ak creq : Bytes) (resp : ProviderResp)
    (hfp : fromRequestParts H cfg.opts cfg.other req = .ok fp)
    (hap : extractAuthParams fp.creq = .ok ap)
    (hreq : requirementsMet cfg.reqs fp.creq.headers ap.signedHeaders = true)
    (ht : parseIso ap.timestampStr = some t) (hw : inWindow t cfg.now) (hrep : nowRepresentable cfg.now)
    (hcred : splitOn 0x2F ap.credential = [ak, fmtDate (utcDate t), cfg.region, cfg.service, b!"aws4_request"])
    (hready : (P.ready s).1 = none)
    (hkey : (P.call (P.ready s).2 (ProviderReq.mk ak ap.sessionToken (utcDate t) cfg.region cfg.service)).1 = .ok resp)
    (hcreq : refCanonicalRequest H cfg.opts cfg.other req ap.signedHeaders = some creq)
    (hsig : ap.signature = refSignature H resp.key t (fmtDate (utcDate t)) cfg.region cfg.service creq) :
    ∃ r, (validate H cfg P s req).out = .ok r := by
  exact c02_complete H cfg P s req fp ap t ak creq resp hfp hap hreq ht hw hrep hcred hready hkey hcreq hsig

/-- Header carrier: an Authorization header of the SigV4 shape — parameters in any order, separated
by commas with optional spaces — delivers exactly the credential, signed-header list and
signature the signer wrote, with the first `X-Amz-Date` (else `Date`) header as timestamp. -/
theorem header_carrier_extraction (c : CanonReq) (cred sh sig : Bytes) (ps : List Bytes) (date : Bytes)
    (hq : assocGet c.params X_AMZ_ALGORITHM = none)
    (hperm : ps.Perm [b!"Credential=" ++ cred, b!"SignedHeaders=" ++ sh, b!"Signature=" ++ sig])
    (hv : ∀ x ∈ cred ++ sh ++ sig, isAuthValueByte x = true)
    (rest : List Bytes)
    (hah : assocGet c.headers AUTHORIZATION = some ((AWS4_HMAC_SHA256 ++ [0x20] ++ joinWith b!", " ps) :: rest))
    (hdate : (match firstOf c.headers X_AMZ_DATE_LOWER with
              | some d => some d
              | none => firstOf c.headers DATE) = some date) :
    extractAuthParams c = .ok (AuthParams.mk cred sig ((firstOf c.headers X_AMZ_SECURITY_TOKEN_LOWER).map latin1ToString)
        (sortNames (splitOn 0x3B sh)) (latin1ToString date)) := by
  exact c02_header_carrier_extraction c cred sh sig ps date hq hperm hv rest hah hdate

/-- Query carrier: the `X-Amz-*` parameters are used in decoded form — whatever percent-spelling
the signer chose for an ASCII value, the extracted parameter is the value itself. -/
theorem query_carrier_decoded (q : Bytes) (m : QueryMap) (name value : Bytes) (pairs : List (Bytes × Bytes))
    (hq : parseQuery q = .ok m) (hp : refQueryPairs q = some pairs)
    (hfirst : (pairs.find? fun kv => kv.1 = name) = some (name, value))
    (hname : pctEncodeAll name = name) (hascii : ∀ x ∈ value, x < 0x80) :
    ∃ v, firstOf m name = some v ∧ unescapeUri v = .ok value := by
  exact c02_query_carrier_decoded q m name value pairs hq hp hfirst hname hascii

/-- Acceptance does not depend on how the signer spelled equivalent wire encodings: two wire
requests with the same method, the same reference path, decoded query pairs that are a
permutation of each other, the same canonical header lines for the signed names and the same
body have the same reference canonical request — hence the same valid signature. -/
theorem spelling_independent (H : Bytes → Bytes) (opts : Options) (other : OtherCharset) (w w' : Request)
    (signed : List Bytes) (ps ps' : List (Bytes × Bytes))
    (hf : foldsBody opts w.headers = false) (hf' : foldsBody opts w'.headers = false)
    (hm : w.method = w'.method) (hp : refPath true opts.s3 w.path = refPath true opts.s3 w'.path)
    (hq : refQueryPairs (w.query.getD []) = some ps) (hq' : refQueryPairs (w'.query.getD []) = some ps')
    (hperm : ps.Perm ps')
    (hh : ∀ n ∈ signed, refHeaderLine w.headers n = refHeaderLine w'.headers n)
    (hb : w.body = w'.body) :
    refCanonicalRequest H opts other w signed = refCanonicalRequest H opts other w' signed := by
  exact c02_spelling_independent H opts other w w' signed ps ps' hf hf' hm hp hq hq' hperm hh hb

/-- Examples of equivalent spellings the previous theorem covers: hex case, needless escapes,
`+` versus `%20` in queries, repeated names, redundant spaces. -/
theorem spelling_examples :
    refPath true false b!"/%61/b%2fc/%7E" = refPath true false b!"/a/b%2Fc/~" ∧
    (refQueryPairs b!"a=b+c&a=%31&%61=x").map List.length = some 3 ∧
    refQueryPairs b!"k=b+c" = refQueryPairs b!"%6b=b%20c" ∧
    refHeaderValue b!"  a   b " = refHeaderValue b!"a b" := by
  decide

end SigV4.C02

#print axioms SigV4.C02.canonicalRequest_eq_ref
#print axioms SigV4.C02.fromRequestParts_complete
#print axioms SigV4.C02.complete
#print axioms SigV4.C02.header_carrier_extraction
#print axioms SigV4.C02.query_carrier_decoded
#print axioms SigV4.C02.spelling_independent
#print axioms SigV4.C02.spelling_examples
