/-
  SigV4.Tie.FnsOCreq — `CanonicalRequest::canonical_request` (src/canonical.rs), translated statement by statement
  from /repo/src on this run (SigV4/Source/GeneratedFnsO.lean), assembles exactly the model's `canonicalRequest`:
  method, canonical path, canonical query string, one line per signed header that the request carries (name, colon,
  values joined by commas in arrival order), blank line, the signed-header list joined by `;`, payload hash.
  (The canonical query string is computed by `canonicalize_query_to_string`, a separate function; it enters as a parameter.)
-/
import SigV4.Source.GeneratedFnsO
import SigV4.Model.Auth

namespace SigV4.Tie

open SigV4

/-- The generated inner loop body (`for value in values`), restated; state = (result, i). -/
def innerBody (header : Bytes) (value : Bytes) (s : Bytes × Nat) : Outcome (ForInStep (Bytes × Nat)) :=
  if (s.snd == 0) = true then
    Outcome.ok (ForInStep.yield ⟨s.fst ++ header ++ [58] ++ value, s.snd + 1⟩)
  else Outcome.ok (ForInStep.yield ⟨s.fst ++ [44] ++ value, s.snd + 1⟩)

theorem forIn_cons_ok {α β : Type} (x : α) (xs : List α) (b b' : β) (f : α → β → Outcome (ForInStep β))
    (h : f x b = .ok (.yield b')) : forIn (x :: xs) b f = forIn xs b' f := by
  simp only [List.forIn_cons, h, bind, Outcome.bind_ok]

theorem inner_pos (header : Bytes) (values : List Bytes) : ∀ (r : Bytes) (i : Nat), 0 < i →
    forIn values (⟨r, i⟩ : Bytes × Nat) (innerBody header)
      = Outcome.ok ⟨r ++ values.flatMap (fun x => 0x2C :: x), i + values.length⟩ := by
  induction values with
  | nil => intro r i _; simp [pure]
  | cons v vs ih =>
    intro r i hi
    rw [forIn_cons_ok v vs _ ⟨r ++ [44] ++ v, i + 1⟩]
    · rw [ih _ _ (Nat.succ_pos _)]
      simp [List.flatMap_cons, List.append_assoc, Nat.add_comm, Nat.add_left_comm]
    · have : (i == 0) = false := by cases i with | zero => omega | succ n => rfl
      simp [innerBody, this]

theorem inner_zero (header v : Bytes) (vs : List Bytes) (r : Bytes) :
    forIn (v :: vs) (⟨r, 0⟩ : Bytes × Nat) (innerBody header)
      = Outcome.ok ⟨r ++ header ++ [0x3A] ++ v ++ vs.flatMap (fun x => 0x2C :: x), (v :: vs).length⟩ := by
  rw [forIn_cons_ok v vs _ ⟨r ++ header ++ [58] ++ v, 0 + 1⟩]
  · rw [inner_pos _ _ _ _ (Nat.succ_pos _)]
    simp [Nat.add_comm]
  · simp [innerBody]

theorem mapGet_eq (m : List (Bytes × List Bytes)) (k : Bytes) : Rust.mapGet m k = assocGet m k := by
  induction m with
  | nil => rfl
  | cons p rest ih =>
    obtain ⟨k', vs⟩ := p
    simp only [Rust.mapGet, assocGet, ih]

theorem join_eq (sep : Bytes) : ∀ l : List Bytes, Rust.join sep l = joinWith sep l
  | [] => rfl
  | [x] => rfl
  | x :: y :: rest => by simp only [Rust.join, joinWith, join_eq sep (y :: rest)]

/-- The generated outer loop body (`for header in signed_headers`), restated. -/
def outerBody (h : List (Bytes × List Bytes)) (header : Bytes) (s : Bytes) : Outcome (ForInStep Bytes) :=
  match Rust.mapGet h header with
  | some values =>
    (forIn values (⟨s, 0⟩ : Bytes × Nat) (innerBody header)).bind
      fun s => Outcome.ok (ForInStep.yield (s.fst ++ [10]))
  | none => Outcome.ok (ForInStep.yield s)

theorem outerBody_eq (h : List (Bytes × List Bytes)) (header r : Bytes) :
    outerBody h header r = .ok (.yield (r ++ headerLine h header)) := by
  unfold outerBody headerLine
  rw [mapGet_eq]
  cases hg : assocGet h header with
  | none => simp
  | some values =>
    cases values with
    | nil => simp [pure]
    | cons v vs => simp only [inner_zero, Outcome.bind_ok, List.append_assoc]

theorem outer (h : List (Bytes × List Bytes)) (signed : List Bytes) : ∀ r : Bytes,
    forIn signed r (outerBody h) = Outcome.ok (r ++ signed.flatMap (headerLine h)) := by
  induction signed with
  | nil => intro r; simp [pure]
  | cons x xs ih =>
    intro r
    rw [forIn_cons_ok x xs _ _ _ (outerBody_eq h x r), ih]
    simp [List.flatMap_cons, List.append_assoc]

theorem canonical_request : ∀ f, Src.canonical.canonical_request? = some f →
    ∀ (fuel : Nat) (c : CanonReq) (signed : List Bytes),
      f fuel c.method c.path (canonQuery c.params) c.bodySha c.headers signed = .ok (canonicalRequest c signed) := by
  intro f hf
  first
    | (simp only [Src.canonical.canonical_request?, Option.some.injEq] at hf
       subst hf
       intro fuel c signed
       unfold Src.fnO.canonical_request
       simp only [bind, pure]
       show (forIn signed ([] ++ c.method ++ [10] ++ c.path ++ [10] ++ canonQuery c.params ++ [10])
           (outerBody c.headers)).bind _ = _
       rw [outer]
       simp only [Outcome.bind_ok, canonicalRequest, join_eq, List.nil_append])
    | (simp [Src.canonical.canonical_request?] at hf)

end SigV4.Tie

#print axioms SigV4.Tie.canonical_request
