/-
  SigV4.Model.CtEq — an abstract step semantics for the comparison at auth.rs:320-323
  (`subtle::ConstantTimeEq for [u8]`) and, for contrast, for an early-exit comparison.
  A `Step` is one observable unit of work; the trace is what a timing observer can count.
-/
import SigV4.Model.Basic

namespace SigV4

inductive Step where
  | lenCheck          -- compare the two lengths
  | xorOr             -- one `acc |= a[i] ^ b[i]`
  | reduce            -- collapse the accumulator to a `Choice`
  | cmpByte           -- one byte comparison of an early-exit loop
  deriving Repr, DecidableEq

/-- The accumulate loop of `ct_eq`. -/
def ctFold : Bytes → Bytes → UInt8 → UInt8 × List Step
  | a :: as, b :: bs, acc =>
    let (r, tr) := ctFold as bs (acc ||| (a ^^^ b))
    (r, Step.xorOr :: tr)
  | _, _, acc => (acc, [])

/-- `a.ct_eq(b)` with its step trace: length test, one step per index, one reduction. -/
def ctEq (a b : Bytes) : Bool × List Step :=
  if a.length ≠ b.length then (false, [Step.lenCheck])
  else
    let (acc, tr) := ctFold a b 0
    (acc == 0, Step.lenCheck :: tr ++ [Step.reduce])

/-- An early-exit comparison (what `==` / `memcmp` does), for contrast. -/
def earlyExitEq : Bytes → Bytes → Bool × List Step
  | [], [] => (true, [])
  | a :: as, b :: bs =>
    if a = b then
      let (r, tr) := earlyExitEq as bs
      (r, Step.cmpByte :: tr)
    else (false, [Step.cmpByte])
  | _, _ => (false, [])

end SigV4
