/-
  SigV4.Tie.FnsO — the element and path canonicalisers of src/canonical.rs, translated statement by statement
  from /repo/src on this run (SigV4/Source/GeneratedFnsO.lean: index-driven `while` loops, early returns,
  `hex::decode`, `Vec::remove`, `from_utf8(..).unwrap()`), compute exactly the model's structurally recursive
  functions `normElem` and `canonPath` — same value, same error kind, and no panic — for every input, given
  fuel proportional to the input length (so the loops terminate).
-/
import SigV4.Tie.FnsOElem
import SigV4.Tie.FnsOPath

namespace SigV4.Tie

open SigV4

/-- `normalize_uri_element` is the model's `normElem` (path and query flavour). -/
theorem normalize_uri_element : ∀ f, Src.canonical.normalize_uri_element? = some f →
    ∀ (fuel : Nat) (s : Bytes), s.length < fuel →
      f fuel s .Path = normElem true s ∧ f fuel s .Query = normElem false s :=
  normalize_uri_element_proof

theorem normalize_query_string_element : ∀ f, Src.canonical.normalize_query_string_element? = some f →
    ∀ (fuel : Nat) (s : Bytes), s.length < fuel → f fuel s = normElem false s :=
  normalize_query_string_element_proof

theorem normalize_uri_path_component : ∀ f, Src.canonical.normalize_uri_path_component? = some f →
    ∀ (fuel : Nat) (s : Bytes), s.length < fuel → f fuel s = normElem true s :=
  normalize_uri_path_component_proof

/-- `canonicalize_uri_path` is the model's `canonPath`. -/
theorem canonicalize_uri_path : ∀ f, Src.canonical.canonicalize_uri_path? = some f →
    ∀ (fuel : Nat) (p : Bytes) (s3 : Bool), p.length + 2 ≤ fuel → f fuel p s3 = canonPath s3 p :=
  canonicalize_uri_path_proof

end SigV4.Tie

#print axioms SigV4.Tie.normalize_uri_element
#print axioms SigV4.Tie.normalize_query_string_element
#print axioms SigV4.Tie.normalize_uri_path_component
#print axioms SigV4.Tie.canonicalize_uri_path
