/-
  SigV4.Model.Requirements — `VecSignedHeaderRequirements` (canonical.rs:769-877): the growable
  container and its add/remove operations. `SliceSignedHeaderRequirements` is just the three lists.
-/
import SigV4.Model.Auth

namespace SigV4

/-- `add_*` (canonical.rs:820-857): skip when an entry equals the lower-cased name, else push the
name as given. -/
def vecAdd (l : List Bytes) (h : Bytes) : List Bytes :=
  if l.any (· = asciiLower h) then l else l ++ [h]

/-- `remove_*` (canonical.rs:860-876): drop every entry equal ignoring ASCII case. -/
def vecRemove (l : List Bytes) (h : Bytes) : List Bytes :=
  l.filter fun x => asciiLower x ≠ asciiLower h

inductive ReqOp where
  | addAlways (h : Bytes)
  | addIfInRequest (h : Bytes)
  | addPrefix (h : Bytes)
  | removeAlways (h : Bytes)
  | removeIfInRequest (h : Bytes)
  | removePrefix (h : Bytes)
  deriving Repr, DecidableEq

def Requirements.apply (r : Requirements) : ReqOp → Requirements
  | .addAlways h => { r with always := vecAdd r.always h }
  | .addIfInRequest h => { r with ifInRequest := vecAdd r.ifInRequest h }
  | .addPrefix h => { r with prefixes := vecAdd r.prefixes h }
  | .removeAlways h => { r with always := vecRemove r.always h }
  | .removeIfInRequest h => { r with ifInRequest := vecRemove r.ifInRequest h }
  | .removePrefix h => { r with prefixes := vecRemove r.prefixes h }

def Requirements.empty : Requirements := { always := [], ifInRequest := [], prefixes := [] }

end SigV4
