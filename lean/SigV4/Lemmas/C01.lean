/- Helper lemmas for C01. -/
import SigV4.Spec.ValidateSpec

namespace SigV4

end SigV4
