"""keychain.py — third translator stage: the key-derivation chain of src/signing_key.rs.

Reads the ten methods `KSecretKey::{to_kdate,to_kregion,to_kservice,to_ksigning}`, `KDateKey::{to_kregion,to_kservice,
to_ksigning}`, `KRegionKey::{to_kservice,to_ksigning}`, `KServiceKey::to_ksigning` from /repo/src and writes
`SigV4/Source/GeneratedKeys.lean`: each method becomes a pure Lean function over byte strings, parameterised by the hash `H`
(`hmac_sha256(k, m)` becomes `hmac H k m`, the model's HMAC construction).

Understood statement shapes (anything else makes the method `unreadable`, generated as a stub and not counted):
    let [mut] x = EXPR;                       EXPR ::= ARG | hmac_sha256(ARG, ARG) | [0; SHA256_OUTPUT_LEN]
    x.copy_from_slice(y.as_ref());            (x a zeroed [u8; SHA256_OUTPUT_LEN], y a [u8; SHA256_OUTPUT_LEN]: x becomes y)
    Struct { key: x [,] }                     final expression of a deriving step
    self.m1(a, ..).m2(b, ..)…                 final expression of a shortcut
    ARG ::= ident | ident.as_bytes() | ident.as_slice() | ident.as_ref() | ident.format("…%Y%m%d…").to_string()
          | self.key[.as_slice()|.as_ref()] | self.prefixed_key[.as_slice()] | &self.prefixed_key[..self.len]
          | CONST[.as_bytes()]                (a string constant of signing_key.rs)
"""
import os

KEY_TYPES = ["KSecretKey", "KDateKey", "KRegionKey", "KServiceKey"]
METHODS = {"KSecretKey": ["to_kdate", "to_kregion", "to_kservice", "to_ksigning"], "KDateKey": ["to_kregion", "to_kservice", "to_ksigning"],
           "KRegionKey": ["to_kservice", "to_ksigning"], "KServiceKey": ["to_ksigning"]}
RET_OF = {"to_kdate": "KDateKey", "to_kregion": "KRegionKey", "to_kservice": "KServiceKey", "to_ksigning": "KSigningKey"}
LEAN_SELF = {"KSecretKey": "SecretKey", "KDateKey": "Bytes", "KRegionKey": "Bytes", "KServiceKey": "Bytes"}
LEAN_PARAM = {"date": "Int × Int × Int", "str": "Bytes"}


class KErr(Exception):
    pass


def is_p(t, v): return t.k == "p" and t.v == v
def is_id(t, v=None): return t.k == "id" and (v is None or t.v == v)


def impl_block(S, toks, ty):
    """Tokens inside the inherent `impl Ty { … }` (no generics, no trait)."""
    i = S.find_seq(toks, [("id", "impl"), ("id", ty), ("p", "{")])
    if i < 0:
        raise KErr("no inherent impl for " + ty)
    e = S.matching(toks, i + 2)
    return toks[i + 3:e]


def split_top(S, toks, sep):
    out, cur, d = [], [], 0
    for t in toks:
        if t.k == "p" and t.v in "([{": d += 1
        elif t.k == "p" and t.v in ")]}": d -= 1
        if d == 0 and is_p(t, sep):
            out.append(cur); cur = []
        else:
            cur.append(t)
    if cur:
        out.append(cur)
    return out


def parse_params(S, ptoks):
    parts = split_top(S, ptoks, ",")
    if not parts or not (len(parts[0]) == 2 and is_p(parts[0][0], "&") and is_id(parts[0][1], "self")):
        raise KErr("first parameter is not &self")
    res = []
    for p in parts[1:]:
        if len(p) == 3 and is_id(p[0]) and is_p(p[1], ":") and is_id(p[2], "NaiveDate"):
            res.append((p[0].v, "date"))
        elif len(p) == 4 and is_id(p[0]) and is_p(p[1], ":") and is_p(p[2], "&") and is_id(p[3], "str"):
            res.append((p[0].v, "str"))
        else:
            raise KErr("parameter shape")
    return res


class Ctx:
    def __init__(self, S, ty, env, consts, fmt_ok):
        self.S, self.ty, self.env, self.consts = S, ty, dict(env), consts
        self.zeroed = set()


def lean_lit(bs):
    return "[" + ", ".join("0x%02X" % b for b in bs) + "]"


def arg(cx, ts):
    """Translate ARG; returns (lean text, kind) with kind in {'bytes', 'date'}."""
    ts = list(ts)
    # &self.prefixed_key[..self.len]
    if len(ts) == 10 and is_p(ts[0], "&") and is_id(ts[1], "self") and is_p(ts[2], ".") and is_id(ts[3], "prefixed_key") and is_p(ts[4], "[") \
            and is_p(ts[5], "..") and is_id(ts[6], "self") and is_p(ts[7], ".") and is_id(ts[8], "len") and is_p(ts[9], "]"):
        if cx.ty != "KSecretKey": raise KErr("prefixed_key on " + cx.ty)
        return "(self.buf.take self.len)", "bytes"
    # strip the view conversions
    while len(ts) >= 4 and is_p(ts[-1], ")") and is_p(ts[-2], "(") and is_id(ts[-3]) and ts[-3].v in ("as_bytes", "as_slice", "as_ref") and is_p(ts[-4], "."):
        ts = ts[:-4]
    if len(ts) == 3 and is_id(ts[0], "self") and is_p(ts[1], ".") and is_id(ts[2]):
        if ts[2].v == "prefixed_key" and cx.ty == "KSecretKey": return "self.buf", "bytes"
        if ts[2].v == "key" and cx.ty != "KSecretKey": return "self", "bytes"
        raise KErr("field " + ts[2].v)
    if len(ts) == 1 and is_id(ts[0]):
        n = ts[0].v
        if n in cx.env:
            return cx.env[n]
        if n in cx.consts:
            return lean_lit(cx.consts[n]), "bytes"
        raise KErr("unknown name " + n)
    # ident.format("…").to_string()
    if len(ts) == 10 and is_id(ts[0]) and is_p(ts[1], ".") and is_id(ts[2], "format") and is_p(ts[3], "(") and ts[4].k == "str" and is_p(ts[5], ")") \
            and is_p(ts[6], ".") and is_id(ts[7], "to_string") and is_p(ts[8], "(") and is_p(ts[9], ")"):
        n = ts[0].v
        if cx.env.get(n, (None, None))[1] != "date": raise KErr("format on a non-date")
        spec = bytes(ts[4].v)
        i = 0
        while i < len(spec):
            if spec[i] == 0x25:
                if i + 1 >= len(spec) or chr(spec[i + 1]) not in "Ymd": raise KErr("format directive")
                i += 2
            else:
                i += 1
        return f"(Rust.Chrono.formatDate {lean_lit(spec)} {cx.env[n][0]})", "bytes"
    raise KErr("argument shape: " + " ".join(str(t.v) for t in ts))


def expr(cx, ts):
    if len(ts) >= 4 and is_id(ts[0], "hmac_sha256") and is_p(ts[1], "(") and cx.S.matching(ts, 1) == len(ts) - 1:
        parts = split_top(cx.S, ts[2:-1], ",")
        if len(parts) != 2: raise KErr("hmac arity")
        a, ka = arg(cx, parts[0]); b, kb = arg(cx, parts[1])
        if ka != "bytes" or kb != "bytes": raise KErr("hmac of a date")
        return f"hmac H {a} {b}", "bytes32"
    if len(ts) == 5 and is_p(ts[0], "[") and ts[1].k == "num" and str(ts[1].v) == "0" and is_p(ts[2], ";") and is_id(ts[3], "SHA256_OUTPUT_LEN") and is_p(ts[4], "]"):
        return None, "zeroed32"
    return arg(cx, ts)


def chain(cx, ts, known):
    """self.m1(args).m2(args)…  ->  nested calls of already translated methods."""
    if not (is_id(ts[0], "self") and is_p(ts[1], ".")): raise KErr("final expression")
    cur, cur_ty, i = "self", cx.ty, 1
    while i < len(ts):
        if not (is_p(ts[i], ".") and is_id(ts[i + 1]) and is_p(ts[i + 2], "(")): raise KErr("chain shape")
        m = ts[i + 1].v
        e = cx.S.matching(ts, i + 2)
        args = [arg(cx, a) for a in split_top(cx.S, ts[i + 3:e], ",")]
        sig = known.get((cur_ty, m))
        if sig is None: raise KErr(f"call of untranslated {cur_ty}::{m}")
        if [k for _, k in args] != ["date" if k == "date" else "bytes" for k in sig]: raise KErr("argument kinds")
        cur = f"({cur_ty}.{m} H {cur} " + " ".join(a for a, _ in args) + ")" if args else f"({cur_ty}.{m} H {cur})"
        cur_ty = RET_OF[m]
        i = e + 1
    return cur, cur_ty


def translate_method(S, ty, name, ptoks, rtoks, btoks, consts, known):
    params = parse_params(S, ptoks)
    if not (len(rtoks) == 1 and is_id(rtoks[0], RET_OF[name])): raise KErr("return type")
    env = {n: (n + "_", "date" if k == "date" else "bytes") for n, k in params}
    cx = Ctx(S, ty, env, consts, True)
    lines = []
    stmts = split_top(S, btoks, ";")
    final = stmts[-1] if btoks and not is_p(btoks[-1], ";") else None
    body = stmts[:-1] if final is not None else stmts
    if final is None: raise KErr("no final expression")
    fresh = [0]
    for st in body:
        if is_id(st[0], "let"):
            j = 1
            if is_id(st[j], "mut"): j += 1
            if not (is_id(st[j]) and is_p(st[j + 1], "=")): raise KErr("let shape")
            n = st[j].v
            tx, kind = expr(cx, st[j + 2:])
            if kind == "zeroed32":
                cx.zeroed.add(n); cx.env.pop(n, None)
                continue
            cx.zeroed.discard(n)
            fresh[0] += 1
            v = f"{n}_{fresh[0]}"
            lines.append(f"  let {v} := {tx}")
            cx.env[n] = (v, "date" if kind == "date" else ("bytes32" if kind == "bytes32" else "bytes"))
            if kind == "bytes32": cx.env[n] = (v, "bytes"); cx.env["#32:" + n] = True
        elif len(st) >= 6 and is_id(st[0]) and is_p(st[1], ".") and is_id(st[2], "copy_from_slice") and is_p(st[3], "("):
            dst = st[0].v
            inner = st[4:-1]
            if not (len(inner) == 5 and is_id(inner[0]) and is_p(inner[1], ".") and is_id(inner[2], "as_ref") and is_p(inner[3], "(") and is_p(inner[4], ")")):
                raise KErr("copy_from_slice source")
            src = inner[0].v
            if dst not in cx.zeroed or ("#32:" + src) not in cx.env: raise KErr("copy_from_slice of unequal or unknown lengths")
            cx.zeroed.discard(dst)
            cx.env[dst] = cx.env[src]; cx.env["#32:" + dst] = True
        else:
            raise KErr("statement shape: " + " ".join(str(t.v) for t in st[:6]))
    # final expression
    if is_id(final[0], RET_OF[name]) and is_p(final[1], "{"):
        inner = final[2:-1]
        if inner and is_p(inner[-1], ","): inner = inner[:-1]
        if not (len(inner) == 3 and is_id(inner[0], "key") and is_p(inner[1], ":") and is_id(inner[2])): raise KErr("struct literal")
        n = inner[2].v
        if ("#32:" + n) not in cx.env: raise KErr("key field is not a 32-byte value")
        res = cx.env[n][0]
    else:
        res, rty = chain(cx, final, known)
        if rty != RET_OF[name]: raise KErr("chain ends in " + rty)
    sig = " ".join(f"({n}_ : {LEAN_PARAM[k]})" for n, k in params)
    head = f"def {ty}.{name} (H : Bytes → Bytes) (self : {LEAN_SELF[ty]})" + (" " + sig if sig else "") + " : Bytes :="
    return "\n".join([head] + lines + [f"  {res}"]), [k for _, k in params]


def lean_type(ty, kinds):
    return "(Bytes → Bytes) → " + LEAN_SELF[ty] + " → " + "".join(f"({LEAN_PARAM[k]}) → " for k in kinds) + "Bytes"


DEFAULT_KINDS = {("KSecretKey", "to_kdate"): ["date"], ("KSecretKey", "to_kregion"): ["date", "str"], ("KSecretKey", "to_kservice"): ["date", "str", "str"],
                 ("KSecretKey", "to_ksigning"): ["date", "str", "str"], ("KDateKey", "to_kregion"): ["str"], ("KDateKey", "to_kservice"): ["str", "str"],
                 ("KDateKey", "to_ksigning"): ["str", "str"], ("KRegionKey", "to_kservice"): ["str"], ("KRegionKey", "to_ksigning"): ["str"],
                 ("KServiceKey", "to_ksigning"): []}


def generate_keys(S, repo):
    items, defs, wraps = {}, [], []
    try:
        toks = S.lex(open(os.path.join(repo, "src", "signing_key.rs"), encoding="utf-8").read())
        ctoks = S.lex(open(os.path.join(repo, "src", "crypto.rs"), encoding="utf-8").read())
        consts = {}
        i = 0
        while True:                                                     # `const NAME: &str = "…";`
            i = S.find_seq(toks, [("id", "const"), ("id", None), ("p", ":"), ("p", "&"), ("id", "str"), ("p", "="), ("str", None), ("p", ";")], i)
            if i < 0: break
            v = toks[i + 6].v
            consts[toks[i + 1].v] = bytes(v)
            i += 1
        # hmac_sha256 must be declared to return [u8; SHA256_OUTPUT_LEN] and the constant must be 32
        sig = S.fn_sig(ctoks, "hmac_sha256")
        ok32 = sig is not None and [str(t.v) for t in sig[1]] == ["[", "u8", ";", "SHA256_OUTPUT_LEN", "]"] and \
            S.find_seq(ctoks, [("id", "const"), ("id", "SHA256_OUTPUT_LEN"), ("p", ":"), ("id", "usize"), ("p", "="), ("num", None), ("p", ";")]) >= 0
        if ok32:
            j = S.find_seq(ctoks, [("id", "const"), ("id", "SHA256_OUTPUT_LEN"), ("p", ":"), ("id", "usize"), ("p", "=")])
            ok32 = str(ctoks[j + 5].v) == "32"
    except Exception:                                                   # noqa
        toks, ok32, consts = None, False, {}
    known = {}
    order = [("KServiceKey", "to_ksigning"), ("KRegionKey", "to_kservice"), ("KRegionKey", "to_ksigning"), ("KDateKey", "to_kregion"),
             ("KDateKey", "to_kservice"), ("KDateKey", "to_ksigning"), ("KSecretKey", "to_kdate"), ("KSecretKey", "to_kregion"),
             ("KSecretKey", "to_kservice"), ("KSecretKey", "to_ksigning")]
    for ty, name in order:
        key = f"signing_key.{ty}.{name}"
        text, kinds = None, DEFAULT_KINDS[(ty, name)]
        if toks is not None and ok32:
            try:
                blk = impl_block(S, toks, ty)
                sig = S.fn_sig(blk, name)
                if sig is None: raise KErr("no such method")
                text, got = translate_method(S, ty, name, sig[0], sig[1], sig[2], consts, known)
                if got != kinds:
                    text = None
                else:
                    known[(ty, name)] = kinds
            except Exception:                                           # noqa
                text = None
        lt = lean_type(ty, kinds)
        if text:
            defs.append(text + "\n")
            wraps.append(f"def signing_key.{ty}_{name}? : Option ({lt}) := some keys.{ty}.{name}")
            items[key] = "read"
        else:
            under = " ".join("_" for _ in range(2 + len(kinds)))
            defs.append(f"def {ty}.{name} : {lt} := fun {under} => []   -- stub: the method is outside the translator's subset on this tree\n")
            wraps.append(f"def signing_key.{ty}_{name}? : Option ({lt}) := none   -- outside the translator's subset on this tree")
            items[key] = "unreadable"
    header = [
        "/-",
        "  GENERATED by /verif/srcgen/srcgen.py (keychain.py) from /repo/src/signing_key.rs — do not edit; regenerated on every",
        "  run of ./check.  Each function is the translation of the Rust method of the same name: a key object is its 32-byte",
        "  `key` field (a `KSecretKey` its buffer and length), `hmac_sha256(k, m)` is `hmac H k m` for an arbitrary hash `H`.",
        "-/",
        "import SigV4.Model.Keys",
        "import SigV4.Source.RustKeys",
        "",
        "set_option linter.unusedVariables false",
        "",
        "namespace SigV4.Src.keys",
        "",
    ]
    text = "\n".join(header + defs + ["end SigV4.Src.keys", "", "namespace SigV4.Src", ""] + wraps + ["", "end SigV4.Src", ""])
    return text, items
