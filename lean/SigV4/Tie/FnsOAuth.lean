/-
  SigV4.Tie.FnsOAuth — `SigV4Authenticator::prevalidate` (src/auth.rs), translated statement by statement from
  /repo/src on this run (SigV4/Source/GeneratedFnsO.lean), is the model's `prevalidate`: the freshness window
  with chrono's saturating fallback, the five-part credential rule and the scope comparison, for every
  credential, instant, region, service and server time.
-/
import SigV4.Source.GeneratedFnsO
import SigV4.Model.Auth
import SigV4.Tie.Basic

namespace SigV4.Tie

open SigV4

theorem rust_split_eq (c : UInt8) (s : Bytes) : Rust.split c s = splitOn c s := by
  induction s with
  | nil => rfl
  | cons x xs ih =>
    simp only [Rust.split, splitOn, ih]
    by_cases h : x = c
    · simp [h]
    · simp only [h, if_false]
      cases splitOn c xs <;> rfl

theorem allowed_mismatch_nonneg : 0 ≤ ALLOWED_MISMATCH := by
  simp [ALLOWED_MISMATCH, NS_PER_SEC]

theorem getD_sub_eq_minTs (now : Int) (h : now ≤ CHRONO_MAX) :
    Option.getD (Rust.Chrono.checkedSubSigned now ALLOWED_MISMATCH) now = minTs now := by
  have h0 := allowed_mismatch_nonneg
  unfold Rust.Chrono.checkedSubSigned minTs
  by_cases h1 : now - ALLOWED_MISMATCH < CHRONO_MIN
  · simp [h1]
  · have h2 : ¬ (now - ALLOWED_MISMATCH > CHRONO_MAX) := by omega
    simp [h1, h2]

theorem getD_add_eq_maxTs (now : Int) (h : CHRONO_MIN ≤ now) :
    Option.getD (Rust.Chrono.checkedAddSigned now ALLOWED_MISMATCH) now = maxTs now := by
  have h0 := allowed_mismatch_nonneg
  unfold Rust.Chrono.checkedAddSigned maxTs
  by_cases h1 : now + ALLOWED_MISMATCH > CHRONO_MAX
  · simp [h1]
  · have h2 : ¬ (now + ALLOWED_MISMATCH < CHRONO_MIN) := by omega
    simp [h1, h2]

/-- The generated function, called with the entry point's tolerance, equals the model's `prevalidate`
(server time within chrono's representable range, as every `DateTime<Utc>` is). -/
theorem prevalidate : ∀ f, Src.auth.prevalidate? = some f →
    ∀ (fuel : Nat) (a : Authenticator) (region service : Bytes) (now : Int),
      CHRONO_MIN ≤ now → now ≤ CHRONO_MAX →
      f fuel a.credential a.timestamp region service now ALLOWED_MISMATCH = SigV4.prevalidate a region service now := by
  intro f hf
  first
  | (simp only [Src.auth.prevalidate?, Option.some.injEq] at hf
     subst hf
     intro fuel a region service now hmin hmax
     unfold Src.fnO.prevalidate SigV4.prevalidate
     rw [getD_sub_eq_minTs now hmax, getD_add_eq_maxTs now hmin, rust_split_eq]
     by_cases h1 : a.timestamp < minTs now
     · simp [h1, bind, Outcome.bind]
     · by_cases h2 : a.timestamp > maxTs now
       · simp [h1, h2, bind, Outcome.bind]
       · rcases hs : splitOn 0x2F a.credential with _ | ⟨p0, _ | ⟨p1, _ | ⟨p2, _ | ⟨p3, _ | ⟨p4, _ | ⟨p5, rest⟩⟩⟩⟩⟩⟩
         all_goals try (simp [h1, h2, bind, Outcome.bind, pure]; done)
         · by_cases e1 : p2 = region <;> by_cases e2 : p3 = service <;>
             by_cases e3 : p4 = b!"aws4_request" <;>
             by_cases e4 : p1 = fmtDate (utcDate a.timestamp) <;>
             simp [h1, h2, bind, Outcome.bind, pure, Rust.idxS, Rust.Chrono.formatYmd, e1, e2, e3, e4])
  | (simp [Src.auth.prevalidate?] at hf)

end SigV4.Tie

#print axioms SigV4.Tie.prevalidate

namespace SigV4.Tie

open SigV4

theorem rust_splitOnce_eq (c : UInt8) (s : Bytes) :
    Rust.splitOnce c s = match splitFirst c s with
      | (a, some b) => some (a, b)
      | (_, none) => none := by
  induction s with
  | nil => simp [Rust.splitOnce, splitFirst]
  | cons x xs ih =>
    unfold Rust.splitOnce splitFirst
    by_cases h : x = c
    · simp [h]
    · simp only [h, if_false]
      rw [ih]
      rcases hsf : splitFirst c xs with ⟨a, b⟩
      cases b <;> simp

/-- `get_string_to_sign` (src/auth.rs), translated from /repo/src on this run, is the model's `stringToSign`: algorithm
line, compact UTC timestamp, credential scope (the credential behind its first `/`), lower-case hex of the canonical
request hash — and it panics exactly when the credential has no `/` (which `prevalidate` excludes). -/
theorem get_string_to_sign : ∀ f, Src.auth.get_string_to_sign? = some f →
    ∀ (fuel : Nat) (a : Authenticator),
      SameUpToSite (f fuel a.creqSha a.credential a.timestamp) (stringToSign a) := by
  intro f hf
  first
    | (simp only [Src.auth.get_string_to_sign?, Option.some.injEq] at hf
       subst hf
       intro fuel a
       unfold Src.fnO.get_string_to_sign stringToSign
       rw [rust_splitOnce_eq]
       rcases hsf : splitFirst 0x2F a.credential with ⟨p, q⟩
       cases q with
       | none => simp [Rust.unwrapOpt, SameUpToSite, bind, Outcome.bind]
       | some scope =>
         simp [Rust.unwrapOpt, SameUpToSite, bind, Outcome.bind, pure, Rust.hexEncode, Rust.Chrono.formatCompact, AWS4_HMAC_SHA256,
           List.append_assoc])
    | (simp [Src.auth.get_string_to_sign?] at hf)

end SigV4.Tie

#print axioms SigV4.Tie.get_string_to_sign
