/-
  Property C16 — timestamps: ISO-8601 accepted, value exact, compact UTC in the string-to-sign.
-/
import SigV4.Spec.TimeSpec
import SigV4.Model.Auth
import SigV4.Lemmas.Time

namespace SigV4.C16

/-- Completeness of the matcher: every lexically well-formed rendering is matched, with its fields. -/
theorem matchIso_render (t : IsoText) (h : t.wf) : matchIso t.render = some t.toFields :=
  SigV4.matchIso_render t h

/-- Soundness of the matcher: whatever it matches is a well-formed rendering — nothing before,
nothing after, no missing zone designator, no other shape. -/
theorem matchIso_sound (s : Bytes) (f : IsoFields) (h : matchIso s = some f) :
    ∃ t : IsoText, t.wf ∧ s = t.render ∧ f = t.toFields :=
  SigV4.matchIso_sound s f h

/-- The parser accepts exactly the well-formed renderings of real calendar date-times and gives
them the reference value (offset applied, fraction truncated to nanoseconds). -/
theorem parseIso_iff (s : Bytes) (v : Int) :
    parseIso s = some v ↔ ∃ t : IsoText, t.wf ∧ t.civilValid ∧ s = t.render ∧ v = t.value :=
  SigV4.parseIso_iff s v

/-- Out-of-range fields, non-existent dates and leap seconds are refused. -/
theorem parseIso_rejects (t : IsoText) (h : t.wf) (hbad : ¬ t.civilValid) : parseIso t.render = none :=
  SigV4.parseIso_rejects t h hbad

/-- The value does not depend on the textual form: two well-formed valid texts with the same
reference value parse to the same instant. -/
theorem parseIso_text_independent (t t' : IsoText) (h : t.wf) (h' : t'.wf) (c : t.civilValid) (c' : t'.civilValid)
    (hv : t.value = t'.value) : parseIso t.render = parseIso t'.render :=
  SigV4.parseIso_text_independent t t' h h' c c' hv

/-- The civil-date conversions are mutually inverse (all dates of the proleptic Gregorian calendar). -/
theorem civilFromDays_daysFromCivil (y m d : Int) (hm : 1 ≤ m ∧ m ≤ 12) (hd : 1 ≤ d ∧ d ≤ daysInMonth y m) :
    civilFromDays (daysFromCivil y m d) = (y, m, d) :=
  SigV4.civilFromDays_daysFromCivil y m d hm hd

theorem daysFromCivil_civilFromDays (z : Int) :
    let c := civilFromDays z
    daysFromCivil c.1 c.2.1 c.2.2 = z ∧ 1 ≤ c.2.1 ∧ c.2.1 ≤ 12 ∧ 1 ≤ c.2.2 ∧ c.2.2 ≤ daysInMonth c.1 c.2.1 :=
  SigV4.daysFromCivil_civilFromDays z

/-- The compact UTC rendering denotes the instant truncated to whole seconds: parsing it back gives
exactly that, for every instant whose UTC year is 0..9999. -/
theorem compact_roundtrip (t : Int) (hy : 0 ≤ (utcDate t).1 ∧ (utcDate t).1 ≤ 9999) :
    parseIso (compactUtc t) = some (t - t % NS_PER_SEC) :=
  SigV4.compact_roundtrip t hy

/-- Shape of the compact rendering: `YYYYMMDD'T'hhmmss'Z'`, 16 bytes, digits where digits belong. -/
theorem compact_shape (t : Int) (hy : 0 ≤ (utcDate t).1 ∧ (utcDate t).1 ≤ 9999) :
    (compactUtc t).length = 16 ∧ (compactUtc t)[8]? = some 0x54 ∧ (compactUtc t)[15]? = some 0x5A ∧
    (compactUtc t).take 8 = fmtDate (utcDate t) :=
  SigV4.compact_shape t hy

/-- The timestamp line of the string-to-sign is the compact UTC rendering of the parsed instant. -/
theorem sts_timestamp_line (a : Authenticator) (sts : Bytes) (h : stringToSign a = .ok sts) :
    ∃ scope, sts = AWS4_HMAC_SHA256 ++ [0x0A] ++ compactUtc a.timestamp ++ [0x0A] ++ scope ++ [0x0A]
      ++ hexLower a.creqSha :=
  SigV4.sts_timestamp_line a sts h

/-- A timestamp that does not parse yields the ISO-8601 error (IncompleteSignature, HTTP 400). -/
theorem bad_timestamp_error (H : Bytes → Bytes) (c : CanonReq) (ap : AuthParams) (h : parseIso ap.timestampStr = none) :
    authenticatorOf H c ap = .err .IncompleteSignature :=
  SigV4.bad_timestamp_error H c ap h

example : parseIso b!"20150830T123600Z" = some 1440938160000000000 := by decide
example : parseIso b!"2015-08-30T12:36:00.5+01:30" = some 1440932760500000000 := by decide
example : parseIso b!"20150830T123600+2000" = some 1440866160000000000 := by decide
example : parseIso b!"20150229T123600Z" = none := by decide
example : parseIso b!"20150830T123660Z" = none := by decide
example : parseIso b!"20150830T123600" = none := by decide
example : parseIso b!" 20150830T123600Z" = none := by decide

/-- Nothing may stand before or after a timestamp: one extra byte of any value on either side of a
well-formed timestamp makes the pattern fail (header values lose their surrounding *spaces* before
they get here, `normHeaderValue`; no other byte is forgiven). -/
theorem matchIso_no_padding (t : IsoText) (h : t.wf) (b : UInt8) :
    matchIso (b :: t.render) = none ∧ matchIso (t.render ++ [b]) = none := by
  exact ⟨SigV4.c16_matchIso_prepend t b, SigV4.c16_matchIso_append t h b⟩

example : parseIso (b!"20150830T123600Z" ++ [0xA0]) = none := by decide
example : parseIso ([0x09] ++ b!"20150830T123600Z") = none := by decide

end SigV4.C16

#print axioms SigV4.C16.matchIso_render
#print axioms SigV4.C16.matchIso_sound
#print axioms SigV4.C16.parseIso_iff
#print axioms SigV4.C16.parseIso_rejects
#print axioms SigV4.C16.parseIso_text_independent
#print axioms SigV4.C16.civilFromDays_daysFromCivil
#print axioms SigV4.C16.daysFromCivil_civilFromDays
#print axioms SigV4.C16.compact_roundtrip
#print axioms SigV4.C16.compact_shape
#print axioms SigV4.C16.sts_timestamp_line
#print axioms SigV4.C16.bad_timestamp_error
#print axioms SigV4.C16.matchIso_no_padding
