//! Runtime-facing checks: C17 (no leak through errors/Debug/logs) and C18 (determinism, reentrancy).
use crate::Ctx;

pub fn c17(_ctx: &mut Ctx) {}
pub fn c18(_ctx: &mut Ctx) {}
