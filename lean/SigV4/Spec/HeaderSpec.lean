/-
  SigV4.Spec.HeaderSpec — reference formulation of header canonicalisation (property C11):
  split / filter / join for values, filter-by-name for grouping.
-/
import SigV4.Model.Auth

namespace SigV4

/-- Leading/trailing spaces removed, inner runs collapsed: the non-empty space-separated words
joined by one space. -/
def refHeaderValue (v : Bytes) : Bytes := joinWith [0x20] ((splitOn 0x20 v).filter (· ≠ []))

/-- The values of the headers with a given lower-case name, in arrival order. -/
def valuesOf (hs : HeaderList) (name : Bytes) : List Bytes :=
  (hs.filter fun h => asciiLower h.1 = name).map (·.2)

/-- Reference header line: nothing for an absent header, else `name:v1,v2,…\n` with canonical values. -/
def refHeaderLine (hs : HeaderList) (name : Bytes) : Bytes :=
  match valuesOf hs name with
  | [] => []
  | vs => name ++ [0x3A] ++ joinWith [0x2C] (vs.map refHeaderValue) ++ [0x0A]

end SigV4
