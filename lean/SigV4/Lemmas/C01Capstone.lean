/- C01 capstone: one signature, one key, two requests ⇒ every covered component equal, or an explicit collision. -/
import SigV4.Props.C01Core

namespace SigV4

open SigV4.C01 in
/-- If the same presented signature verifies under the same key for two authenticators built from
two canonical requests, then either every component the signature covers is the same — the
timestamp line, the scope, the method, the canonical path, the canonical query, the header block,
the signed-header list and the payload hash — or the pair exhibits an explicit collision of
`hmac H` (two different strings-to-sign) or of `H` (two different canonical requests). -/
theorem one_signature_one_request_lemma (H : Bytes → Bytes) (hlen : ∀ x y, (H x).length = (H y).length)
    (a a' : Authenticator) (c c' : CanonReq) (signed signed' : List Bytes) (key sts sts' : Bytes)
    (hc : a.creqSha = H (canonicalRequest c signed)) (hc' : a'.creqSha = H (canonicalRequest c' signed'))
    (hs : stringToSign a = .ok sts) (hs' : stringToSign a' = .ok sts')
    (hsig : a.signature = a'.signature)
    (hv : a.signature = hexLower (hmac H key sts)) (hv' : a'.signature = hexLower (hmac H key sts'))
    (hy : 0 ≤ (utcDate a.timestamp).1 ∧ (utcDate a.timestamp).1 ≤ 9999)
    (hy' : 0 ≤ (utcDate a'.timestamp).1 ∧ (utcDate a'.timestamp).1 ≤ 9999)
    (hm : NoNL c.method ∧ NoNL c'.method) (hp : NoNL c.path ∧ NoNL c'.path)
    (hq : NoNL (canonQuery c.params) ∧ NoNL (canonQuery c'.params))
    (hl : NoNL (joinWith [0x3B] signed) ∧ NoNL (joinWith [0x3B] signed'))
    (hb : NoNL c.bodySha ∧ NoNL c'.bodySha) :
    (compactUtc a.timestamp = compactUtc a'.timestamp ∧
      (splitFirst 0x2F a.credential).2 = (splitFirst 0x2F a'.credential).2 ∧
      c.method = c'.method ∧ c.path = c'.path ∧ canonQuery c.params = canonQuery c'.params ∧
      signed.flatMap (headerLine c.headers) = signed'.flatMap (headerLine c'.headers) ∧
      joinWith [0x3B] signed = joinWith [0x3B] signed' ∧ c.bodySha = c'.bodySha)
    ∨ (sts ≠ sts' ∧ hmac H key sts = hmac H key sts')
    ∨ (canonicalRequest c signed ≠ canonicalRequest c' signed' ∧
        H (canonicalRequest c signed) = H (canonicalRequest c' signed')) := by
  have hh : hmac H key sts = hmac H key sts' :=
    hexLower_injective _ _ (by rw [← hv, ← hv', hsig])
  by_cases hne : sts = sts'
  · subst hne
    obtain ⟨e1, e2, e3⟩ := stringToSign_injective a a' sts hs hs' hy hy'
      (by rw [hc, hc']; exact hlen _ _)
    by_cases hcr : canonicalRequest c signed = canonicalRequest c' signed'
    · obtain ⟨f1, f2, f3, f4, f5, f6⟩ :=
        canonicalRequest_injective c c' signed signed' hcr hm hp hq hl hb
      exact .inl ⟨e1, e2, f1, f2, f3, f4, f5, f6⟩
    · exact .inr (.inr ⟨hcr, by rw [← hc, ← hc', e3]⟩)
  · exact .inr (.inl ⟨hne, hh⟩)

end SigV4

#print axioms SigV4.one_signature_one_request_lemma
