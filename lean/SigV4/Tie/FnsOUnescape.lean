/-
  SigV4.Tie.FnsOUnescape — `unescape_uri_encoding` (src/canonical.rs: a byte iterator, `chars.next().expect(..)`,
  `u8::from_str_radix(.., 16)`, `panic!` on a bad escape), translated statement by statement from /repo/src on this run
  (SigV4/Source/GeneratedFnsO.lean), is the model's `unescapeUri`: the same text for every input, and a panic exactly where
  the model has one (an incomplete or non-hexadecimal escape — which normal-form text never contains, see
  `C08.unescape_total_on_normal`).
-/
import SigV4.Source.GeneratedFnsO
import SigV4.Model.Uri
import SigV4.Tie.Basic

namespace SigV4.Tie.Unesc

open SigV4

theorem bind_eq {α β : Type} (x : Outcome α) (f : α → Outcome β) : x >>= f = x.bind f := rfl
theorem pure_eq {α : Type} (a : α) : (pure a : Outcome α) = .ok a := rfl

abbrev St := Bytes × Bytes × Bool

/-- One iteration of the generated loop, in explicit form. -/
def step (st : St) : Outcome (ForInStep St) :=
  match Rust.iterNext st.2.1 with
  | some (c, rest_1) =>
    if (c == 37) = true then
      (Rust.unwrapOpt (Rust.iterNext rest_1) "unescape_uri_encoding:expect#1").bind fun nx_2 =>
      (Rust.setIdx [0, 0] 0 nx_2.1 "unescape_uri_encoding:index-assign#2").bind fun hd1 =>
      (Rust.unwrapOpt (Rust.iterNext nx_2.2) "unescape_uri_encoding:expect#3").bind fun nx_3 =>
      (Rust.setIdx hd1 1 nx_3.1 "unescape_uri_encoding:index-assign#4").bind fun hd2 =>
      (Rust.unwrapOpt (Rust.fromUtf8 hd2) "unescape_uri_encoding:unwrap#5").bind fun str =>
      match Rust.u8FromStrRadix16 str with
      | some c => .ok (ForInStep.yield (st.1 ++ Rust.utf8 c.toNat, nx_3.2, st.2.2))
      | none => .panic "unescape_uri_encoding:panic#6"
    else .ok (ForInStep.yield (st.1 ++ Rust.utf8 c.toNat, rest_1, st.2.2))
  | none => .ok (ForInStep.done (st.1, st.2.1, true))

def post (st : St) : Outcome Bytes := if (!st.2.2) = true then .panic "fuel" else .ok st.1

theorem gen_eq (fuel : Nat) (s : Bytes) :
    Src.fnO.unescape_uri_encoding fuel s =
      (forIn (List.range fuel) (([], s, false) : St) (fun _ st => step st)).bind post := rfl

theorem utf8_byte : ∀ c : UInt8, Rust.utf8 c.toNat = latin1Byte c :=
  forall_uint8_of_fin (by decide +kernel)

theorem hexVal_ascii : ∀ c : UInt8, (hexVal c).isSome = true → c < 0x80 :=
  forall_uint8_of_fin (by decide +kernel)

theorem radix_eq (h1 h2 : UInt8) : Rust.u8FromStrRadix16 [h1, h2] = radix16Pair h1 h2 := rfl

theorem valid_of_radix (h1 h2 v : UInt8) (h : radix16Pair h1 h2 = some v) : utf8Valid [h1, h2] = true := by
  have a2 : h2 < 0x80 := by
    apply hexVal_ascii
    unfold radix16Pair at h
    by_cases e : h1 = 0x2B
    · simp only [e, if_true] at h; simp [h]
    · simp only [e, if_false] at h
      cases h1v : hexVal h1 <;> cases h2v : hexVal h2 <;> simp [h1v, h2v] at h ⊢
  have a1 : h1 < 0x80 := by
    by_cases e : h1 = 0x2B
    · subst e; decide
    · apply hexVal_ascii
      unfold radix16Pair at h
      simp only [e, if_false] at h
      cases h1v : hexVal h1 <;> cases h2v : hexVal h2 <;> simp [h1v, h2v] at h ⊢
  simp [utf8Valid, a1, a2]

theorem step_nil (res : Bytes) (d : Bool) : step (res, [], d) = .ok (.done (res, [], true)) := rfl

theorem step_plain (res rest : Bytes) (c : UInt8) (d : Bool) (hc : c ≠ 0x25) :
    step (res, c :: rest, d) = .ok (.yield (res ++ latin1Byte c, rest, d)) := by
  have : (c == 37) = false := by simpa using hc
  simp [step, Rust.iterNext, this, utf8_byte]

theorem step_pct0 (res : Bytes) (d : Bool) :
    step (res, [0x25], d) = .panic "unescape_uri_encoding:expect#1" := rfl

theorem step_pct1 (res : Bytes) (h1 : UInt8) (d : Bool) :
    step (res, [0x25, h1], d) = .panic "unescape_uri_encoding:expect#3" := rfl

theorem step_pct_ok (res rest : Bytes) (h1 h2 v : UInt8) (d : Bool) (h : radix16Pair h1 h2 = some v) :
    step (res, 0x25 :: h1 :: h2 :: rest, d) = .ok (.yield (res ++ latin1Byte v, rest, d)) := by
  have hv := valid_of_radix h1 h2 v h
  have e : step (res, 0x25 :: h1 :: h2 :: rest, d) =
      (Rust.unwrapOpt (Rust.fromUtf8 [h1, h2]) "unescape_uri_encoding:unwrap#5").bind fun str =>
      match Rust.u8FromStrRadix16 str with
      | some c => .ok (ForInStep.yield (res ++ Rust.utf8 c.toNat, rest, d))
      | none => .panic "unescape_uri_encoding:panic#6" := rfl
  rw [e]
  simp only [Rust.fromUtf8, hv, if_true, Rust.unwrapOpt, Outcome.bind_ok, radix_eq, h, utf8_byte]

theorem step_pct_bad (res rest : Bytes) (h1 h2 : UInt8) (d : Bool) (h : radix16Pair h1 h2 = none) :
    ∃ site, step (res, 0x25 :: h1 :: h2 :: rest, d) = .panic site := by
  have e : step (res, 0x25 :: h1 :: h2 :: rest, d) =
      (Rust.unwrapOpt (Rust.fromUtf8 [h1, h2]) "unescape_uri_encoding:unwrap#5").bind fun str =>
      match Rust.u8FromStrRadix16 str with
      | some c => .ok (ForInStep.yield (res ++ Rust.utf8 c.toNat, rest, d))
      | none => .panic "unescape_uri_encoding:panic#6" := rfl
  rw [e]
  cases hv : utf8Valid [h1, h2]
  · exact ⟨"unescape_uri_encoding:unwrap#5", by simp only [Rust.fromUtf8, hv, Rust.unwrapOpt]; rfl⟩
  · exact ⟨"unescape_uri_encoding:panic#6",
      by simp only [Rust.fromUtf8, hv, if_true, Rust.unwrapOpt, Outcome.bind_ok, radix_eq, h]⟩

theorem forIn_cons_step (a : Nat) (l : List Nat) (st : St) :
    forIn (a :: l) st (fun _ st => step st) =
      (step st).bind fun r => match r with
        | .done b => .ok b
        | .yield b => forIn l b (fun _ st => step st) := by
  rw [List.forIn_cons]
  show Outcome.bind _ _ = _
  congr 1
  funext r
  cases r <;> rfl

theorem map_map {α β γ : Type} (f : α → β) (g : β → γ) (x : Outcome α) :
    (x.map f).map g = x.map (fun a => g (f a)) := by cases x <;> rfl

theorem unesc_plain (c : UInt8) (rest : Bytes) (hc : c ≠ 0x25) :
    unescapeUri (c :: rest) = (unescapeUri rest).map (latin1Byte c ++ ·) := by
  rw [unescapeUri.eq_def]
  simp only [hc, if_false]

theorem loop_spec (n : Nat) : ∀ (chars : Bytes) (l : List Nat) (res : Bytes), chars.length ≤ n →
    chars.length < l.length →
    SameUpToSite ((forIn l ((res, chars, false) : St) (fun _ st => step st)).bind post)
      ((unescapeUri chars).map (res ++ ·)) := by
  induction n with
  | zero =>
    intro chars l res hn hl
    cases chars with
    | cons _ _ => simp at hn
    | nil =>
      cases l with
      | nil => simp at hl
      | cons a l =>
        rw [forIn_cons_step, step_nil]
        simp [unescapeUri, post, SameUpToSite]
  | succ n ih =>
    intro chars l res hn hl
    cases l with
    | nil => simp at hl
    | cons a l =>
      rw [forIn_cons_step]
      cases chars with
      | nil => rw [step_nil]; simp [unescapeUri, post, SameUpToSite]
      | cons c rest =>
        simp only [List.length_cons] at hn hl
        by_cases hc : c = 0x25
        · subst hc
          match rest with
          | [] => rw [step_pct0]; simp [unescapeUri, SameUpToSite]
          | [h1] => rw [step_pct1]; simp [unescapeUri, SameUpToSite]
          | h1 :: h2 :: rest' =>
            simp only [List.length_cons] at hn hl
            cases hr : radix16Pair h1 h2 with
            | none =>
              obtain ⟨site, hs⟩ := step_pct_bad res rest' h1 h2 false hr
              rw [hs]
              simp [unescapeUri, hr, SameUpToSite]
            | some v =>
              rw [step_pct_ok res rest' h1 h2 v false hr]
              simp only [Outcome.bind_ok]
              have := ih rest' l (res ++ latin1Byte v) (by omega) (by omega)
              simp only [unescapeUri, if_true, hr, map_map]
              simpa [List.append_assoc] using this
        · rw [step_plain res rest c false hc]
          simp only [Outcome.bind_ok]
          have := ih rest l (res ++ latin1Byte c) (by omega) (by omega)
          rw [unesc_plain c rest hc]
          simp only [map_map]
          simpa [List.append_assoc] using this

end SigV4.Tie.Unesc

namespace SigV4.Tie

open SigV4

theorem unescape_uri_encoding : ∀ f, Src.canonical.unescape_uri_encoding? = some f →
    ∀ (fuel : Nat) (s : Bytes), s.length < fuel → SameUpToSite (f fuel s) (unescapeUri s) := by
  intro f hf
  first
  | (simp only [Src.canonical.unescape_uri_encoding?, Option.some.injEq] at hf
     subst hf
     intro fuel s hlt
     rw [Unesc.gen_eq]
     have := Unesc.loop_spec s.length s (List.range fuel) [] (Nat.le_refl _) (by simpa using hlt)
     have e : (unescapeUri s).map (([] : Bytes) ++ ·) = unescapeUri s := by
       cases unescapeUri s <;> first | rfl | simp
     rw [e] at this
     exact this)
  | (simp [Src.canonical.unescape_uri_encoding?] at hf)

end SigV4.Tie

#print axioms SigV4.Tie.unescape_uri_encoding
