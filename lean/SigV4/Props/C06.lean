/-
  Property C06 — signing-key derivation equals the SigV4 HMAC chain for all inputs.
  `H` is an arbitrary hash with 64-byte blocks: nothing here depends on SHA-256 itself.
-/
import SigV4.Model.Keys
import SigV4.Lemmas.Keys

namespace SigV4.C06

/-- HMAC zero-pads a key of at most one block; so handing it the zero-filled buffer instead of the
`len`-byte prefix changes nothing. (The code feeds all `M = 44 ≤ 64` bytes of the buffer.) -/
theorem hmac_zero_pad (H : Bytes → Bytes) (k m : Bytes) (z : Nat) (h : k.length + z ≤ 64) :
    hmac H (k ++ List.replicate z 0) m = hmac H k m := by
  sorry

/-- A secret is accepted iff it fits behind the 4-byte prefix; longer ones are refused with the
error, and construction never panics — whatever the capacity. -/
theorem length_rule (M : Nat) (s : Bytes) :
    (s.length + 4 ≤ M → ∃ k, secretFromStr M s = .ok k) ∧
    (s.length + 4 > M → secretFromStr M s = .tooLong) ∧
    (∀ site, secretFromStr M s ≠ .panic site) := by
  sorry

/-- The secret read back from a key object is the secret that was put in, and the buffer has the
declared capacity. -/
theorem secret_roundtrip (M : Nat) (s : Bytes) (k : SecretKey) (h : secretFromStr M s = .ok k) :
    k.asRef = s ∧ k.buf.length = M ∧ k.buf.take k.len = AWS4 ++ s := by
  sorry

/-- kDate = HMAC("AWS4" + secret, YYYYMMDD), for every capacity up to one HMAC block. -/
theorem kdate_spec (H : Bytes → Bytes) (M : Nat) (hM : M ≤ 64) (s : Bytes) (k : SecretKey)
    (h : secretFromStr M s = .ok k) (date : Int × Int × Int) :
    toKDate H k date = hmac H (AWS4 ++ s) (fmtDate date) := by
  sorry

/-- The whole chain: kSigning = HMAC(HMAC(HMAC(HMAC("AWS4"+secret, date), region), service), "aws4_request"). -/
theorem ksigning_spec (H : Bytes → Bytes) (M : Nat) (hM : M ≤ 64) (s : Bytes) (k : SecretKey)
    (h : secretFromStr M s = .ok k) (date : Int × Int × Int) (region service : Bytes) :
    toKSigning H k date region service =
      hmac H (hmac H (hmac H (hmac H (AWS4 ++ s) (fmtDate date)) region) service) AWS4_REQUEST ∧
    toKService H k date region service =
      hmac H (hmac H (hmac H (AWS4 ++ s) (fmtDate date)) region) service ∧
    toKRegion H k date region = hmac H (hmac H (AWS4 ++ s) (fmtDate date)) region := by
  sorry

/-- Every shortcut derivation equals the step-by-step one. -/
theorem shortcuts_agree (H : Bytes → Bytes) (k : SecretKey) (date : Int × Int × Int) (region service : Bytes) :
    let kd := toKDate H k date
    let kr := kdateToKRegion H kd region
    let ks := kregionToKService H kr service
    let kg := kserviceToKSigning H ks
    toKRegion H k date region = kr ∧ toKService H k date region service = ks ∧
    toKSigning H k date region service = kg ∧ kdateToKService H kd region service = ks ∧
    kdateToKSigning H kd region service = kg ∧ kregionToKSigning H kr service = kg := by
  sorry

/-- The date enters as exactly eight ASCII digits YYYYMMDD for every calendar date of years 0-9999. -/
theorem fmtDate_shape (y m d : Int) (hy : 0 ≤ y ∧ y ≤ 9999) (hm : 1 ≤ m ∧ m ≤ 12) (hd : 1 ≤ d ∧ d ≤ 31) :
    (fmtDate (y, m, d)).length = 8 ∧ (∀ c ∈ fmtDate (y, m, d), isDigit c = true) ∧
    digitsVal (fmtDate (y, m, d)) = (y * 10000 + m * 100 + d).toNat := by
  sorry

example : ∃ k, secretFromStr 44 b!"wJalrXUtnFEMI/K7MDENG+bPxRfiCYEXAMPLEKEY" = .ok k := ⟨_, rfl⟩
example : secretFromStr 44 b!"short" ≠ .tooLong := by decide
example : secretFromStr 3 b!"" = .tooLong := by decide
example : fmtDate (2015, 8, 30) = b!"20150830" := by decide

end SigV4.C06

#print axioms SigV4.C06.hmac_zero_pad
#print axioms SigV4.C06.length_rule
#print axioms SigV4.C06.secret_roundtrip
#print axioms SigV4.C06.kdate_spec
#print axioms SigV4.C06.ksigning_spec
#print axioms SigV4.C06.shortcuts_agree
#print axioms SigV4.C06.fmtDate_shape
