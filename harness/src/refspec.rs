//! Independent reference implementations (the harness-side oracles). Written from the SigV4
//! specification and the property statements, in a different formulation from the crate:
//! decode-then-encode, stack machine over decoded segments, sort of decoded pairs, split/filter/join.
use hmac::{Hmac, Mac};
use sha2::{Digest, Sha256};

pub fn sha256(b: &[u8]) -> Vec<u8> {
    let mut h = Sha256::new();
    h.update(b);
    h.finalize().to_vec()
}

pub fn hmac256(k: &[u8], m: &[u8]) -> Vec<u8> {
    let mut mac = Hmac::<Sha256>::new_from_slice(k).unwrap();
    mac.update(m);
    mac.finalize().into_bytes().to_vec()
}

pub fn unreserved(c: u8) -> bool {
    c.is_ascii_alphanumeric() || c == b'-' || c == b'.' || c == b'_' || c == b'~'
}

pub fn encode(bytes: &[u8]) -> Vec<u8> {
    let mut out = Vec::new();
    for &c in bytes {
        if unreserved(c) {
            out.push(c);
        } else {
            out.extend_from_slice(format!("%{:02X}", c).as_bytes());
        }
    }
    out
}

fn hexv(c: u8) -> Option<u8> {
    (c as char).to_digit(16).map(|d| d as u8)
}

/// Percent-decode; `plus_is_space` is the query convention. None on a malformed escape.
pub fn decode(s: &[u8], plus_is_space: bool) -> Option<Vec<u8>> {
    let mut out = Vec::new();
    let mut i = 0;
    while i < s.len() {
        match s[i] {
            b'%' => {
                if i + 2 >= s.len() {
                    return None;
                }
                let a = hexv(s[i + 1])?;
                let b = hexv(s[i + 2])?;
                out.push(a * 16 + b);
                i += 3;
            }
            b'+' if plus_is_space => {
                out.push(b' ');
                i += 1;
            }
            c => {
                out.push(c);
                i += 1;
            }
        }
    }
    Some(out)
}

/// Reference normal form of one element: decode once, encode once.
pub fn ref_elem(s: &[u8], is_query: bool) -> Option<Vec<u8>> {
    decode(s, is_query).map(|d| encode(&d))
}

/// Reference canonical path (DESIGN §8.1 reading for the trailing slash). `plus_is_space` selects
/// the crate's reading of `+` inside a path (true) or the specification's (false).
pub fn ref_path(p: &[u8], s3: bool, plus_is_space: bool) -> Option<Vec<u8>> {
    if p.is_empty() {
        return Some(b"/".to_vec());
    }
    if p[0] != b'/' {
        return None;
    }
    let raw: Vec<&[u8]> = p[1..].split(|c| *c == b'/').collect();
    let mut decoded = Vec::new();
    for seg in &raw {
        decoded.push(decode(seg, plus_is_space)?);
    }
    if s3 {
        let enc: Vec<Vec<u8>> = decoded.iter().map(|d| encode(d)).collect();
        let mut out = b"/".to_vec();
        out.extend(enc.join(&b'/'));
        return Some(out);
    }
    let mut stack: Vec<Vec<u8>> = Vec::new();
    let n = decoded.len();
    let mut trailing = false;
    for (i, seg) in decoded.into_iter().enumerate() {
        // a malformed escape later in the path must still be reported, so decode happened first;
        // but the crate reports "above root" as soon as it meets it: both are the same error kind.
        if seg.is_empty() {
            if i == n - 1 {
                trailing = true;
            }
        } else if seg == b"." {
        } else if seg == b".." {
            if stack.pop().is_none() {
                return None;
            }
        } else {
            stack.push(seg);
        }
    }
    let mut out = b"/".to_vec();
    let enc: Vec<Vec<u8>> = stack.iter().map(|d| encode(d)).collect();
    out.extend(enc.join(&b'/'));
    if trailing && !stack.is_empty() {
        out.push(b'/');
    }
    Some(out)
}

/// Decoded (name, value) pairs of a query string, in order; None on a malformed escape.
pub fn ref_query_pairs(q: &[u8]) -> Option<Vec<(Vec<u8>, Vec<u8>)>> {
    let mut out = Vec::new();
    for comp in q.split(|c| *c == b'&') {
        if comp.is_empty() {
            continue;
        }
        let (k, v) = match comp.iter().position(|c| *c == b'=') {
            Some(i) => (&comp[..i], &comp[i + 1..]),
            None => (comp, &b""[..]),
        };
        out.push((decode(k, true)?, decode(v, true)?));
    }
    Some(out)
}

/// Canonical query of decoded pairs: encode once, drop X-Amz-Signature, sort by (name, value), join.
pub fn ref_canon_query_pairs(pairs: &[(Vec<u8>, Vec<u8>)]) -> Vec<u8> {
    let mut enc: Vec<(Vec<u8>, Vec<u8>)> =
        pairs.iter().filter(|(k, _)| k.as_slice() != b"X-Amz-Signature").map(|(k, v)| (encode(k), encode(v))).collect();
    enc.sort();
    let parts: Vec<Vec<u8>> = enc
        .into_iter()
        .map(|(k, v)| {
            let mut s = k;
            s.push(b'=');
            s.extend(v);
            s
        })
        .collect();
    parts.join(&b'&')
}

pub fn ref_canon_query(q: &[u8]) -> Option<Vec<u8>> {
    ref_query_pairs(q).map(|p| ref_canon_query_pairs(&p))
}

/// Header value: split on spaces, drop empties, join with one space.
pub fn ref_hval(v: &[u8]) -> Vec<u8> {
    let parts: Vec<&[u8]> = v.split(|c| *c == b' ').filter(|p| !p.is_empty()).collect();
    parts.join(&b' ')
}

// ---------------------------------------------------------------------------------------------
// Timestamps

pub fn is_leap(y: i64) -> bool {
    (y % 4 == 0 && y % 100 != 0) || y % 400 == 0
}

pub fn days_in_month(y: i64, m: i64) -> i64 {
    match m {
        1 | 3 | 5 | 7 | 8 | 10 | 12 => 31,
        4 | 6 | 9 | 11 => 30,
        _ => {
            if is_leap(y) {
                29
            } else {
                28
            }
        }
    }
}

/// Days since 1970-01-01, by counting (different algorithm from the model's).
pub fn days_from_civil(y: i64, m: i64, d: i64) -> i64 {
    let yy = y - 1;
    let mut days = 365 * yy + yy.div_euclid(4) - yy.div_euclid(100) + yy.div_euclid(400);
    for mm in 1..m {
        days += days_in_month(y, mm);
    }
    days += d - 1;
    days - 719162 // days from 0001-01-01 to 1970-01-01
}

/// Reference ISO-8601 parser per property C16: basic or extended (each separator optional),
/// optional fraction, `Z` or `+-hh[:]mm`. Returns nanoseconds since the epoch.
pub fn ref_parse_iso(s: &[u8]) -> Option<i128> {
    let mut i = 0usize;
    let num = |i: &mut usize, n: usize| -> Option<i64> {
        if *i + n > s.len() {
            return None;
        }
        let mut v = 0i64;
        for k in 0..n {
            let c = s[*i + k];
            if !c.is_ascii_digit() {
                return None;
            }
            v = v * 10 + (c - b'0') as i64;
        }
        *i += n;
        Some(v)
    };
    let opt = |i: &mut usize, c: u8| {
        if *i < s.len() && s[*i] == c {
            *i += 1;
        }
    };
    let y = num(&mut i, 4)?;
    opt(&mut i, b'-');
    let mo = num(&mut i, 2)?;
    opt(&mut i, b'-');
    let d = num(&mut i, 2)?;
    if i >= s.len() || s[i] != b'T' {
        return None;
    }
    i += 1;
    let h = num(&mut i, 2)?;
    opt(&mut i, b':');
    let mi = num(&mut i, 2)?;
    opt(&mut i, b':');
    let sec = num(&mut i, 2)?;
    let mut nanos: i128 = 0;
    if i < s.len() && (s[i] == b'.' || s[i] == b',') {
        i += 1;
        let start = i;
        let mut scale = 100_000_000i128;
        while i < s.len() && s[i].is_ascii_digit() {
            nanos += (s[i] - b'0') as i128 * scale;
            scale /= 10;
            i += 1;
        }
        if i == start {
            return None;
        }
    }
    if i >= s.len() {
        return None;
    }
    let off: i64;
    if s[i] == b'Z' {
        i += 1;
        off = 0;
    } else if s[i] == b'+' || s[i] == b'-' {
        let sign = if s[i] == b'-' { -1 } else { 1 };
        i += 1;
        let oh = num(&mut i, 2)?;
        opt(&mut i, b':');
        let om = num(&mut i, 2)?;
        if oh > 23 || om > 59 {
            return None;
        }
        off = sign * (oh * 3600 + om * 60);
    } else {
        return None;
    }
    if i != s.len() {
        return None;
    }
    if !(1..=12).contains(&mo) || d < 1 || d > days_in_month(y, mo) || h > 23 || mi > 59 || sec > 59 {
        return None;
    }
    let secs = days_from_civil(y, mo, d) * 86400 + h * 3600 + mi * 60 + sec - off;
    Some(secs as i128 * 1_000_000_000 + nanos)
}

/// Civil date of a day number (by search; reference only).
pub fn civil_from_days(z: i64) -> (i64, i64, i64) {
    let mut y = 1970 + z.div_euclid(366);
    while days_from_civil(y + 1, 1, 1) <= z {
        y += 1;
    }
    while days_from_civil(y, 1, 1) > z {
        y -= 1;
    }
    let mut rem = z - days_from_civil(y, 1, 1);
    let mut m = 1;
    while rem >= days_in_month(y, m) {
        rem -= days_in_month(y, m);
        m += 1;
    }
    (y, m, rem + 1)
}

/// `YYYYMMDD'T'hhmmss'Z'` of an instant (years 0..9999).
pub fn ref_compact(ns: i128) -> (String, String) {
    let secs = ns.div_euclid(1_000_000_000) as i64;
    let days = secs.div_euclid(86400);
    let sod = secs.rem_euclid(86400);
    let (y, m, d) = civil_from_days(days);
    let date = format!("{:04}{:02}{:02}", y, m, d);
    (format!("{}T{:02}{:02}{:02}Z", date, sod / 3600, sod % 3600 / 60, sod % 60), date)
}

// ---------------------------------------------------------------------------------------------
// Key derivation and signing

pub fn signing_key(secret: &[u8], date: &str, region: &str, service: &str) -> Vec<u8> {
    let mut k = b"AWS4".to_vec();
    k.extend_from_slice(secret);
    let kd = hmac256(&k, date.as_bytes());
    let kr = hmac256(&kd, region.as_bytes());
    let ks = hmac256(&kr, service.as_bytes());
    hmac256(&ks, b"aws4_request")
}

pub fn key_chain(secret: &[u8], date: &str, region: &str, service: &str) -> [Vec<u8>; 4] {
    let mut k = b"AWS4".to_vec();
    k.extend_from_slice(secret);
    let kd = hmac256(&k, date.as_bytes());
    let kr = hmac256(&kd, region.as_bytes());
    let ks = hmac256(&kr, service.as_bytes());
    let kg = hmac256(&ks, b"aws4_request");
    [kd, kr, ks, kg]
}

/// The canonical request of a logical request, from its decoded components.
pub struct CanonInput<'a> {
    pub method: &'a str,
    /// canonical path already in reference normal form
    pub path: Vec<u8>,
    /// decoded (name, value) pairs: everything that counts as query (URL, folded body, auth parameters)
    pub pairs: Vec<(Vec<u8>, Vec<u8>)>,
    /// signed headers: lower-case name -> values in arrival order
    pub headers: Vec<(String, Vec<Vec<u8>>)>,
    /// payload that is hashed
    pub payload: &'a [u8],
}

pub fn canonical_request(ci: &CanonInput) -> (Vec<u8>, String) {
    let mut hs = ci.headers.clone();
    hs.sort_by(|a, b| a.0.as_bytes().cmp(b.0.as_bytes()));
    let mut out = Vec::new();
    out.extend_from_slice(ci.method.as_bytes());
    out.push(b'\n');
    out.extend_from_slice(&ci.path);
    out.push(b'\n');
    out.extend_from_slice(&ref_canon_query_pairs(&ci.pairs));
    out.push(b'\n');
    for (n, vs) in &hs {
        out.extend_from_slice(n.as_bytes());
        out.push(b':');
        let vals: Vec<Vec<u8>> = vs.iter().map(|v| ref_hval(v)).collect();
        out.extend(vals.join(&b','));
        out.push(b'\n');
    }
    out.push(b'\n');
    let signed = hs.iter().map(|(n, _)| n.clone()).collect::<Vec<_>>().join(";");
    out.extend_from_slice(signed.as_bytes());
    out.push(b'\n');
    out.extend_from_slice(hex::encode(sha256(ci.payload)).as_bytes());
    (out, signed)
}

pub fn string_to_sign(compact_ts: &str, scope: &str, creq: &[u8]) -> Vec<u8> {
    format!("AWS4-HMAC-SHA256\n{}\n{}\n{}", compact_ts, scope, hex::encode(sha256(creq))).into_bytes()
}

pub fn sign(key: &[u8], sts: &[u8]) -> String {
    hex::encode(hmac256(key, sts))
}

/// Reference UTF-8 validity (std's).
pub fn utf8_valid(b: &[u8]) -> bool {
    std::str::from_utf8(b).is_ok()
}

/// Reference content-type parse per DESIGN §8.4: first Content-Type header, text before the first
/// `;` trimmed, and the first `charset=` option (name case-insensitive).
pub fn ref_content_type(headers: &[(String, Vec<u8>)]) -> Option<(Vec<u8>, Option<Vec<u8>>)> {
    let v = headers.iter().find(|(n, _)| n.eq_ignore_ascii_case("content-type")).map(|(_, v)| v)?;
    let ws = |c: &u8| matches!(*c, b' ' | b'\t' | b'\n' | 0x0c | b'\r');
    let trim = |s: &[u8]| -> Vec<u8> {
        let a = s.iter().position(|c| !ws(c)).unwrap_or(s.len());
        let b = s.iter().rposition(|c| !ws(c)).map(|i| i + 1).unwrap_or(a);
        s[a..b].to_vec()
    };
    let lat = |s: &[u8]| -> Vec<u8> { s.iter().map(|&b| b as char).collect::<String>().into_bytes() };
    let mut it = v.split(|c| *c == b';');
    let ct = lat(&trim(it.next().unwrap()));
    for opt in it {
        let o = trim(opt);
        if let Some(i) = o.iter().position(|c| *c == b'=') {
            if o[..i].eq_ignore_ascii_case(b"charset") {
                return Some((ct, Some(lat(&o[i + 1..]))));
            }
        }
    }
    Some((ct, None))
}
