/- Helper lemmas for C16/C04: calendar arithmetic (Calendar.lean) and the ISO matcher (IsoMatch.lean). -/
import SigV4.Lemmas.Calendar
import SigV4.Lemmas.IsoMatch
