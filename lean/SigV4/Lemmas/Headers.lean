/- Helper lemmas for C11 (header values and grouping). -/
import SigV4.Spec.HeaderSpec

namespace SigV4

/-! ### Bytes -/

theorem u8_forall {P : UInt8 → Prop} (h : ∀ n : Fin 256, P (UInt8.ofNat n.val)) : ∀ c, P c := by
  intro c
  have := h ⟨c.toNat, c.toNat_lt⟩
  simpa using this

set_option maxRecDepth 100000 in
theorem toLowerByte_idem : ∀ c : UInt8, toLowerByte (toLowerByte c) = toLowerByte c := by
  apply u8_forall
  decide

theorem asciiLower_idem (s : Bytes) : asciiLower (asciiLower s) = asciiLower s := by
  induction s with
  | nil => rfl
  | cons c cs ih =>
    simp only [asciiLower, List.map_cons, List.cons.injEq] at ih ⊢
    exact ⟨toLowerByte_idem c, ih⟩

/-! ### `dropWhileEnd` -/

theorem dropWhileEnd_nil (p : UInt8 → Bool) : dropWhileEnd p [] = [] := rfl

theorem dropWhileEnd_cons (p : UInt8 → Bool) (c : UInt8) (s : Bytes) :
    dropWhileEnd p (c :: s) =
      if p c = true ∧ dropWhileEnd p s = [] then [] else c :: dropWhileEnd p s := by
  unfold dropWhileEnd
  rw [List.reverse_cons, List.dropWhile_append]
  by_cases h : (List.dropWhile p s.reverse) = []
  · by_cases hc : p c = true <;> simp [h, hc]
  · simp [h]

theorem dropWhileEnd_append_singleton_pos (p : UInt8 → Bool) (s : Bytes) (c : UInt8) (h : p c = true) :
    dropWhileEnd p (s ++ [c]) = dropWhileEnd p s := by
  unfold dropWhileEnd
  simp [List.reverse_append, h]

theorem dropWhileEnd_eq_self (p : UInt8 → Bool) (s : Bytes)
    (h : ∀ c, s.getLast? = some c → p c = false) : dropWhileEnd p s = s := by
  unfold dropWhileEnd
  cases hs : s.reverse with
  | nil => simp at hs; simp [hs]
  | cons c t =>
    have hl : s.getLast? = some c := by
      rw [List.getLast?_eq_head?_reverse, hs]; rfl
    have hp := h c hl
    rw [List.dropWhile_cons, hp]
    simp only [Bool.false_eq_true, if_false]
    rw [← hs, List.reverse_reverse]

/-- The result of `dropWhileEnd` is a prefix of the input. -/
theorem dropWhileEnd_prefix (p : UInt8 → Bool) (s : Bytes) : ∃ t, s = dropWhileEnd p s ++ t := by
  induction s with
  | nil => exact ⟨[], rfl⟩
  | cons c s ih =>
    rw [dropWhileEnd_cons]
    obtain ⟨t, ht⟩ := ih
    split
    · exact ⟨c :: s, rfl⟩
    · exact ⟨t, by rw [List.cons_append, ← ht]⟩

theorem dropWhileEnd_getLast (p : UInt8 → Bool) (s : Bytes) (c : UInt8)
    (h : (dropWhileEnd p s).getLast? = some c) : p c = false := by
  induction s with
  | nil => simp [dropWhileEnd_nil] at h
  | cons d s ih =>
    rw [dropWhileEnd_cons] at h
    split at h
    · simp at h
    · rename_i hn
      cases hd : dropWhileEnd p s with
      | nil =>
        rw [hd] at h
        simp at h
        subst h
        cases hp : p d with
        | false => rfl
        | true => exact absurd ⟨hp, hd⟩ hn
      | cons e t =>
        rw [hd] at h ih
        rw [List.getLast?_cons_cons] at h
        exact ih h

/-! ### The `Good` shape: no leading space (when the flag is set) and no doubled space -/

def Good : Bool → Bytes → Prop
  | _, [] => True
  | lws, c :: cs => (c = 0x20 → lws = false) ∧ Good (c == 0x20) cs

theorem good_nhvLoop (lws : Bool) (v : Bytes) : Good lws (nhvLoop lws v) := by
  induction v generalizing lws with
  | nil => simp [nhvLoop, Good]
  | cons c cs ih =>
    unfold nhvLoop
    by_cases hc : c = 0x20
    · cases lws
      · rw [if_pos hc, if_neg (by simp)]
        exact ⟨fun _ => rfl, by simpa using ih true⟩
      · rw [if_pos hc, if_pos rfl]
        exact ih true
    · rw [if_neg hc]
      refine ⟨fun h => absurd h hc, ?_⟩
      have : (c == 0x20) = false := by simpa using hc
      rw [this]
      exact ih false

theorem good_prefix (lws : Bool) (a b : Bytes) (h : Good lws (a ++ b)) : Good lws a := by
  induction a generalizing lws with
  | nil => simp [Good]
  | cons c cs ih =>
    simp only [List.cons_append, Good] at h ⊢
    exact ⟨h.1, ih _ h.2⟩

theorem good_head (l : Bytes) (h : Good true l) : l.head? ≠ some (0x20 : UInt8) := by
  cases l with
  | nil => simp
  | cons c cs =>
    simp only [Good] at h
    intro hc
    simp at hc
    have := h.1 hc
    simp at this

theorem good_nodbl (lws : Bool) (l : Bytes) (h : Good lws l) (i : Nat)
    (hi : l[i]? = some (0x20 : UInt8)) : l[i+1]? ≠ some (0x20 : UInt8) := by
  induction l generalizing lws i with
  | nil => simp
  | cons c cs ih =>
    simp only [Good] at h
    cases i with
    | succ j =>
      simp only [List.getElem?_cons_succ] at hi ⊢
      exact ih _ h.2 j hi
    | zero =>
      simp only [List.getElem?_cons_zero, Option.some.injEq] at hi
      subst hi
      simp only [Nat.zero_add, List.getElem?_cons_succ]
      cases cs with
      | nil => simp
      | cons d ds =>
        simp only [List.getElem?_cons_zero, ne_eq, Option.some.injEq]
        have h2 := h.2
        simp only [Good] at h2
        intro hd
        have := h2.1 hd
        simp at this

theorem nhvLoop_of_good (lws : Bool) (l : Bytes) (h : Good lws l) : nhvLoop lws l = l := by
  induction l generalizing lws with
  | nil => rfl
  | cons c cs ih =>
    simp only [Good] at h
    unfold nhvLoop
    by_cases hc : c = 0x20
    · have hl := h.1 hc
      subst hl
      have h2 := h.2
      simp only [hc, if_true, Bool.false_eq_true, if_false, List.cons.injEq, true_and]
      simp only [hc, beq_self_eq_true] at h2
      exact ih true h2
    · simp only [hc, if_false, List.cons.injEq, true_and]
      have h2 := h.2
      have : (c == 0x20) = false := by simpa using hc
      rw [this] at h2
      exact ih false h2

/-! ### Extra spaces -/

theorem nhvLoop_double_space (lws : Bool) (a b : Bytes) :
    nhvLoop lws (a ++ 0x20 :: 0x20 :: b) = nhvLoop lws (a ++ 0x20 :: b) := by
  induction a generalizing lws with
  | nil => cases lws <;> simp [nhvLoop]
  | cons c cs ih =>
    simp only [List.cons_append]
    unfold nhvLoop
    simp only [ih]

theorem nhvLoop_trailing_space (lws : Bool) (a : Bytes) :
    ∃ t, (t = [] ∨ t = [0x20]) ∧ nhvLoop lws (a ++ [0x20]) = nhvLoop lws a ++ t := by
  induction a generalizing lws with
  | nil => cases lws <;> simp [nhvLoop]
  | cons c cs ih =>
    simp only [List.cons_append]
    unfold nhvLoop
    obtain ⟨t1, ht1, e1⟩ := ih true
    obtain ⟨t2, ht2, e2⟩ := ih false
    by_cases hc : c = 0x20
    · cases lws
      · exact ⟨t1, ht1, by simp [hc, e1]⟩
      · exact ⟨t1, ht1, by simp [hc, e1]⟩
    · exact ⟨t2, ht2, by simp [hc, e2]⟩

/-! ### `splitOn` / `joinWith` -/

theorem splitOn_ne_nil (sep : UInt8) (s : Bytes) : splitOn sep s ≠ [] := by
  induction s with
  | nil => simp [splitOn]
  | cons c cs ih =>
    unfold splitOn
    split
    · simp
    · split <;> simp

theorem joinWith_cons (sep : Bytes) (x : Bytes) (xs : List Bytes) :
    joinWith sep (x :: xs) = x ++ xs.flatMap (fun y => sep ++ y) := by
  induction xs generalizing x with
  | nil => simp [joinWith]
  | cons y ys ih =>
    simp only [joinWith, ih, List.flatMap_cons, List.append_assoc]

theorem refHeaderValue_nil : refHeaderValue [] = [] := by decide

theorem refHeaderValue_space (cs : Bytes) : refHeaderValue (0x20 :: cs) = refHeaderValue cs := by
  simp [refHeaderValue, splitOn]

/-- The words of a value. -/
def wordsOf (v : Bytes) : List Bytes := (splitOn 0x20 v).filter (· ≠ [])

theorem refHeaderValue_eq_words (v : Bytes) : refHeaderValue v = joinWith [0x20] (wordsOf v) := rfl

theorem wordsOf_ne_nil (v : Bytes) : ∀ w ∈ wordsOf v, w ≠ [] := by
  intro w hw
  simp [wordsOf] at hw
  exact hw.2

theorem spaced_words (L : List Bytes) (h : ∀ w ∈ L, w ≠ []) :
    L.flatMap (fun y => [(0x20 : UInt8)] ++ y) =
      if joinWith [0x20] L = [] then [] else 0x20 :: joinWith [0x20] L := by
  cases L with
  | nil => simp [joinWith]
  | cons x xs =>
    have hx : x ≠ [] := h x (by simp)
    rw [joinWith_cons]
    simp [hx]

theorem refHeaderValue_single (c : UInt8) (hc : c ≠ 0x20) : refHeaderValue [c] = [c] := by
  simp [refHeaderValue, splitOn, hc, joinWith]

theorem refHeaderValue_cons_space (c : UInt8) (hc : c ≠ 0x20) (cs : Bytes) :
    refHeaderValue (c :: 0x20 :: cs) =
      c :: (if refHeaderValue cs = [] then [] else 0x20 :: refHeaderValue cs) := by
  have h1 : wordsOf (c :: 0x20 :: cs) = [c] :: wordsOf cs := by
    simp [wordsOf, splitOn, hc]
  rw [refHeaderValue_eq_words, h1, joinWith_cons, spaced_words _ (wordsOf_ne_nil cs),
    ← refHeaderValue_eq_words]
  rfl

theorem refHeaderValue_cons_cons (c d : UInt8) (hc : c ≠ 0x20) (hd : d ≠ 0x20) (cs : Bytes) :
    refHeaderValue (c :: d :: cs) = c :: refHeaderValue (d :: cs) := by
  rcases hs : splitOn 0x20 cs with _ | ⟨p, ps⟩
  · exact absurd hs (splitOn_ne_nil _ _)
  · have h1 : wordsOf (d :: cs) = (d :: p) :: ps.filter (· ≠ []) := by
      simp [wordsOf, splitOn, hd, hs]
    have h2 : wordsOf (c :: d :: cs) = (c :: d :: p) :: ps.filter (· ≠ []) := by
      simp [wordsOf, splitOn, hc, hd, hs]
    rw [refHeaderValue_eq_words, refHeaderValue_eq_words, h1, h2, joinWith_cons, joinWith_cons]
    rfl

/-! ### `normHeaderValue` against the reference -/

/-- Trimmed loop output with an arbitrary initial flag. -/
def normFrom (lws : Bool) (v : Bytes) : Bytes := dropWhileEnd (· == 0x20) (nhvLoop lws v)

/-- What `normFrom false` is in terms of the reference. -/
def refFalse (v : Bytes) : Bytes :=
  match v with
  | [] => []
  | c :: cs =>
    if c = 0x20 then (if refHeaderValue cs = [] then [] else 0x20 :: refHeaderValue cs)
    else refHeaderValue (c :: cs)

theorem normFrom_space_true (cs : Bytes) : normFrom true (0x20 :: cs) = normFrom true cs := by
  simp [normFrom, nhvLoop]

theorem normFrom_space_false (cs : Bytes) :
    normFrom false (0x20 :: cs) = if normFrom true cs = [] then [] else 0x20 :: normFrom true cs := by
  by_cases h : normFrom true cs = []
  · have h' := h
    simp only [normFrom] at h'
    simp [normFrom, nhvLoop, dropWhileEnd_cons, h']
  · have h' := h
    simp only [normFrom] at h'
    simp [normFrom, nhvLoop, dropWhileEnd_cons, h']

theorem normFrom_nonspace (lws : Bool) (c : UInt8) (hc : c ≠ 0x20) (cs : Bytes) :
    normFrom lws (c :: cs) = c :: normFrom false cs := by
  simp [normFrom, nhvLoop, dropWhileEnd_cons, hc]

theorem refHeaderValue_nonspace (c : UInt8) (hc : c ≠ 0x20) (cs : Bytes) :
    refHeaderValue (c :: cs) = c :: refFalse cs := by
  cases cs with
  | nil => simp [refFalse, refHeaderValue_single c hc]
  | cons d ds =>
    by_cases hd : d = 0x20
    · subst hd
      rw [refHeaderValue_cons_space c hc]
      simp [refFalse]
    · rw [refHeaderValue_cons_cons c d hc hd]
      simp [refFalse, hd]

theorem normFrom_eq (v : Bytes) :
    normFrom true v = refHeaderValue v ∧ normFrom false v = refFalse v := by
  induction v with
  | nil => exact ⟨by decide, by decide⟩
  | cons c cs ih =>
    by_cases hc : c = 0x20
    · subst hc
      rw [normFrom_space_true, normFrom_space_false, refHeaderValue_space, ih.1]
      simp [refFalse]
    · rw [normFrom_nonspace _ c hc, normFrom_nonspace _ c hc, ih.2]
      refine ⟨(refHeaderValue_nonspace c hc cs).symm, ?_⟩
      simp only [refFalse, hc, if_false]
      exact (refHeaderValue_nonspace c hc cs).symm

theorem normHeaderValue_eq_ref (v : Bytes) : normHeaderValue v = refHeaderValue v :=
  (normFrom_eq v).1

/-! ### Shape -/

theorem normHeaderValue_good (v : Bytes) : Good true (normHeaderValue v) := by
  obtain ⟨t, ht⟩ := dropWhileEnd_prefix (· == 0x20) (nhvLoop true v)
  have h := good_nhvLoop true v
  rw [ht] at h
  exact good_prefix _ _ _ h

theorem normHeaderValue_last (v : Bytes) : (normHeaderValue v).getLast? ≠ some (0x20 : UInt8) := by
  intro h
  have := dropWhileEnd_getLast (· == 0x20) (nhvLoop true v) 0x20 h
  simp at this

theorem normHeaderValue_fix (l : Bytes) (hg : Good true l) (hl : l.getLast? ≠ some (0x20 : UInt8)) :
    normHeaderValue l = l := by
  unfold normHeaderValue
  rw [nhvLoop_of_good _ _ hg]
  apply dropWhileEnd_eq_self
  intro c hc
  cases hb : (c == 0x20) with
  | false => rfl
  | true =>
    have : c = 0x20 := by simpa using hb
    subst this
    exact absurd hc hl

/-! ### Grouping -/

theorem assocGet_assocPush {β : Type} (m : List (Bytes × List β)) (k name : Bytes) (v : β) :
    assocGet (assocPush m k v) name =
      if k = name then some ((assocGet m name).getD [] ++ [v]) else assocGet m name := by
  induction m with
  | nil =>
    by_cases h : k = name <;> simp [assocPush, assocGet, h]
  | cons e rest ih =>
    obtain ⟨k', vs⟩ := e
    unfold assocPush
    by_cases h1 : k' = k
    · subst h1
      by_cases h2 : k' = name <;> simp [assocGet, h2]
    · simp only [h1, if_false]
      by_cases h2 : k' = name
      · subst h2
        have : ¬ k = k' := fun h => h1 h.symm
        simp [assocGet, this]
      · simp [assocGet, h2, ih]

theorem valuesOf_nil (name : Bytes) : valuesOf [] name = [] := rfl

theorem valuesOf_cons (k v : Bytes) (rest : HeaderList) (name : Bytes) :
    valuesOf ((k, v) :: rest) name =
      if asciiLower k = name then v :: valuesOf rest name else valuesOf rest name := by
  by_cases h : asciiLower k = name <;> simp [valuesOf, h]

theorem valuesOf_append (a b : HeaderList) (name : Bytes) :
    valuesOf (a ++ b) name = valuesOf a name ++ valuesOf b name := by
  simp [valuesOf]

theorem normalizeHeaders_get_gen (hs : HeaderList) (m : HeaderMap) (name : Bytes) :
    assocGet (normalizeHeaders hs m) name =
      match assocGet m name with
      | some vs => some (vs ++ (valuesOf hs name).map normHeaderValue)
      | none =>
        if valuesOf hs name = [] then none else some ((valuesOf hs name).map normHeaderValue) := by
  induction hs generalizing m with
  | nil =>
    simp only [normalizeHeaders, valuesOf_nil]
    cases assocGet m name <;> simp
  | cons e rest ih =>
    obtain ⟨k, v⟩ := e
    simp only [normalizeHeaders]
    rw [ih, assocGet_assocPush, valuesOf_cons]
    by_cases h : asciiLower k = name
    · simp only [h, if_true]
      cases assocGet m name <;> simp
    · simp only [h, if_false]

theorem normalizeHeaders_get' (hs : HeaderList) (name : Bytes) :
    assocGet (normalizeHeaders hs []) name =
      (if valuesOf hs name = [] then none else some ((valuesOf hs name).map normHeaderValue)) := by
  rw [normalizeHeaders_get_gen]
  rfl

theorem headerLine_eq_ref (hs : HeaderList) (name : Bytes) :
    headerLine (normalizeHeaders hs []) name = refHeaderLine hs name := by
  unfold headerLine refHeaderLine
  rw [normalizeHeaders_get']
  cases h : valuesOf hs name with
  | nil => simp
  | cons v vs =>
    have hf : normHeaderValue = refHeaderValue := funext normHeaderValue_eq_ref
    simp only [hf, List.map_cons, joinWith_cons]
    simp

theorem flatMap_congr' {α β : Type} (l : List α) (f g : α → List β) (h : ∀ a ∈ l, f a = g a) :
    l.flatMap f = l.flatMap g := by
  induction l with
  | nil => rfl
  | cons a as ih =>
    simp only [List.flatMap_cons]
    rw [h a (by simp), ih (fun b hb => h b (by simp [hb]))]

theorem refHeaderLine_congr (hs hs' : HeaderList) (name : Bytes)
    (h : valuesOf hs name = valuesOf hs' name) : refHeaderLine hs name = refHeaderLine hs' name := by
  unfold refHeaderLine
  rw [h]

theorem valuesOf_lower (hs : HeaderList) (name : Bytes) :
    valuesOf (hs.map fun h => (asciiLower h.1, h.2)) name = valuesOf hs name := by
  induction hs with
  | nil => rfl
  | cons e rest ih =>
    obtain ⟨k, v⟩ := e
    simp only [List.map_cons]
    rw [valuesOf_cons, valuesOf_cons, asciiLower_idem, ih]

theorem valuesOf_insert (hs : HeaderList) (extra : Bytes × Bytes) (i : Nat) (name : Bytes)
    (h : asciiLower extra.1 ≠ name) :
    valuesOf (hs.take i ++ extra :: hs.drop i) name = valuesOf hs name := by
  obtain ⟨k, v⟩ := extra
  rw [valuesOf_append, valuesOf_cons]
  simp only [] at h
  simp only [h, if_false]
  rw [← valuesOf_append, List.take_append_drop]

theorem refHeaderLine_of_ne (hs : HeaderList) (name : Bytes) (hne : valuesOf hs name ≠ []) :
    refHeaderLine hs name =
      name ++ [0x3A] ++ joinWith [0x2C] ((valuesOf hs name).map refHeaderValue) ++ [0x0A] := by
  unfold refHeaderLine
  cases h : valuesOf hs name with
  | nil => exact absurd h hne
  | cons v vs => rfl

end SigV4
