/-
  Property C13 — errors follow the documented precedence and a fixed kind/code/status taxonomy.

  Precedence is stated as a chain: "if every earlier check passes and this one fails, the error is
  this one's — whatever else is wrong with the request" (everything later is universally
  quantified, so later defects cannot change the outcome).
-/
import SigV4.Spec.ValidateSpec
import SigV4.Lemmas.C13

namespace SigV4.C13

variable {σ : Type} (H : Bytes → Bytes) (cfg : Config) (P : Provider σ) (s : σ) (req : Request)

/-- Rule 1: an invalid path is reported before anything else. -/
theorem rule1_path (k : ErrKind) (h : canonPath cfg.opts.s3 req.path = .err k) :
    (validate H cfg P s req).out = .err .InvalidURIPath := by
  sorry

/-- Rule 4: then a malformed query string. -/
theorem rule4_query (p : Bytes) (k : ErrKind) (hp : canonPath cfg.opts.s3 req.path = .ok p)
    (hq : parseQuery (req.query.getD []) = .err k) :
    (validate H cfg P s req).out = .err .MalformedQueryString := by
  sorry

/-- Rule 4b (folding only): then the form body — charset/encoding, then its own query syntax. -/
theorem rule4b_body (p : Bytes) (up : QueryMap) (hp : canonPath cfg.opts.s3 req.path = .ok p)
    (hq : parseQuery (req.query.getD []) = .ok up) (hf : foldsBody cfg.opts req.headers = true) :
    (decodeFormBody ((contentTypeCharset req.headers).bind (·.2)) cfg.other req.body = .err .InvalidBodyEncoding →
        (validate H cfg P s req).out = .err .InvalidBodyEncoding) ∧
    (∀ text k, decodeFormBody ((contentTypeCharset req.headers).bind (·.2)) cfg.other req.body = .ok text →
        parseQuery text = .err k → (validate H cfg P s req).out = .err .MalformedQueryString) := by
  sorry

/-- Rule 5: carrier presence / uniqueness. -/
theorem rule5_carrier (fp : FromParts) (hfp : fromRequestParts H cfg.opts cfg.other req = .ok fp) :
    (assocGet fp.creq.headers AUTHORIZATION = none → assocGet fp.creq.params X_AMZ_ALGORITHM = none →
        (validate H cfg P s req).out = .err .MissingAuthenticationToken) ∧
    (∀ x y, assocGet fp.creq.headers AUTHORIZATION = some x → assocGet fp.creq.params X_AMZ_ALGORITHM = some y →
        (validate H cfg P s req).out = .err .SignatureDoesNotMatch) := by
  sorry

/-- Rules 6a-6d / 7a-7d: algorithm, parameter syntax, missing parameters — whatever the carrier
extraction reports is what the caller sees. -/
theorem rule67_extraction (fp : FromParts) (k : ErrKind) (hfp : fromRequestParts H cfg.opts cfg.other req = .ok fp)
    (he : extractAuthParams fp.creq = .err k) :
    (validate H cfg P s req).out = .err k := by
  sorry

/-- 6a: a wrong algorithm in the Authorization header is an incomplete signature; 7a: in the query
it is a missing authentication token. 6b: a parameter without `=`; 6d/7d: a missing parameter. -/
theorem rule67_kinds (c : CanonReq) :
    (∀ ah, (splitFirst 0x20 (trimAscii ah)).1 ≠ AWS4_HMAC_SHA256 →
        authParamsFromHeader c ah = .err .IncompleteSignature) ∧
    (∀ alg, alg ≠ AWS4_HMAC_SHA256 → authParamsFromQuery c alg = .err .MissingAuthenticationToken) ∧
    (∀ ah k, authParamsFromHeader c ah = .err k → k = .IncompleteSignature) ∧
    (∀ alg k, authParamsFromQuery c alg = .err k → k = .IncompleteSignature ∨ k = .MissingAuthenticationToken) := by
  sorry

/-- Rule 8 and the declared requirements: signed-header violations come next (403). -/
theorem rule8_requirements (fp : FromParts) (ap : AuthParams) (hfp : fromRequestParts H cfg.opts cfg.other req = .ok fp)
    (he : extractAuthParams fp.creq = .ok ap) (hr : requirementsMet cfg.reqs fp.creq.headers ap.signedHeaders = false) :
    (validate H cfg P s req).out = .err .SignatureDoesNotMatch := by
  sorry

/-- Rule 9: then the date format. -/
theorem rule9_date (fp : FromParts) (ap : AuthParams) (hfp : fromRequestParts H cfg.opts cfg.other req = .ok fp)
    (hap : getAuthParams cfg.reqs fp.creq = .ok ap) (hd : parseIso ap.timestampStr = none) :
    (validate H cfg P s req).out = .err .IncompleteSignature := by
  sorry

/-- Rules 10/11: then expiry / not-yet-valid. Rule 12: then the credential arity. Rule 13: then the
credential scope. In each case no key lookup takes place. -/
theorem rule10_13 (a : Authenticator) (ha : authOf H cfg req = .ok a) (hrep : nowRepresentable cfg.now) :
    (¬ inWindow a.timestamp cfg.now → (validate H cfg P s req).out = .err .SignatureDoesNotMatch) ∧
    (inWindow a.timestamp cfg.now → (splitOn 0x2F a.credential).length ≠ 5 →
        (validate H cfg P s req).out = .err .IncompleteSignature) ∧
    (inWindow a.timestamp cfg.now → (splitOn 0x2F a.credential).length = 5 → scopeCheck a cfg.region cfg.service ≠ .ok () →
        (validate H cfg P s req).out = .err .SignatureDoesNotMatch) ∧
    (prevalidate a cfg.region cfg.service cfg.now ≠ .ok () → (validate H cfg P s req).calls = []) := by
  sorry

/-- Then the key lookup: a provider failure is reported as the provider's kind. Last, the signature. -/
theorem rule_key_then_signature (a : Authenticator) (ha : authOf H cfg req = .ok a)
    (hp : prevalidate a cfg.region cfg.service cfg.now = .ok ()) :
    (∀ e st, P.ready s = (some e, st) → (validate H cfg P s req).out = .err e.toKind) ∧
    (∀ e st st', P.ready s = (none, st) → P.call st (providerReqOf a cfg.region cfg.service) = (.error e, st') →
        (validate H cfg P s req).out = .err e.toKind) ∧
    (∀ resp st st' sts, P.ready s = (none, st) → P.call st (providerReqOf a cfg.region cfg.service) = (.ok resp, st') →
        stringToSign a = .ok sts → a.signature ≠ hexLower (hmac H resp.key sts) →
        (validate H cfg P s req).out = .err .SignatureDoesNotMatch) := by
  sorry

/-- The kind alone fixes code and status. -/
theorem table :
    ∀ k : ErrKind, (k.code, k.status) =
      match k with
      | .ExpiredToken => ("ExpiredToken", 403)
      | .IO => ("InternalFailure", 500)
      | .InternalServiceError => ("InternalFailure", 500)
      | .InvalidBodyEncoding => ("InvalidBodyEncoding", 400)
      | .InvalidClientTokenId => ("InvalidClientTokenId", 403)
      | .InvalidContentType => ("InvalidContentType", 403)
      | .InvalidRequestMethod => ("InvalidRequestMethod", 400)
      | .IncompleteSignature => ("IncompleteSignature", 400)
      | .InvalidURIPath => ("InvalidURIPath", 400)
      | .MalformedQueryString => ("MalformedQueryString", 400)
      | .MissingAuthenticationToken => ("MissingAuthenticationToken", 400)
      | .SignatureDoesNotMatch => ("SignatureDoesNotMatch", 403) := by
  sorry

/-- Status is 400, 403 or 500 — never a success status; 500 exactly for infrastructure failures. -/
theorem status_classes (k : ErrKind) :
    (k.status = 400 ∨ k.status = 403 ∨ k.status = 500) ∧
    (k.status = 500 ↔ k = .IO ∨ k = .InternalServiceError) := by
  sorry

/-- Without the key provider's own errors, the entry point produces only the six built-in kinds,
all 400 or 403; anything else — in particular every 500 — originates from the provider. -/
theorem builtin_kinds (k : ErrKind) (h : (validate H cfg P s req).out = .err k) :
    k ∈ [ErrKind.InvalidURIPath, .MalformedQueryString, .InvalidBodyEncoding, .MissingAuthenticationToken,
         .IncompleteSignature, .SignatureDoesNotMatch] ∨
    (∃ e, ((P.ready s).1 = some e ∨ ∃ pr, (P.call (P.ready s).2 pr).1 = .error e) ∧ k = e.toKind) := by
  sorry

end SigV4.C13

#print axioms SigV4.C13.rule1_path
#print axioms SigV4.C13.rule4_query
#print axioms SigV4.C13.rule4b_body
#print axioms SigV4.C13.rule5_carrier
#print axioms SigV4.C13.rule67_extraction
#print axioms SigV4.C13.rule67_kinds
#print axioms SigV4.C13.rule8_requirements
#print axioms SigV4.C13.rule9_date
#print axioms SigV4.C13.rule10_13
#print axioms SigV4.C13.rule_key_then_signature
#print axioms SigV4.C13.table
#print axioms SigV4.C13.status_classes
#print axioms SigV4.C13.builtin_kinds
