/-
  SigV4.Tie.KeysFromStr — `KSecretKey::<M>::from_str` as translated from /repo/src on this run (usize arithmetic with
  underflow, the short-circuit `||`, the two `copy_from_slice` calls into array ranges, the stored length) is the model's
  `secretFromStr`, for every capacity and every secret: the same key object, the same refusal, and no panic (no usize
  underflow in `M - 4`, no slice range outside the array, no length mismatch in `copy_from_slice`).
-/
import SigV4.Source.GeneratedKeys
import SigV4.Tie.Basic
import SigV4.Props.C06

namespace SigV4.Tie

open SigV4

theorem ksecret_from_str : ∀ f, Src.signing_key.KSecretKey_from_str? = some f →
    ∀ (M : Nat) (s : Bytes), f M s = secretFromStr M s := by
  intro f hf; cases hf; intro M s
  unfold Src.keys.KSecretKey.from_str secretFromStr
  by_cases h1 : M < 4
  · simp [Rust.Keys.or, Rust.Keys.lt, Rust.Keys.finish, h1]
  · by_cases h2 : s.length > M - 4
    · have h3 : 4 ≤ M := by omega
      simp [Rust.Keys.or, Rust.Keys.lt, Rust.Keys.sub, Rust.Keys.finish, h1, h2, h3]
    · have h3 : 4 ≤ M := by omega
      have h4 : ¬ (M - 4 < s.length) := by omega
      have h5 : 4 + s.length ≤ M := by omega
      simp [Rust.Keys.or, Rust.Keys.lt, Rust.Keys.sub, Rust.Keys.add, Rust.Keys.copyInto, Rust.Keys.finish, h1, h2, h3,
        AWS4, List.take_replicate, List.drop_replicate]
      have h6 : 4 + s.length ≤ M - 4 + 1 + 1 + 1 + 1 := by omega
      rw [if_pos h6]
      have h7 : List.drop (4 + s.length) ((65 : UInt8) :: 87 :: 83 :: 52 :: List.replicate (M - 4) 0)
          = List.replicate (M - 4 - s.length) 0 := by
        rw [show 4 + s.length = s.length + 1 + 1 + 1 + 1 by omega]
        simp [List.drop_replicate]
      simp [h7]

/-- C06 (construction), from the source: `from_str` as read from /repo/src accepts a secret iff it fits behind the 4-byte
prefix — and then the secret reads back unchanged through `as_ref` —, refuses a longer one with the error, and never panics,
for every capacity `M` and every secret. -/
theorem FromSource.from_str_length_rule : ∀ f, Src.signing_key.KSecretKey_from_str? = some f →
    ∀ (M : Nat) (s : Bytes),
      (s.length + 4 ≤ M → ∃ k, f M s = .ok k ∧ k.asRef = s ∧ k.buf.length = M) ∧
      (s.length + 4 > M → f M s = .tooLong) ∧
      (∀ site, f M s ≠ .panic site) := by
  intro f hf M s
  rw [ksecret_from_str f hf M s]
  obtain ⟨a, b, c⟩ := C06.length_rule M s
  refine ⟨fun h => ?_, b, c⟩
  obtain ⟨k, hk⟩ := a h
  obtain ⟨r1, r2, _⟩ := C06.secret_roundtrip M s k hk
  exact ⟨k, hk, r1, r2⟩

/-- `AsRef<[u8]> for KSecretKey` as read from /repo/src is the model's `asRef` on every key object whose stored length lies
between the prefix and the buffer (no slice panic there). -/
theorem ksecret_as_ref : ∀ g, Src.signing_key.KSecretKey_as_ref? = some g →
    ∀ (k : SecretKey), 4 ≤ k.len → k.len ≤ k.buf.length → g k = some k.asRef := by
  intro g hg; cases hg; intro k h1 h2
  simp [Src.keys.KSecretKey.as_ref, Rust.Keys.slice, SecretKey.asRef, h1, h2]

/-- C06 (read-back), from the source on both sides: a key object built by the translated `from_str` yields, through the
translated `as_ref`, exactly the secret that was put in — for every capacity and every secret that fits — without a panic. -/
theorem FromSource.secret_roundtrip : ∀ f g, Src.signing_key.KSecretKey_from_str? = some f →
    Src.signing_key.KSecretKey_as_ref? = some g →
    ∀ (M : Nat) (s : Bytes) (k : SecretKey), f M s = .ok k → g k = some s := by
  intro f g hf hg M s k hk
  rw [ksecret_from_str f hf M s] at hk
  obtain ⟨hl, rfl⟩ := (secretFromStr_ok_iff M s _).1 hk
  have r := C06.secret_roundtrip M s _ hk
  have h4 : AWS4.length = 4 := rfl
  rw [ksecret_as_ref g hg _ (by show 4 ≤ s.length + 4; omega)
    (by simp only [List.length_append, List.length_replicate, h4]; omega)]
  exact congrArg some r.1

end SigV4.Tie

#print axioms SigV4.Tie.ksecret_as_ref
#print axioms SigV4.Tie.FromSource.secret_roundtrip
#print axioms SigV4.Tie.ksecret_from_str
#print axioms SigV4.Tie.FromSource.from_str_length_rule
