/-
  Line-protocol driver for the code-shaped model (DESIGN.md §5). One request per line, one answer
  per line. Byte strings are lower-case hex, the empty string is `-`, an absent value is `~`.
-/
import SigV4.Model.Validate
import SigV4.Model.Observe
import SigV4.Model.Poll
import SigV4.Model.Requirements
import SigV4.Model.Keys
import SigV4.Model.Sha256

open SigV4

def hexNib (c : Char) : Option UInt8 :=
  if '0' ≤ c ∧ c ≤ '9' then some (c.toNat - '0'.toNat).toUInt8
  else if 'a' ≤ c ∧ c ≤ 'f' then some (c.toNat - 'a'.toNat + 10).toUInt8
  else if 'A' ≤ c ∧ c ≤ 'F' then some (c.toNat - 'A'.toNat + 10).toUInt8
  else none

partial def unhexChars : List Char → Option Bytes
  | [] => some []
  | a :: b :: rest => do
    let x ← hexNib a
    let y ← hexNib b
    let r ← unhexChars rest
    pure ((x * 16 + y) :: r)
  | _ => none

def unhex (s : String) : Option Bytes :=
  if s == "-" then some [] else unhexChars s.toList

def hexChar (n : UInt8) : Char := Char.ofNat (hexDigitLower n).toNat

def hex (b : Bytes) : String :=
  if b.isEmpty then "-" else String.ofList (b.flatMap fun x => [hexChar (x >>> (4 : UInt8)), hexChar (x &&& (0xF : UInt8))])

def unhexOpt (s : String) : Option (Option Bytes) :=
  if s == "~" then some none else (unhex s).map some

def hexOpt : Option Bytes → String
  | none => "~"
  | some b => hex b

def splitList (s : String) (sep : String) : List String :=
  if s == "." then [] else s.splitOn sep

/-- comma-separated list of hex strings; `.` is the empty list -/
def unhexList (s : String) : Option (List Bytes) :=
  (splitList s ",").mapM unhex

def hexList (l : List Bytes) : String :=
  if l.isEmpty then "." else ",".intercalate (l.map hex)

def parseHeaders (s : String) : Option HeaderList :=
  (splitList s ",").mapM fun item =>
    match item.splitOn ":" with
    | [n, v] => do
      let n ← unhex n
      let v ← unhex v
      pure (n, v)
    | _ => none

def showOutcomeBytes : Outcome Bytes → String
  | .ok b => s!"OK {hex b}"
  | .err k => s!"ERR {k.name}"
  | .panic p => s!"PANIC {p.replace " " "_"}"

def H := Sha256.sha256

def insertSorted (x : Bytes × List Bytes) : List (Bytes × List Bytes) → List (Bytes × List Bytes)
  | [] => [x]
  | y :: ys => if bytesLe x.1 y.1 then x :: y :: ys else y :: insertSorted x ys

def sortMap (m : List (Bytes × List Bytes)) : List (Bytes × List Bytes) :=
  m.foldl (fun acc x => insertSorted x acc) []

def showMap (m : List (Bytes × List Bytes)) : String :=
  if m.isEmpty then "." else
  "|".intercalate ((sortMap m).map fun kv => s!"{hex kv.1}:{hexList kv.2}")

def parseKind (s : String) : Option ErrKind := ErrKind.all.find? (·.name == s)

def parseProvErr (s : String) : Option ProvErr :=
  if s == "F" then some .foreign
  else if s.startsWith "E" then (parseKind (s.drop 1).toString).map .sig
  else none

abbrev Script := List (Option ProvErr × Except ProvErr ProviderResp)

def scriptProvider : Provider Script where
  ready s := match s with
    | (some e, _) :: rest => (some e, rest)
    | _ => (none, s)
  call s _ := match s with
    | (_, ans) :: rest => (ans, rest)
    | [] => (.error .foreign, [])

def parseReady (s : String) : Option (Option ProvErr) :=
  if s == "R" then some none else (parseProvErr s).map some

def parseAnswer (s : String) : Option (Except ProvErr ProviderResp) :=
  if s.startsWith "K" then
    match (s.drop 1).toString.splitOn ":" with
    | [k, i] => do
      let k ← unhex k
      let i ← unhex i
      pure (.ok { key := k, identity := i })
    | _ => none
  else (parseProvErr s).map .error

def parseOther (s : String) : Option OtherCharset :=
  if s == "U" then some .unknown
  else if s == "X" then some .undecodable
  else if s.startsWith "D" then (unhex (s.drop 1).toString).map .decoded
  else none

def parseBool (s : String) : Option Bool :=
  if s == "1" then some true else if s == "0" then some false else none

structure Case where
  cfg : Config
  req : Request
  entry : Option ProvErr × Except ProvErr ProviderResp

/-- `<s3> <fold> <region> <service> <now> <always> <ifreq> <prefixes> <method> <path> <query>
<headers> <body> <other> <ready> <answer>` -/
def parseCase (ws : List String) : Option Case :=
  match ws with
  | [s3, fold, region, service, now, always, ifreq, prefixes, method, path, query, headers, body,
     other, ready, answer] => do
    let s3 ← parseBool s3
    let fold ← parseBool fold
    let region ← unhex region
    let service ← unhex service
    let now ← now.toInt?
    let always ← unhexList always
    let ifreq ← unhexList ifreq
    let prefixes ← unhexList prefixes
    let method ← unhex method
    let path ← unhex path
    let query ← unhexOpt query
    let headers ← parseHeaders headers
    let body ← unhex body
    let other ← parseOther other
    let ready ← parseReady ready
    let answer ← parseAnswer answer
    pure { cfg := { region, service, now, reqs := { always, ifInRequest := ifreq, prefixes },
                    opts := { s3, fold }, other },
           req := { method, path, query, headers, body },
           entry := (ready, answer) }
  | _ => none

def showCall (c : ProviderReq) : String :=
  s!"[{hex c.accessKey} {hexOpt c.sessionToken} {c.date.1}/{c.date.2.1}/{c.date.2.2} {hex c.region} {hex c.service}]"

def showCalls (cs : List ProviderReq) : String :=
  s!"CALLS {cs.length}" ++ String.join (cs.map fun c => " " ++ showCall c)

def showReturned (out : Outcome Returned) (calls : List ProviderReq) : String :=
  match out with
  | .ok r => s!"OK uri={match r.rebuiltUri with | none => "SAME" | some u => hex u} body={hex r.body} id={hex r.identity} {showCalls calls}"
  | .err k => s!"ERR {k.name} {showCalls calls}"
  | .panic p => s!"PANIC {p.replace " " "_"} {showCalls calls}"

def showKeyOutcome (M : Nat) (secret : Bytes) (date : Int × Int × Int) (region service : Bytes) : String :=
  match secretFromStr M secret with
  | .tooLong => "TOOLONG"
  | .panic p => s!"PANIC {p.replace " " "_"}"
  | .ok k =>
    let kd := toKDate H k date
    let kr := kdateToKRegion H kd region
    let ks := kregionToKService H kr service
    let kg := kserviceToKSigning H ks
    -- every shortcut must agree with the step-by-step chain
    let agree := toKRegion H k date region == kr && toKService H k date region service == ks
      && toKSigning H k date region service == kg && kdateToKService H kd region service == ks
      && kdateToKSigning H kd region service == kg && kregionToKSigning H kr service == kg
    s!"OK {hex k.asRef} {hex kd} {hex kr} {hex ks} {hex kg} {if agree then 1 else 0}"

def step (line : String) : String :=
  match line.trimAscii.toString.splitOn " " with
  | ["SHA", m] => match unhex m with
    | some m => hex (H m)
    | none => "bad-op"
  | ["HMAC", k, m] => match unhex k, unhex m with
    | some k, some m => hex (hmac H k m)
    | _, _ => "bad-op"
  | ["ELEM", mode, s] => match unhex s with
    | some s => showOutcomeBytes (normElem (mode == "p") s)
    | none => "bad-op"
  | ["PATH", s3, p] => match parseBool s3, unhex p with
    | some s3, some p => showOutcomeBytes (canonPath s3 p)
    | _, _ => "bad-op"
  | ["QPARSE", q] => match unhex q with
    | some q => match parseQuery q with
      | .ok m => s!"OK {showMap m}"
      | .err k => s!"ERR {k.name}"
      | .panic p => s!"PANIC {p.replace " " "_"}"
    | none => "bad-op"
  | ["QCANON", q] => match unhex q with
    | some q => showOutcomeBytes ((parseQuery q).map canonQuery)
    | none => "bad-op"
  | ["UNRES", b] => match unhex b with
    | some [c] => if isUnreserved c then "1" else "0"
    | _ => "bad-op"
  | ["UPHEX", b] => match unhex b with
    | some [c] => hex ((pctEncode c).drop 1)
    | _ => "bad-op"
  | ["LATIN1", s] => match unhex s with
    | some s => hex (latin1ToString s)
    | none => "bad-op"
  | ["TRIM", s] => match unhex s with
    | some s => hex (trimAscii s)
    | none => "bad-op"
  | ["PREVAL", cred, t, now, region, service] =>
    match unhex cred, t.toInt?, now.toInt?, unhex region, unhex service with
    | some cred, some t, some now, some region, some service =>
      let a : Authenticator := { creqSha := List.replicate 32 0, credential := cred, sessionToken := none, signature := [], timestamp := t }
      match prevalidate a region service now with
      | .ok () =>
        match stringToSign a with
        | .ok sts => s!"OK {hex sts}"
        | .err k => s!"ERR {k.name}"
        | .panic p => s!"PANIC {p.replace " " "_"}"
      | .err k => s!"ERR {k.name}"
      | .panic p => s!"PANIC {p.replace " " "_"}"
    | _, _, _, _, _ => "bad-op"
  | ["UNESC", s] => match unhex s with
    | some s => showOutcomeBytes (unescapeUri s)
    | none => "bad-op"
  | ["HVAL", v] => match unhex v with
    | some v => s!"OK {hex (normHeaderValue v)}"
    | none => "bad-op"
  | ["CTYPE", hs] => match parseHeaders hs with
    | some hs => match contentTypeCharset hs with
      | none => "NONE"
      | some (ct, cs) => s!"CT {hex ct} CS {hexOpt cs}"
    | none => "bad-op"
  | ["UTF8", s] => match unhex s with
    | some s => if utf8Valid s then "1" else "0"
    | none => "bad-op"
  | ["LABEL", s] => match unhex s with
    | some s => if isUtf8Label s then "1" else "0"
    | none => "bad-op"
  | ["ISO", s] => match unhex s with
    | some s => match parseIso s with
      | some t => s!"OK {t}"
      | none => "NONE"
    | none => "bad-op"
  | ["COMPACT", t] => match t.toInt? with
    | some t => let d := utcDate t; s!"{hex (compactUtc t)} {d.1}/{d.2.1}/{d.2.2} {hex (fmtDate d)}"
    | none => "bad-op"
  | ["KEYS", m, secret, y, mo, d, region, service] =>
    match m.toNat?, unhex secret, y.toInt?, mo.toInt?, d.toInt?, unhex region, unhex service with
    | some m, some secret, some y, some mo, some d, some region, some service =>
      showKeyOutcome m secret (y, mo, d) region service
    | _, _, _, _, _, _, _ => "bad-op"
  | ["ERRTAB", k] => match parseKind k with
    | some k => s!"{k.code} {k.status}"
    | none => "bad-op"
  | ["CTEQ", a, b] => match unhex a, unhex b with
    | some a, some b => let r := ctEq a b; s!"{if r.1 then 1 else 0} {r.2.length}"
    | _, _ => "bad-op"
  | "AUTH" :: rest => match parseCase rest with
    | some c =>
      match fromRequestParts H c.cfg.opts c.cfg.other c.req with
      | .err k => s!"ERR {k.name}"
      | .panic p => s!"PANIC {p.replace " " "_"}"
      | .ok fp =>
        match getAuthParams c.cfg.reqs fp.creq with
        | .err k => s!"ERR {k.name}"
        | .panic p => s!"PANIC {p.replace " " "_"}"
        | .ok ap =>
          let creq := canonicalRequest fp.creq ap.signedHeaders
          match authenticatorOf H fp.creq ap with
          | .err k => s!"ERR {k.name}"
          | .panic p => s!"PANIC {p.replace " " "_"}"
          | .ok a =>
            s!"OK creq={hex creq} cred={hex a.credential} sig={hex a.signature} tok={hexOpt a.sessionToken} t={a.timestamp} signed={hexList ap.signedHeaders} params={showMap fp.creq.params}"
    | none => "bad-op"
  | "STS" :: rest => match parseCase rest with
    | some c =>
      match fromRequestParts H c.cfg.opts c.cfg.other c.req with
      | .ok fp => match getAuthenticator H c.cfg.reqs fp.creq with
        | .ok a => match prevalidate a c.cfg.region c.cfg.service c.cfg.now with
          | .ok () => showOutcomeBytes (stringToSign a)
          | .err k => s!"ERR {k.name}"
          | .panic p => s!"PANIC {p.replace " " "_"}"
        | .err k => s!"ERR {k.name}"
        | .panic p => s!"PANIC {p.replace " " "_"}"
      | .err k => s!"ERR {k.name}"
      | .panic p => s!"PANIC {p.replace " " "_"}"
    | none => "bad-op"
  | ["REQOPS", ops] =>
    -- ops: comma-separated <code><hex>; codes A I P add, a i p remove (always / if-in-request / prefix)
    let parsed : Option (List ReqOp) := (splitList ops ",").mapM fun item =>
      match unhex (item.drop 1).toString with
      | some h =>
        match item.toList.head? with
        | some 'A' => some (.addAlways h)
        | some 'I' => some (.addIfInRequest h)
        | some 'P' => some (.addPrefix h)
        | some 'a' => some (.removeAlways h)
        | some 'i' => some (.removeIfInRequest h)
        | some 'p' => some (.removePrefix h)
        | _ => none
      | none => none
    match parsed with
    | some l =>
      let r := l.foldl Requirements.apply Requirements.empty
      s!"{hexList r.always} {hexList r.ifInRequest} {hexList r.prefixes}"
    | none => "bad-op"
  | "POLL" :: pr :: pa :: rest => match pr.toNat?, pa.toNat?, parseCase rest with
    | some pr, some pa, some c =>
      let e : PollEntry := { pendingReady := pr, readyErr := c.entry.1, pendingAnswer := pa, answer := c.entry.2 }
      match pollLoop H c.cfg e c.req (pr + pa + 2) .start {} 0 with
      | some (out, log, k) =>
        let head := match out with
          | .ok _ => "OK"
          | .err kd => s!"ERR {kd.name}"
          | .panic p => s!"PANIC {p.replace " " "_"}"
        s!"{head} POLLS {k} READY {log.readyPolls} FUT {log.futurePolls} CALLS {log.calls.length}"
      | none => "NOT-FINISHED"
    | _, _, _ => "bad-op"
  | ["RENDER", kind, key] =>
    let kk : Option KeyKind := match kind with
      | "secret" => some .secret | "date" => some .date | "region" => some .region
      | "service" => some .service | "signing" => some .signing | _ => none
    match kk, unhex key with
    | some k, some key => s!"{renderKeyDebug k key}|{renderKeyDisplay k key}"
    | _, _ => "bad-op"
  | ["RENDERRESP", p, q, key] =>
    match unhex p, unhex q, unhex key with
    | some p, some q, some key =>
      match String.fromUTF8? (ByteArray.mk p.toArray), String.fromUTF8? (ByteArray.mk q.toArray) with
      | some ps, some qs => renderResponseDebug ps qs key
      | _, _ => "bad-op"
    | _, _, _ => "bad-op"
  | "OBS" :: rest => match parseCase rest with
    | some c =>
      let o := observe H c.cfg scriptProvider [c.entry] c.req
      let head := match o.out with
        | .ok _ => "OK"
        | .err k => s!"ERR {k.name}"
        | .panic p => s!"PANIC {p.replace " " "_"}"
      s!"{head} CALLS {o.calls.length} DEBUG {o.debug.length}"
    | none => "bad-op"
  | "VALIDATE" :: rest => match parseCase rest with
    | some c =>
      let r := validate H c.cfg scriptProvider [c.entry] c.req
      showReturned r.out r.calls
    | none => "bad-op"
  | _ => "bad-op"

/-- `SEQ <n>` is followed by `n` case lines (without a leading keyword); all share one provider. -/
partial def readSeq (h : IO.FS.Stream) (n : Nat) (acc : List Case) : IO (Option (List Case)) := do
  if n = 0 then return some acc.reverse
  let line ← h.getLine
  match parseCase (line.trimAscii.toString.splitOn " ") with
  | some c => readSeq h (n - 1) (c :: acc)
  | none => return none

partial def loop (hin : IO.FS.Stream) (hout : IO.FS.Stream) : IO Unit := do
  let line ← hin.getLine
  if line.isEmpty then return ()
  match line.trimAscii.toString.splitOn " " with
  | ["SEQ", n] =>
    match n.toNat? with
    | some n =>
      match ← readSeq hin n [] with
      | some cases =>
        let script : Script := cases.map (·.entry)
        let (outs, _) := validateMany H scriptProvider script (cases.map fun c => (c.cfg, c.req))
        hout.putStrLn (" ;; ".intercalate (outs.map fun o => showReturned o.1 o.2))
      | none => hout.putStrLn "bad-op"
    | none => hout.putStrLn "bad-op"
  | _ => hout.putStrLn (step line)
  hout.flush
  loop hin hout

def main : IO Unit := do
  loop (← IO.getStdin) (← IO.getStdout)
