//! Checks that drive single functions: element/path/query canonicalisation (C09, C10), key
//! derivation (C06), timestamps (C16), plus the driver self-test (SHA-256/HMAC of the Lean driver
//! against the `sha2`/`hmac` crates).
use crate::imp;
use crate::refspec as rs;
use crate::util::*;
use crate::Ctx;

/// One three-way comparison: implementation / model / specification outcome lines.
pub struct Tri {
    pub op: &'static str,
    pub line: String,
    pub imp: Option<String>,
    pub spec: Option<String>,
    pub class: String,
    pub clause: &'static str,
    pub show: String,
}

pub fn run_tris(ctx: &mut Ctx, tris: Vec<Tri>) {
    let lines: Vec<String> = tris.iter().map(|t| t.line.clone()).collect();
    let answers = ctx.drv.ask_all(&lines);
    for (t, model) in tris.into_iter().zip(answers.into_iter()) {
        ctx.rep.count(&format!("evaluations.{}", t.op));
        ctx.rep.count("evaluations");
        {
            let imp_bad = t.imp.as_ref().map(|i| !imp::same_outcome(i, &model) || t.spec.as_ref().map(|s| !imp::same_outcome(i, s)).unwrap_or(false)).unwrap_or(false);
            if imp_bad && t.class != "corpus" && t.class != "path-literal-plus" && ctx.rep.corpus_candidates.len() < 40 {
                ctx.rep.corpus_candidates.push(format!("T {}", t.line));
            }
        }
        if let Some(i) = &t.imp {
            ctx.rep.count("traces_validated_against_impl");
            let cls = i.split(' ').next().unwrap_or("").to_string();
            ctx.rep.count(&format!("impl_outcome.{}.{}", t.op, cls));
            if !imp::same_outcome(i, &model) {
                ctx.rep.fail(Failure {
                    kind: "CORR",
                    op: t.op.to_string(),
                    class: t.class.clone(),
                    input: t.line.clone(),
                    imp: i.clone(),
                    model: model.clone(),
                    spec: t.spec.clone().unwrap_or_default(),
                    clause: format!("implementation and model disagree on {}", t.show),
                });
            }
        }
        if let (Some(i), Some(s)) = (&t.imp, &t.spec) {
            if !imp::same_outcome(i, s) {
                ctx.rep.fail(Failure {
                    kind: "ORACLE",
                    op: t.op.to_string(),
                    class: t.class.clone(),
                    input: t.line.clone(),
                    imp: i.clone(),
                    model: model.clone(),
                    spec: s.clone(),
                    clause: format!("{} — input {}", t.clause, t.show),
                });
            }
        }
        if let Some(s) = &t.spec {
            let imp_agrees = t.imp.as_ref().map(|i| imp::same_outcome(i, s)).unwrap_or(true);
            if imp_agrees && !imp::same_outcome(&model, s) {
                ctx.rep.fail(Failure {
                    kind: "INTERNAL",
                    op: t.op.to_string(),
                    class: t.class.clone(),
                    input: t.line.clone(),
                    imp: t.imp.clone().unwrap_or_default(),
                    model: model.clone(),
                    spec: s.clone(),
                    clause: format!("model and harness specification disagree on {}", t.show),
                });
            }
        }
        if model.starts_with("OK") || model.starts_with("ERR") {
            ctx.rep.distinct(&format!("{} {}", t.line, model));
        }
    }
}

fn spec_line(r: Option<Vec<u8>>, errkind: &str) -> String {
    match r {
        Some(b) => format!("OK {}", hx(&b)),
        None => format!("ERR {}", errkind),
    }
}

pub fn selftest(ctx: &mut Ctx) {
    // SHA-256 and HMAC of the driver against the crates, lengths around block boundaries and random.
    let mut lines = Vec::new();
    let mut want = Vec::new();
    let mut lens: Vec<usize> = (0..200).collect();
    lens.extend([255, 256, 257, 511, 512, 1000, 4096, 70000]);
    for l in lens {
        let m: Vec<u8> = (0..l).map(|_| ctx.rng.byte()).collect();
        lines.push(format!("SHA {}", hx(&m)));
        want.push(hx(&rs::sha256(&m)));
        let kl = ctx.rng.below(140);
        let k: Vec<u8> = (0..kl).map(|_| ctx.rng.byte()).collect();
        lines.push(format!("HMAC {} {}", hx(&k), hx(&m)));
        want.push(hx(&rs::hmac256(&k, &m)));
    }
    let got = ctx.drv.ask_all(&lines);
    for ((l, w), g) in lines.iter().zip(want.iter()).zip(got.iter()) {
        ctx.rep.count("evaluations");
        if w != g {
            ctx.rep.fail(Failure {
                kind: "INTERNAL",
                op: "SHA".into(),
                class: "driver-hash".into(),
                input: l.chars().take(200).collect(),
                imp: w.clone(),
                model: g.clone(),
                spec: String::new(),
                clause: "the driver's executable SHA-256/HMAC differs from the sha2/hmac crates".into(),
            });
        }
    }
}

// ---------------------------------------------------------------------------------------------
// C09

pub fn elem_tri(s: &[u8], is_path: bool) -> Tri {
    let as_str = std::str::from_utf8(s).ok();
    let kind = if is_path { "InvalidURIPath" } else { "MalformedQueryString" };
    // The crate reads '+' as a space in both kinds of element; the specification does so only in queries.
    let spec_true = spec_line(rs::ref_elem(s, !is_path), kind);
    let imp = as_str.map(|t| imp::elem(is_path, t));
    let mut class = if is_path { "path-element".to_string() } else { "query-element".to_string() };
    if is_path && s.contains(&b'+') {
        if let Some(i) = &imp {
            if *i != spec_true && *i == spec_line(rs::ref_elem(s, true), kind) {
                class = "path-literal-plus".to_string();
            }
        }
    }
    Tri {
        op: "ELEM",
        line: format!("ELEM {} {}", if is_path { "p" } else { "q" }, hx(s)),
        imp,
        spec: Some(spec_true),
        class,
        clause: "element is not percent-decoded and re-encoded exactly once (unreserved literal, upper-case hex elsewhere)",
        show: format!("{} element \"{}\"", if is_path { "path" } else { "query" }, show(s)),
    }
}

pub fn path_tri(p: &[u8], s3: bool) -> Tri {
    let as_str = std::str::from_utf8(p).ok();
    let spec_true = spec_line(rs::ref_path(p, s3, false), "InvalidURIPath");
    let imp = as_str.map(|t| imp::path(s3, t));
    let mut class = "path".to_string();
    if p.contains(&b'+') {
        if let Some(i) = &imp {
            if *i != spec_true && *i == spec_line(rs::ref_path(p, s3, true), "InvalidURIPath") {
                class = "path-literal-plus".to_string();
            }
        }
    }
    Tri {
        op: "PATH",
        line: format!("PATH {} {}", s3 as u8, hx(p)),
        imp,
        spec: Some(spec_true),
        class,
        clause: "canonical path differs from the reference normal form of the decoded path",
        show: format!("path \"{}\" (s3={})", show(p), s3),
    }
}

const SEG_ALPHABET: [&[u8]; 12] =
    [b"a", b".", b"..", b"%2e", b"%2E%2e", b"%2F", b"", b"%", b"%4", b"%zz", b"+", b"~"];

fn respell_bytes(rng: &mut Rng, decoded: &[u8], query: bool) -> Vec<u8> {
    // a random admissible spelling of decoded bytes
    let mut out = Vec::new();
    let mut skip = 0usize;
    for (i, &c) in decoded.iter().enumerate() {
        if skip > 0 {
            skip -= 1;
            continue;
        }
        if c >= 0xc2 {
            // a multi-byte UTF-8 character may travel raw
            let n = if c >= 0xf0 { 4 } else if c >= 0xe0 { 3 } else { 2 };
            if i + n <= decoded.len() && std::str::from_utf8(&decoded[i..i + n]).is_ok() && rng.chance(1, 2) {
                out.extend_from_slice(&decoded[i..i + n]);
                skip = n - 1;
                continue;
            }
        }
        let r = rng.below(10);
        if rs::unreserved(c) && r < 7 {
            out.push(c);
        } else if query && c == b' ' && r < 5 {
            out.push(b'+');
        } else if r < 4 && crate::gen::raw_admissible(c, query) {
            out.push(c);
        } else if r % 2 == 0 {
            out.extend_from_slice(format!("%{:02X}", c).as_bytes());
        } else {
            out.extend_from_slice(format!("%{:02x}", c).as_bytes());
        }
    }
    out
}

/// The small byte-level helpers, exhaustively (all 256 bytes; all strings of length <= 4 over the
/// whitespace alphabet for trimming): crate vs model.
pub fn helper_pieces(ctx: &mut Ctx) {
    let mut lines = Vec::new();
    let mut want = Vec::new();
    for b in 0u16..256 {
        let b = b as u8;
        lines.push(format!("UNRES {:02x}", b));
        want.push(if imp::is_unreserved(b) { "1".to_string() } else { "0".to_string() });
        lines.push(format!("UPHEX {:02x}", b));
        want.push(hx(&imp::upper_hex(b)));
        lines.push(format!("LATIN1 {:02x}", b));
        want.push(hx(&imp::latin1(&[b])));
    }
    let alpha = [b' ', b'\t', b'\n', 0x0b, 0x0c, b'\r', b'a', 0xa0];
    for len in 0..=4u32 {
        for idx in 0..8usize.pow(len) {
            let mut k = idx;
            let v: Vec<u8> = (0..len).map(|_| { let c = alpha[k % 8]; k /= 8; c }).collect();
            lines.push(format!("TRIM {}", hx(&v)));
            want.push(hx(&imp::trim(&v)));
        }
    }
    let got = ctx.drv.ask_all(&lines);
    for ((l, w), g) in lines.iter().zip(want.iter()).zip(got.iter()) {
        ctx.rep.count("evaluations");
        ctx.rep.count("evaluations.HELPER");
        ctx.rep.count("traces_validated_against_impl");
        if w != g {
            ctx.rep.fail(Failure { kind: "CORR", op: l.split(' ').next().unwrap().to_string(), class: "helper".into(), input: l.clone(), imp: w.clone(), model: g.clone(), spec: String::new(), clause: "implementation and model disagree on a byte-level helper (unreserved set, upper-case hex, Latin-1 widening, ASCII trimming)".into() });
        }
    }
    ctx.rep.add("exhaustive.helper_cases", lines.len() as u64);
}

/// The path as the entry point sees it: reference-signed requests whose only unusual dimension is the path
/// (segments of any bytes, raw or escaped spellings, dot/empty noise in standard mode, S3 mode, origin-form
/// and absolute-form request targets) must validate.
fn c09_e2e(ctx: &mut Ctx) {
    use crate::gen::*;
    use crate::props_validate::{accept_job, run_jobs, simple_logical};
    let mut rng = ctx.rng.fork();
    let mut jobs = Vec::new();
    let mut jobs2 = Vec::new();
    for k in 0..ctx.n(400, 8000) {
        let donor = random_logical(&mut rng);
        let mut l = simple_logical(if k % 2 == 0 { Carrier::Header } else { Carrier::Query }, 1_440_938_160_000_000_000);
        l.segments = donor.segments;
        l.trailing_slash = donor.trailing_slash;
        l.s3 = donor.s3;
        // the path rules follow the S3 option alone: the folding option (here without any form body) and the
        // method play no part in them
        l.fold = k % 3 == 0;
        l.method = ["GET", "OPTIONS", "PUT", "DELETE", "get"][k % 5].into();
        let mut sp = Spelling::plain();
        sp.respell = k % 3 != 0;
        sp.path_noise = k % 4 == 1;
        let now = now_for(&l, 0);
        let s = sign_and_spell(&l, &mut rng, &sp, now);
        if ctx.rep.samples.len() < 9 && k < 3 {
            ctx.rep.sample(format!("end to end: {} (s3={})", show(s.case.uri.as_bytes()), l.s3));
        }
        jobs.push(accept_job(&s, "c09-e2e", "C09: a request signed over the reference normal form of its path was refused (path spelling, request-target form or mode handling differs from the reference)"));
    }
    // request targets that are not an absolute path: the asterisk form is a relative path (400), whatever it is
    // signed over; the authority form has the empty path (canonical form "/")
    for k in 0..12 {
        let mut l = simple_logical(if k % 2 == 0 { Carrier::Header } else { Carrier::Query }, 1_440_938_160_000_000_000);
        l.segments.clear();
        l.query.clear();
        l.s3 = k % 4 >= 2;
        l.fold = k % 3 == 0;
        l.method = if k < 6 { "OPTIONS".into() } else { "CONNECT".into() };
        let now = now_for(&l, 0);
        let s = sign_and_spell(&l, &mut rng, &Spelling::plain(), now);
        let mut c = s.case.clone();
        let q = c.uri.find('?').map(|i| c.uri[i..].to_string()).unwrap_or_default();
        if k < 6 {
            if !q.is_empty() {
                continue; // "*" takes no query
            }
            c.uri = "*".into();
            let mut j = crate::props_validate::job(c, crate::props_validate::Expect::Refuse(Some("InvalidURIPath")), "c09-asterisk-form", "C09: the request target `*` is not an absolute path: it must be refused as an invalid path (400), not canonicalised to `/`");
            j.expect_calls = Some(0);
            jobs2.push(j);
        } else if q.is_empty() {
            c.uri = "example.amazonaws.com:443".into();
            jobs2.push(crate::props_validate::job(c, crate::props_validate::Expect::Any, "c09-authority-form", ""));
        }
    }
    run_jobs(ctx, "VALIDATE", jobs);
    run_jobs(ctx, "VALIDATE", jobs2);
}

pub fn c09(ctx: &mut Ctx) {
    c09_e2e(ctx);
    c09_direct(ctx);
}

pub fn c09_direct(ctx: &mut Ctx) {
    helper_pieces(ctx);
    let mut tris = Vec::new();
    // (a) exhaustive: every byte literal (ASCII as is; high bytes inside a valid 2-byte sequence),
    // every %hh and %HH.
    for b in 0u16..256 {
        let b = b as u8;
        for is_path in [true, false] {
            if b < 0x80 {
                tris.push(elem_tri(&[b], is_path));
            } else {
                tris.push(elem_tri(&[b], is_path)); // model vs spec only (not UTF-8)
                let ch = char::from_u32(b as u32).unwrap().to_string();
                tris.push(elem_tri(ch.as_bytes(), is_path));
            }
            tris.push(elem_tri(format!("%{:02x}", b).as_bytes(), is_path));
            tris.push(elem_tri(format!("%{:02X}", b).as_bytes(), is_path));
            tris.push(elem_tri(format!("x%{:02X}y", b).as_bytes(), is_path));
        }
    }
    // (b) exhaustive: every two-character escape %xy (all 65 536; the 16 384 ASCII ones also on the crate)
    for x in 0u16..256 {
        for y in 0u16..256 {
            tris.push(elem_tri(&[b'%', x as u8, y as u8], x % 2 == 0));
        }
    }
    ctx.rep.add("exhaustive.elem_cases", tris.len() as u64);
    run_tris(ctx, std::mem::take(&mut tris));

    // (c) exhaustive: all paths of up to N segments over the segment alphabet, both modes
    let maxseg = ctx.n(4, 5);
    let mut count = 0u64;
    for nseg in 1..=maxseg {
        let total = 12usize.pow(nseg as u32);
        for idx in 0..total {
            let mut p = Vec::new();
            let mut k = idx;
            for _ in 0..nseg {
                p.push(b'/');
                p.extend_from_slice(SEG_ALPHABET[k % 12]);
                k /= 12;
            }
            tris.push(path_tri(&p, false));
            tris.push(path_tri(&p, true));
            count += 2;
            if tris.len() >= 50_000 {
                run_tris(ctx, std::mem::take(&mut tris));
            }
        }
    }
    // relative paths and the empty path
    for p in [&b""[..], b"/", b"a", b"a/b", b".", b"..", b"%2F", b"//", b"///a//b///"] {
        tris.push(path_tri(p, false));
        tris.push(path_tri(p, true));
    }
    run_tris(ctx, std::mem::take(&mut tris));
    ctx.rep.add("exhaustive.path_cases", count);
    ctx.rep.sample(format!("exhaustive paths: every path of <= {} segments over {:?}", maxseg, SEG_ALPHABET.iter().map(|s| show(s)).collect::<Vec<_>>()));

    // (d) random: logical segment lists, respelled; idempotence and respelling invariance on the crate
    let n = ctx.n(3000, 60000);
    let mut rng = ctx.rng.fork();
    for _ in 0..n {
        let nseg = rng.below(6);
        let mut segs: Vec<Vec<u8>> = Vec::new();
        for _ in 0..nseg {
            let l = rng.below(5);
            let seg: Vec<u8> = (0..l)
                .map(|_| {
                    let r = rng.below(10);
                    if r < 5 {
                        *rng.pick(b"abzAZ09-._~")
                    } else if r < 8 {
                        *rng.pick(b"/ %+:@!$&'()*,;=?#[]\"<>\\^`{|}")
                    } else {
                        rng.byte()
                    }
                })
                .collect();
            let mut seg = seg;
            if rng.chance(1, 5) {
                let at = rng.below(seg.len() + 1);
                let ch: &[u8] = *rng.pick(&[&b"\xc3\xa9"[..], b"\xe1\x88\xb4", b"\xf0\x9f\x98\x80", b"\xc2\xa0"]);
                for (k, b) in ch.iter().enumerate() {
                    seg.insert(at + k, *b);
                }
            }
            segs.push(seg);
        }
        let s3 = rng.chance(1, 3);
        let spell = |rng: &mut Rng| -> Vec<u8> {
            let mut p = Vec::new();
            if segs.is_empty() {
                p.push(b'/');
            }
            for s in &segs {
                p.push(b'/');
                p.extend(respell_bytes(rng, s, false));
            }
            p
        };
        let p1 = spell(&mut rng);
        let p2 = spell(&mut rng);
        tris.push(path_tri(&p1, s3));
        // metamorphic relations on the implementation
        if let (Ok(a), Ok(b)) = (std::str::from_utf8(&p1), std::str::from_utf8(&p2)) {
            let ra = imp::path(s3, a);
            let rb = imp::path(s3, b);
            ctx.rep.count("evaluations.respell");
            if ra != rb {
                ctx.rep.fail(Failure {
                    kind: "ORACLE",
                    op: "PATH".into(),
                    class: "path-respell".into(),
                    input: format!("PATH {} {} vs {}", s3 as u8, hx(&p1), hx(&p2)),
                    imp: format!("{} vs {}", ra, rb),
                    model: String::new(),
                    spec: String::new(),
                    clause: "two spellings of the same decoded path canonicalise differently".into(),
                });
            }
            if let Some(out) = ra.strip_prefix("OK ") {
                let o = unhx(out);
                let again = imp::path(s3, std::str::from_utf8(&o).unwrap());
                ctx.rep.count("evaluations.idempotence");
                if again != ra {
                    ctx.rep.fail(Failure {
                        kind: "ORACLE",
                        op: "PATH".into(),
                        class: "path-idempotence".into(),
                        input: format!("PATH {} {}", s3 as u8, hx(&p1)),
                        imp: format!("{} then {}", ra, again),
                        model: String::new(),
                        spec: String::new(),
                        clause: "canonicalisation is not idempotent".into(),
                    });
                }
            }
        }
        if ctx.rep.samples.len() < 6 {
            ctx.rep.sample(format!("PATH s3={} \"{}\"", s3, show(&p1)));
        }
    }
    // long paths over the segment alphabet (deeper dot-segment nesting than the exhaustive part reaches)
    for _ in 0..n {
        let nseg = 5 + rng.below(10);
        let mut p = Vec::new();
        for _ in 0..nseg {
            p.push(b'/');
            p.extend_from_slice(*rng.pick(&[&b"a"[..], b"b", b".", b"..", b"..", b"%2e", b"%2E%2e", b"", b"c%2Fd", b"~"]));
        }
        tris.push(path_tri(&p, rng.chance(1, 4)));
    }
    // alphabet-directed malformed strings
    for _ in 0..n {
        let l = rng.below(14);
        let mut p: Vec<u8> = Vec::new();
        if rng.chance(9, 10) {
            p.push(b'/');
        }
        for _ in 0..l {
            if rng.chance(1, 12) {
                p.extend_from_slice("\u{e9}".as_bytes());
            }
            p.push(*rng.pick(b"/.%+2eEfFa~!"));
        }
        tris.push(path_tri(&p, rng.chance(1, 3)));
    }
    run_tris(ctx, tris);
}

// ---------------------------------------------------------------------------------------------
// C10

pub fn qcanon_tri(q: &[u8]) -> Tri {
    let as_str = std::str::from_utf8(q).ok();
    let spec = spec_line(rs::ref_canon_query(q), "MalformedQueryString");
    let imp = as_str.map(|t| imp::qcanon(t));
    // class for known-finding matching: order defect needs a name that is a proper prefix of
    // another followed by a byte below '='
    Tri {
        op: "QCANON",
        line: format!("QCANON {}", hx(q)),
        imp,
        spec: Some(spec),
        class: "query".to_string(),
        clause: "canonical query is not the (name, value)-sorted, once-encoded list of all parameters except X-Amz-Signature",
        show: format!("query \"{}\"", show(q)),
    }
}

fn qparse_tri(q: &[u8]) -> Tri {
    let as_str = std::str::from_utf8(q).ok();
    Tri {
        op: "QPARSE",
        line: format!("QPARSE {}", hx(q)),
        imp: as_str.map(|t| imp::qparse(t)),
        spec: None,
        class: "query".to_string(),
        clause: "",
        show: format!("query \"{}\"", show(q)),
    }
}

const Q_ATOMS: [&[u8]; 18] = [
    b"a=1", b"a=2", b"a-=1", b"a.=1", b"a0=1", b"a%21=1", b"A=1", b"=v", b"a=", b"a", b"a=b=c", b"?b=2",
    b"X-Amz-Signature=abc", b"X-Amz-%53ignature=d", b"b=%20+x", b"",
    // only the exact name is the signature parameter
    b"x-amz-signature=e", b"X-AMZ-SIGNATURE=F",
];

/// The query as the entry point sees it: reference-signed requests whose only unusual dimension is the
/// query (any bytes, repeated names, many parameters, '?' and other reserved characters raw, permuted,
/// empty components) must validate.
fn c10_e2e(ctx: &mut Ctx) {
    use crate::gen::*;
    use crate::props_validate::{accept_job, run_jobs, simple_logical};
    let mut rng = ctx.rng.fork();
    let mut jobs = Vec::new();
    for k in 0..ctx.n(400, 8000) {
        let donor = random_logical(&mut rng);
        let mut l = simple_logical(if k % 2 == 0 { Carrier::Header } else { Carrier::Query }, 1_440_938_160_000_000_000);
        l.query = donor.query;
        if k % 7 == 0 {
            for i in 0..(21 + rng.below(60)) {
                l.query.push((format!("n{}", rng.below(4)).into_bytes(), format!("v{:03}", (i * 37) % 101).into_bytes()));
            }
        }
        if k % 5 == 0 {
            l.query.insert(0, (b"?first".to_vec(), b"1".to_vec()));
        }
        let mut sp = Spelling::plain();
        sp.respell = k % 3 != 0;
        sp.permute = k % 5 != 0 && k % 2 == 1;
        let now = now_for(&l, 0);
        let s = sign_and_spell(&l, &mut rng, &sp, now);
        if ctx.rep.samples.len() < 9 && k < 3 {
            ctx.rep.sample(format!("end to end: {}", show(s.case.uri.as_bytes())));
        }
        jobs.push(accept_job(&s, "c10-e2e", "C10: a request signed over the reference canonical query of its parameters was refused"));
    }
    run_jobs(ctx, "VALIDATE", jobs);
}

pub fn c10(ctx: &mut Ctx) {
    c10_e2e(ctx);
    c10_direct(ctx);
}

pub fn c10_direct(ctx: &mut Ctx) {
    let mut tris = Vec::new();
    // (a) every sequence of up to k atoms (quick 3, thorough 4) — covers every permutation of them
    let k = ctx.n(3, 4);
    let mut count = 0u64;
    for len in 0..=k {
        let total = Q_ATOMS.len().pow(len as u32);
        for idx in 0..total {
            let mut parts: Vec<&[u8]> = Vec::new();
            let mut x = idx;
            for _ in 0..len {
                parts.push(Q_ATOMS[x % Q_ATOMS.len()]);
                x /= Q_ATOMS.len();
            }
            let q = parts.join(&b'&');
            tris.push(qcanon_tri(&q));
            count += 1;
            if count % 7 == 0 {
                tris.push(qparse_tri(&q));
            }
        }
    }
    ctx.rep.add("exhaustive.query_cases", count);
    run_tris(ctx, std::mem::take(&mut tris));
    ctx.rep.sample(format!("every '&'-joined sequence of <= {} atoms from {:?}", k, Q_ATOMS.iter().map(|s| show(s)).collect::<Vec<_>>()));

    // (b) random decoded pair lists; permutation and respelling invariance on the crate
    let n = ctx.n(3000, 60000);
    let mut rng = ctx.rng.fork();
    for _ in 0..n {
        let np = rng.below(7);
        let mut pairs: Vec<(Vec<u8>, Vec<u8>)> = Vec::new();
        let names: [&[u8]; 16] = [b"a", b"a-", b"a.", b"a0", b"a!", b"A", b"", b"b c", b"X-Amz-Signature", b"k\xc3\xa9", b"?b", b"?", b"a?", b"x-amz-signature", b"X-AMZ-SIGNATURE", b"X-Amz-Signature "];
        if rng.chance(1, 12) {
            // many pairs under few names with distinct values: beyond what small-slice sorting paths cover
            let many = 21 + rng.below(70);
            for i in 0..many {
                pairs.push((format!("n{}", rng.below(4)).into_bytes(), format!("v{:03}", (i * 37) % 101).into_bytes()));
            }
        }
        for _ in 0..np {
            let name = if rng.chance(3, 4) { rng.pick(&names).to_vec() } else { (0..rng.below(4)).map(|_| rng.byte()).collect() };
            let value: Vec<u8> = if rng.chance(1, 2) {
                rng.pick(&[&b"1"[..], b"2", b"", b"=", b" ", b"+", b"&", b"%"]).to_vec()
            } else {
                (0..rng.below(4)).map(|_| rng.byte()).collect()
            };
            pairs.push((name, value));
        }
        let spell = |rng: &mut Rng, pairs: &[(Vec<u8>, Vec<u8>)]| -> Vec<u8> {
            let mut comps: Vec<Vec<u8>> = Vec::new();
            for (k, v) in pairs {
                let mut c = respell_bytes(rng, k, true);
                if !(v.is_empty() && rng.chance(1, 2)) {
                    c.push(b'=');
                    c.extend(respell_bytes(rng, v, true));
                }
                if c.is_empty() {
                    c.push(b'='); // an empty name with an empty value must still be a component
                }
                comps.push(c);
                if rng.chance(1, 6) {
                    comps.push(Vec::new()); // "&&"
                }
            }
            comps.join(&b'&')
        };
        let q1 = spell(&mut rng, &pairs);
        let mut perm = pairs.clone();
        rng.shuffle(&mut perm);
        let q2 = spell(&mut rng, &perm);
        tris.push(qcanon_tri(&q1));
        if rng.chance(1, 4) {
            tris.push(qparse_tri(&q1));
        }
        if let (Ok(a), Ok(b)) = (std::str::from_utf8(&q1), std::str::from_utf8(&q2)) {
            let ra = imp::qcanon(a);
            let rb = imp::qcanon(b);
            ctx.rep.count("evaluations.permute_respell");
            if ra != rb {
                ctx.rep.fail(Failure {
                    kind: "ORACLE",
                    op: "QCANON".into(),
                    class: "query-permutation".into(),
                    input: format!("QCANON {} vs {}", hx(&q1), hx(&q2)),
                    imp: format!("{} vs {}", ra, rb),
                    model: String::new(),
                    spec: String::new(),
                    clause: "a permutation/respelling of the same parameter multiset canonicalises differently".into(),
                });
            }
        }
        if ctx.rep.samples.len() < 6 {
            ctx.rep.sample(format!("QCANON \"{}\"", show(&q1)));
        }
    }
    // malformed stream
    for _ in 0..n / 2 {
        let l = rng.below(16);
        let q: Vec<u8> = (0..l).map(|_| *rng.pick(b"a=&%+2gG-.1 ")).collect();
        tris.push(qcanon_tri(&q));
    }
    run_tris(ctx, tris);
}

// ---------------------------------------------------------------------------------------------
// C06

pub fn c06(ctx: &mut Ctx) {
    use chrono::NaiveDate;
    let mut rng = ctx.rng.fork();
    let dates: Vec<(i32, u32, u32)> = vec![
        (1, 1, 1), (999, 12, 31), (1970, 1, 1), (2000, 2, 29), (2015, 8, 30), (2024, 2, 29), (2100, 2, 28),
        (9999, 12, 31), (1900, 3, 1), (2021, 1, 1), (0, 1, 1), (10000, 1, 1), (-1, 12, 31),
        // days whose ISO week-based year differs from the calendar year
        (2018, 12, 31), (2016, 1, 1), (2021, 1, 3), (2024, 12, 30), (2012, 1, 1), (2019, 12, 30),
    ];
    let strs: Vec<String> = vec!["".into(), "us-east-1".into(), "iam".into(), "é".into(), "区域".into(), " ".into(), "a/b".into(), "\u{0}".into(),
        // longer than any abbreviation threshold, with multi-byte characters across every small offset
        format!("eu-{}", "ü".repeat(40)), format!("{}東京-service", "s".repeat(30)), format!("{}é{}", "x".repeat(31), "y".repeat(300)), "ü".repeat(200)];
    let mut tris = Vec::new();
    // every secret length 0..=48 at the default capacity, each with several dates/regions/services
    for len in 0..=48usize {
        let reps = ctx.n(4, 40);
        for r in 0..reps {
            let secret: String = if r == 0 {
                "wJalrXUtnFEMI/K7MDENG/bPxRfiCYEXAMPLEKEY".chars().cycle().take(len).collect()
            } else if r == 1 && len > 0 {
                // NUL bytes are ordinary secret bytes: trailing, leading, or all of it
                let z = 1 + rng.below(len.min(3));
                match rng.below(3) {
                    0 => (0..len).map(|i| if i >= len - z { '\0' } else { 'k' }).collect(),
                    1 => (0..len).map(|i| if i < z { '\0' } else { 'k' }).collect(),
                    _ => (0..len).map(|_| '\0').collect(),
                }
            } else {
                let mut t: String = (0..len).map(|_| *rng.pick(b"abcXYZ019/+=\0 \x7f\n\r\t") as char).collect();
                // line terminators and blanks at either end are secret bytes like any other
                if len > 0 && rng.chance(1, 3) {
                    t.pop();
                    t.push(*rng.pick(&['\n', '\r', ' ', '\t']));
                }
                if len > 1 && rng.chance(1, 6) {
                    t.replace_range(0..1, *rng.pick(&["\n", " ", "\r"]));
                }
                // a secret may itself begin with the text of the key prefix
                if len >= 4 && (r == 2 || rng.chance(1, 8)) {
                    t.replace_range(0..4, "AWS4");
                }
                t
            };
            let (y, m, d) = *rng.pick(&dates);
            let region = rng.pick(&strs).clone();
            let service = rng.pick(&strs).clone();
            let date = NaiveDate::from_ymd_opt(y, m, d).unwrap();
            let imp_out = imp::keys44(&secret, date, &region, &service);
            // specification: the HMAC chain on "AWS4"+secret
            let spec = if len > 40 {
                "TOOLONG".to_string()
            } else {
                let ds = if (0..=9999).contains(&y) { format!("{:04}{:02}{:02}", y, m, d) } else { format!("{:+05}{:02}{:02}", y, m, d) };
                let ch = rs::key_chain(secret.as_bytes(), &ds, &region, &service);
                format!("OK {} {} {} {} {} 1", hx(secret.as_bytes()), hx(&ch[0]), hx(&ch[1]), hx(&ch[2]), hx(&ch[3]))
            };
            tris.push(Tri {
                op: "KEYS",
                line: format!("KEYS 44 {} {} {} {} {} {}", hx(secret.as_bytes()), y, m, d, hx(region.as_bytes()), hx(service.as_bytes())),
                imp: Some(imp_out),
                spec: Some(spec),
                class: if len == 40 { "keys-len40".into() } else if len > 40 { "keys-too-long".into() } else { format!("keys-secret-shorter-than-capacity") },
                clause: "derived keys differ from the SigV4 HMAC chain, or a secret that fits is not accepted / one that does not fit is not refused with an error",
                show: format!("secret of length {} date {}-{}-{} region \"{}\" service \"{}\"", len, y, m, d, region, service),
            });
        }
    }
    // consecutive derivations (same thread, same secret and date) for scope pairs that coincide once joined by
    // '/' or simply concatenated: each must still be its own HMAC chain, in either order, also when repeated
    for (si, secret) in ["wJalrXUtnFEMI/K7MDENG+bPxRfiCYEXAMPLEKEY", "k"].iter().enumerate() {
        for &(y, m, d) in &[(2015i32, 8u32, 30u32), (2018, 12, 31)] {
            let date = NaiveDate::from_ymd_opt(y, m, d).unwrap();
            let groups: [&[(&str, &str)]; 4] = [
                &[("us/east", "1"), ("us", "east/1"), ("us/east", "1")],
                &[("a", "b/c"), ("a/b", "c"), ("a/b/c", ""), ("", "a/b/c")],
                &[("ab", "c"), ("a", "bc"), ("abc", ""), ("ab", "c")],
                &[("us-east-1", "s3"), ("us-east-1", "s3"), ("us-east-1", "iam"), ("eu-west-1", "s3"), ("us-east-1", "s3")],
            ];
            for g in groups.iter() {
                for (region, service) in g.iter() {
                    let imp_out = imp::keys44(secret, date, region, service);
                    let ds = format!("{:04}{:02}{:02}", y, m, d);
                    let ch = rs::key_chain(secret.as_bytes(), &ds, region, service);
                    tris.push(Tri {
                        op: "KEYS",
                        line: format!("KEYS 44 {} {} {} {} {} {}", hx(secret.as_bytes()), y, m, d, hx(region.as_bytes()), hx(service.as_bytes())),
                        imp: Some(imp_out),
                        spec: Some(format!("OK {} {} {} {} {} 1", hx(secret.as_bytes()), hx(&ch[0]), hx(&ch[1]), hx(&ch[2]), hx(&ch[3]))),
                        class: "keys-consecutive-scopes".into(),
                        clause: "derived keys (or a shortcut derivation) differ from the SigV4 HMAC chain when several scopes are derived one after another in one thread",
                        show: format!("secret #{} date {}-{}-{} region \"{}\" service \"{}\" (in a run of consecutive derivations)", si, y, m, d, region, service),
                    });
                }
            }
        }
    }
    if ctx.rep.samples.len() < 6 {
        ctx.rep.sample("KEYS: every secret length 0..=48 at capacity 44 with dates incl. 0001-01-01, leap days, 9999-12-31, empty and non-ASCII region/service".into());
    }
    // construction at other capacities: OK / TOOLONG / PANIC only
    for &m in &[0usize, 1, 2, 3, 4, 5, 6, 7, 8, 20, 43, 45, 64, 100, 1024] {
        // lengths around the capacity (m - 4) and around m itself, for every capacity; each length once with random
        // characters and once starting with the text "AWS4" (a secret is data: a secret that looks like an already
        // prefixed key is still a secret of that length)
        let mut lens: Vec<usize> = vec![0usize, 1, 2, 3, 4, 5, 16, 39, 40, 41, 60, 61, 96, 97, 1020, 1021];
        for d in 0..=9usize {
            lens.push((m + 2).saturating_sub(d));
        }
        lens.sort();
        lens.dedup();
        for (len, aws4) in lens.iter().flat_map(|l| [(*l, false), (*l, true)]) {
            if aws4 && len < 4 {
                continue;
            }
            let mut secret: String = (0..len).map(|_| *rng.pick(b"abcXYZ019/+=") as char).collect();
            if aws4 {
                secret.replace_range(0..4, if len % 2 == 0 { "AWS4" } else { "AWS4" });
                if len >= 8 && len % 3 == 0 {
                    secret.replace_range(4..8, "AWS4");
                }
            }
            let imp_out = imp::secret_from_str_m(m, &secret).unwrap();
            let spec = if m >= 4 && len <= m - 4 { "OK" } else { "TOOLONG" };
            // model answers with the full KEYS line; reduce both to the class
            ctx.rep.count("evaluations");
            ctx.rep.count("evaluations.FROMSTR");
            ctx.rep.count("traces_validated_against_impl");
            let model = ctx.drv.ask(&format!("KEYS {} {} 2015 8 30 - -", m, hx(secret.as_bytes())));
            let mclass = model.split(' ').next().unwrap().to_string();
            let iclass = imp_out.split(' ').next().unwrap().to_string();
            let class = if m < 4 { "keys-capacity-below-4" } else if len < m - 4 { "keys-secret-shorter-than-capacity" } else { "keys" };
            if iclass != mclass {
                ctx.rep.fail(Failure { kind: "CORR", op: "FROMSTR".into(), class: class.into(), input: format!("KSecretKey::<{}>::from_str(len {})", m, len), imp: imp_out.clone(), model: model.clone(), spec: spec.into(), clause: "implementation and model disagree".into() });
            }
            if iclass != spec {
                ctx.rep.fail(Failure { kind: "ORACLE", op: "FROMSTR".into(), class: class.into(), input: format!("KSecretKey::<{}>::from_str(len {})", m, len), imp: imp_out, model, spec: spec.into(), clause: "a secret up to the capacity must be accepted, a longer one refused with an error; never a panic".into() });
            }
        }
    }
    run_tris(ctx, tris);
}

// ---------------------------------------------------------------------------------------------
// C16

pub fn iso_tri(s: &[u8]) -> Tri {
    let as_str = std::str::from_utf8(s).ok();
    let spec = match rs::ref_parse_iso(s) {
        Some(ns) => format!("OK {}", ns),
        None => "NONE".to_string(),
    };
    let imp = as_str.map(|t| imp::iso(t));
    let mut class = "iso".to_string();
    // zone hours 20..23
    if let Some(p) = s.iter().rposition(|c| *c == b'+' || *c == b'-') {
        if s.len() - p >= 5 && s[p + 1] == b'2' && (b'0'..=b'3').contains(&s[p + 2]) && p > 10 {
            class = "iso-zone-hour-20-23".to_string();
        }
    }
    if as_str.map(|t| t.chars().any(|c| !c.is_ascii() && c.is_numeric())).unwrap_or(false) {
        class = "iso-non-ascii-digit".to_string();
    }
    Tri {
        op: "ISO",
        line: format!("ISO {}", hx(s)),
        imp,
        spec: Some(spec),
        class,
        clause: "timestamp acceptance/value differs from the reference ISO-8601 parser",
        show: format!("timestamp \"{}\"", show(s)),
    }
}

pub fn render_iso(y: i64, mo: i64, d: i64, h: i64, mi: i64, s: i64, seps: u8, frac: &str, zone: &str) -> String {
    let d1 = if seps & 1 != 0 { "-" } else { "" };
    let d2 = if seps & 2 != 0 { "-" } else { "" };
    let t1 = if seps & 4 != 0 { ":" } else { "" };
    let t2 = if seps & 8 != 0 { ":" } else { "" };
    format!("{:04}{}{:02}{}{:02}T{:02}{}{:02}{}{:02}{}{}", y, d1, mo, d2, d, h, t1, mi, t2, s, frac, zone)
}

pub fn c16(ctx: &mut Ctx) {
    let mut tris = Vec::new();
    let mut rng = ctx.rng.fork();
    // (a) every two-digit value of each field, others fixed; basic and extended
    for v in 0..100i64 {
        for seps in [0u8, 15] {
            tris.push(iso_tri(render_iso(2015, v, 15, 12, 36, 0, seps, "", "Z").as_bytes()));
            tris.push(iso_tri(render_iso(2015, 8, v, 12, 36, 0, seps, "", "Z").as_bytes()));
            tris.push(iso_tri(render_iso(2015, 2, v, 12, 36, 0, seps, "", "Z").as_bytes()));
            tris.push(iso_tri(render_iso(2016, 2, v, 12, 36, 0, seps, "", "Z").as_bytes()));
            tris.push(iso_tri(render_iso(1900, 2, v, 12, 36, 0, seps, "", "Z").as_bytes()));
            tris.push(iso_tri(render_iso(2000, 2, v, 12, 36, 0, seps, "", "Z").as_bytes()));
            tris.push(iso_tri(render_iso(2015, 4, v, 12, 36, 0, seps, "", "Z").as_bytes()));
            tris.push(iso_tri(render_iso(2015, 8, 30, v, 36, 0, seps, "", "Z").as_bytes()));
            tris.push(iso_tri(render_iso(2015, 8, 30, 12, v, 0, seps, "", "Z").as_bytes()));
            tris.push(iso_tri(render_iso(2015, 8, 30, 12, 36, v, seps, "", "Z").as_bytes()));
        }
    }
    // (b) every separator combination (2^4 here, times 2 for the zone colon)
    for seps in 0..16u8 {
        for zone in ["Z", "+0130", "+01:30", "-0800", "-08:00"] {
            tris.push(iso_tri(render_iso(2015, 8, 30, 12, 36, 7, seps, "", zone).as_bytes()));
            tris.push(iso_tri(render_iso(2015, 8, 30, 12, 36, 7, seps, ".25", zone).as_bytes()));
        }
    }
    // (c) every zone hour x minute, both signs, with and without colon
    for hh in 0..100 {
        for mm in 0..100 {
            if hh > 30 && mm > 5 && mm < 55 {
                continue;
            }
            let sign = if (hh + mm) % 2 == 0 { '+' } else { '-' };
            let z1 = format!("{}{:02}{:02}", sign, hh, mm);
            let z2 = format!("{}{:02}:{:02}", sign, hh, mm);
            tris.push(iso_tri(render_iso(2015, 8, 30, 12, 36, 0, 0, "", &z1).as_bytes()));
            tris.push(iso_tri(render_iso(2015, 8, 30, 12, 36, 0, 15, "", &z2).as_bytes()));
        }
    }
    // (d) fraction lengths 0..12 with '.' and ','
    for l in [0usize, 1, 2, 3, 4, 5, 6, 7, 8, 9, 10, 11, 12, 18, 19, 20, 21, 25, 40, 100] {
        for sep in [".", ","] {
            let digits: String = (0..l).map(|i| char::from(if l > 12 && i % 2 == 0 { b'9' } else { b'1' + (i % 9) as u8 })).collect();
            let frac = format!("{}{}", sep, digits);
            tris.push(iso_tri(render_iso(2015, 8, 30, 12, 36, 0, 0, &frac, "Z").as_bytes()));
            tris.push(iso_tri(render_iso(2015, 8, 30, 12, 36, 59, 15, &frac, "+05:45").as_bytes()));
        }
    }
    // (e) years, missing zone, junk around
    for y in [0i64, 1, 99, 999, 1600, 1969, 1970, 2038, 9999] {
        tris.push(iso_tri(render_iso(y, 1, 1, 0, 0, 0, 0, "", "Z").as_bytes()));
        tris.push(iso_tri(render_iso(y, 12, 31, 23, 59, 59, 15, ".999999999", "-23:59").as_bytes()));
        tris.push(iso_tri(render_iso(y, 1, 1, 0, 0, 0, 15, "", "+23:59").as_bytes()));
    }
    for s in [
        "20150830T123600", "20150830T123600z", "20150830t123600Z", " 20150830T123600Z", "20150830T123600Z ", "20150830T123600Z\n",
        "20150830T123600ZZ", "2015-08-30 12:36:00Z", "20150830T1236Z", "20150830T12Z", "201508301T23600Z", "20150830T123600+01",
        "20150830T123600+1:00", "20150830T123600.Z", "20150830T123600,Z", "20150830T123600.5", "+20150830T123600Z",
        "٢٠١٥0830T123600Z", "2015٠830T123600Z", "２０１５0830T123600Z", "20150830T123600+２０00", "", "Z", "T",
        "2015--08-30T12:36:00Z", "2015-08-30T12::36:00Z", "20150830T123600+2000", "20150830T123600-2359", "20150830T123600+2400",
    ] {
        tris.push(iso_tri(s.as_bytes()));
    }
    ctx.rep.add("exhaustive.iso_cases", tris.len() as u64);
    run_tris(ctx, std::mem::take(&mut tris));
    ctx.rep.sample("ISO: every two-digit value of month/day/hour/minute/second (basic+extended, 6 month/year contexts), all separator combinations, every zone hh x mm, fraction lengths 0..12".into());

    // (f) random valid renderings and byte mutations of them
    let n = ctx.n(4000, 80000);
    for _ in 0..n {
        let y = *rng.pick(&[1i64, 1970, 1999, 2000, 2015, 2016, 2024, 2100, 9999]);
        let mo = rng.range(1, 12);
        let d = rng.range(1, 31);
        let zone = match rng.below(4) {
            0 => "Z".to_string(),
            1 => format!("{}{:02}{:02}", if rng.chance(1, 2) { '+' } else { '-' }, rng.range(0, 23), rng.range(0, 59)),
            2 => format!("{}{:02}:{:02}", if rng.chance(1, 2) { '+' } else { '-' }, rng.range(0, 23), rng.range(0, 59)),
            _ => format!("+{:02}{:02}", rng.range(0, 14), rng.range(0, 3) * 15),
        };
        let frac = if rng.chance(1, 3) {
            let l = rng.range(1, 11);
            format!("{}{}", if rng.chance(1, 2) { '.' } else { ',' }, (0..l).map(|_| char::from(b'0' + rng.below(10) as u8)).collect::<String>())
        } else {
            String::new()
        };
        let s = render_iso(y, mo, d, rng.range(0, 23), rng.range(0, 59), rng.range(0, 59), rng.below(16) as u8, &frac, &zone);
        let mut b = s.into_bytes();
        if rng.chance(1, 3) {
            // mutate: replace, insert or delete one byte
            let pos = rng.below(b.len());
            match rng.below(3) {
                0 => b[pos] = *rng.pick(b"0123456789TZ+-:., z"),
                1 => b.insert(pos, *rng.pick(b"0123456789TZ+-:., ")),
                _ => {
                    b.remove(pos);
                }
            }
        }
        if ctx.rep.samples.len() < 6 {
            ctx.rep.sample(format!("ISO \"{}\"", show(&b)));
        }
        tris.push(iso_tri(&b));
    }
    run_tris(ctx, std::mem::take(&mut tris));

    // (f') every rendering style through the whole entry point, on either carrier: a correctly signed
    // request whose timestamp is written in any accepted form must be accepted (inside the window), and
    // the scope date demanded must be the UTC date of the instant
    if !ctx.rep.dep_mode {
        use crate::gen::*;
        use crate::props_validate::{job, run_jobs, simple_logical, Expect};
        let mut jobs = Vec::new();
        let offs: [i64; 7] = [0, 3600, -3600, 5 * 3600 + 2700, -(9 * 3600 + 1800), 14 * 3600, -1800];
        for k in 0..ctx.n(160, 1600) {
            let carrier = if k % 2 == 0 { Carrier::Header } else { Carrier::Query };
            // instants around midnight UTC so that local and UTC dates differ for most offsets
            let day: i128 = [16677i128, 17896, 16677, 16801, 18628, 16677, 20088, 16802, 18992, 17897][k / 2 % 10];
            let t = (day * 86400 + [30i128, 86370, 43200, 600, 85800][k % 5]) * 1_000_000_000 + if k % 3 == 0 { 123_456_789 } else { 0 };
            let mut l = simple_logical(carrier, t);
            l.time_style = (offs[k % offs.len()], (k * 7 % 128) as u8, if k % 4 == 1 { 1 + k % 11 } else { 0 });
            l.use_date_header = k % 10 == 4;
            let now = now_for(&l, (k as i128 % 7 - 3) * 100_000_000_000);
            let s = sign_and_spell(&l, &mut rng, &Spelling::plain(), now);
            if ctx.rep.samples.len() < 8 && k < 3 {
                ctx.rep.sample(format!("carrier {:?}: timestamp text \"{}\"", l.carrier, render_time(l.time_ns, l.time_style)));
            }
            let mut j = job(s.case, Expect::Accept, "c16-carrier", "C16: a well-formed ISO-8601 timestamp, delivered by this carrier, was not accepted with its exact value");
            j.expect_calls = Some(1);
            jobs.push(j);
        }
        run_jobs(ctx, "VALIDATE", jobs);
    }

    // (h) the timestamp line the crate itself writes into the string-to-sign (prevalidate +
    // get_string_to_sign, unstable API) for instants over the whole range, with the days around New Year
    // (where week-based and calendar years differ) over-represented: crate vs model vs YYYYMMDD'T'hhmmss'Z'
    {
        let ny: [i64; 10] = [17896, 16801, 16802, 18628, 20088, 18992, 17897, 15705, 14975, 12418];
        for k in 0..ctx.n(3000, 60000) {
            let days = if k % 3 == 0 { *rng.pick(&ny) + rng.range(-3, 3) } else { rng.range(-719162, 2932896) };
            let secs = days * 86400 + rng.range(0, 86399);
            let nanos: i64 = if rng.chance(1, 2) { 0 } else { rng.range(0, 999_999_999) };
            let ns = secs as i128 * 1_000_000_000 + nanos as i128;
            let (compact, date) = rs::ref_compact(ns);
            let cred = format!("AKID/{}/us-east-1/iam/aws4_request", date);
            let imp_out = match imp::preval(&cred, (secs, nanos as u32), (secs, 0), "us-east-1", "iam") { Some(x) => x, None => continue };
            let sts = format!("AWS4-HMAC-SHA256\n{}\n{}/us-east-1/iam/aws4_request\n{}", compact, date, "00".repeat(32));
            tris.push(Tri {
                op: "PREVAL",
                line: format!("PREVAL {} {} {} {} {}", hx(cred.as_bytes()), ns, secs as i128 * 1_000_000_000, hx(b"us-east-1"), hx(b"iam")),
                imp: Some(imp_out),
                spec: Some(format!("OK {}", hx(sts.as_bytes()))),
                class: "c16-string-to-sign-timestamp".into(),
                clause: "the timestamp line of the string-to-sign (or the scope date demanded) is not the instant rendered as YYYYMMDD'T'hhmmss'Z' in UTC",
                show: format!("instant {} ns ({})", ns, compact),
            });
        }
        run_tris(ctx, std::mem::take(&mut tris));
    }
    // (i) extra bytes around a well-formed timestamp in a date header: only the surrounding spaces of a header
    // value are forgiven; any other byte a header value may carry (tab, 0x85, 0xA0, ...) is the format error
    if !ctx.rep.dep_mode {
        use crate::gen::*;
        use crate::props_validate::{job, run_jobs, simple_logical, Expect};
        let mut jobs = Vec::new();
        let bytes: Vec<u8> = (0u16..256).map(|b| b as u8).filter(|b| *b == 9 || (*b >= 0x20 && *b != 0x7f)).collect();
        let stride = ctx.n(3, 1);
        for (n, &b) in bytes.iter().enumerate() {
            // always the whitespace look-alikes; the rest by stride in the quick tier
            if !(n % stride == 0 || [9u8, 0x20, 0x85, 0xa0, 0x0c, b'Z', b'0', b'+'].contains(&b)) {
                continue;
            }
            for before in [true, false] {
                for use_date in [false, true] {
                    let mut l = simple_logical(Carrier::Header, 1_440_938_160_000_000_000);
                    l.use_date_header = use_date;
                    l.time_style = (if n % 2 == 0 { 0 } else { -1800 }, (n % 32) as u8, 0);
                    let now = now_for(&l, 0);
                    let s = sign_and_spell(&l, &mut rng, &Spelling::plain(), now);
                    let mut c = s.case;
                    for (hn, v) in c.headers.iter_mut() {
                        if hn.eq_ignore_ascii_case(if use_date { "date" } else { "x-amz-date" }) {
                            if before { v.insert(0, b) } else { v.push(b) }
                        }
                    }
                    let expect = if b == b' ' { Expect::Accept } else { Expect::Refuse(Some("IncompleteSignature")) };
                    let mut j = job(c, expect, "c16-bytes-around-timestamp", "C16: a timestamp with an extra byte before or after it (other than the spaces surrounding a header value) must be the ISO-8601 format error (400); with surrounding spaces it is accepted");
                    j.expect_calls = Some(if b == b' ' { 1 } else { 0 });
                    jobs.push(j);
                }
            }
        }
        run_jobs(ctx, "VALIDATE", jobs);
    }

    // (g) compact rendering: the instant read back and its YYYYMMDD'T'hhmmss'Z' line (model vs reference)
    let mut lines = Vec::new();
    let mut want = Vec::new();
    for _ in 0..ctx.n(2000, 20000) {
        let days = rng.range(-719162, 2932896); // 0001-01-01 .. 9999-12-31
        let ns = (days as i128 * 86400 + rng.range(0, 86399) as i128) * 1_000_000_000 + rng.range(0, 999_999_999) as i128;
        let (c, d) = rs::ref_compact(ns);
        lines.push(format!("COMPACT {}", ns));
        want.push((c, d));
    }
    let got = ctx.drv.ask_all(&lines);
    for ((l, (c, d)), g) in lines.iter().zip(want.iter()).zip(got.iter()) {
        ctx.rep.count("evaluations");
        ctx.rep.count("evaluations.COMPACT");
        let f: Vec<&str> = g.split(' ').collect();
        if f.len() != 3 || f[0] != hx(c.as_bytes()) || f[2] != hx(d.as_bytes()) {
            ctx.rep.fail(Failure { kind: "INTERNAL", op: "COMPACT".into(), class: "compact".into(), input: l.clone(), imp: String::new(), model: g.clone(), spec: format!("{} {}", c, d), clause: "model compact rendering differs from the reference".into() });
        }
    }
}
