/-
  Property C14 — the key provider is consulted once, last, and its failures never authenticate.
-/
import SigV4.Spec.ValidateSpec
import SigV4.Lemmas.C14

namespace SigV4.C14

/-- At most one provider call per validation. -/
theorem at_most_once {σ : Type} (H : Bytes → Bytes) (cfg : Config) (P : Provider σ) (s : σ) (req : Request) :
    (validate H cfg P s req).calls.length ≤ 1 := by
  sorry

/-- A call happens only for requests that passed every structural, signed-header, freshness and
scope check, only after readiness, and with the request built from the authenticator. -/
theorem only_after_prechecks {σ : Type} (H : Bytes → Bytes) (cfg : Config) (P : Provider σ) (s : σ)
    (req : Request) (c : ProviderReq) (hc : c ∈ (validate H cfg P s req).calls) :
    ∃ a, authOf H cfg req = .ok a ∧ prevalidate a cfg.region cfg.service cfg.now = .ok () ∧
      (P.ready s).1 = none ∧ c = providerReqOf a cfg.region cfg.service := by
  sorry

/-- A request that fails any pre-check leaves the provider alone: no call, not even a readiness poll
(its state is untouched). -/
theorem defective_request_no_provider {σ : Type} (H : Bytes → Bytes) (cfg : Config) (P : Provider σ) (s : σ)
    (req : Request)
    (h : (∃ k, authOf H cfg req = .err k) ∨
         (∃ a k, authOf H cfg req = .ok a ∧ prevalidate a cfg.region cfg.service cfg.now = .err k)) :
    (validate H cfg P s req).calls = [] ∧ (validate H cfg P s req).state = s ∧
    ∃ k, (validate H cfg P s req).out = .err k := by
  sorry

/-- A provider that reports a readiness error is never called; the error is mapped like any other. -/
theorem not_ready_no_call {σ : Type} (H : Bytes → Bytes) (cfg : Config) (P : Provider σ) (s s' : σ)
    (req : Request) (a : Authenticator) (e : ProvErr)
    (ha : authOf H cfg req = .ok a) (hp : prevalidate a cfg.region cfg.service cfg.now = .ok ())
    (hr : P.ready s = (some e, s')) :
    (validate H cfg P s req).out = .err e.toKind ∧ (validate H cfg P s req).calls = [] ∧
    (validate H cfg P s req).state = s' := by
  sorry

/-- Error mapping: a `SignatureError` from the provider is returned unchanged, anything else becomes
an internal failure (500). -/
theorem error_mapping {σ : Type} (H : Bytes → Bytes) (cfg : Config) (P : Provider σ) (s s' s'' : σ)
    (req : Request) (a : Authenticator) (e : ProvErr)
    (ha : authOf H cfg req = .ok a) (hp : prevalidate a cfg.region cfg.service cfg.now = .ok ())
    (hr : P.ready s = (none, s')) (hcall : P.call s' (providerReqOf a cfg.region cfg.service) = (.error e, s'')) :
    (validate H cfg P s req).out = .err e.toKind ∧
    (validate H cfg P s req).calls = [providerReqOf a cfg.region cfg.service] ∧
    (validate H cfg P s req).state = s'' := by
  sorry

theorem provErr_kinds : (∀ k, (ProvErr.sig k).toKind = k) ∧ ProvErr.foreign.toKind = .InternalServiceError ∧
    ErrKind.InternalServiceError.status = 500 := by
  sorry

/-- No provider error, readiness error or absent answer ever results in acceptance: success
requires readiness and a key, and the signature must verify under that key. -/
theorem never_ok_on_error {σ : Type} (H : Bytes → Bytes) (cfg : Config) (P : Provider σ) (s : σ)
    (req : Request) (r : Returned) (h : (validate H cfg P s req).out = .ok r) :
    ∃ a resp sts, authOf H cfg req = .ok a ∧ (P.ready s).1 = none ∧
      (P.call (P.ready s).2 (providerReqOf a cfg.region cfg.service)).1 = .ok resp ∧
      stringToSign a = .ok sts ∧ a.signature = hexLower (hmac H resp.key sts) ∧ r.identity = resp.identity := by
  sorry

/-- Histories: over any sequence of validations sharing one provider, every validation makes at
most one call, the provider state is threaded through in order, and each outcome is the outcome
of validating that request alone from the state the provider was left in. -/
theorem history {σ : Type} (H : Bytes → Bytes) (P : Provider σ) (s : σ) (l : List (Config × Request)) :
    let res := (validateMany H P s l).1
    res.length = l.length ∧ (∀ o ∈ res, o.2.length ≤ 1) ∧
    (res.flatMap (·.2)).length ≤ l.length := by
  sorry

theorem history_step {σ : Type} (H : Bytes → Bytes) (P : Provider σ) (s : σ) (cfg : Config) (req : Request)
    (rest : List (Config × Request)) :
    validateMany H P s ((cfg, req) :: rest) =
      (((validate H cfg P s req).out, (validate H cfg P s req).calls)
          :: (validateMany H P (validate H cfg P s req).state rest).1,
        (validateMany H P (validate H cfg P s req).state rest).2) := by
  sorry

/-- Across a history no request is ever accepted on a provider error. -/
theorem history_never_ok_on_error {σ : Type} (H : Bytes → Bytes) (P : Provider σ) (s : σ)
    (l : List (Config × Request)) (hP : ∀ st pr, ∃ e, (P.call st pr).1 = .error e) :
    ∀ o ∈ (validateMany H P s l).1, ∀ r, o.1 ≠ .ok r := by
  sorry

end SigV4.C14

#print axioms SigV4.C14.at_most_once
#print axioms SigV4.C14.only_after_prechecks
#print axioms SigV4.C14.defective_request_no_provider
#print axioms SigV4.C14.not_ready_no_call
#print axioms SigV4.C14.error_mapping
#print axioms SigV4.C14.provErr_kinds
#print axioms SigV4.C14.never_ok_on_error
#print axioms SigV4.C14.history
#print axioms SigV4.C14.history_step
#print axioms SigV4.C14.history_never_ok_on_error
