/- Helper lemmas for C06 (HMAC key padding, secret buffer). -/
import SigV4.Model.Keys

namespace SigV4

end SigV4
