/- Helper lemmas for C17. -/
import SigV4.Model.Observe
import SigV4.Spec.ValidateSpec

namespace SigV4

end SigV4
