/- Helper lemmas for C17. -/
import SigV4.Model.Observe
import SigV4.Spec.ValidateSpec
import SigV4.Lemmas.C14

namespace SigV4

/-- `validateDebug` in terms of `authOf`. -/
theorem validateDebug_eq {σ : Type} (H : Bytes → Bytes) (cfg : Config) (P : Provider σ) (s : σ)
    (req : Request) :
    validateDebug H cfg P s req =
      match authOf H cfg req with
      | .ok a =>
        match prevalidate a cfg.region cfg.service cfg.now with
        | .ok () =>
          match stringToSign a with
          | .ok _ => getSigningKeyDebug P s (providerReqOf a cfg.region cfg.service)
          | _ => []
        | _ => []
      | _ => [] := by
  unfold validateDebug authOf
  cases fromRequestParts H cfg.opts cfg.other req <;> rfl

theorem validateDebug_of_authOf_ok {σ : Type} (H : Bytes → Bytes) (cfg : Config) (P : Provider σ)
    (s : σ) (req : Request) (a : Authenticator) (sts : Bytes) (ha : authOf H cfg req = .ok a)
    (hp : prevalidate a cfg.region cfg.service cfg.now = .ok ()) (hs : stringToSign a = .ok sts) :
    validateDebug H cfg P s req = getSigningKeyDebug P s (providerReqOf a cfg.region cfg.service) := by
  rw [validateDebug_eq]
  simp only [ha, hp, hs]

/-- The outcome of the post-provider comparison. -/
def sigOut (H : Bytes → Bytes) (a : Authenticator) (sts : Bytes) (o : Outcome ProviderResp) :
    Outcome ProviderResp :=
  match o with
  | .err k => .err k
  | .panic p => .panic p
  | .ok resp =>
    if a.signature = hexLower (hmac H resp.key sts) then .ok resp
    else .err .SignatureDoesNotMatch

/-- One validation, split into the provider-free part and the provider part, uniformly in the
provider. -/
theorem validate_split (H : Bytes → Bytes) (cfg : Config) (req : Request) :
    (∃ o : Outcome Returned, (∀ r, o ≠ .ok r) ∧
      ∀ (σ : Type) (P : Provider σ) (s : σ),
        validate H cfg P s req = { out := o, state := s, calls := [] } ∧
        validateDebug H cfg P s req = []) ∨
    (∃ a fp sts, authOf H cfg req = .ok a ∧
      fromRequestParts H cfg.opts cfg.other req = .ok fp ∧
      prevalidate a cfg.region cfg.service cfg.now = .ok () ∧ stringToSign a = .ok sts ∧
      ∀ (σ : Type) (P : Provider σ) (s : σ),
        validate H cfg P s req =
          finish req fp
            { out := sigOut H a sts (getSigningKey P s a cfg.region cfg.service).out,
              state := (getSigningKey P s a cfg.region cfg.service).state,
              calls := (getSigningKey P s a cfg.region cfg.service).calls } ∧
        validateDebug H cfg P s req =
          getSigningKeyDebug P s (providerReqOf a cfg.region cfg.service)) := by
  rcases authOf_cases H cfg req with ⟨a, ha⟩ | ⟨k, hk⟩ | ⟨p, hp⟩
  · cases hpre : prevalidate a cfg.region cfg.service cfg.now with
    | ok u =>
      cases u
      obtain ⟨sts, hsts⟩ := stringToSign_ok_of_prevalidate hpre
      obtain ⟨fp, hfp, _, _⟩ := validate_of_authOf_ok H cfg (⟨fun s => (none, s), fun s _ => (.error .foreign, s)⟩ : Provider Unit) () req a ha
      refine .inr ⟨a, fp, sts, ha, hfp, hpre, hsts, ?_⟩
      intro σ P s
      obtain ⟨fp', hfp', _, hv⟩ := validate_of_authOf_ok H cfg P s req a ha
      rw [hfp] at hfp'
      cases hfp'
      refine ⟨?_, validateDebug_of_authOf_ok H cfg P s req a sts ha hpre hsts⟩
      rw [hv, validateSignature_of_prevalidate_ok H P s a _ _ _ sts hpre hsts]
      rfl
    | err k =>
      refine .inl ⟨.err k, ⟨fun r h => (by cases h), ?_⟩⟩
      intro σ P s
      obtain ⟨fp, _, _, hv⟩ := validate_of_authOf_ok H cfg P s req a ha
      rw [hv, validateSignature_prevalidate_err H P s a _ _ _ k hpre, validateDebug_eq]
      simp only [ha, hpre]
      exact ⟨rfl, trivial⟩
    | panic p =>
      refine .inl ⟨.panic p, ⟨fun r h => (by cases h), ?_⟩⟩
      intro σ P s
      obtain ⟨fp, _, _, hv⟩ := validate_of_authOf_ok H cfg P s req a ha
      rw [hv, validateSignature_prevalidate_panic H P s a _ _ _ p hpre, validateDebug_eq]
      simp only [ha, hpre]
      exact ⟨rfl, trivial⟩
  · refine .inl ⟨.err k, ⟨fun r h => (by cases h), ?_⟩⟩
    intro σ P s
    rw [validate_of_authOf_err H cfg P s req k hk, validateDebug_eq]
    simp only [hk]
    exact ⟨trivial, trivial⟩
  · refine .inl ⟨.panic p, ⟨fun r h => (by cases h), ?_⟩⟩
    intro σ P s
    rw [validate_of_authOf_panic H cfg P s req p hp, validateDebug_eq]
    simp only [hp]
    exact ⟨trivial, trivial⟩

/-- Full case analysis of `getSigningKey` together with its debug records. -/
theorem getSigningKey_debug_cases {σ : Type} (P : Provider σ) (s : σ) (a : Authenticator)
    (region service : Bytes) :
    (∃ e, (P.ready s).1 = some e ∧
      getSigningKey P s a region service =
        { out := .err e.toKind, state := (P.ready s).2, calls := [] } ∧
      getSigningKeyDebug P s (providerReqOf a region service) =
        [{ site := "auth.rs:267", err := e }]) ∨
    ((P.ready s).1 = none ∧ ∃ e,
      (P.call (P.ready s).2 (providerReqOf a region service)).1 = .error e ∧
      getSigningKey P s a region service =
        { out := .err e.toKind,
          state := (P.call (P.ready s).2 (providerReqOf a region service)).2,
          calls := [providerReqOf a region service] } ∧
      getSigningKeyDebug P s (providerReqOf a region service) =
        [{ site := "auth.rs:267", err := e }]) ∨
    ((P.ready s).1 = none ∧ ∃ resp,
      (P.call (P.ready s).2 (providerReqOf a region service)).1 = .ok resp ∧
      getSigningKey P s a region service =
        { out := .ok resp,
          state := (P.call (P.ready s).2 (providerReqOf a region service)).2,
          calls := [providerReqOf a region service] } ∧
      getSigningKeyDebug P s (providerReqOf a region service) = []) := by
  rcases hr : P.ready s with ⟨_ | e, s'⟩
  · rcases hc : P.call s' (providerReqOf a region service) with ⟨e | resp, s''⟩
    · refine .inr (.inl ⟨rfl, e, rfl, getSigningKey_call_err P s s' s'' a region service e hr hc, ?_⟩)
      unfold getSigningKeyDebug
      simp only [hr, hc]
    · refine .inr (.inr ⟨rfl, resp, rfl, getSigningKey_call_ok P s s' s'' a region service resp hr hc, ?_⟩)
      unfold getSigningKeyDebug
      simp only [hr, hc]
  · refine .inl ⟨e, rfl, getSigningKey_not_ready P s s' a region service e hr, ?_⟩
    unfold getSigningKeyDebug
    simp only [hr]

/-- Two providers alike up to key bytes: `getSigningKey` agrees on everything but the key. -/
theorem getSigningKey_sameUpToKey {σ : Type} (P P' : Provider σ) (s : σ) (a : Authenticator)
    (region service : Bytes)
    (h1 : ∀ st, P.ready st = P'.ready st)
    (h2 : ∀ st pr, (P.call st pr).2 = (P'.call st pr).2)
    (h3 : ∀ st pr, match (P.call st pr).1, (P'.call st pr).1 with
      | .ok r, .ok r' => r.identity = r'.identity
      | .error e, .error e' => e = e'
      | _, _ => False) :
    (getSigningKey P s a region service).calls = (getSigningKey P' s a region service).calls ∧
    (getSigningKey P s a region service).state = (getSigningKey P' s a region service).state ∧
    getSigningKeyDebug P s (providerReqOf a region service) =
      getSigningKeyDebug P' s (providerReqOf a region service) ∧
    ((∃ k, (getSigningKey P s a region service).out = .err k ∧
        (getSigningKey P' s a region service).out = .err k) ∨
     (∃ r r', (getSigningKey P s a region service).out = .ok r ∧
        (getSigningKey P' s a region service).out = .ok r' ∧ r.identity = r'.identity)) := by
  rcases getSigningKey_debug_cases P s a region service with
    ⟨e, hr, hg, hd⟩ | ⟨hr, e, hc, hg, hd⟩ | ⟨hr, resp, hc, hg, hd⟩ <;>
  rcases getSigningKey_debug_cases P' s a region service with
    ⟨e', hr', hg', hd'⟩ | ⟨hr', e', hc', hg', hd'⟩ | ⟨hr', resp', hc', hg', hd'⟩ <;>
  rw [← h1] at hr' <;> (try (rw [hr] at hr'; cases hr'))
  · rw [hg, hg', hd, hd', ← h1]
    exact ⟨rfl, rfl, rfl, .inl ⟨_, rfl, rfl⟩⟩
  all_goals
    rw [← h1] at hc' hg'
    have h2' := h2 (P.ready s).2 (providerReqOf a region service)
    have h3' := h3 (P.ready s).2 (providerReqOf a region service)
    rw [hc, hc'] at h3'
    simp only at h3'
  · subst h3'
    rw [hg, hg', hd, hd', h2']
    exact ⟨rfl, rfl, rfl, .inl ⟨_, rfl, rfl⟩⟩
  · rw [hg, hg', hd, hd', h2']
    exact ⟨rfl, rfl, rfl, .inr ⟨_, _, rfl, rfl, h3'⟩⟩

end SigV4
