/-
  Property C11 — header canonicalisation: signed headers bound, unsigned ones without influence.
-/
import SigV4.Spec.HeaderSpec
import SigV4.Lemmas.Headers
import SigV4.Lemmas.C11Validate

namespace SigV4.C11

/-- Value canonicalisation is trim + collapse of spaces. -/
theorem normHeaderValue_eq_spec (v : Bytes) : normHeaderValue v = refHeaderValue v := by
  exact normHeaderValue_eq_ref v

/-- The canonical value has no leading, trailing or doubled space, and is unchanged by adding such. -/
theorem normHeaderValue_shape (v : Bytes) :
    (normHeaderValue v).head? ≠ some (0x20 : UInt8) ∧ (normHeaderValue v).getLast? ≠ some (0x20 : UInt8) ∧
    ∀ i : Nat, (normHeaderValue v)[i]? = some (0x20 : UInt8) → (normHeaderValue v)[i+1]? ≠ some (0x20 : UInt8) := by
  exact ⟨good_head _ (normHeaderValue_good v), normHeaderValue_last v,
    good_nodbl _ _ (normHeaderValue_good v)⟩

theorem normHeaderValue_idempotent (v : Bytes) : normHeaderValue (normHeaderValue v) = normHeaderValue v := by
  exact normHeaderValue_fix _ (normHeaderValue_good v) (normHeaderValue_last v)

/-- Redundant spaces do not matter: extra spaces before, after, or next to an existing space. -/
theorem normHeaderValue_extra_spaces (a b : Bytes) :
    normHeaderValue (a ++ [0x20, 0x20] ++ b) = normHeaderValue (a ++ [0x20] ++ b) ∧
    normHeaderValue ([0x20] ++ a) = normHeaderValue a ∧
    normHeaderValue (a ++ [0x20]) = normHeaderValue a := by
  refine ⟨?_, ?_, ?_⟩
  · simp only [normHeaderValue, List.append_assoc, List.cons_append, List.nil_append,
      nhvLoop_double_space]
  · simp [normHeaderValue, nhvLoop]
  · obtain ⟨t, ht, e⟩ := nhvLoop_trailing_space true a
    unfold normHeaderValue
    rw [e]
    rcases ht with rfl | rfl
    · simp
    · exact dropWhileEnd_append_singleton_pos _ _ _ (by decide)

/-- Grouping: the map entry of a name holds the canonical values of exactly the headers with that
(case-insensitively equal) name, in arrival order; names without a header have no entry. -/
theorem normalizeHeaders_get (hs : HeaderList) (name : Bytes) :
    assocGet (normalizeHeaders hs []) name =
      (if valuesOf hs name = [] then none else some ((valuesOf hs name).map normHeaderValue)) := by
  exact normalizeHeaders_get' hs name

/-- A header line is the lower-cased name, a colon, the canonical values joined by commas in
arrival order, and a newline. -/
theorem headerLine_eq_spec (hs : HeaderList) (name : Bytes) :
    headerLine (normalizeHeaders hs []) name = refHeaderLine hs name := by
  exact headerLine_eq_ref hs name

/-- Relative arrival order of differently named headers is irrelevant: if every name sees the
same value sequence, the header block is the same. -/
theorem header_block_order_irrelevant (hs hs' : HeaderList) (signed : List Bytes)
    (h : ∀ name, valuesOf hs name = valuesOf hs' name) :
    signed.flatMap (headerLine (normalizeHeaders hs [])) = signed.flatMap (headerLine (normalizeHeaders hs' [])) := by
  apply flatMap_congr'
  intro name _
  rw [headerLine_eq_ref, headerLine_eq_ref]
  exact refHeaderLine_congr _ _ _ (h name)

/-- Header-name letter case is irrelevant. -/
theorem header_name_case_irrelevant (hs : HeaderList) (signed : List Bytes) :
    signed.flatMap (headerLine (normalizeHeaders (hs.map fun h => (asciiLower h.1, h.2)) []))
      = signed.flatMap (headerLine (normalizeHeaders hs [])) := by
  apply flatMap_congr'
  intro name _
  rw [headerLine_eq_ref, headerLine_eq_ref]
  exact refHeaderLine_congr _ _ _ (valuesOf_lower hs name)

/-- Headers that are not signed do not reach the canonical request at all. -/
theorem unsigned_not_in_block (hs : HeaderList) (signed : List Bytes) (extra : Bytes × Bytes)
    (h : asciiLower extra.1 ∉ signed) (i : Nat) :
    signed.flatMap (headerLine (normalizeHeaders (hs.take i ++ extra :: hs.drop i) []))
      = signed.flatMap (headerLine (normalizeHeaders hs [])) := by
  apply flatMap_congr'
  intro name hn
  rw [headerLine_eq_ref, headerLine_eq_ref]
  apply refHeaderLine_congr
  apply valuesOf_insert
  intro he
  exact h (he ▸ hn)

/-- Binding of signed headers: if two header lists give the same line for a name, then the
comma-joined canonical values agree (so any change to a value beyond space normalisation, to the
multiplicity or to the value order changes the line, up to the comma ambiguity inherent to SigV4). -/
theorem headerLine_binds (hs hs' : HeaderList) (name : Bytes)
    (h : refHeaderLine hs name = refHeaderLine hs' name) (hne : valuesOf hs name ≠ []) (hne' : valuesOf hs' name ≠ []) :
    joinWith [0x2C] ((valuesOf hs name).map refHeaderValue) = joinWith [0x2C] ((valuesOf hs' name).map refHeaderValue) := by
  rw [refHeaderLine_of_ne _ _ hne, refHeaderLine_of_ne _ _ hne'] at h
  have h1 := List.append_cancel_right h
  rw [List.append_assoc, List.append_assoc] at h1
  exact List.append_cancel_left (List.append_cancel_left h1)

/-- At the level of the whole validation: inserting (hence also removing, or — as a removal followed
by an insertion — modifying) a header anywhere in the arrival order leaves the outcome, the provider
calls and the provider state unchanged, provided its name is neither consulted by the
authentication logic (authorization, x-amz-date, date, x-amz-security-token, content-type), nor in
the signed-header list the request presents, nor subject to a declared if-in-request name or prefix.
Only the returned header list (which mirrors the request) differs. -/
theorem unsigned_header_irrelevant {σ : Type} (H : Bytes → Bytes) (cfg : Config) (P : Provider σ) (s : σ)
    (req : Request) (i : Nat) (extra : Bytes × Bytes)
    (h1 : asciiLower extra.1 ∉ consultedHeaders)
    (h2 : asciiLower extra.1 ∉ cfg.reqs.ifInRequest.map asciiLower)
    (h3 : ∀ p ∈ cfg.reqs.prefixes, (asciiLower p).isPrefixOf (asciiLower extra.1) = false)
    (h4 : ∀ fp ap, fromRequestParts H cfg.opts cfg.other req = .ok fp → extractAuthParams fp.creq = .ok ap →
            asciiLower extra.1 ∉ ap.signedHeaders) :
    (validate H cfg P s (req.insertHeader i extra)).out.map Returned.sansHeaders
        = (validate H cfg P s req).out.map Returned.sansHeaders ∧
    (validate H cfg P s (req.insertHeader i extra)).calls = (validate H cfg P s req).calls ∧
    (validate H cfg P s (req.insertHeader i extra)).state = (validate H cfg P s req).state :=
  unsigned_header_irrelevant_lemma H cfg P s req i extra h1 h2 h3 h4

example : normHeaderValue b!"  a   b  c " = b!"a b c" := by decide
example : headerLine (normalizeHeaders [(b!"X-A", b!" 1 "), (b!"host", b!"h"), (b!"x-a", b!"2  3")] []) b!"x-a"
    = b!"x-a:1,2 3\n" := by decide

end SigV4.C11

#print axioms SigV4.C11.normHeaderValue_eq_spec
#print axioms SigV4.C11.normHeaderValue_shape
#print axioms SigV4.C11.normHeaderValue_idempotent
#print axioms SigV4.C11.normHeaderValue_extra_spaces
#print axioms SigV4.C11.normalizeHeaders_get
#print axioms SigV4.C11.headerLine_eq_spec
#print axioms SigV4.C11.header_block_order_irrelevant
#print axioms SigV4.C11.header_name_case_irrelevant
#print axioms SigV4.C11.unsigned_not_in_block
#print axioms SigV4.C11.headerLine_binds
#print axioms SigV4.C11.unsigned_header_irrelevant
