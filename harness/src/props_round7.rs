//! Stages added after the seventh round of seeded changes: histories and unusual-but-legal shapes that the
//! earlier generators never produced (objects reused across calls, request parts reused with a new body, components
//! shared between consecutive requests, validations in flight together, slow and oddly failing providers,
//! absolute-form targets whose authority is not the Host header, declared payload hashes, very long paths).
use crate::case::*;
use crate::gen::*;
use crate::imp;
use crate::props_validate::*;
use crate::refspec as rs;
use crate::util::*;
use crate::Ctx;

const T0: i128 = 1_440_938_160_000_000_000; // 2015-08-30T12:36:00Z

fn fail(ctx: &mut Ctx, kind: &'static str, op: &str, class: &str, input: String, imp: String, model: String, spec: String, clause: &str) {
    ctx.rep.fail(Failure { kind, op: op.into(), class: class.into(), input, imp, model, spec, clause: clause.into() });
}

// ---------------------------------------------------------------------------------------------
// Histories on one authenticator object (C03, C04, C14)

/// The scope/freshness rule as the properties state it, for an arbitrary window.
fn preval_expected(cred: &str, t_ns: i128, now_ns: i128, region: &str, service: &str, window_secs: i64) -> &'static str {
    let w = window_secs as i128 * 1_000_000_000;
    if t_ns < now_ns - w || t_ns > now_ns + w {
        return "ERR SignatureDoesNotMatch";
    }
    let parts: Vec<&str> = cred.split('/').collect();
    if parts.len() != 5 {
        return "ERR IncompleteSignature";
    }
    let (_, date) = rs::ref_compact(t_ns);
    if parts[2] != region || parts[3] != service || parts[4] != "aws4_request" || parts[1] != date {
        return "ERR SignatureDoesNotMatch";
    }
    "OK"
}

/// Sequences of `prevalidate` / `validate_signature` calls on ONE authenticator object (and on clones of it) with
/// changing server time, region, service and tolerance: every call must give what a fresh object gives for the same
/// arguments — nothing a call has learnt may decide a later one.
pub fn authenticator_histories(ctx: &mut Ctx, prop: &str) {
    let mut rng = ctx.rng.fork();
    let n = ctx.n(300, 6000);
    let class = format!("{}-authenticator-history", prop.to_lowercase());
    for i in 0..n {
        let t_secs: i64 = 1_440_938_160 + rng.range(-3, 3) * 86_400 + rng.range(0, 3000);
        let t_ns = t_secs as i128 * 1_000_000_000;
        let (_, date) = rs::ref_compact(t_ns);
        let regions = ["us-east-1", "eu-west-1"];
        let services = ["service", "iam"];
        let cred = match i % 7 {
            0 => format!("AKIDEXAMPLE/{}/us-east-1/service", date),
            1 => format!("AKIDEXAMPLE/{}/us-east-1/iam/aws4_request", date),
            _ => format!("AKIDEXAMPLE/{}/us-east-1/service/aws4_request", date),
        };
        let len = 2 + rng.below(5);
        let mut steps = Vec::new();
        for _ in 0..len {
            let dnow = *rng.pick(&[0i64, 0, 600, -600, 900, 901, 1200, -1200, 2400, 3000, -3000, 5400]);
            steps.push(imp::AuthStep {
                validate: rng.chance(1, 2),
                on_clone: rng.chance(1, 3),
                region: rng.pick(&regions).to_string(),
                service: rng.pick(&services).to_string(),
                now: (t_secs + dnow, 0),
                mismatch_secs: *rng.pick(&[900i64, 900, 900, 3600, 300, 7200]),
            });
        }
        // half of the later steps repeat the previous call with exactly ONE argument changed (tolerance, server time,
        // region, service or the kind of call): whatever a call remembers must be keyed on every argument
        for k in 1..steps.len() {
            if rng.chance(1, 2) {
                let mut st = steps[k - 1].clone();
                match rng.below(5) {
                    0 => st.mismatch_secs = *rng.pick(&[900i64, 300, 3600, 7200, 60]),
                    1 => st.now = (t_secs + *rng.pick(&[0i64, 600, -600, 901, 1200, -1200, 3000, 5400]), 0),
                    2 => st.region = rng.pick(&regions).to_string(),
                    3 => st.service = rng.pick(&services).to_string(),
                    _ => st.validate = !st.validate,
                }
                st.on_clone = rng.chance(1, 3);
                steps[k] = st;
            }
        }
        // most histories start with a call that passes (what is remembered is usually a success)
        if i % 3 != 0 {
            steps[0].region = "us-east-1".into();
            steps[0].service = if i % 7 == 1 { "iam".into() } else { "service".into() };
            steps[0].now = (t_secs + *rng.pick(&[60i64, 60, 1800, -1800, 3000]), 0);
            steps[0].mismatch_secs = if (steps[0].now.0 - t_secs).abs() > 900 { *rng.pick(&[3600i64, 7200]) } else { *rng.pick(&[900i64, 3600]) };
        }
        let got = match imp::auth_history(&cred, (t_secs, 0), &steps) {
            Some(g) => g,
            None => continue,
        };
        for (k, (st, g)) in steps.iter().zip(got.iter()).enumerate() {
            ctx.rep.count("evaluations");
            ctx.rep.count("evaluations.AUTHHIST");
            let pre = preval_expected(&cred, t_ns, st.now.0 as i128 * 1_000_000_000, &st.region, &st.service, st.mismatch_secs);
            let want = if !st.validate {
                pre.to_string()
            } else if pre == "OK" {
                // the checks pass, the provider is asked once, its key does not produce the signature "x"
                "ERR SignatureDoesNotMatch calls=1".to_string()
            } else {
                format!("{} calls=0", pre)
            };
            ctx.rep.distinct(&format!("AUTHHIST|{}|{:?}|{}", cred, st, g));
            if *g != want {
                let hist: Vec<String> = steps[..=k].iter().map(|s| format!("{}{}(region={}, service={}, now=t{:+}s, tolerance={}s)", if s.validate { "validate_signature" } else { "prevalidate" }, if s.on_clone { "@clone" } else { "" }, s.region, s.service, s.now.0 - t_secs, s.mismatch_secs)).collect();
                fail(ctx, "ORACLE", "AUTHHIST", &class, format!("credential {} timestamp t; calls on one authenticator: {}", cred, hist.join(" ; ")), g.clone(), String::new(), want,
                    "a call on an authenticator object that has been used before gives another answer than the scope/freshness rule (and a fresh object) gives for the same arguments: window, scope and provider discipline must hold for every call");
            }
        }
    }
    ctx.rep.sample("AUTHHIST: 2-6 prevalidate/validate_signature calls on one SigV4Authenticator (and clones) with changing server time, region, service and tolerance".into());
}

// ---------------------------------------------------------------------------------------------
// Returned parts submitted again with a new body (C12, C15)

/// An accepted request's returned `Parts` are combined with a new body and validated again: the second validation
/// must behave as it does for a freshly built request with the same target, headers and body.
pub fn resubmit_returned_parts(ctx: &mut Ctx, prop: &str) {
    let mut rng = ctx.rng.fork();
    let n = ctx.n(60, 1200);
    let class = format!("{}-resubmitted-parts", prop.to_lowercase());
    let mut lines = Vec::new();
    let mut imps = Vec::new();
    let mut descr = Vec::new();
    for k in 0..n {
        let mut l = simple_logical(if k % 2 == 0 { Carrier::Header } else { Carrier::Query }, T0);
        l.method = "POST".into();
        l.fold = k % 4 != 3;
        l.content_type = Some(if k % 5 == 4 { "application/x-www-form-urlencoded; charset=utf-8".into() } else { "application/x-www-form-urlencoded".into() });
        l.signed.push("content-type".into());
        l.form = Some((0..1 + rng.below(3)).map(|i| (format!("f{}", i).into_bytes(), format!("v{}", rng.below(9)).into_bytes())).collect());
        let now = now_for(&l, 0);
        let s = sign_and_spell(&l, &mut rng, &Spelling::plain(), now);
        let new_body: Vec<u8> = match k % 6 {
            0 => b"g=1&h=2".to_vec(),
            1 => b"f0=other".to_vec(),
            2 => vec![b'a', b'=', 0xff, 0xfe],           // not UTF-8
            3 => Vec::new(),
            4 => b"g=%zz".to_vec(),                       // malformed escape
            _ => s.case.body.clone(),
        };
        // the second submission on the implementation: outcome and canonical request (AUTH diagnostic)
        let c = s.case.clone();
        let r = imp::with_resubmitted(&c, &new_body, |again| {
            let (p2, b2) = again.into_parts();
            let again2 = http::Request::from_parts(p2.clone(), b2.clone());
            let auth = imp::auth_op(&c, http::Request::from_parts(p2, b2));
            let mut prov = imp::provider_for(vec![imp::entry_of(&c)]);
            let v = imp::validate_with(&c, again2, &mut prov);
            (v.class.clone(), auth)
        });
        let (headers, uri, (class2, auth2)) = match r {
            Some(x) => x,
            None => {
                ctx.rep.count("resubmit.first_not_accepted");
                continue;
            }
        };
        // the same second request built from scratch, for the model
        let mut fresh = c.clone();
        fresh.uri = uri;
        fresh.headers = headers;
        fresh.body = new_body.clone();
        let req = match imp::build_request(&fresh) {
            Some(r) => r,
            None => continue,
        };
        let path = req.uri().path().to_string();
        let query = req.uri().query().map(|q| q.to_string());
        let other = other_for(&fresh);
        let fields = fresh.fields(&path, query.as_deref(), &other);
        lines.push(format!("VALIDATE {}", fields));
        imps.push(class2);
        descr.push(fresh.describe());
        lines.push(format!("AUTH {}", fields));
        imps.push(auth2);
        descr.push(fresh.describe());
    }
    let answers = ctx.drv.ask_all(&lines);
    for (((line, im), mo), d) in lines.iter().zip(imps.iter()).zip(answers.iter()).zip(descr.iter()) {
        ctx.rep.count("evaluations");
        ctx.rep.count("evaluations.RESUBMIT");
        let same = if line.starts_with("VALIDATE") {
            // compare the outcome class only (OK / ERR kind)
            let mclass = if mo.starts_with("OK") { "OK".to_string() } else { mo.split(" CALLS").next().unwrap_or("").to_string() };
            im.split(" CALLS").next().unwrap_or("") == mclass || (im.starts_with("PANIC") && mo.starts_with("PANIC"))
        } else {
            imp::same_outcome(im, mo)
        };
        ctx.rep.distinct(&format!("RESUBMIT|{}|{}", line, im));
        if !same {
            fail(ctx, "ORACLE", "RESUBMIT", &class, line.clone(), im.clone(), mo.clone(), "what a freshly built request with this target, these headers and this body gives".into(),
                &format!("the parts returned by an accepted validation, combined with a new body and validated again, are not treated like a fresh request (form folding, payload hash and body-encoding errors must depend on the request alone) — second request: {}", d));
        }
    }
    ctx.rep.sample("RESUBMIT: returned Parts + new body (form, other form, invalid UTF-8, empty, malformed escape, same) validated again; outcome and canonical request against the model of the equivalent fresh request".into());
}

// ---------------------------------------------------------------------------------------------
// Components shared between consecutive requests (C09, C10, C18)

fn long_name(rng: &mut Rng, i: usize) -> Vec<u8> {
    format!("segment-{:02}-{}", i, (0..6).map(|_| *rng.pick(b"abcdefxyz0189") as char).collect::<String>()).into_bytes()
}

/// Requests that share a raw component (the same raw query string, the same long raw path) but differ elsewhere
/// (form body or not, folding, S3 mode), validated one after another in this process: each must be accepted, each
/// is reference-signed on its own — anything remembered per raw query or per raw path shows.
pub fn shared_component_histories(ctx: &mut Ctx, prop: &str) {
    let mut rng = ctx.rng.fork();
    let n = ctx.n(12, 150);
    let pc = prop.to_lowercase();
    let mut jobs = Vec::new();
    for k in 0..n {
        // (a) one raw URL query (40+ bytes), first under a folded form POST, then under a plain GET, then again
        let mut base = simple_logical(Carrier::Header, T0);
        base.query = vec![
            (b"Action".to_vec(), b"DescribeSomethingRatherLong".to_vec()),
            (format!("Marker{}", k).into_bytes(), long_name(&mut rng, k)),
            (b"Version".to_vec(), b"2010-05-08".to_vec()),
        ];
        let mut post = base.clone();
        post.method = "POST".into();
        post.fold = true;
        post.content_type = Some("application/x-www-form-urlencoded".into());
        post.signed.push("content-type".into());
        post.form = Some(vec![(b"Extra".to_vec(), b"1".to_vec()), (b"Action".to_vec(), b"FromBody".to_vec())]);
        let mut get = base.clone();
        get.fold = k % 2 == 0;
        let now = now_for(&base, 0);
        let sp = sign_and_spell(&post, &mut rng, &Spelling::plain(), now);
        let sg = sign_and_spell(&get, &mut rng, &Spelling::plain(), now);
        let cl = "C10/C18: requests sharing one raw query string (a folded form POST, then a GET, then both again) must each be judged on their own";
        for s in [&sp, &sg, &sp, &sg] {
            jobs.push(accept_job(s, &format!("{}-shared-raw-query", pc), cl));
        }
        // (b) one long raw path (130+ bytes) with dot segments, in standard mode and in S3 mode, both orders
        let names: Vec<Vec<u8>> = (0..9).map(|i| long_name(&mut rng, i)).collect();
        let mut raw = Vec::new();
        let mut std_segments: Vec<Vec<u8>> = Vec::new();
        let mut s3_segments: Vec<Vec<u8>> = Vec::new();
        for (i, nme) in names.iter().enumerate() {
            raw.push(b'/');
            raw.extend_from_slice(nme);
            std_segments.push(nme.clone());
            s3_segments.push(nme.clone());
            if i == 3 {
                raw.extend_from_slice(b"/.");
                s3_segments.push(b".".to_vec());
            }
            if i == 6 {
                raw.extend_from_slice(b"/tmp/..");
                s3_segments.push(b"tmp".to_vec());
                s3_segments.push(b"..".to_vec());
            }
        }
        let raw = String::from_utf8(raw).unwrap();
        let mut twins = Vec::new();
        for s3 in [k % 2 == 0, k % 2 != 0] {
            let mut l = simple_logical(if k % 3 == 0 { Carrier::Query } else { Carrier::Header }, T0);
            l.s3 = s3;
            l.segments = if s3 { s3_segments.clone() } else { std_segments.clone() };
            let now = now_for(&l, 0);
            let mut s = sign_and_spell(&l, &mut rng, &Spelling::plain(), now);
            let q = s.case.uri.find('?').map(|i| s.case.uri[i..].to_string()).unwrap_or_default();
            let prefix = if s.case.uri.starts_with("https://") { "https://example.amazonaws.com" } else { "" };
            s.case.uri = format!("{}{}{}", prefix, raw, q);
            twins.push(s);
        }
        let cl = "C09/C18: one long raw path validated in standard mode and in S3 mode (either order) must be canonicalised for the mode at hand each time";
        for s in [&twins[0], &twins[1], &twins[0]] {
            jobs.push(accept_job(s, &format!("{}-shared-long-path", pc), cl));
        }
        // (b') the same long path climbing above the root at the end: S3 keeps it, standard mode must refuse it
        {
            let mut l = simple_logical(Carrier::Header, T0);
            l.s3 = true;
            let mut segs = s3_segments.clone();
            for _ in 0..(std_segments.len() + 1) {
                segs.push(b"..".to_vec());
            }
            l.segments = segs;
            let now = now_for(&l, 0);
            let s = sign_and_spell(&l, &mut rng, &Spelling::plain(), now);
            jobs.push(accept_job(&s, &format!("{}-shared-long-path", pc), cl));
            let mut c2 = s.case.clone();
            c2.s3 = false;
            jobs.push(job(c2, Expect::Refuse(Some("InvalidURIPath")), &format!("{}-shared-long-path", pc), "C09: a path that climbs above the root is an invalid path in standard mode, whatever was validated before"));
        }
    }
    run_jobs(ctx, "VALIDATE", jobs);
}

/// Paths of 33-70 components with `.`/`..`/empty noise anywhere (also behind the 32nd component): the reference
/// signer signs the resolved path; the request must be accepted.
pub fn long_paths(ctx: &mut Ctx, prop: &str) {
    let mut rng = ctx.rng.fork();
    let n = ctx.n(40, 800);
    let mut jobs = Vec::new();
    let mut direct: Vec<(String, String, Vec<u8>)> = Vec::new();
    for k in 0..n {
        let mut l = simple_logical(if k % 2 == 0 { Carrier::Header } else { Carrier::Query }, T0);
        let nseg = 33 + rng.below(38);
        l.segments = (0..nseg).map(|i| format!("s{}", i % 7).into_bytes()).collect();
        l.trailing_slash = k % 5 == 0;
        let now = now_for(&l, 0);
        let mut sp = Spelling::plain();
        sp.path_noise = true;
        sp.respell = k % 3 == 0;
        let s = sign_and_spell(&l, &mut rng, &sp, now);
        jobs.push(accept_job(&s, &format!("{}-long-path", prop.to_lowercase()), "C09/C02: a reference-signed request whose path has more than 32 components, with dot-segment noise anywhere in it, was refused"));
        // direct: the raw path of this request through the path canonicaliser, crate against model
        if let Some(req) = imp::build_request(&s.case) {
            let p = req.uri().path().to_string();
            direct.push((format!("PATH 0 {}", hx(p.as_bytes())), imp::path(false, &p), p.into_bytes()));
        }
        // hand-made: N names, then a dot segment / a parent reference at a late position
        let depth = 33 + rng.below(30);
        let mut raw = String::new();
        for i in 0..depth {
            raw.push_str(&format!("/d{}", i % 10));
        }
        for tail in ["/.", "/./x", "/..", "/../y", "/%2e", "/%2E%2e/z", "//", "/./"] {
            let p = format!("{}{}", raw, tail);
            direct.push((format!("PATH 0 {}", hx(p.as_bytes())), imp::path(false, &p), p.clone().into_bytes()));
        }
        // climbing above the root from a deep path
        let p = format!("{}{}", raw, "/..".repeat(depth + 1));
        direct.push((format!("PATH 0 {}", hx(p.as_bytes())), imp::path(false, &p), p.into_bytes()));
    }
    run_jobs(ctx, "VALIDATE", jobs);
    let lines: Vec<String> = direct.iter().map(|d| d.0.clone()).collect();
    let answers = ctx.drv.ask_all(&lines);
    for ((line, im, raw), mo) in direct.iter().zip(answers.iter()) {
        ctx.rep.count("evaluations");
        ctx.rep.count("evaluations.PATH");
        let spec = match rs::ref_path(raw, false, true) {
            Some(p) => format!("OK {}", hx(&p)),
            None => "ERR InvalidURIPath".to_string(),
        };
        if !imp::same_outcome(im, mo) {
            fail(ctx, "CORR", "PATH", &format!("{}-long-path", prop.to_lowercase()), line.clone(), im.clone(), mo.clone(), spec.clone(), "implementation and model disagree on a path of more than 32 components");
        }
        if *im != spec && !raw.contains(&b'+') {
            fail(ctx, "ORACLE", "PATH", &format!("{}-long-path", prop.to_lowercase()), show(raw), im.clone(), mo.clone(), spec, "C09: the canonical path of a path with more than 32 components is not the reference normal form");
        }
    }
}

// ---------------------------------------------------------------------------------------------
// Two validations in flight on one thread (C01, C02)

/// A legitimate request A suspended at its (slow) key provider while another validation B runs on the same thread.
/// C02: A and B both legitimate, both must be accepted. C01: B is a different request presenting A's signature
/// (same key, same scope, same instant) and must be refused whatever is in flight.
pub fn interleaved_pairs(ctx: &mut Ctx, prop: &str) {
    let mut rng = ctx.rng.fork();
    let n = ctx.n(30, 600);
    let pc = prop.to_lowercase();
    for k in 0..n {
        let carrier = if k % 2 == 0 { Carrier::Header } else { Carrier::Query };
        let mut la = simple_logical(carrier.clone(), T0);
        la.segments = vec![b"account".to_vec(), b"balance".to_vec()];
        let mut lb = simple_logical(carrier, T0);
        lb.method = "DELETE".into();
        lb.segments = vec![b"account".to_vec()];
        let now = now_for(&la, 0);
        let mut a = sign_and_spell(&la, &mut rng, &Spelling::plain(), now);
        let mut b = sign_and_spell(&lb, &mut rng, &Spelling::plain(), now);
        a.case.pending_answer = 1 + (k % 3) as u32;
        b.case.pending_answer = (k % 2) as u32;
        b.case.pending_ready = (k % 3) as u32;
        let mut forged = b.case.clone();
        set_signature(&mut forged, &b.signature, &a.signature);
        let group: Vec<(Case, bool)> = if prop == "C01" { vec![(a.case.clone(), true), (forged, false)] } else { vec![(a.case.clone(), true), (b.case.clone(), true)] };
        for order in 0..2 {
            let g: Vec<(Case, bool)> = if order == 0 { group.clone() } else { group.iter().rev().cloned().collect() };
            let cases: Vec<Case> = g.iter().map(|x| x.0.clone()).collect();
            let got = match imp::validate_interleaved(&cases) {
                Some(v) => v,
                None => continue,
            };
            for ((c, accept), out) in g.iter().zip(got.iter()) {
                ctx.rep.count("evaluations");
                ctx.rep.count("evaluations.interleaved");
                let ok = out.starts_with("OK");
                if ok != *accept {
                    fail(ctx, "ORACLE", "INTERLEAVE", &format!("{}-interleaved", pc), format!("{} validations in flight on one thread; this one: {}", cases.len(), c.describe()), out.clone(), String::new(),
                        if *accept { "accepted".into() } else { "refused".into() },
                        if *accept { "C02: a correctly signed request is refused when another validation runs on the same thread while it waits for its key" } else { "C01: a request presenting the signature of another request validated at the same time on the same thread is accepted" });
                }
            }
        }
    }
}

// ---------------------------------------------------------------------------------------------
// Unusual but legal request shapes (C01, C02, C11, C19)

/// Absolute-form request targets whose authority differs from the Host header (port, letter case, another name): the
/// signed `host` header is what counts; the request as signed must be accepted.
pub fn absolute_form_authorities(ctx: &mut Ctx, prop: &str) -> Vec<Done> {
    let mut rng = ctx.rng.fork();
    let n = ctx.n(40, 600);
    let mut jobs = Vec::new();
    for k in 0..n {
        let mut l = if k % 3 == 0 { random_logical(&mut rng) } else { simple_logical(if k % 2 == 0 { Carrier::Header } else { Carrier::Query }, T0) };
        l.decoys = false;
        let now = now_for(&l, 0);
        let s = sign_and_spell(&l, &mut rng, &Spelling::plain(), now);
        let mut c = s.case.clone();
        let origin = if let Some(rest) = c.uri.strip_prefix("https://example.amazonaws.com") { rest.to_string() } else { c.uri.clone() };
        if !origin.starts_with('/') {
            continue;
        }
        let auth = *rng.pick(&["https://example.amazonaws.com:443", "https://EXAMPLE.amazonaws.com", "http://example.amazonaws.com", "https://other.example:8443", "http://127.0.0.1:8080", "https://example.amazonaws.com."]);
        c.uri = format!("{}{}", auth, origin);
        jobs.push(accept_job_case(c, &s, &format!("{}-absolute-form-authority", prop.to_lowercase()), "C02/C15: an absolute-form request target whose authority is not byte-identical to the Host header: the signed Host header is what the signature covers, the request must be accepted"));
    }
    run_jobs(ctx, "VALIDATE", jobs)
}

/// S3-style declared payload hashes: an `x-amz-content-sha256` header (signed or not) never replaces the hash of the
/// body as received.
pub fn declared_payload_hash(ctx: &mut Ctx, prop: &str) -> Vec<Done> {
    let mut rng = ctx.rng.fork();
    let n = ctx.n(40, 600);
    let mut jobs = Vec::new();
    let pc = prop.to_lowercase();
    for k in 0..n {
        let mut l = simple_logical(if k % 2 == 0 { Carrier::Header } else { Carrier::Query }, T0);
        l.method = "PUT".into();
        l.s3 = k % 4 != 3;
        l.body = format!("payload-{}", k).into_bytes();
        let other_body = format!("another-payload-{}", k).into_bytes();
        let declared: Vec<u8> = match k % 5 {
            0 => hx(&rs::sha256(&l.body)).into_bytes(),
            1 => hx(&rs::sha256(&other_body)).into_bytes(),
            2 => b"UNSIGNED-PAYLOAD".to_vec(),
            3 => hx(&rs::sha256(b"")).into_bytes(),
            _ => hx(&rs::sha256(&other_body)).to_uppercase().into_bytes(),
        };
        l.headers.push(("x-amz-content-sha256".into(), declared.clone()));
        if k % 3 != 2 {
            l.signed.push("x-amz-content-sha256".into());
        }
        let now = now_for(&l, 0);
        let s = sign_and_spell(&l, &mut rng, &Spelling::plain(), now);
        jobs.push(accept_job(&s, &format!("{}-declared-payload-hash", pc), "C01/C02: the payload hash covered by the signature is the hash of the body as received; a request signed over its real body must be accepted whatever an x-amz-content-sha256 header declares"));
        // the body the header declares instead of the body that was signed: must be refused
        let mut c2 = s.case.clone();
        c2.body = other_body;
        jobs.push(job(c2, Expect::Refuse(Some("SignatureDoesNotMatch")), &format!("{}-declared-payload-hash", pc), "C01: a signature issued for one body validates the request with another body because a header declares that body's hash"));
    }
    run_jobs(ctx, "VALIDATE", jobs)
}

/// Repeated signed headers whose names other layers treat specially (cookie, content-length, te, …) under every
/// HTTP version, and Content-Length signed on a folded form request.
pub fn special_header_names(ctx: &mut Ctx, prop: &str) {
    let mut rng = ctx.rng.fork();
    let n = ctx.n(60, 900);
    let mut jobs = Vec::new();
    let pc = prop.to_lowercase();
    let names = ["Cookie", "Set-Cookie", "TE", "Accept-Encoding", "Cache-Control", "X-Forwarded-For", "Content-Length", "Content-MD5", "Expect", "Range", "Via", "Warning"];
    for k in 0..n {
        let mut l = simple_logical(if k % 2 == 0 { Carrier::Header } else { Carrier::Query }, T0);
        let name = names[k % names.len()];
        let reps = 1 + (k / names.len()) % 3;
        for i in 0..reps {
            let v = if name == "Content-Length" { format!("{}", 3 + i) } else { format!("{}={}", (b'a' + i as u8) as char, i + 1) };
            l.headers.push((name.to_string(), v.into_bytes()));
        }
        l.signed.push(name.to_ascii_lowercase());
        if k % 4 == 1 {
            l.method = "POST".into();
            l.fold = true;
            l.content_type = Some("application/x-www-form-urlencoded".into());
            l.form = Some(vec![(b"a".to_vec(), b"1".to_vec())]);
        }
        let now = now_for(&l, 0);
        let mut s = sign_and_spell(&l, &mut rng, &Spelling::plain(), now);
        s.case.version = *rng.pick(&[11u8, 2, 3, 10, 2, 3]);
        jobs.push(accept_job(&s, &format!("{}-special-header-names", pc), "C11: multiple values of one signed header are joined by commas in arrival order, for every header name, HTTP version and option; a request signed that way was refused"));
        // the one-header spelling of the joined cookie (`a=1; b=2`) is another request
        if reps > 1 && name == "Cookie" {
            let mut c2 = s.case.clone();
            let vals: Vec<String> = c2.headers.iter().filter(|(n, _)| n.eq_ignore_ascii_case("cookie")).map(|(_, v)| String::from_utf8_lossy(v).to_string()).collect();
            c2.headers.retain(|(n, _)| !n.eq_ignore_ascii_case("cookie"));
            c2.headers.push(("Cookie".into(), vals.join("; ").into_bytes()));
            jobs.push(job(c2, Expect::Refuse(Some("SignatureDoesNotMatch")), &format!("{}-special-header-names", pc), "C11: a signature over two Cookie header fields validates a request carrying them as one field joined by \"; \""));
        }
    }
    run_jobs(ctx, "VALIDATE", jobs);
}

/// Query carrier + folding + a form body with many distinct names that repeats the X-Amz-* parameters of the URL with
/// other values: the URL (first) values are the ones authenticated.
pub fn folded_repeats_many_names(ctx: &mut Ctx, prop: &str) {
    let mut rng = ctx.rng.fork();
    let n = ctx.n(30, 500);
    let mut jobs = Vec::new();
    let bad_sig = "0123456789abcdef0123456789abcdef0123456789abcdef0123456789abcdef".to_string();
    for k in 0..n {
        let mut lq = simple_logical(Carrier::Query, T0);
        lq.method = "POST".into();
        lq.fold = true;
        lq.s3 = k % 5 == 0;
        lq.content_type = Some("application/x-www-form-urlencoded".into());
        lq.signed.push("content-type".into());
        let mut form: Vec<(Vec<u8>, Vec<u8>)> = vec![
            (b"X-Amz-Credential".to_vec(), b"AKIDOTHER/20000101/nowhere/none/aws4_request".to_vec()),
            (b"X-Amz-Date".to_vec(), b"20000101T000000Z".to_vec()),
            (b"X-Amz-Signature".to_vec(), bad_sig.clone().into_bytes()),
            (b"X-Amz-SignedHeaders".to_vec(), b"host".to_vec()),
            (b"X-Amz-Algorithm".to_vec(), b"AWS4-HMAC-SHA256".to_vec()),
        ];
        for i in 0..(6 + rng.below(20)) {
            form.push((format!("name{}", i).into_bytes(), format!("v{}", i).into_bytes()));
        }
        rng.shuffle(&mut form);
        lq.form = Some(form);
        let now = now_for(&lq, 0);
        let sq = sign_and_spell(&lq, &mut rng, &Spelling::plain(), now);
        let mut j = accept_job(&sq, &format!("{}-folded-repeats-many-names", prop.to_lowercase()), "C19/C12: of a parameter repeated in URL and folded body the URL (first) value is the one authenticated, however many other names the body carries");
        j.expect_calls = Some(1);
        jobs.push(j);
    }
    run_jobs(ctx, "VALIDATE", jobs);
}

// ---------------------------------------------------------------------------------------------
// Providers (C04, C13, C14)

/// Every kind of provider failure, on readiness and on the answer: exactly one call (none when readiness fails), the
/// error comes back as the model says (SignatureError unchanged, anything else InternalServiceError), never accepted.
pub fn provider_error_kinds(ctx: &mut Ctx, prop: &str) {
    let mut rng = ctx.rng.fork();
    let mut jobs = Vec::new();
    let pc = prop.to_lowercase();
    for (k, kind) in FOREIGN_OTHER.iter().enumerate() {
        for variant in 0..4 {
            let l = simple_logical(if (k + variant) % 2 == 0 { Carrier::Header } else { Carrier::Query }, T0);
            let now = now_for(&l, 0);
            let s = sign_and_spell(&l, &mut rng, &Spelling::plain(), now);
            let mut c = s.case.clone();
            let expect_kind = if kind.starts_with("SigIO") { "IO" } else { "InternalServiceError" };
            if variant % 2 == 0 {
                c.answer = Answer::Err(ProvErr::ForeignOther(kind));
                c.pending_answer = (variant / 2) as u32;
                let mut j = job(c, Expect::Refuse(Some(expect_kind)), &format!("{}-provider-error-kind", pc), "C14: an error answer of the key provider is returned unchanged if it is a SignatureError and as an internal failure otherwise, after exactly one call; it never authenticates and is never retried");
                j.expect_calls = Some(1);
                jobs.push(j);
            } else {
                c.ready_err = Some(ProvErr::ForeignOther(kind));
                c.pending_ready = (variant / 2) as u32;
                let mut j = job(c, Expect::Refuse(Some(expect_kind)), &format!("{}-provider-error-kind", pc), "C14: a readiness error of the key provider is returned (SignatureError unchanged, anything else as an internal failure) without any call");
                j.expect_calls = Some(0);
                jobs.push(j);
            }
        }
    }
    // a failing-readiness provider behind a request that fails an earlier check: the earlier check decides
    for (k, kind) in FOREIGN_OTHER.iter().enumerate() {
        let l = simple_logical(if k % 2 == 0 { Carrier::Header } else { Carrier::Query }, T0);
        let now = now_for(&l, 0);
        let s = sign_and_spell(&l, &mut rng, &Spelling::plain(), now);
        let mut c = s.case.clone();
        c.ready_err = Some(ProvErr::ForeignOther(kind));
        let expect = match k % 3 {
            0 => {
                c.now = (c.now.0 + 4000, 0);
                "SignatureDoesNotMatch"
            }
            1 => {
                c.uri = c.uri.replacen("/a/", "/../a/", 1);
                "InvalidURIPath"
            }
            _ => {
                c.region = "elsewhere-9".into();
                "SignatureDoesNotMatch"
            }
        };
        let mut j = job(c, Expect::Refuse(Some(expect)), &format!("{}-defect-before-failing-provider", pc), "C13/C14: a request that fails a structural, freshness or scope check is refused with that check's error; the key provider — ready or not, failing or not — is not consulted");
        j.expect_calls = Some(0);
        jobs.push(j);
    }
    run_jobs(ctx, "VALIDATE", jobs);
}

/// A key provider that takes more than a second of real time: `now` is the caller's server time, so a request at
/// either inclusive bound of the window is still accepted.
pub fn slow_wallclock_provider(ctx: &mut Ctx, prop: &str) {
    let mut rng = ctx.rng.fork();
    let mut jobs = Vec::new();
    for (k, skew) in [-900i128, 900, -899, 0].iter().enumerate() {
        if !ctx.thorough && k >= 2 {
            break;
        }
        let l = simple_logical(if k % 2 == 0 { Carrier::Header } else { Carrier::Query }, T0);
        // server time = request time - skew: the request is `skew` seconds away from the server time
        let now = now_for(&l, -skew * 1_000_000_000);
        let s = sign_and_spell(&l, &mut rng, &Spelling::plain(), now);
        jobs.push(accept_job(&s, &format!("{}-slow-provider", prop.to_lowercase()), "C04: the window is taken around the server time passed by the caller; a request at an inclusive bound is accepted however long (in real time) the key lookup takes"));
    }
    imp::PROVIDER_SLEEP_MS.store(1150, std::sync::atomic::Ordering::SeqCst);
    run_jobs(ctx, "VALIDATE", jobs);
    imp::PROVIDER_SLEEP_MS.store(0, std::sync::atomic::Ordering::SeqCst);
}

// ---------------------------------------------------------------------------------------------
// Timestamps (C16)

/// Pairs of long timestamp texts that share their first 40+ bytes (long fractions) and differ only behind them,
/// parsed one after the other: each text is parsed on its own.
pub fn long_timestamp_pairs(ctx: &mut Ctx) {
    let mut rng = ctx.rng.fork();
    let n = ctx.n(40, 600);
    let mut lines = Vec::new();
    let mut imps = Vec::new();
    let mut specs = Vec::new();
    for k in 0..n {
        let digits: String = (0..(20 + rng.below(30))).map(|_| (b'0' + rng.below(10) as u8) as char).collect();
        let head = if k % 2 == 0 { format!("2015-08-30T12:36:00.{}", digits) } else { format!("20150830T123600,{}", digits) };
        let tails = ["Z", "+05:00", "-0530", "Zjunk", "+25:00", "", "z", "+00:00", "-23:59", " Z"];
        let first = format!("{}{}", head, tails[k % 3]);
        let second = format!("{}{}", head, tails[3 + k % 7]);
        for t in [first.clone(), second, first] {
            lines.push(format!("ISO {}", hx(t.as_bytes())));
            imps.push(imp::iso(&t));
            specs.push(match rs::ref_parse_iso(t.as_bytes()) {
                Some(ns) => format!("OK {}", ns),
                None => "NONE".to_string(),
            });
        }
    }
    let answers = ctx.drv.ask_all(&lines);
    for (((line, im), mo), sp) in lines.iter().zip(imps.iter()).zip(answers.iter()).zip(specs.iter()) {
        ctx.rep.count("evaluations");
        ctx.rep.count("evaluations.ISO");
        if !imp::same_outcome(im, mo) {
            fail(ctx, "CORR", "ISO", "c16-long-timestamp-pair", line.clone(), im.clone(), mo.clone(), sp.clone(), "implementation and model disagree on a long timestamp parsed after another that shares its first 40 bytes");
        }
        if im != sp {
            fail(ctx, "ORACLE", "ISO", "c16-long-timestamp-pair", show(&unhx(&line[4..])), im.clone(), mo.clone(), sp.clone(), "C16: a timestamp text parsed right after a longer text sharing its first 40 bytes is not given the value / refusal the reference parser gives it");
        }
    }
}

// ---------------------------------------------------------------------------------------------
// Authorization headers with many items (C13), a refused over-long folded target followed by a folded request (C15)

/// Authorization headers with 17-40 comma-separated items: well-formed extra items are ignored, an item without `=`
/// is a syntax error (IncompleteSignature, no key lookup) wherever it stands.
pub fn many_auth_items(ctx: &mut Ctx, prop: &str) {
    let mut rng = ctx.rng.fork();
    let n = ctx.n(40, 600);
    let mut jobs = Vec::new();
    let pc = prop.to_lowercase();
    for k in 0..n {
        let l = simple_logical(Carrier::Header, T0);
        let now = now_for(&l, 0);
        let s = sign_and_spell(&l, &mut rng, &Spelling::plain(), now);
        let extras = 13 + rng.below(28);
        let items: Vec<String> = (0..extras).map(|i| format!("p{}=v{}", i, i)).collect();
        for bare in [false, true] {
            let mut c = s.case.clone();
            for (nme, v) in c.headers.iter_mut() {
                if nme.eq_ignore_ascii_case("authorization") {
                    let mut t = String::from_utf8_lossy(v).to_string();
                    t.push_str(", ");
                    t.push_str(&items.join(if k % 2 == 0 { ", " } else { "," }));
                    if bare {
                        t.push_str(if k % 3 == 0 { ", oops" } else { ",oops , q=1" });
                    }
                    *v = t.into_bytes();
                }
            }
            if bare {
                let mut j = job(c.clone(), Expect::Refuse(Some("IncompleteSignature")), &format!("{}-many-auth-items", pc), "C13: an Authorization item without '=' is a parameter-syntax error (400) wherever it stands in the header, even behind many well-formed items, and it precedes every later check");
                j.expect_calls = Some(0);
                jobs.push(j);
                // in front of later defects as well: wrong signature, unknown key
                let mut c2 = c.clone();
                let bad: String = s.signature.chars().rev().collect();
                set_signature(&mut c2, &s.signature, &bad);
                let mut j = job(c2, Expect::Refuse(Some("IncompleteSignature")), &format!("{}-many-auth-items", pc), "C13: the parameter-syntax error precedes the signature check");
                j.expect_calls = Some(0);
                jobs.push(j);
            } else {
                jobs.push(accept_job_case(c, &s, &format!("{}-many-auth-items", pc), "C13/C19: well-formed Authorization items with other names do not change what is authenticated"));
            }
        }
    }
    run_jobs(ctx, "VALIDATE", jobs);
}

/// A folded form request refused because its merged `path?query` is too long for a request target (long path, short
/// query), then an ordinary folded request on the same thread: the second one's returned target carries exactly its own
/// merged parameters.
pub fn too_long_then_folded(ctx: &mut Ctx, prop: &str) -> Vec<Done> {
    let mut rng = ctx.rng.fork();
    let n = ctx.n(4, 40);
    let mut jobs = Vec::new();
    let pc = prop.to_lowercase();
    for k in 0..n {
        let mut big = simple_logical(if k % 2 == 0 { Carrier::Header } else { Carrier::Query }, T0);
        big.method = "POST".into();
        big.fold = true;
        big.content_type = Some("application/x-www-form-urlencoded".into());
        big.signed.push("content-type".into());
        big.segments = vec![vec![b'a'; 500], vec![b'b'; 500]];
        big.form = Some((0..12).map(|i| (format!("stale{}", i).into_bytes(), vec![b'v'; 10 + i])).collect());
        let now = now_for(&big, 0);
        let sb = sign_and_spell(&big, &mut rng, &Spelling::plain(), now);
        // pad the first path segment until the submitted target is a few bytes below the 65 534-byte limit: the target
        // itself is admissible, target + folded body parameters is not (the signature no longer matters: the request is
        // refused before it is looked at)
        let mut c = sb.case.clone();
        let p0 = if c.uri.starts_with("https://") { c.uri[8..].find('/').map(|p| p + 8).unwrap_or(0) } else { 0 };
        let delta = 20 + (k % 3) * 7;
        if c.uri.len() + delta < 65_534 {
            let pad = 65_534 - delta - c.uri.len();
            c.uri.insert_str(p0 + 1, &"a".repeat(pad));
        }
        let mut j = job(c, Expect::Refuse(Some("MalformedQueryString")), &format!("{}-too-long-then-folded", pc), "C15/C08: a folded request whose merged target does not fit a request target is refused (400), not a panic");
        j.expect_calls = Some(0);
        jobs.push(j);
        let mut small = simple_logical(if k % 2 == 0 { Carrier::Header } else { Carrier::Query }, T0);
        small.method = "POST".into();
        small.fold = true;
        small.content_type = Some("application/x-www-form-urlencoded".into());
        small.signed.push("content-type".into());
        small.form = Some(vec![(b"fresh".to_vec(), format!("{}", k).into_bytes())]);
        let now = now_for(&small, 0);
        let ss = sign_and_spell(&small, &mut rng, &Spelling::plain(), now);
        jobs.push(accept_job(&ss, &format!("{}-too-long-then-folded", pc), "C15: the returned target of a folded request carries exactly the merged URL-plus-body parameters of that request, whatever was refused before on this thread"));
    }
    run_jobs(ctx, "VALIDATE", jobs)
}

// ---------------------------------------------------------------------------------------------
// C05: a required header left unsigned but mirrored in the query string; C08: multi-byte tokens and damaged dates

/// Query carrier: a header covered by a requirement is present and unsigned, and a query parameter of the same name
/// carries the same value. The requirement is about the signed-header list: the request must be refused.
pub fn mirrored_query_params(ctx: &mut Ctx, prop: &str) {
    let mut rng = ctx.rng.fork();
    let n = ctx.n(40, 600);
    let mut jobs = Vec::new();
    for k in 0..n {
        let carrier = if k % 4 == 3 { Carrier::Header } else { Carrier::Query };
        let mut l = simple_logical(carrier, T0);
        let (hname, qname, value) = [("x-amz-meta-owner", "X-Amz-Meta-Owner", "alice"), ("X-Amz-Target", "X-Amz-Target", "Svc.Op"), ("x-amz-acl", "x-amz-acl", "private"), ("My-Header1", "My-Header1", "v")][k % 4];
        l.headers.push((hname.to_string(), value.as_bytes().to_vec()));
        l.query.push((qname.as_bytes().to_vec(), value.as_bytes().to_vec()));
        if k % 5 == 0 {
            l.query.push((hname.to_ascii_lowercase().into_bytes(), value.as_bytes().to_vec()));
        }
        let now = now_for(&l, 0);
        let s = sign_and_spell(&l, &mut rng, &Spelling::plain(), now);
        let mut c = s.case.clone();
        match k % 3 {
            0 => c.prefixes = vec![hname[..hname.len() - 3].to_string()],
            1 => c.ifreq = vec![hname.to_uppercase()],
            _ => c.always = vec![hname.to_string()],
        }
        c.vec_reqs = k % 2 == 0;
        let mut j = job(c, Expect::Refuse(Some("SignatureDoesNotMatch")), &format!("{}-mirrored-query-param", prop.to_lowercase()), "C05: a header covered by a declared requirement and present in the request must be in the signed-header list; a query parameter of the same name and value does not stand in for signing it");
        j.expect_calls = Some(0);
        jobs.push(j);
    }
    run_jobs(ctx, "VALIDATE", jobs);
}

/// Security tokens with multi-byte characters at every small offset, and timestamps in which one digit is missing and
/// one byte >= 0x80 stands somewhere (header bytes / percent-escapes): every outcome is a value or an error, at
/// every log level (each case runs twice, the harness flips the level between calls).
pub fn tokens_and_damaged_dates(ctx: &mut Ctx, prop: &str) {
    let mut rng = ctx.rng.fork();
    let mut jobs = Vec::new();
    let pc = prop.to_lowercase();
    let lh = simple_logical(Carrier::Header, T0);
    let lq = simple_logical(Carrier::Query, T0);
    let now = now_for(&lh, 0);
    // tokens
    let toks: Vec<Vec<u8>> = vec![
        "tok€n-0123456789".as_bytes().to_vec(), "ab€".as_bytes().to_vec(), "€€€€€€".as_bytes().to_vec(), "0123é56789abcdefé".as_bytes().to_vec(),
        "abc😀defgh😀".as_bytes().to_vec(), "é".as_bytes().to_vec(), "aé".as_bytes().to_vec(), "abé".as_bytes().to_vec(), "abcé".as_bytes().to_vec(), "abcdé-------".as_bytes().to_vec(),
        "--------éabc".as_bytes().to_vec(), "-------éabcd".as_bytes().to_vec(), "------é-abcd".as_bytes().to_vec(), vec![b'a', b'b', b'c', 0xE9, b'd', b'e', b'f', b'g', b'h', b'i'],
    ];
    for (k, t) in toks.iter().enumerate() {
        for carrier in [Carrier::Header, Carrier::Query] {
            let mut l = if carrier == Carrier::Header { lh.clone() } else { lq.clone() };
            l.token = Some("TOKEN123".into());
            let s = sign_and_spell(&l, &mut rng, &Spelling::plain(), now);
            let mut c = s.case.clone();
            let enc: String = t.iter().map(|b| format!("%{:02X}", b)).collect();
            for (nme, v) in c.headers.iter_mut() {
                if nme.eq_ignore_ascii_case("x-amz-security-token") {
                    *v = t.clone();
                }
            }
            c.uri = c.uri.replace("X-Amz-Security-Token=TOKEN123", &format!("X-Amz-Security-Token={}", enc));
            let _ = k;
            for _ in 0..2 {
                jobs.push(job(c.clone(), Expect::Any, &format!("{}-multibyte-token", pc), "C08: a security token with multi-byte characters"));
            }
        }
    }
    // damaged dates
    let compact = b"20150830T123600Z";
    let step = if ctx.thorough { 1 } else { 2 };
    let sh = sign_and_spell(&lh, &mut rng, &Spelling::plain(), now);
    let sq = sign_and_spell(&lq, &mut rng, &Spelling::plain(), now);
    for del in 0..compact.len() {
        // variant 0: one digit removed and a byte >= 0x80 inserted somewhere (16 bytes on the wire);
        // variant 1: one character removed and another *replaced* by a byte >= 0x80 (15 bytes on the wire, 16 once the
        // byte has become a two-byte character)
        for (variant, ins) in (0..compact.len()).step_by(step).map(|i| (0, i)).chain((0..compact.len() - 1).map(|i| (1, i))) {
            for hb in [0xE9u8, 0xC3, 0xA0, 0xFF] {
                if variant == 1 && !ctx.thorough && (hb == 0xA0 || hb == 0xFF) {
                    continue;
                }
                let mut d: Vec<u8> = compact.to_vec();
                d.remove(del);
                if variant == 0 {
                    d.insert(ins.min(d.len()), hb);
                } else {
                    d[ins] = hb;
                }
                let mut c = sh.case.clone();
                for (nme, v) in c.headers.iter_mut() {
                    if nme.eq_ignore_ascii_case("x-amz-date") {
                        *v = d.clone();
                    }
                }
                jobs.push(job(c, Expect::Refuse(None), &format!("{}-damaged-date", pc), "C08/C16: a timestamp with a missing digit and a byte >= 0x80 is refused with an error, never a panic"));
                let enc: String = d.iter().map(|b| if *b < 0x80 { (*b as char).to_string() } else { format!("%{:02X}", b) }).collect();
                let mut c = sq.case.clone();
                c.uri = c.uri.replace("X-Amz-Date=20150830T123600Z", &format!("X-Amz-Date={}", enc));
                if c.uri != sq.case.uri {
                    jobs.push(job(c, Expect::Refuse(None), &format!("{}-damaged-date", pc), "C08/C16: a timestamp with a missing digit and a byte >= 0x80 is refused with an error, never a panic"));
                }
            }
        }
        if jobs.len() > 3000 {
            run_jobs(ctx, "VALIDATE", std::mem::take(&mut jobs));
        }
    }
    run_jobs(ctx, "VALIDATE", jobs);
}

/// Header carrier with both date headers: a malformed X-Amz-Date next to a well-formed (ISO-8601) Date header. The first
/// X-Amz-Date header is the date of the request; when it is not a timestamp the request is refused (400), the Date
/// header is not consulted.
pub fn malformed_amz_date_beside_date(ctx: &mut Ctx, prop: &str) {
    let mut rng = ctx.rng.fork();
    let mut jobs = Vec::new();
    let bad = ["20150830T126000Z", "20150230T123600Z", "20150830T123600", "20150830T123600Zjunk", "", "2015-08-30", "Sun, 30 Aug 2015 12:36:00 GMT", "20150830T123600+2500", "x20150830T123600Z"];
    for (k, b) in bad.iter().enumerate() {
        for variant in 0..3 {
            let mut l = simple_logical(Carrier::Header, T0);
            l.use_date_header = true; // the signer stamps and signs a Date header (ISO compact form)
            let now = now_for(&l, 0);
            let s = sign_and_spell(&l, &mut rng, &Spelling::plain(), now);
            let mut c = s.case.clone();
            let pos = match variant { 0 => 0, 1 => c.headers.len(), _ => c.headers.len() / 2 };
            c.headers.insert(pos, ("X-Amz-Date".into(), b.as_bytes().to_vec()));
            let _ = k;
            let mut j = job(c, Expect::Refuse(Some("IncompleteSignature")), &format!("{}-malformed-amz-date-beside-date", prop.to_lowercase()), "C16/C19: the first X-Amz-Date header is the request's date in preference to any Date header; when it is not a well-formed timestamp the request is refused with the ISO-8601 format error (400) — a well-formed Date header does not take its place");
            j.expect_calls = Some(0);
            jobs.push(j);
        }
    }
    run_jobs(ctx, "VALIDATE", jobs);
}

// =============================================================================================
// Stages added after the eighth round of seeded changes

/// One `service_for_signing_key_fn` adapter object serving a history of validations while the wrapped function's answers
/// change (key rotated, another identity, an error): every validation must reflect the answer given for *it*.
pub fn adapter_histories(ctx: &mut Ctx, prop: &str) {
    let mut rng = ctx.rng.fork();
    let n = ctx.n(30, 500);
    let pc = prop.to_lowercase();
    for k in 0..n {
        let mut l = simple_logical(if k % 2 == 0 { Carrier::Header } else { Carrier::Query }, T0);
        if k % 3 != 2 {
            l.token = Some(format!("SESSION{}", k % 4));
        }
        let now = now_for(&l, 0);
        let s = sign_and_spell(&l, &mut rng, &Spelling::plain(), now);
        let other_key: Vec<u8> = s.key.iter().map(|b| b ^ 0x5a).collect();
        let mut hist: Vec<(Case, String)> = Vec::new();
        // 1: the genuine answer
        hist.push((s.case.clone(), "OK".into()));
        // 2: the provider now hands out another key for the same lookup (rotated / revoked): the old signature must fail
        let mut c2 = s.case.clone();
        c2.answer = Answer::Key { key: other_key.clone(), identity: s.identity.clone() };
        hist.push((c2, "ERR SignatureDoesNotMatch".into()));
        // 3: the genuine key again but another identity: the returned principal must be the new one
        let mut c3 = s.case.clone();
        c3.answer = Answer::Key { key: s.key.clone(), identity: "bob".into() };
        hist.push((c3, "OK".into()));
        // 4: the provider refuses the lookup now
        let mut c4 = s.case.clone();
        c4.answer = Answer::Err(ProvErr::Sig("ExpiredToken"));
        hist.push((c4, "ERR ExpiredToken".into()));
        // 5: the same access key and scope under another session token (re-signed), answered with yet another identity
        let mut l5 = l.clone();
        l5.token = Some("OTHERSESSION".into());
        let s5 = sign_and_spell(&l5, &mut rng, &Spelling::plain(), now);
        let mut c5 = s5.case.clone();
        c5.answer = Answer::Key { key: s5.key.clone(), identity: "carol".into() };
        hist.push((c5, "OK".into()));
        if k % 2 == 1 {
            hist.swap(1, 3);
        }
        let cases: Vec<Case> = hist.iter().map(|h| h.0.clone()).collect();
        let (got, calls) = match imp::validate_history_through_adapter(&cases, false) {
            Some(x) => x,
            None => continue,
        };
        for (i, ((c, want), g)) in hist.iter().zip(got.iter()).enumerate() {
            ctx.rep.count("evaluations");
            ctx.rep.count("evaluations.ADAPTER");
            let mut ok = g.split(' ').take(if want.starts_with("ERR") { 2 } else { 1 }).collect::<Vec<_>>().join(" ") == *want;
            if ok && want == "OK" {
                if let Answer::Key { identity, .. } = &c.answer {
                    ok = g.contains(&format!("{:?}", imp::principal_for(identity))) && g.contains("session_ok=true");
                }
            }
            if !ok {
                fail(ctx, "ORACLE", "ADAPTER", &format!("{}-adapter-history", pc), format!("validation {} of {} through one service_for_signing_key_fn adapter: {}", i + 1, hist.len(), c.describe()), g.clone(), String::new(),
                    format!("{} with the identity the provider function returned for this lookup", want),
                    "C01/C14/C15: every validation consults the key provider and uses the key and identity returned for THIS request; an adapter object used for several validations must not answer from memory");
            }
        }
        if calls != hist.len() {
            fail(ctx, "ORACLE", "ADAPTER", &format!("{}-adapter-history", pc), format!("{} validations through one adapter", hist.len()), format!("{} calls of the wrapped function", calls), String::new(), format!("{} calls", hist.len()),
                "C14: each validation that passes the pre-checks consults the provider exactly once");
        }
    }
}

/// Server configurations whose (region, service) concatenate to the same text: a request scoped for the first must
/// be refused by a server configured with the second, also right after it was accepted by the first.
pub fn colliding_configs(ctx: &mut Ctx, prop: &str) {
    let mut rng = ctx.rng.fork();
    let n = ctx.n(20, 300);
    let mut jobs = Vec::new();
    let pairs = [(("eu-west-1", "sqs"), ("eu-west-1s", "qs")), (("us", "east"), ("use", "ast")), (("local", "iam"), ("loca", "liam")), (("a", "bc"), ("ab", "c")), (("r1", "s"), ("r", "1s"))];
    for k in 0..n {
        let ((r1, s1), (r2, s2)) = pairs[k % pairs.len()];
        let mut l = simple_logical(if k % 2 == 0 { Carrier::Header } else { Carrier::Query }, T0);
        l.region = r1.into();
        l.service = s1.into();
        let now = now_for(&l, 0);
        let s = sign_and_spell(&l, &mut rng, &Spelling::plain(), now);
        jobs.push(accept_job(&s, &format!("{}-colliding-config", prop.to_lowercase()), "C03: a correctly scoped request is accepted"));
        let mut c = s.case.clone();
        c.region = r2.into();
        c.service = s2.into();
        let mut j = job(c, Expect::Refuse(Some("SignatureDoesNotMatch")), &format!("{}-colliding-config", prop.to_lowercase()), "C03: region and service are compared separately: a scope for (eu-west-1, sqs) is foreign to a server configured as (eu-west-1s, qs), also right after the former accepted it; no key lookup");
        j.expect_calls = Some(0);
        jobs.push(j);
        jobs.push(accept_job(&s, &format!("{}-colliding-config", prop.to_lowercase()), "C03: a correctly scoped request is accepted"));
    }
    run_jobs(ctx, "VALIDATE", jobs);
}

/// Presigned-URL parameters that are not part of SigV4 verification here (`X-Amz-Expires`) next to a stale or early date:
/// the window is ±15 minutes whatever they say.
pub fn expires_parameter(ctx: &mut Ctx, prop: &str) {
    let mut rng = ctx.rng.fork();
    let n = ctx.n(40, 600);
    let mut jobs = Vec::new();
    for k in 0..n {
        let mut l = simple_logical(if k % 4 == 3 { Carrier::Header } else { Carrier::Query }, T0);
        l.query.push((b"X-Amz-Expires".to_vec(), rng.pick(&["3600", "86400", "604800", "901", "900", "60", "0", "-1", "abc"]).as_bytes().to_vec()));
        let skew: i128 = *rng.pick(&[901i128, 1800, 3500, 86000, -901, -3000, 600_000]);
        // server time = request time + skew seconds: positive skew = the request is that old
        let now = now_for(&l, skew * 1_000_000_000);
        let s = sign_and_spell(&l, &mut rng, &Spelling::plain(), now);
        let mut j = job(s.case.clone(), Expect::Refuse(Some("SignatureDoesNotMatch")), &format!("{}-expires-parameter", prop.to_lowercase()), "C04: a request more than 15 minutes from the server time is refused before any key lookup, whatever an X-Amz-Expires parameter says");
        j.expect_calls = Some(0);
        jobs.push(j);
        let now2 = now_for(&l, *rng.pick(&[0i128, 899, -899, 900, -900]) * 1_000_000_000);
        let s2 = sign_and_spell(&l, &mut rng, &Spelling::plain(), now2);
        jobs.push(accept_job(&s2, &format!("{}-expires-parameter", prop.to_lowercase()), "C04: inside the window the request is accepted whatever an X-Amz-Expires parameter says"));
    }
    run_jobs(ctx, "VALIDATE", jobs);
}

/// Query carrier with a session token: an `x-amz-security-token` *header* that a requirement covers is present and unsigned.
pub fn unsigned_token_header(ctx: &mut Ctx, prop: &str) {
    let mut rng = ctx.rng.fork();
    let n = ctx.n(30, 400);
    let mut jobs = Vec::new();
    for k in 0..n {
        let mut l = simple_logical(Carrier::Query, T0);
        l.token = Some("QUERYTOKEN".into());
        l.headers.push(("X-Amz-Security-Token".into(), if k % 2 == 0 { b"QUERYTOKEN".to_vec() } else { b"OTHER".to_vec() }));
        let now = now_for(&l, 0);
        let s = sign_and_spell(&l, &mut rng, &Spelling::plain(), now);
        let mut c = s.case.clone();
        match k % 3 {
            0 => c.ifreq = vec!["X-Amz-Security-Token".into()],
            1 => c.prefixes = vec!["X-Amz-".into()],
            _ => c.prefixes = vec!["x-amz-security".into()],
        }
        c.vec_reqs = k % 2 == 0;
        if s.signed_names.iter().any(|x| x == "x-amz-security-token") {
            continue;
        }
        let mut j = job(c, Expect::Refuse(Some("SignatureDoesNotMatch")), &format!("{}-unsigned-token-header", prop.to_lowercase()), "C05: a header covered by an if-in-request or prefix requirement and present in the request must be signed, also the security-token header of a request whose token travels in the query string");
        j.expect_calls = Some(0);
        jobs.push(j);
    }
    run_jobs(ctx, "VALIDATE", jobs);
}

/// Security tokens with one byte >= 0x80 at every position 0..24 (raw in a header, percent-encoded in the query), and
/// header values longer than 255 … 8192 bytes with a multi-byte character across each of those offsets; every case at
/// both log levels.
pub fn high_bytes_everywhere(ctx: &mut Ctx, prop: &str) {
    let mut rng = ctx.rng.fork();
    let mut jobs = Vec::new();
    let pc = prop.to_lowercase();
    for pos in 0..24usize {
        for carrier in [Carrier::Header, Carrier::Query] {
            let mut l = simple_logical(carrier, T0);
            l.token = Some("TOKEN123".into());
            let now = now_for(&l, 0);
            let s = sign_and_spell(&l, &mut rng, &Spelling::plain(), now);
            let mut t: Vec<u8> = b"AQoDYXdzEPTabcdefghijklmnop".to_vec();
            t[pos] = [0xE9u8, 0xC3, 0xFF][pos % 3];
            let mut c = s.case.clone();
            for (nme, v) in c.headers.iter_mut() {
                if nme.eq_ignore_ascii_case("x-amz-security-token") {
                    *v = t.clone();
                }
            }
            let enc: String = t.iter().map(|b| if *b < 0x80 { (*b as char).to_string() } else { format!("%{:02X}", b) }).collect();
            c.uri = c.uri.replace("X-Amz-Security-Token=TOKEN123", &format!("X-Amz-Security-Token={}", enc));
            for _ in 0..2 {
                jobs.push(job(c.clone(), Expect::Any, &format!("{}-high-byte-token", pc), "C08: a security token with a byte >= 0x80"));
            }
        }
    }
    for &edge in &[255usize, 256, 512, 1024, 2048, 4096, 8192] {
        for delta in 0..4usize {
            let mut l = simple_logical(if delta % 2 == 0 { Carrier::Header } else { Carrier::Query }, T0);
            // a value that is valid UTF-8 as a whole, with a 3-byte character starting `delta` bytes before the edge
            let start = edge - delta;
            let mut v: Vec<u8> = vec![b'x'; start];
            v.extend_from_slice("€".as_bytes());
            v.extend_from_slice(&vec![b'y'; 40]);
            l.headers.push(("X-Amz-Meta-Long".into(), v));
            if delta < 2 {
                l.signed.push("x-amz-meta-long".into());
            }
            let now = now_for(&l, 0);
            let s = sign_and_spell(&l, &mut rng, &Spelling::plain(), now);
            for _ in 0..2 {
                jobs.push(accept_job(&s, &format!("{}-long-header-value", pc), "C08/C11: a long header value with a multi-byte character across a power-of-two offset: the request validates at every log level"));
            }
        }
    }
    run_jobs(ctx, "VALIDATE", jobs);
}

/// Header names using the whole token alphabet (`_ ^ \` | ~ ! # $ % & ' * + .`), in pairs that first differ where one has a
/// special character and the other a letter or digit: the signed-header list and the header lines are in byte order.
pub fn token_alphabet_header_names(ctx: &mut Ctx, prop: &str) {
    let mut rng = ctx.rng.fork();
    let n = ctx.n(60, 900);
    let mut jobs = Vec::new();
    let specials = ["_", "^", "`", "|", "~", "!", "#", "$", "%", "&", "'", "*", "+", "."];
    for k in 0..n {
        let mut l = simple_logical(if k % 2 == 0 { Carrier::Query } else { Carrier::Header }, T0);
        let sp = specials[k % specials.len()];
        let other = *rng.pick(&["a", "b", "z", "0", "9", "m"]);
        let n1 = format!("x-meta{}a", sp);
        let n2 = format!("x-meta{}", other);
        let n3 = format!("x-meta{}{}", other, sp);
        for nme in [&n1, &n2, &n3] {
            l.headers.push((nme.clone(), format!("v-{}", nme.len()).into_bytes()));
            l.signed.push(nme.clone());
        }
        let now = now_for(&l, 0);
        let mut spell = Spelling::plain();
        spell.unsorted_signed_list = k % 3 == 0;
        let s = sign_and_spell(&l, &mut rng, &spell, now);
        jobs.push(accept_job(&s, &format!("{}-token-alphabet-names", prop.to_lowercase()), "C11: signed header names are ordered bytewise, for every character a header name may contain; a request signed that way was refused"));
    }
    run_jobs(ctx, "VALIDATE", jobs);
}

/// `canonical_request(list)` on one `CanonicalRequest` object (unstable API) for a sequence of signed-header lists,
/// including lists whose names concatenate to the same text: each evaluation gives what a fresh object gives.
pub fn canonical_request_histories(ctx: &mut Ctx, prop: &str) {
    let mut rng = ctx.rng.fork();
    let n = ctx.n(20, 300);
    for k in 0..n {
        let mut l = simple_logical(Carrier::Header, T0);
        for (nme, v) in [("x-c", "1"), ("x-d", "2"), ("x-cx-d", "3"), ("x-", "4"), ("cx-d", "5"), ("x-cx", "6"), ("-d", "7")] {
            l.headers.push((nme.to_string(), v.as_bytes().to_vec()));
        }
        let now = now_for(&l, 0);
        let s = sign_and_spell(&l, &mut rng, &Spelling::plain(), now);
        let base = vec!["host".to_string(), "x-amz-date".to_string()];
        let variants: Vec<Vec<&str>> = vec![vec!["x-c", "x-d"], vec!["x-cx-d"], vec!["x-", "cx-d"], vec!["x-cx", "-d"], vec!["x-c"], vec![]];
        let mut lists: Vec<Vec<String>> = Vec::new();
        for _ in 0..(3 + k % 3) {
            let v = rng.pick(&variants);
            let mut li = base.clone();
            li.extend(v.iter().map(|x| x.to_string()));
            lists.push(li);
        }
        if let Some((one, fresh)) = imp::canonical_request_history(&s.case, &lists) {
            for (i, (a, b)) in one.iter().zip(fresh.iter()).enumerate() {
                ctx.rep.count("evaluations");
                ctx.rep.count("evaluations.CREQHIST");
                if a != b {
                    fail(ctx, "ORACLE", "CREQHIST", &format!("{}-canonical-request-history", prop.to_lowercase()), format!("canonical_request on one object, lists in order: {:?}; evaluation {}", lists, i + 1), a.chars().take(400).collect(), String::new(), b.chars().take(400).collect(),
                        "C11/C18: the canonical request is a function of the request and the signed-header list given; an object evaluated before with another list must give what a fresh object gives");
                }
            }
        }
    }
}

/// Timestamps with seconds 60/61 at 23:59 (and elsewhere), and query-carrier dates that are percent-encoded twice.
pub fn leap_seconds_and_double_encoding(ctx: &mut Ctx, prop: &str) {
    let mut rng = ctx.rng.fork();
    let mut jobs = Vec::new();
    let pc = prop.to_lowercase();
    let bad = ["20150830T235960Z", "20150830T235961Z", "2015-08-30T23:59:60Z", "2015-08-30T23:59:60.5+05:30", "20150630T235960Z", "20151231T235960Z", "20150830T123660Z", "20150830T225960Z", "20150830T235860Z"];
    for (k, b) in bad.iter().enumerate() {
        for carrier in [Carrier::Header, Carrier::Query] {
            let l = simple_logical(carrier.clone(), T0);
            let now = now_for(&l, 0);
            let s = sign_and_spell(&l, &mut rng, &Spelling::plain(), now);
            let mut c = s.case.clone();
            for (nme, v) in c.headers.iter_mut() {
                if nme.eq_ignore_ascii_case("x-amz-date") {
                    *v = b.as_bytes().to_vec();
                }
            }
            let enc: String = b.bytes().map(|x| if x.is_ascii_alphanumeric() || x == b'-' || x == b'.' { (x as char).to_string() } else { format!("%{:02X}", x) }).collect();
            c.uri = c.uri.replace("X-Amz-Date=20150830T123600Z", &format!("X-Amz-Date={}", enc));
            let _ = k;
            let mut j = job(c, Expect::Refuse(Some("IncompleteSignature")), &format!("{}-second-60", pc), "C16: seconds 60/61 pass the pattern but are not a time of day: the ISO-8601 format error (400), at 23:59 as anywhere else");
            j.expect_calls = Some(0);
            jobs.push(j);
        }
    }
    // a well-formed timestamp percent-encoded twice in the query string: decoded once it still contains `%` and is no timestamp
    for t in ["20150830T123600Z", "2015-08-30T12:36:00Z", "20150830T133600+0100"] {
        let l = simple_logical(Carrier::Query, T0);
        let now = now_for(&l, 0);
        let s = sign_and_spell(&l, &mut rng, &Spelling::plain(), now);
        let once: String = t.bytes().map(|x| if x.is_ascii_alphanumeric() { (x as char).to_string() } else { format!("%{:02X}", x) }).collect();
        let all_once: String = t.bytes().map(|x| format!("%{:02X}", x)).collect();
        for once in [once, all_once] {
            let twice = once.replace('%', "%25");
            let mut c = s.case.clone();
            c.uri = c.uri.replace("X-Amz-Date=20150830T123600Z", &format!("X-Amz-Date={}", twice));
            if c.uri == s.case.uri {
                continue;
            }
            let mut j = job(c, Expect::Refuse(Some("IncompleteSignature")), &format!("{}-double-encoded-date", pc), "C16: a query-carrier date is percent-decoded once; a value that still contains escapes is not a timestamp (400)");
            j.expect_calls = Some(0);
            jobs.push(j);
        }
    }
    run_jobs(ctx, "VALIDATE", jobs);
}

/// Authorization lists with empty items (`,,`, `, ,`, `,\t,`) in the middle, followed by a repetition of a parameter: the
/// last occurrence counts, whatever gaps the list has.
pub fn empty_auth_items(ctx: &mut Ctx, prop: &str) {
    let mut rng = ctx.rng.fork();
    let n = ctx.n(40, 600);
    let mut jobs = Vec::new();
    let bad_sig = "0123456789abcdef0123456789abcdef0123456789abcdef0123456789abcdef";
    for k in 0..n {
        let l = simple_logical(Carrier::Header, T0);
        let now = now_for(&l, 0);
        let s = sign_and_spell(&l, &mut rng, &Spelling::plain(), now);
        let gap = [",,", ", ,", ",\t,", ",, ,", " , , "][k % 5];
        for good_last in [true, false] {
            let mut c = s.case.clone();
            for (nme, v) in c.headers.iter_mut() {
                if nme.eq_ignore_ascii_case("authorization") {
                    let t = String::from_utf8_lossy(v).to_string();
                    let t2 = if good_last {
                        // a bogus signature first, the gap, then the good one: accepted
                        format!("{}{} Signature={}", t.replace(&s.signature, bad_sig), gap, s.signature)
                    } else {
                        format!("{}{} Signature={}", t, gap, bad_sig)
                    };
                    *v = t2.into_bytes();
                }
            }
            if good_last {
                jobs.push(accept_job_case(c, &s, &format!("{}-empty-auth-items", prop.to_lowercase()), "C19: of a parameter repeated inside the Authorization header the last occurrence counts, also behind empty list items"));
            } else {
                let mut j = job(c, Expect::Refuse(Some("SignatureDoesNotMatch")), &format!("{}-empty-auth-items", prop.to_lowercase()), "C19: of a parameter repeated inside the Authorization header the last occurrence counts, also behind empty list items");
                j.expect_calls = Some(1);
                jobs.push(j);
            }
        }
    }
    run_jobs(ctx, "VALIDATE", jobs);
}

/// Folding on, a form content type with an unsupported / malformed charset, and an EMPTY body: the charset is refused
/// (400) before anything else is looked at, as for a non-empty body.
pub fn empty_body_bad_charset(ctx: &mut Ctx, prop: &str) {
    let mut rng = ctx.rng.fork();
    let mut jobs = Vec::new();
    let cts = ["application/x-www-form-urlencoded; charset=bogus-9", "application/x-www-form-urlencoded; charset=", "application/x-www-form-urlencoded;charset=\"utf-8\"", "application/x-www-form-urlencoded; charset=utf-99; charset=utf-8"];
    for (k, ct) in cts.iter().enumerate() {
        for variant in 0..6 {
            let mut l = simple_logical(if (k + variant) % 2 == 0 { Carrier::Header } else { Carrier::Query }, T0);
            l.method = "POST".into();
            l.fold = true;
            l.content_type = Some(ct.to_string());
            l.form = Some(Vec::new());
            let now = now_for(&l, 0);
            let s = sign_and_spell(&l, &mut rng, &Spelling::plain(), now);
            let mut c = s.case.clone();
            c.body.clear();
            // in front of later defects as well
            match variant {
                1 => { let bad: String = s.signature.chars().rev().collect(); set_signature(&mut c, &s.signature, &bad); }
                2 => c.region = "elsewhere".into(),
                3 => c.now = (c.now.0 + 5000, 0),
                4 => c.answer = Answer::Err(ProvErr::Sig("InvalidClientTokenId")),
                5 => c.headers.retain(|(n, _)| !n.eq_ignore_ascii_case("authorization")),
                _ => {}
            }
            let mut j = job(c, Expect::Refuse(Some("InvalidBodyEncoding")), &format!("{}-empty-body-bad-charset", prop.to_lowercase()), "C12/C13: a form request whose charset is unknown is refused as an invalid body encoding (400) when folding is on — also when the body is empty — ahead of every later check");
            j.expect_calls = Some(0);
            jobs.push(j);
        }
    }
    run_jobs(ctx, "VALIDATE", jobs);
}

// =============================================================================================
// Stages added after the ninth round of seeded changes

/// Method tokens in other letter cases (`get`, `Post`): the method is covered as sent; a signature for `GET /x` does not
/// validate `get /x`, and a request signed over its own lower-case method is accepted.
pub fn method_letter_case(ctx: &mut Ctx, prop: &str) {
    let mut rng = ctx.rng.fork();
    let mut jobs = Vec::new();
    let pc = prop.to_lowercase();
    for (k, m) in ["get", "Get", "gEt", "post", "Delete", "pUT", "options", "m-search"].iter().enumerate() {
        for carrier in [Carrier::Header, Carrier::Query] {
            let mut l = simple_logical(carrier.clone(), T0);
            l.method = m.to_string();
            let now = now_for(&l, 0);
            let s = sign_and_spell(&l, &mut rng, &Spelling::plain(), now);
            jobs.push(accept_job(&s, &format!("{}-method-case", pc), "C01/C02: the method is covered as sent; a request signed over its own (lower-case) method token is accepted"));
            let mut c = s.case.clone();
            c.method = m.to_ascii_uppercase();
            let _ = k;
            jobs.push(job(c, Expect::Refuse(Some("SignatureDoesNotMatch")), &format!("{}-method-case", pc), "C01: a signature issued for one method token validates the request with the token in another letter case"));
        }
    }
    run_jobs(ctx, "VALIDATE", jobs);
}

/// Folded form bodies in other character sets (ISO-8859-1 labels — windows-1252 per WHATWG —, UTF-16, ISO-2022-JP,
/// Shift_JIS, KOI8-R …), with bytes 0x80-0x9F, with 7-bit-only bodies, with escape sequences: the body counts as the text
/// its declared charset decodes it to (the reference signer signs the pairs of that text).
pub fn other_charsets(ctx: &mut Ctx, prop: &str) {
    let mut rng = ctx.rng.fork();
    let mut jobs = Vec::new();
    let pc = prop.to_lowercase();
    let labels = ["iso-8859-1", "latin1", "l1", "cp819", "windows-1252", "utf-16le", "utf-16be", "utf-16", "iso-2022-jp", "shift_jis", "koi8-r", "iso-8859-2", "gbk", "euc-kr", "x-user-defined", "hz-gb-2312", "windows-1251", "macintosh"];
    let bodies: Vec<Vec<u8>> = vec![
        b"a=1&b=2".to_vec(), b"price=100\x80".to_vec(), b"q=\x93x\x94&r=\x85".to_vec(), b"n=\xe9\xa0".to_vec(), b"k=v&k=w&x=".to_vec(),
        b"a\x00=\x001\x00".to_vec(), b"\x00a\x00=\x001".to_vec(), b"t=\x1b$B\x30\x21\x1b(B".to_vec(), b"z=~{<:~}".to_vec(), b"".to_vec(),
    ];
    for (li, label) in labels.iter().enumerate() {
        for (bi, body) in bodies.iter().enumerate() {
            let other = imp::other_charset(Some(label), body);
            let mut l = simple_logical(if (li + bi) % 2 == 0 { Carrier::Header } else { Carrier::Query }, T0);
            l.method = "POST".into();
            l.fold = true;
            let ct = format!("application/x-www-form-urlencoded; charset={}", label);
            l.content_type = Some(ct);
            l.signed.push("content-type".into());
            let now = now_for(&l, 0);
            if let Some(hex) = other.strip_prefix('D') {
                // decodable: the pairs of the decoded text are what is authenticated
                let text = unhx(hex);
                match rs::ref_query_pairs(&text) {
                    Some(pairs) => {
                        l.form = Some(pairs);
                        let s = sign_and_spell(&l, &mut rng, &Spelling::plain(), now);
                        let mut c = s.case.clone();
                        c.body = body.clone();
                        jobs.push(accept_job_case(c, &s, &format!("{}-other-charset", pc), "C12/C02: a folded form body counts as the text its declared charset decodes it to; a request signed over the pairs of that text was refused"));
                    }
                    None => {
                        l.form = Some(vec![]);
                        let s = sign_and_spell(&l, &mut rng, &Spelling::plain(), now);
                        let mut c = s.case.clone();
                        c.body = body.clone();
                        jobs.push(job(c, Expect::Refuse(Some("MalformedQueryString")), &format!("{}-other-charset", pc), "C12: a decoded form body with a malformed escape is a malformed query string"));
                    }
                }
            } else {
                l.form = Some(vec![]);
                let s = sign_and_spell(&l, &mut rng, &Spelling::plain(), now);
                let mut c = s.case.clone();
                c.body = body.clone();
                let mut j = job(c, Expect::Refuse(Some("InvalidBodyEncoding")), &format!("{}-other-charset", pc), "C12: a body its declared charset cannot decode (or an unknown charset) is refused as an invalid body encoding");
                j.expect_calls = Some(0);
                jobs.push(j);
            }
        }
    }
    run_jobs(ctx, "VALIDATE", jobs);
}

/// Credential-scope parts that are the expected text followed by 256·k more bytes, and other long near misses.
pub fn long_scope_near_misses(ctx: &mut Ctx, prop: &str) {
    let mut rng = ctx.rng.fork();
    let mut jobs = Vec::new();
    for (k, extra) in [1usize, 255, 256, 257, 512, 768, 1024, 65536].iter().enumerate() {
        for part in 0..4 {
            let mut l = simple_logical(if (k + part) % 2 == 0 { Carrier::Header } else { Carrier::Query }, T0);
            let pad = "x".repeat(*extra);
            let now = now_for(&l, 0);
            // the client signs consistently over the scope it sends, with the key of the configured scope
            let base = sign_and_spell(&l, &mut rng, &Spelling::plain(), now);
            match part {
                0 => l.scope_date_override = Some(format!("{}{}", base.scope_date, "0".repeat(*extra))),
                1 => l.region = format!("{}{}", l.region, pad),
                2 => l.service = format!("{}{}", l.service, pad),
                _ => {}
            }
            let s = sign_and_spell(&l, &mut rng, &Spelling::plain(), now);
            let mut c = s.case.clone();
            c.region = "us-east-1".into();
            c.service = "service".into();
            if part == 3 {
                c.uri = c.uri.replace("aws4_request", &format!("aws4_request{}", pad));
                for (nme, v) in c.headers.iter_mut() {
                    if nme.eq_ignore_ascii_case("authorization") {
                        *v = String::from_utf8_lossy(v).replace("aws4_request", &format!("aws4_request{}", pad)).into_bytes();
                    }
                }
            }
            // the provider would hand out the configured scope's key: the signature over the sent scope may well verify
            c.answer = Answer::Key { key: base.key.clone(), identity: base.identity.clone() };
            if c.uri.len() > 60_000 {
                continue;
            }
            let mut j = job(c, Expect::Refuse(Some("SignatureDoesNotMatch")), &format!("{}-long-scope-near-miss", prop.to_lowercase()), "C03: a scope part that merely begins with the expected text (however many bytes follow) is a foreign scope: refused, no key lookup");
            j.expect_calls = Some(0);
            jobs.push(j);
        }
    }
    run_jobs(ctx, "VALIDATE", jobs);
}

/// A header whose name IS a declared prefix, and signed-header entries padded with blanks or tabs.
pub fn prefix_equals_name_and_padded_entries(ctx: &mut Ctx, prop: &str) {
    let mut rng = ctx.rng.fork();
    let mut jobs = Vec::new();
    let pc = prop.to_lowercase();
    for k in 0..ctx.n(30, 400) {
        // (a) name == prefix, unsigned
        let mut l = simple_logical(if k % 2 == 0 { Carrier::Header } else { Carrier::Query }, T0);
        let name = ["x-tenant", "X-Amz-Meta", "my-header", "x"][k % 4];
        l.headers.push((name.to_string(), b"v".to_vec()));
        let now = now_for(&l, 0);
        let s = sign_and_spell(&l, &mut rng, &Spelling::plain(), now);
        let mut c = s.case.clone();
        c.prefixes = vec![if k % 3 == 0 { name.to_uppercase() } else { name.to_string() }];
        c.vec_reqs = k % 2 == 1;
        let mut j = job(c, Expect::Refuse(Some("SignatureDoesNotMatch")), &format!("{}-prefix-equals-name", pc), "C05: a request header whose name starts with a declared prefix — the prefix itself included — must be signed");
        j.expect_calls = Some(0);
        jobs.push(j);
        // (b) a required header left unsigned while the signed list carries its name padded with a blank or a tab
        let mut l2 = simple_logical(if k % 2 == 0 { Carrier::Header } else { Carrier::Query }, T0);
        l2.headers.push(("x-tenant".into(), b"acme".to_vec()));
        let s2 = sign_and_spell(&l2, &mut rng, &Spelling::plain(), now);
        let mut c2 = s2.case.clone();
        let padded = [" x-tenant", "x-tenant ", "\tx-tenant", "x-tenant\t"][k % 4];
        // the client signs exactly what it sends: re-sign is not needed for the expectation (requirement rule comes first)
        c2.uri = c2.uri.replace("X-Amz-SignedHeaders=host", &format!("X-Amz-SignedHeaders={}%3Bhost", padded.replace(' ', "%20").replace('\t', "%09")));
        for (nme, v) in c2.headers.iter_mut() {
            if nme.eq_ignore_ascii_case("authorization") {
                *v = String::from_utf8_lossy(v).replace("SignedHeaders=host", &format!("SignedHeaders={};host", padded)).into_bytes();
            }
        }
        match k % 3 {
            0 => c2.always = vec!["x-tenant".into()],
            1 => c2.ifreq = vec!["X-Tenant".into()],
            _ => c2.prefixes = vec!["x-ten".into()],
        }
        if c2.uri == s2.case.uri && c2.headers == s2.case.headers {
            continue;
        }
        let mut j = job(c2, Expect::Refuse(None), &format!("{}-padded-signed-entry", pc), "C05: a signed-header entry padded with a blank or tab is not the header's name: the required header is not signed and the request must be refused");
        j.expect_calls = Some(0);
        jobs.push(j);
    }
    run_jobs(ctx, "VALIDATE", jobs);
}

/// Query strings with 1024-1400 components (empty ones included): still the sorted multiset of all pairs.
pub fn thousand_parameters(ctx: &mut Ctx, prop: &str) {
    let mut rng = ctx.rng.fork();
    let mut jobs = Vec::new();
    for k in 0..ctx.n(3, 12) {
        let mut l = simple_logical(if k % 2 == 0 { Carrier::Header } else { Carrier::Query }, T0);
        let n = 1024 + k * 37;
        l.query = (0..n).map(|i| (format!("p{}", (i * 7919) % 1500).into_bytes(), format!("{}", i % 11).into_bytes())).collect();
        let now = now_for(&l, 0);
        let mut sp = Spelling::plain();
        sp.permute = k % 2 == 1;
        let s = sign_and_spell(&l, &mut rng, &sp, now);
        jobs.push(accept_job(&s, &format!("{}-thousand-parameters", prop.to_lowercase()), "C10: the canonical query lists every pair, however many there are; a reference-signed request with more than 1024 parameters was refused"));
    }
    run_jobs(ctx, "VALIDATE", jobs);
}

/// Signed headers whose values carry the out-of-band `sensitive` flag (never-indexed fields): the flag is not part of the
/// value; the request validates at every log level.
pub fn sensitive_header_values(ctx: &mut Ctx, prop: &str) {
    let mut rng = ctx.rng.fork();
    let mut jobs = Vec::new();
    for k in 0..ctx.n(10, 100) {
        let mut l = simple_logical(if k % 2 == 0 { Carrier::Header } else { Carrier::Query }, T0);
        l.headers.push(("X-Sensitive-Key".into(), format!("secret-{}", k).into_bytes()));
        if k % 3 != 2 {
            l.signed.push("x-sensitive-key".into());
        }
        let now = now_for(&l, 0);
        let s = sign_and_spell(&l, &mut rng, &Spelling::plain(), now);
        for _ in 0..2 {
            jobs.push(accept_job(&s, &format!("{}-sensitive-header-value", prop.to_lowercase()), "C11: a signed header contributes its value, whatever out-of-band flags the value carries and whatever the log level"));
        }
        let mut c = s.case.clone();
        for (nme, v) in c.headers.iter_mut() {
            if nme.eq_ignore_ascii_case("x-sensitive-key") {
                *v = b"another-value".to_vec();
            }
        }
        if k % 3 != 2 {
            for _ in 0..2 {
                jobs.push(job(c.clone(), Expect::Refuse(Some("SignatureDoesNotMatch")), &format!("{}-sensitive-header-value", prop.to_lowercase()), "C11: changing a signed header's value invalidates the signature, sensitive or not"));
            }
        }
    }
    run_jobs(ctx, "VALIDATE", jobs);
}

/// A folded form body refused for a malformed escape behind well-formed components, then another folded request on the
/// same thread: the second one's parameters are exactly its own.
pub fn bad_fold_then_good_fold(ctx: &mut Ctx, prop: &str) {
    let mut rng = ctx.rng.fork();
    let mut jobs = Vec::new();
    let pc = prop.to_lowercase();
    for k in 0..ctx.n(10, 150) {
        let mut l = simple_logical(if k % 2 == 0 { Carrier::Header } else { Carrier::Query }, T0);
        l.method = "POST".into();
        l.fold = true;
        l.content_type = Some("application/x-www-form-urlencoded".into());
        l.signed.push("content-type".into());
        l.form = Some(vec![(b"Action".to_vec(), b"DeleteEverything".to_vec()), (b"x".to_vec(), b"1".to_vec())]);
        let now = now_for(&l, 0);
        let s = sign_and_spell(&l, &mut rng, &Spelling::plain(), now);
        let mut bad = s.case.clone();
        bad.body = [&b"Action=DeleteEverything&leak=1&x=%zz"[..], b"a=1&b=2&c=%4", b"k=v&%", b"Stale=yes&q=%G0"][k % 4].to_vec();
        jobs.push(job(bad, Expect::Refuse(Some("MalformedQueryString")), &format!("{}-bad-fold-then-good-fold", pc), "C12: a malformed escape in a folded body is a malformed query string"));
        let mut l2 = l.clone();
        l2.form = Some(vec![(b"fresh".to_vec(), format!("{}", k).into_bytes())]);
        let s2 = sign_and_spell(&l2, &mut rng, &Spelling::plain(), now);
        jobs.push(accept_job(&s2, &format!("{}-bad-fold-then-good-fold", pc), "C12/C15: no parameter is invented: the parameters of a folded request are its own URL and body parameters, whatever was refused before on this thread"));
    }
    run_jobs(ctx, "VALIDATE", jobs)
        .len();
}

/// Provider answers whose session data carries address values (an IPv4-mapped IPv6 address among them): returned unchanged.
pub fn address_session_values(ctx: &mut Ctx, prop: &str) -> Vec<Done> {
    let mut rng = ctx.rng.fork();
    let mut jobs = Vec::new();
    for k in 0..ctx.n(6, 60) {
        let l = simple_logical(if k % 2 == 0 { Carrier::Header } else { Carrier::Query }, T0);
        let now = now_for(&l, 0);
        let s = sign_and_spell(&l, &mut rng, &Spelling::plain(), now);
        let mut c = s.case.clone();
        c.answer = Answer::Key { key: s.key.clone(), identity: format!("ipuser{}", k) };
        jobs.push(accept_job_case(c, &s, &format!("{}-address-session-values", prop.to_lowercase()), "C15: the principal and session data returned are exactly those the key provider supplied"));
    }
    run_jobs(ctx, "VALIDATE", jobs)
}

/// The growable requirements container with the same name added twice in different letter case and removed once: nothing
/// remains required; a correctly signed request carrying that header unsigned is accepted (and the container's accessors
/// show what the reference semantics predicts).
pub fn duplicate_case_requirement_histories(ctx: &mut Ctx, prop: &str) {
    let mut rng = ctx.rng.fork();
    let mut jobs = Vec::new();
    for k in 0..ctx.n(12, 200) {
        let mut l = simple_logical(if k % 2 == 0 { Carrier::Header } else { Carrier::Query }, T0);
        l.headers.push(("x-trace-id".into(), b"abc".to_vec()));
        let now = now_for(&l, 0);
        let s = sign_and_spell(&l, &mut rng, &Spelling::plain(), now);
        let mut c = s.case.clone();
        let (add, rem) = [('I', 'i'), ('A', 'a'), ('P', 'p')][k % 3];
        let spellings = [["X-Trace-Id", "X-Trace-ID"], ["X-TRACE-ID", "x-Trace-id"], ["X-Trace-Id", "X-TRACE-Id"]][k % 3];
        let mut ops = vec![(add, spellings[0].to_string()), (add, spellings[1].to_string())];
        if k % 4 == 1 {
            ops.push(('V', String::new()));
        }
        ops.push((rem, if k % 2 == 0 { "x-trace-id".to_string() } else { "X-TRACE-ID".to_string() }));
        c.vec_reqs = true;
        c.req_ops = ops;
        c.always = vec![];
        c.ifreq = vec![];
        c.prefixes = vec![];
        jobs.push(accept_job_case(c, &s, &format!("{}-duplicate-case-requirements", prop.to_lowercase()), "C05/C11: a name removed from the requirements is no longer required, however often and in whatever letter case it had been added; the unsigned header is then without influence"));
    }
    run_jobs(ctx, "VALIDATE", jobs);
}

/// Over-long signatures (65 … 128 bytes, 64 characters with a non-ASCII one) behind a key lookup that fails: the lookup's
/// error is the one reported, after exactly one call.
pub fn long_signature_behind_failing_lookup(ctx: &mut Ctx, prop: &str) {
    let mut rng = ctx.rng.fork();
    let mut jobs = Vec::new();
    let errs: [(ProvErr, &str); 4] = [(ProvErr::Sig("InvalidClientTokenId"), "InvalidClientTokenId"), (ProvErr::Sig("ExpiredToken"), "ExpiredToken"), (ProvErr::Foreign, "InternalServiceError"), (ProvErr::ForeignOther("TimedOut"), "InternalServiceError")];
    for k in 0..ctx.n(24, 300) {
        let l = simple_logical(if k % 2 == 0 { Carrier::Header } else { Carrier::Query }, T0);
        let now = now_for(&l, 0);
        let s = sign_and_spell(&l, &mut rng, &Spelling::plain(), now);
        let mut c = s.case.clone();
        let long: String = match k % 4 {
            0 => format!("{}0", s.signature),
            1 => format!("{}{}", s.signature, &s.signature[..16]),
            2 => format!("{}{}", s.signature, s.signature),
            _ => if k % 2 == 0 { format!("{}\u{e9}", &s.signature[..63]) } else { format!("{}%C3%A9", &s.signature[..63]) },
        };
        set_signature(&mut c, &s.signature, &long);
        for (_, v) in c.headers.iter_mut() {
            if let Ok(t) = std::str::from_utf8(v) {
                if t.contains('\u{e9}') {
                    *v = latin1_bytes(t);
                }
            }
        }
        let (pe, kind) = errs[(k / 4) % errs.len()].clone();
        c.answer = Answer::Err(pe);
        let mut j = job(c, Expect::Refuse(Some(kind)), &format!("{}-long-signature-behind-failing-lookup", prop.to_lowercase()), "C13/C14: the key lookup precedes the signature comparison: when it fails its error is reported (after exactly one call), whatever the presented signature looks like");
        j.expect_calls = Some(1);
        jobs.push(j);
    }
    run_jobs(ctx, "VALIDATE", jobs);
}

// =============================================================================================
// Stages added after the tenth (small) round of seeded changes

/// Extended-form timestamps of one month but different days, parsed and validated back to back; and the years 0000-0004,
/// 0100, 0400 with every month (the instant of `YYYY-MM-15T12:00:00Z`), three-way.
pub fn same_month_days_and_early_years(ctx: &mut Ctx, prop: &str) {
    let mut rng = ctx.rng.fork();
    let pc = prop.to_lowercase();
    // (a) direct: ISO parse sequences
    let mut texts: Vec<String> = Vec::new();
    for k in 0..ctx.n(20, 200) {
        let (d1, d2) = (1 + rng.below(28), 1 + rng.below(28));
        let mo = 1 + rng.below(12);
        let y = *rng.pick(&[2015, 2016, 2020, 1999]);
        let hh = rng.below(24);
        let sep = if k % 3 == 0 { "" } else { "-" };
        texts.push(format!("{:04}{}{:02}{}{:02}T{:02}:50:00Z", y, sep, mo, sep, d1, hh));
        texts.push(format!("{:04}{}{:02}{}{:02}T00:01:00Z", y, sep, mo, sep, d2));
        texts.push(format!("{:04}{}{:02}{}{:02}T{:02}:50:00Z", y, sep, mo, sep, d1, hh));
    }
    for y in [0, 1, 2, 3, 4, 100, 400, 1600, 1969, 1970] {
        for mo in 1..=12 {
            for d in [1, 15, 28] {
                texts.push(format!("{:04}{:02}{:02}T120000Z", y, mo, d));
                texts.push(format!("{:04}-{:02}-{:02}T12:00:00.5+00:30", y, mo, d));
            }
        }
    }
    let lines: Vec<String> = texts.iter().map(|t| format!("ISO {}", hx(t.as_bytes()))).collect();
    let imps: Vec<String> = texts.iter().map(|t| imp::iso(t)).collect();
    let answers = ctx.drv.ask_all(&lines);
    for ((t, im), mo) in texts.iter().zip(imps.iter()).zip(answers.iter()) {
        ctx.rep.count("evaluations");
        ctx.rep.count("evaluations.ISO");
        let sp = match rs::ref_parse_iso(t.as_bytes()) {
            Some(ns) => format!("OK {}", ns),
            None => "NONE".to_string(),
        };
        if !imp::same_outcome(im, mo) {
            fail(ctx, "CORR", "ISO", &format!("{}-date-sequences", pc), format!("ISO {}", t), im.clone(), mo.clone(), sp.clone(), "implementation and model disagree on a timestamp (early year, or parsed right after another date of the same month)");
        }
        if *im != sp {
            fail(ctx, "ORACLE", "ISO", &format!("{}-date-sequences", pc), t.clone(), im.clone(), mo.clone(), sp, "C16/C04: the instant a timestamp denotes is that of the reference parser, whatever was parsed before it and however early the year");
        }
    }
    // (b) end to end: two requests a day apart in the same month, extended form, judged against their own clocks
    let mut jobs = Vec::new();
    for k in 0..ctx.n(10, 150) {
        let day = 86_400_000_000_000i128;
        let t1 = T0 + (k as i128 % 5) * 1_000_000_000;
        for (t, fresh) in [(t1, true), (t1 + day, true), (t1, false), (t1 + day, true)] {
            let mut l = simple_logical(if k % 2 == 0 { Carrier::Header } else { Carrier::Query }, t);
            l.time_style = (0, 0b11111, 0); // extended form: dashes and colons
            // `fresh`: validated at its own time; otherwise against a clock a day later (stale)
            let now = if fresh { now_for(&l, 0) } else { now_for(&l, day) };
            let s = sign_and_spell(&l, &mut rng, &Spelling::plain(), now);
            if fresh {
                jobs.push(accept_job(&s, &format!("{}-date-sequences", pc), "C04: a request inside the window is accepted whatever date was validated before it on this thread"));
            } else {
                let mut j = job(s.case.clone(), Expect::Refuse(Some("SignatureDoesNotMatch")), &format!("{}-date-sequences", pc), "C04: a request a day old is refused whatever date was validated before it on this thread");
                j.expect_calls = Some(0);
                jobs.push(j);
            }
        }
    }
    run_jobs(ctx, "VALIDATE", jobs);
}

/// Accepted requests whose provider answer carries no principal (and no session data), at both log levels.
pub fn empty_principal_accepts(ctx: &mut Ctx, prop: &str) {
    let mut rng = ctx.rng.fork();
    let mut jobs = Vec::new();
    for k in 0..ctx.n(8, 80) {
        let l = simple_logical(if k % 2 == 0 { Carrier::Header } else { Carrier::Query }, T0);
        let now = now_for(&l, 0);
        let s = sign_and_spell(&l, &mut rng, &Spelling::plain(), now);
        let mut c = s.case.clone();
        c.answer = Answer::Key { key: s.key.clone(), identity: "-".into() };
        for _ in 0..2 {
            jobs.push(accept_job_case(c.clone(), &s, &format!("{}-empty-principal", prop.to_lowercase()), "C08/C15: a provider answer without principal or session data is a valid answer: the request is accepted (and nothing panics) at every log level"));
        }
    }
    run_jobs(ctx, "VALIDATE", jobs);
}
