/-
  Property C05 — mandatory signed headers are enforced before a request can be accepted.
-/
import SigV4.Spec.ValidateSpec
import SigV4.Spec.HeaderSpec
import SigV4.Model.Requirements
import SigV4.Lemmas.C05

namespace SigV4.C05

/-- The header names present in a request, lower-cased. -/
def namesOf (hs : HeaderList) : List Bytes := hs.map fun h => asciiLower h.1

/-- What "requirements are met" means, stated directly. -/
def Required (reqs : Requirements) (hs : HeaderList) (signed : List Bytes) : Prop :=
  (HOST ∈ signed ∨ AUTHORITY ∈ signed) ∧
  (∀ a ∈ reqs.always, asciiLower a ∈ signed) ∧
  (∀ c ∈ reqs.ifInRequest, asciiLower c ∈ namesOf hs → asciiLower c ∈ signed) ∧
  (∀ p ∈ reqs.prefixes, ∀ n ∈ namesOf hs, (asciiLower p).isPrefixOf n = true → n ∈ signed)

instance (reqs : Requirements) (hs : HeaderList) (signed : List Bytes) : Decidable (Required reqs hs signed) := by
  unfold Required; infer_instance

/-- The model's check decides exactly that. -/
theorem requirementsMet_iff (reqs : Requirements) (hs : HeaderList) (signed : List Bytes) :
    requirementsMet reqs (normalizeHeaders hs []) signed = true ↔ Required reqs hs signed := by
  rw [requirementsMet_eq_true_iff]
  unfold Required namesOf
  simp only [mem_keys_normalizeHeaders]

/-- Acceptance implies every mandatory header is in the signed-header list. -/
theorem accept_implies_required {σ : Type} (H : Bytes → Bytes) (cfg : Config) (P : Provider σ) (s : σ)
    (req : Request) (r : Returned) (h : (validate H cfg P s req).out = .ok r) :
    ∃ fp ap, fromRequestParts H cfg.opts cfg.other req = .ok fp ∧ getAuthParams cfg.reqs fp.creq = .ok ap ∧
      Required cfg.reqs req.headers ap.signedHeaders := by
  unfold validate at h
  cases hfp : fromRequestParts H cfg.opts cfg.other req with
  | err k => rw [hfp] at h; cases h
  | panic p => rw [hfp] at h; cases h
  | ok fp =>
    rw [hfp] at h
    simp only at h
    unfold getAuthenticator at h
    cases hgap : getAuthParams cfg.reqs fp.creq with
    | err k => rw [hgap] at h; cases h
    | panic p => rw [hgap] at h; cases h
    | ok ap =>
      refine ⟨fp, ap, rfl, hgap, ?_⟩
      unfold getAuthParams at hgap
      cases hex : extractAuthParams fp.creq with
      | err k => rw [hex] at hgap; cases hgap
      | panic p => rw [hex] at hgap; cases hgap
      | ok ap' =>
        rw [hex] at hgap
        simp only at hgap
        split at hgap
        · rename_i hreq
          injection hgap with hgap
          subst hgap
          rw [fromRequestParts_headers H cfg.opts cfg.other req fp hfp] at hreq
          exact (requirementsMet_iff _ _ _).1 hreq
        · cases hgap

/-- A request whose extracted parameters violate the requirements is refused as a signature
mismatch (403) — whatever its signature, key or provider, and without any provider call. -/
theorem missing_required_refused {σ : Type} (H : Bytes → Bytes) (cfg : Config) (P : Provider σ) (s : σ)
    (req : Request) (fp : FromParts) (ap : AuthParams)
    (hfp : fromRequestParts H cfg.opts cfg.other req = .ok fp)
    (hap : extractAuthParams fp.creq = .ok ap)
    (hviol : ¬ Required cfg.reqs req.headers ap.signedHeaders) :
    (validate H cfg P s req).out = .err .SignatureDoesNotMatch ∧ (validate H cfg P s req).calls = [] ∧
    ErrKind.SignatureDoesNotMatch.status = 403 := by
  have hreq : requirementsMet cfg.reqs fp.creq.headers ap.signedHeaders = false := by
    rw [fromRequestParts_headers H cfg.opts cfg.other req fp hfp]
    cases hr : requirementsMet cfg.reqs (normalizeHeaders req.headers []) ap.signedHeaders
    · rfl
    · exact absurd ((requirementsMet_iff _ _ _).1 hr) hviol
  have hga : getAuthenticator H cfg.reqs fp.creq = .err .SignatureDoesNotMatch := by
    unfold getAuthenticator getAuthParams
    rw [hap]
    simp [hreq]
  unfold validate
  rw [hfp]
  simp only
  rw [hga]
  exact ⟨rfl, rfl, rfl⟩

/-- Declared names match case-insensitively: only the lower-cased sets of declared names matter,
not their letter case, order or multiplicity. -/
theorem requirements_case_insensitive (r r' : Requirements) (hdrs : HeaderMap) (signed : List Bytes)
    (ha : ∀ x, x ∈ r.always.map asciiLower ↔ x ∈ r'.always.map asciiLower)
    (hi : ∀ x, x ∈ r.ifInRequest.map asciiLower ↔ x ∈ r'.ifInRequest.map asciiLower)
    (hp : ∀ x, x ∈ r.prefixes.map asciiLower ↔ x ∈ r'.prefixes.map asciiLower) :
    requirementsMet r hdrs signed = requirementsMet r' hdrs signed := by
  unfold requirementsMet
  rw [all_lower_congr r.always r'.always (fun x => signed.contains x) ha,
    all_lower_congr r.ifInRequest r'.ifInRequest
      (fun x => !((assocGet hdrs x).isSome) || signed.contains x) hi,
    all_lower_congr r.prefixes r'.prefixes
      (fun x => hdrs.all (fun kv => !(isPrefixOf x kv.1) || signed.contains kv.1)) hp]

/-- The growable container: after `add h` the name is declared, after `remove h` it is not,
whatever the history of operations before. -/
theorem vecAdd_declares (l : List Bytes) (h : Bytes) : asciiLower h ∈ (vecAdd l h).map asciiLower := by
  unfold vecAdd
  split
  · rename_i hany
    simp only [List.any_eq_true, decide_eq_true_eq] at hany
    obtain ⟨x, hx, hxe⟩ := hany
    subst hxe
    exact List.mem_map.2 ⟨_, hx, asciiLower_idem h⟩
  · simp

theorem vecRemove_undeclares (l : List Bytes) (h : Bytes) : asciiLower h ∉ (vecRemove l h).map asciiLower := by
  unfold vecRemove
  simp only [List.mem_map, List.mem_filter, decide_eq_true_eq, ne_eq]
  rintro ⟨x, ⟨_, hne⟩, heq⟩
  exact hne heq

theorem vecOps_preserve_others (l : List Bytes) (h x : Bytes) (hx : asciiLower x ≠ asciiLower h) :
    (asciiLower x ∈ (vecAdd l h).map asciiLower ↔ asciiLower x ∈ l.map asciiLower) ∧
    (asciiLower x ∈ (vecRemove l h).map asciiLower ↔ asciiLower x ∈ l.map asciiLower) := by
  constructor
  · unfold vecAdd
    split
    · exact Iff.rfl
    · simp only [List.map_append, List.map_cons, List.map_nil, List.mem_append, List.mem_singleton]
      constructor
      · rintro (h1 | h1)
        · exact h1
        · exact absurd h1 hx
      · exact Or.inl
  · unfold vecRemove
    simp only [List.mem_map, List.mem_filter, decide_eq_true_eq, ne_eq]
    constructor
    · rintro ⟨y, ⟨hy, _⟩, heq⟩
      exact ⟨y, hy, heq⟩
    · rintro ⟨y, hy, heq⟩
      exact ⟨y, ⟨hy, fun h' => hx (heq ▸ h')⟩, heq⟩

/-- Both requirement implementations give the same verdict: a container built by any sequence of
add/remove operations behaves like the slice container holding the same declared names. -/
theorem vec_slice_agree (ops : List ReqOp) (slice : Requirements) (hdrs : HeaderMap) (signed : List Bytes)
    (ha : ∀ x, x ∈ (ops.foldl Requirements.apply Requirements.empty).always.map asciiLower ↔ x ∈ slice.always.map asciiLower)
    (hi : ∀ x, x ∈ (ops.foldl Requirements.apply Requirements.empty).ifInRequest.map asciiLower ↔ x ∈ slice.ifInRequest.map asciiLower)
    (hp : ∀ x, x ∈ (ops.foldl Requirements.apply Requirements.empty).prefixes.map asciiLower ↔ x ∈ slice.prefixes.map asciiLower) :
    requirementsMet (ops.foldl Requirements.apply Requirements.empty) hdrs signed = requirementsMet slice hdrs signed := by
  exact requirements_case_insensitive _ _ hdrs signed ha hi hp

example : Required { always := [b!"X-Amz-Target"], ifInRequest := [b!"Content-MD5"], prefixes := [b!"X-Amz-Meta-"] }
    [(b!"host", b!"h"), (b!"x-amz-meta-a", b!"1"), (b!"x-amz-target", b!"t")]
    [b!"host", b!"x-amz-meta-a", b!"x-amz-target"] := by decide
example : ¬ Required { always := [], ifInRequest := [], prefixes := [b!"X-Amz-Meta-"] }
    [(b!"host", b!"h"), (b!"x-amz-meta-a", b!"1")] [b!"host"] := by decide

end SigV4.C05

#print axioms SigV4.C05.requirementsMet_iff
#print axioms SigV4.C05.accept_implies_required
#print axioms SigV4.C05.missing_required_refused
#print axioms SigV4.C05.requirements_case_insensitive
#print axioms SigV4.C05.vecAdd_declares
#print axioms SigV4.C05.vecRemove_undeclares
#print axioms SigV4.C05.vecOps_preserve_others
#print axioms SigV4.C05.vec_slice_agree
