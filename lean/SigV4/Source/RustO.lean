/-
  SigV4.Source.RustO — the meaning given to the Rust operations that the second-stage translator
  (/verif/srcgen/rustout.py) keeps in the `Outcome`-monad terms it generates: indexing, slicing and
  `usize` subtraction panic when out of range, `assert!` panics when false, `hex::decode`,
  `from_utf8`, `Option::unwrap`, `str::split`, `[String]::join`, `Vec::remove`.  Trusted (documented std behaviour).
-/
import SigV4.Model.Headers
import SigV4.Model.Time

namespace SigV4.Rust

/-- `v[i]`. -/
def idx (v : Bytes) (i : Nat) (site : String) : Outcome UInt8 :=
  match v[i]? with
  | some x => .ok x
  | none => .panic site

def idxS (v : List Bytes) (i : Nat) (site : String) : Outcome Bytes :=
  match v[i]? with
  | some x => .ok x
  | none => .panic site

/-- `&v[a..b]`. -/
def slice (v : Bytes) (a b : Nat) (site : String) : Outcome Bytes :=
  if a ≤ b ∧ b ≤ v.length then .ok ((v.drop a).take (b - a)) else .panic site

/-- `a - b` on `usize` (overflow checks on, as in the test profile; in release the value would wrap — the tie
theorems show the subtraction never underflows). -/
def subUsize (a b : Nat) (site : String) : Outcome Nat :=
  if b ≤ a then .ok (a - b) else .panic site

def assert (c : Bool) (site : String) : Outcome Unit :=
  if c then .ok () else .panic site

/-- `hex::decode`: an even number of hexadecimal digits of either case. -/
def hexDecode : Bytes → Option Bytes
  | [] => some []
  | [_] => none
  | a :: b :: rest =>
    match hexVal a, hexVal b, hexDecode rest with
    | some x, some y, some r => some ((x * 16 + y) :: r)
    | _, _, _ => none

/-- `std::str::from_utf8`. -/
def fromUtf8 (s : Bytes) : Option Bytes := if utf8Valid s then some s else none

def unwrapOpt {α : Type} (o : Option α) (site : String) : Outcome α :=
  match o with
  | some x => .ok x
  | none => .panic site

def startsWithByte (s : Bytes) (c : UInt8) : Bool := s.head? == some c

/-- `s.split(c)` collected: always at least one piece. -/
def split (c : UInt8) : Bytes → List Bytes
  | [] => [[]]
  | x :: xs =>
    if x = c then [] :: split c xs
    else
      match split c xs with
      | [] => [[x]]
      | p :: ps => (x :: p) :: ps

/-- `pieces.join(sep)`. -/
def join (sep : Bytes) : List Bytes → Bytes
  | [] => []
  | [x] => x
  | x :: y :: rest => x ++ sep ++ join sep (y :: rest)

/-- `Vec::remove(i)`. -/
def removeS (v : List Bytes) (i : Nat) (site : String) : Outcome (List Bytes) :=
  if i < v.length then .ok (v.eraseIdx i) else .panic site

def remove (v : Bytes) (i : Nat) (site : String) : Outcome Bytes :=
  if i < v.length then .ok (v.eraseIdx i) else .panic site

/-- `v[i] = x`. -/
def setIdxS (v : List Bytes) (i : Nat) (x : Bytes) (site : String) : Outcome (List Bytes) :=
  if i < v.length then .ok (v.set i x) else .panic site

def setIdx (v : Bytes) (i : Nat) (x : UInt8) (site : String) : Outcome Bytes :=
  if i < v.length then .ok (v.set i x) else .panic site

end SigV4.Rust

/-! ### chrono, as `prevalidate` uses it: a `DateTime<Utc>` is its instant in nanoseconds, a `Duration` a number of
nanoseconds; `checked_add/sub_signed` yield `None` outside chrono's representable range. -/
namespace SigV4.Rust.Chrono

def checkedSubSigned (t d : Int) : Option Int :=
  if t - d < CHRONO_MIN ∨ t - d > CHRONO_MAX then none else some (t - d)

def checkedAddSigned (t d : Int) : Option Int :=
  if t + d < CHRONO_MIN ∨ t + d > CHRONO_MAX then none else some (t + d)

/-- `t.format("%Y%m%d").to_string()`. -/
def formatYmd (t : Int) : Bytes := fmtDate (utcDate t)

end SigV4.Rust.Chrono

namespace SigV4.Rust

/-- `hex::encode` (lower case). -/
def hexEncode (s : Bytes) : Bytes := hexLower s

/-- `s.split_once(c)`: the text before the first `c` and the text after it. -/
def splitOnce (c : UInt8) : Bytes → Option (Bytes × Bytes)
  | [] => none
  | x :: xs =>
    if x = c then some ([], xs)
    else
      match splitOnce c xs with
      | some (a, b) => some (x :: a, b)
      | none => none

/-- `t.format("%Y%m%dT%H%M%SZ").to_string()`. -/
def Chrono.formatCompact (t : Int) : Bytes := compactUtc t

end SigV4.Rust

namespace SigV4.Rust

/-- `s.splitn(2, c)` collected: one piece, or the text before the first `c` and the text after it. -/
def splitn2 (c : UInt8) (s : Bytes) : List Bytes :=
  match splitOnce c s with
  | some (a, b) => [a, b]
  | none => [s]

/-- A `HashMap<String, Vec<String>>` is kept as the list of its entries in insertion order (keys unique; the functions
translated so far only look entries up and insert, so no iteration order is involved).
`if let Some(v) = m.get_mut(&k) { v.push(x) } else { m.insert(k, vec![x]) }`: -/
def mapPush (m : List (Bytes × List Bytes)) (k x : Bytes) : List (Bytes × List Bytes) :=
  match m with
  | [] => [(k, [x])]
  | (k', vs) :: rest => if k' = k then (k', vs ++ [x]) :: rest else (k', vs) :: mapPush rest k x

end SigV4.Rust

namespace SigV4.Rust

/-- `m.get(k)` on a map kept as its entry list (keys unique). -/
def mapGet (m : List (Bytes × List Bytes)) (k : Bytes) : Option (List Bytes) :=
  match m with
  | [] => none
  | (k', vs) :: rest => if k' = k then some vs else mapGet rest k

end SigV4.Rust

namespace SigV4.Rust

/-- `Ord for str` / `[u8]`: bytewise lexicographic, a proper prefix first. -/
def strLe : Bytes → Bytes → Bool
  | [], _ => true
  | _ :: _, [] => false
  | a :: as, b :: bs => a < b || (a == b && strLe as bs)

/-- `Ord for (&str, &str)`: by first component, then by second. -/
def pairLe (x y : Bytes × Bytes) : Bool := if x.1 = y.1 then strLe x.2 y.2 else strLe x.1 y.1

def insertPair (x : Bytes × Bytes) : List (Bytes × Bytes) → List (Bytes × Bytes)
  | [] => [x]
  | y :: ys => if pairLe x y then x :: y :: ys else y :: insertPair x ys

/-- `v.sort()` / `v.sort_unstable()` on a vector of string pairs: the sorted rearrangement (for a total order it is unique,
so which algorithm produces it does not matter; written here as insertion sort). -/
def sortPairs : List (Bytes × Bytes) → List (Bytes × Bytes)
  | [] => []
  | x :: xs => insertPair x (sortPairs xs)

end SigV4.Rust

namespace SigV4.Rust

/-- `it.next()` on a byte iterator kept as the list of bytes still to come. -/
def iterNext : Bytes → Option (UInt8 × Bytes)
  | [] => none
  | x :: rest => some (x, rest)

/-- `u8::from_str_radix(s, 16)` for the two-character strings it is given here: two hexadecimal digits, or — the standard
parser accepts a sign — `+` followed by one hexadecimal digit; anything else is an error. -/
def u8FromStrRadix16 (s : Bytes) : Option UInt8 :=
  match s with
  | [h1, h2] =>
    if h1 = 0x2B then hexVal h2
    else
      match hexVal h1, hexVal h2 with
      | some a, some b => some (a * 16 + b)
      | _, _ => none
  | _ => none

end SigV4.Rust
