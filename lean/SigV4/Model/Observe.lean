/-
  SigV4.Model.Observe — what an outside observer of a validation can see besides the returned value:
  the `log` records the crate emits at `debug` level or above on the validation path. Reading the
  source, there is exactly one such statement: `debug!("get_signing_key: error getting signing key:
  {}", e)` (auth.rs:267), reached when the provider's readiness or answer is an error; its only
  datum is the provider's own error. Everything else on the path is `trace!` (including the record
  that carries the expected signature, auth.rs:325).
-/
import SigV4.Model.Validate

namespace SigV4

/-- A `debug`-or-above log record: the emitting site and the provider error it interpolates. -/
structure DebugRec where
  site : String
  err : ProvErr
  deriving Repr, DecidableEq

/-- The debug-level records of `get_signing_key`. -/
def getSigningKeyDebug {σ : Type} (P : Provider σ) (s : σ) (preq : ProviderReq) : List DebugRec :=
  match P.ready s with
  | (some e, _) => [{ site := "auth.rs:267", err := e }]
  | (none, s') =>
    match (P.call s' preq).1 with
    | .error e => [{ site := "auth.rs:267", err := e }]
    | .ok _ => []

/-- The debug-level records of one validation. -/
def validateDebug {σ : Type} (H : Bytes → Bytes) (cfg : Config) (P : Provider σ) (s : σ) (req : Request) :
    List DebugRec :=
  match fromRequestParts H cfg.opts cfg.other req with
  | .ok fp =>
    match getAuthenticator H cfg.reqs fp.creq with
    | .ok a =>
      match prevalidate a cfg.region cfg.service cfg.now with
      | .ok () =>
        match stringToSign a with
        | .ok _ =>
          getSigningKeyDebug P s
            { accessKey := (splitFirst 0x2F a.credential).1, sessionToken := a.sessionToken,
              date := utcDate a.timestamp, region := cfg.region, service := cfg.service }
        | _ => []
      | _ => []
    | _ => []
  | _ => []

/-- Everything observable about a refusal: the error kind, the provider calls made, the provider
state left behind, and the debug-level log records. -/
structure Observation (σ : Type) where
  out : Outcome Unit
  calls : List ProviderReq
  state : σ
  debug : List DebugRec

def observe {σ : Type} (H : Bytes → Bytes) (cfg : Config) (P : Provider σ) (s : σ) (req : Request) :
    Observation σ :=
  let r := validate H cfg P s req
  { out := r.out.map (fun _ => ()), calls := r.calls, state := r.state, debug := validateDebug H cfg P s req }

/-! ### Renderings of the key types

`signing_key.rs:89-147`: `Debug` and `Display` of each of the five key types write the type's name
and nothing else. The key bytes are an argument here so that "does not depend on the key" is a
statement about these functions rather than a convention. -/

inductive KeyKind
  | secret | date | region | service | signing
  deriving Repr, DecidableEq

def KeyKind.typeName : KeyKind → String
  | .secret => "KSecretKey"
  | .date => "KDateKey"
  | .region => "KRegionKey"
  | .service => "KServiceKey"
  | .signing => "KSigningKey"

/-- `impl Debug for K…Key` (also under the alternate flag `{:#?}`, which `write_str` ignores). -/
def renderKeyDebug (k : KeyKind) (_key : Bytes) : String := k.typeName

/-- `impl Display for K…Key`. -/
def renderKeyDisplay (k : KeyKind) (_key : Bytes) : String := k.typeName

/-- `#[derive(Debug)] GetSigningKeyResponse { principal, session_data, signing_key }`: the key field is
rendered by `renderKeyDebug`; principal and session data are the provider's own data (`shown`). -/
def renderResponseDebug (shownPrincipal shownSession : String) (key : Bytes) : String :=
  "GetSigningKeyResponse { principal: " ++ shownPrincipal ++ ", session_data: " ++ shownSession
    ++ ", signing_key: " ++ renderKeyDebug .signing key ++ " }"

end SigV4
