/- Helper lemmas for C08 (totality: no modelled panic site is reachable). -/
import SigV4.Spec.ValidateSpec
import SigV4.Model.Keys
import SigV4.Lemmas.Query
import SigV4.Lemmas.C14

namespace SigV4

/-! ### Normal-form strings -/

/-- A fixed point of the query element normaliser (the Props file calls this `Normal`). -/
def c08Normal (x : Bytes) : Prop := normElem false x = .ok x

/-- The invariant of parameter maps: normal keys, non-empty lists of normal values. -/
def c08GoodMap (m : QueryMap) : Prop :=
  ∀ kv ∈ m, c08Normal kv.1 ∧ kv.2 ≠ [] ∧ ∀ v ∈ kv.2, c08Normal v

theorem c08_normal_enc (d : Bytes) : c08Normal (pctEncodeAll d) := by
  unfold c08Normal
  rw [normElem_eq_spec, pctDecode_pctEncodeAll]
  rfl

theorem c08_normal_exists {x : Bytes} (h : c08Normal x) : ∃ d, x = pctEncodeAll d := by
  unfold c08Normal at h
  rw [normElem_eq_spec] at h
  cases hd : pctDecode true x with
  | none => simp [hd] at h
  | some d =>
    simp only [hd, Option.map_some, optToOutcome_some, Outcome.ok.injEq] at h
    exact ⟨d, h.symm⟩

theorem c08_normElem_no_panic (isPath : Bool) (s : Bytes) (site : String) :
    normElem isPath s ≠ .panic site := by
  rw [normElem_eq_spec]
  cases (pctDecode true s).map pctEncodeAll with
  | none => intro h; cases h
  | some r => intro h; cases h

/-! ### `unescapeUri` on encoder output -/

theorem c08_unescape_enc (d : Bytes) : ∃ r, unescapeUri (pctEncodeAll d) = .ok r := by
  induction d with
  | nil => exact ⟨[], by simp [pctEncodeAll, unescapeUri]⟩
  | cons c rest ih =>
    obtain ⟨r, hr⟩ := ih
    rw [pctEncodeAll_cons]
    by_cases hu : isUnreserved c = true
    · have hne : c ≠ 0x25 := (unreserved_facts c hu).1
      rw [if_pos hu]
      simp only [List.singleton_append]
      unfold unescapeUri
      rw [if_neg hne, hr]
      exact ⟨_, rfl⟩
    · rw [if_neg hu]
      obtain ⟨f1, f2, -⟩ := pctEncode_facts c
      simp only [pctEncode, List.cons_append, List.nil_append]
      unfold unescapeUri
      simp only [if_true, radix16Pair_of_hexVal f1 f2, hr]
      exact ⟨_, rfl⟩

theorem c08_unescape_normal {x : Bytes} (h : c08Normal x) : ∃ r, unescapeUri x = .ok r := by
  obtain ⟨d, rfl⟩ := c08_normal_exists h
  exact c08_unescape_enc d

/-! ### Association-list invariants -/

/-- Generic invariant: keys satisfy `P`, value lists are non-empty and their members satisfy `Q`. -/
def c08Inv {β : Type} (P : Bytes → Prop) (Q : β → Prop) (m : List (Bytes × List β)) : Prop :=
  ∀ kv ∈ m, P kv.1 ∧ kv.2 ≠ [] ∧ ∀ v ∈ kv.2, Q v

theorem c08_inv_nil {β : Type} (P : Bytes → Prop) (Q : β → Prop) : c08Inv P Q [] := by
  intro kv h; cases h

theorem c08_inv_assocPush {β : Type} (P : Bytes → Prop) (Q : β → Prop) (m : List (Bytes × List β))
    (k : Bytes) (v : β) (hm : c08Inv P Q m) (hk : P k) (hv : Q v) :
    c08Inv P Q (assocPush m k v) := by
  induction m with
  | nil =>
    intro kv hkv
    simp only [assocPush, List.mem_cons, List.not_mem_nil, or_false] at hkv
    subst hkv
    exact ⟨hk, by simp, fun x hx => by
      simp only [List.mem_cons, List.not_mem_nil, or_false] at hx; subst hx; exact hv⟩
  | cons e rest ih =>
    obtain ⟨k', vs⟩ := e
    have he := hm (k', vs) (List.mem_cons_self ..)
    have hrest : c08Inv P Q rest := fun kv h => hm kv (List.mem_cons_of_mem _ h)
    unfold assocPush
    by_cases hk' : k' = k
    · rw [if_pos hk']
      intro kv hkv
      rcases List.mem_cons.1 hkv with rfl | h
      · refine ⟨he.1, by simp, fun x hx => ?_⟩
        rcases List.mem_append.1 hx with h | h
        · exact he.2.2 x h
        · simp only [List.mem_cons, List.not_mem_nil, or_false] at h; subst h; exact hv
      · exact hrest kv h
    · rw [if_neg hk']
      intro kv hkv
      rcases List.mem_cons.1 hkv with rfl | h
      · exact he
      · exact ih hrest kv h

theorem c08_inv_assocExtend {β : Type} (P : Bytes → Prop) (Q : β → Prop) (m : List (Bytes × List β))
    (k : Bytes) (vs : List β) (hm : c08Inv P Q m) (hk : P k) (hne : vs ≠ []) (hv : ∀ v ∈ vs, Q v) :
    c08Inv P Q (assocExtend m k vs) := by
  induction m with
  | nil =>
    intro kv hkv
    simp only [assocExtend, List.mem_cons, List.not_mem_nil, or_false] at hkv
    subst hkv
    exact ⟨hk, hne, hv⟩
  | cons e rest ih =>
    obtain ⟨k', vs'⟩ := e
    have he := hm (k', vs') (List.mem_cons_self ..)
    have hrest : c08Inv P Q rest := fun kv h => hm kv (List.mem_cons_of_mem _ h)
    unfold assocExtend
    by_cases hk' : k' = k
    · rw [if_pos hk']
      intro kv hkv
      rcases List.mem_cons.1 hkv with rfl | h
      · refine ⟨he.1, by simp [hne], fun x hx => ?_⟩
        rcases List.mem_append.1 hx with h | h
        · exact he.2.2 x h
        · exact hv x h
      · exact hrest kv h
    · rw [if_neg hk']
      intro kv hkv
      rcases List.mem_cons.1 hkv with rfl | h
      · exact he
      · exact ih hrest kv h

theorem c08_inv_foldl_assocPush {β : Type} (P : Bytes → Prop) (Q : β → Prop)
    (l : List (Bytes × β)) (m : List (Bytes × List β)) (hm : c08Inv P Q m)
    (hl : ∀ kv ∈ l, P kv.1 ∧ Q kv.2) :
    c08Inv P Q (l.foldl (fun m kv => assocPush m kv.1 kv.2) m) := by
  induction l generalizing m with
  | nil => exact hm
  | cons kv rest ih =>
    simp only [List.foldl_cons]
    have h := hl kv (List.mem_cons_self ..)
    exact ih _ (c08_inv_assocPush P Q m kv.1 kv.2 hm h.1 h.2)
      (fun x hx => hl x (List.mem_cons_of_mem _ hx))

theorem c08_inv_mergeParams (url body : QueryMap) (hu : c08GoodMap url) (hb : c08GoodMap body) :
    c08GoodMap (mergeParams url body) := by
  unfold mergeParams
  induction body generalizing url with
  | nil => exact hu
  | cons kv rest ih =>
    simp only [List.foldl_cons]
    have h := hb kv (List.mem_cons_self ..)
    exact ih _ (c08_inv_assocExtend c08Normal c08Normal url kv.1 kv.2 hu h.1 h.2.1 h.2.2)
      (fun x hx => hb x (List.mem_cons_of_mem _ hx))

theorem c08_inv_normalizeHeaders (hs : HeaderList) (m : HeaderMap)
    (hm : c08Inv (fun _ => True) (fun _ => True) m) :
    c08Inv (fun _ => True) (fun _ => True) (normalizeHeaders hs m) := by
  induction hs generalizing m with
  | nil => exact hm
  | cons kv rest ih =>
    obtain ⟨k, v⟩ := kv
    unfold normalizeHeaders
    exact ih _ (c08_inv_assocPush _ _ m _ _ hm trivial trivial)

theorem c08_assocGet_mem {β : Type} (m : List (Bytes × β)) (k : Bytes) (v : β)
    (h : assocGet m k = some v) : (k, v) ∈ m := by
  induction m with
  | nil => cases h
  | cons e rest ih =>
    obtain ⟨k', v'⟩ := e
    unfold assocGet at h
    by_cases hk : k' = k
    · rw [if_pos hk] at h
      cases h
      subst hk
      exact List.mem_cons_self ..
    · rw [if_neg hk] at h
      exact List.mem_cons_of_mem _ (ih h)

theorem c08_assocGet_ne_nil {β : Type} (P : Bytes → Prop) (Q : β → Prop) (m : List (Bytes × List β))
    (hm : c08Inv P Q m) (k : Bytes) : assocGet m k ≠ some [] := by
  intro h
  exact (hm _ (c08_assocGet_mem m k [] h)).2.1 rfl

theorem c08_firstOf_normal (m : QueryMap) (hm : c08GoodMap m) (k v : Bytes)
    (h : firstOf m k = some v) : c08Normal v := by
  unfold firstOf at h
  split at h
  · rename_i v' vs hg
    cases h
    exact (hm _ (c08_assocGet_mem m k _ hg)).2.2 _ (List.mem_cons_self ..)
  · cases h

/-! ### The query parser produces good maps -/

theorem c08_parseQuery_good (q : Bytes) (m : QueryMap) (h : parseQuery q = .ok m) : c08GoodMap m := by
  rw [parseQuery_eq_spec'] at h
  cases hr : refQueryPairs q with
  | none => simp [hr] at h
  | some ps =>
    simp only [hr, Option.map_some, optToOutcome_some, Outcome.ok.injEq] at h
    subst h
    unfold groupPairs
    refine c08_inv_foldl_assocPush c08Normal c08Normal _ [] (c08_inv_nil _ _) ?_
    intro kv hkv
    obtain ⟨p, _, rfl⟩ := List.mem_map.1 hkv
    exact ⟨c08_normal_enc _, c08_normal_enc _⟩

/-! ### `fromRequestParts` -/

theorem c08_decodeFormBody_no_panic (cs : Option Bytes) (other : OtherCharset) (body : Bytes)
    (site : String) : decodeFormBody cs other body ≠ .panic site := by
  unfold decodeFormBody
  simp only []
  repeat' split
  all_goals simp

theorem c08_fromRequestParts_no_panic (H : Bytes → Bytes) (opts : Options) (other : OtherCharset)
    (req : Request) (site : String) : fromRequestParts H opts other req ≠ .panic site := by
  intro h
  unfold fromRequestParts at h
  split at h
  · cases h
  · rename_i p hp
    exact (C09.canonPath_err_kind _ _).2 _ hp
  · split at h
    · cases h
    · rename_i p hp
      exact (parseQuery_err_kind' _).2 _ hp
    · simp only [] at h
      split at h
      · split at h
        · cases h
        · rename_i p hp
          exact c08_decodeFormBody_no_panic _ _ _ _ hp
        · split at h
          · cases h
          · rename_i p hp
            exact (parseQuery_err_kind' _).2 _ hp
          · split at h <;> split at h <;> cases h
      · cases h

theorem c08_fromRequestParts_inv (H : Bytes → Bytes) (opts : Options) (other : OtherCharset)
    (req : Request) (fp : FromParts) (h : fromRequestParts H opts other req = .ok fp) :
    c08GoodMap fp.creq.params ∧ c08Inv (fun _ => True) (fun _ => True) fp.creq.headers := by
  have hh : c08Inv (fun _ => True) (fun _ => True) (normalizeHeaders req.headers []) :=
    c08_inv_normalizeHeaders _ _ (c08_inv_nil _ _)
  unfold fromRequestParts at h
  split at h
  · cases h
  · cases h
  · split at h
    · cases h
    · cases h
    · rename_i up hup
      have hgu := c08_parseQuery_good _ _ hup
      simp only [] at h
      split at h
      · split at h
        · cases h
        · cases h
        · split at h
          · cases h
          · cases h
          · rename_i bp hbp
            have hgb := c08_parseQuery_good _ _ hbp
            split at h <;> split at h
            · cases h
            · simp only [Outcome.ok.injEq] at h
              subst h
              exact ⟨c08_inv_mergeParams _ _ hgu hgb, hh⟩
            · cases h
            · simp only [Outcome.ok.injEq] at h
              subst h
              exact ⟨c08_inv_mergeParams _ _ hgu hgb, hh⟩
      · simp only [Outcome.ok.injEq] at h
        subst h
        exact ⟨hgu, hh⟩

/-! ### Parameter extraction -/

theorem c08_authHeaderParamLoop_no_panic (ps : List Bytes) (m : List (Bytes × Bytes)) (site : String) :
    authHeaderParamLoop ps m ≠ .panic site := by
  induction ps generalizing m with
  | nil => intro h; simp [authHeaderParamLoop] at h
  | cons p rest ih =>
    unfold authHeaderParamLoop
    simp only []
    split
    · exact ih m
    · split
      · intro h; cases h
      · exact ih _

theorem c08_authParamsFromHeader_no_panic (c : CanonReq) (ah : Bytes) (site : String) :
    authParamsFromHeader c ah ≠ .panic site := by
  intro h
  unfold authParamsFromHeader at h
  simp only [] at h
  split at h
  · cases h
  · split at h
    · cases h
    · rename_i p hp
      exact c08_authHeaderParamLoop_no_panic _ _ _ hp
    · split at h
      · cases h
      · cases h

theorem c08_unescapeOpt_ok (o : Option Bytes) (h : ∀ v, o = some v → c08Normal v) :
    ∃ r, unescapeOpt o = .ok r := by
  cases o with
  | none => exact ⟨none, rfl⟩
  | some v =>
    obtain ⟨r, hr⟩ := c08_unescape_normal (h v rfl)
    exact ⟨some r, by simp [unescapeOpt, hr]⟩

theorem c08_authParamsFromQuery_no_panic (c : CanonReq) (hc : c08GoodMap c.params) (alg : Bytes)
    (site : String) : authParamsFromQuery c alg ≠ .panic site := by
  intro h
  unfold authParamsFromQuery at h
  split at h
  · cases h
  · split at h
    · rename_i cred sig sh date h1 h2 h3 h4
      obtain ⟨r1, e1⟩ := c08_unescape_normal (c08_firstOf_normal _ hc _ _ h1)
      obtain ⟨r2, e2⟩ := c08_unescape_normal (c08_firstOf_normal _ hc _ _ h2)
      obtain ⟨r3, e3⟩ := c08_unescape_normal (c08_firstOf_normal _ hc _ _ h3)
      obtain ⟨r4, e4⟩ := c08_unescape_normal (c08_firstOf_normal _ hc _ _ h4)
      obtain ⟨r5, e5⟩ := c08_unescapeOpt_ok (firstOf c.params X_AMZ_SECURITY_TOKEN)
        (fun v hv => c08_firstOf_normal _ hc _ _ hv)
      rw [e1, e2, e3, e4, e5] at h
      cases h
    · cases h

theorem c08_extractAuthParams_no_panic (c : CanonReq) (hp : c08GoodMap c.params)
    (hh : c08Inv (fun _ => True) (fun _ => True) c.headers) (site : String) :
    extractAuthParams c ≠ .panic site := by
  intro h
  unfold extractAuthParams at h
  split at h
  · exact c08_authParamsFromHeader_no_panic _ _ _ h
  · exact c08_authParamsFromQuery_no_panic _ hp _ _ h
  · rename_i hg _
    exact c08_assocGet_ne_nil _ _ _ hh _ hg
  · rename_i _ hg
    exact c08_assocGet_ne_nil _ _ _ hp _ hg
  · cases h
  · cases h

theorem c08_getAuthenticator_no_panic (H : Bytes → Bytes) (reqs : Requirements) (c : CanonReq)
    (hp : c08GoodMap c.params) (hh : c08Inv (fun _ => True) (fun _ => True) c.headers)
    (site : String) : getAuthenticator H reqs c ≠ .panic site := by
  intro h
  unfold getAuthenticator at h
  split at h
  · cases h
  · rename_i p hg
    unfold getAuthParams at hg
    split at hg
    · cases hg
    · rename_i p' he
      exact c08_extractAuthParams_no_panic c hp hh _ he
    · split at hg
      · cases hg
      · cases hg
  · unfold authenticatorOf at h
    split at h
    · cases h
    · cases h

/-! ### Signature validation -/

theorem c08_prevalidate_no_panic (a : Authenticator) (region service : Bytes) (now : Int)
    (site : String) : prevalidate a region service now ≠ .panic site := by
  unfold prevalidate
  repeat' split
  all_goals simp

theorem c08_getSigningKey_no_panic {σ : Type} (P : Provider σ) (s : σ) (a : Authenticator)
    (region service : Bytes) (site : String) :
    (getSigningKey P s a region service).out ≠ .panic site := by
  rcases getSigningKey_cases P s a region service with ⟨e, _, h⟩ | ⟨_, e, _, h⟩ | ⟨_, resp, _, h⟩
  · rw [h]; intro h'; cases h'
  · rw [h]; intro h'; cases h'
  · rw [h]; intro h'; cases h'

theorem c08_validateSignature_no_panic {σ : Type} (H : Bytes → Bytes) (P : Provider σ) (s : σ)
    (a : Authenticator) (region service : Bytes) (now : Int) (site : String) :
    (validateSignature H P s a region service now).out ≠ .panic site := by
  intro h
  unfold validateSignature at h
  split at h
  · cases h
  · rename_i p hp
    exact c08_prevalidate_no_panic _ _ _ _ _ hp
  · rename_i hpre
    obtain ⟨sts, hsts⟩ := stringToSign_ok_of_prevalidate hpre
    rw [hsts] at h
    simp only [] at h
    split at h
    · cases h
    · rename_i p hp
      exact c08_getSigningKey_no_panic _ _ _ _ _ _ hp
    · split at h
      · cases h
      · cases h

end SigV4
