/- The ISO-8601 matcher against the rendering grammar. -/
import SigV4.Spec.TimeSpec
import SigV4.Model.Auth

namespace SigV4

namespace IsoMatch

/-! ### Bytes -/

theorem u8_forall {P : UInt8 → Prop} (h : ∀ n : Fin 256, P (UInt8.ofNat n.val)) : ∀ c, P c := by
  intro c
  have := h ⟨c.toNat, c.toNat_lt⟩
  simpa using this

/-- The digit byte of a natural number's last decimal digit. -/
def dB (k : Nat) : UInt8 := UInt8.ofNat (48 + k % 10)

theorem digitByte_nat (k : Nat) : digitByte (k : Int) = dB k := by
  unfold digitByte dB
  congr 2 <;> omega

theorem natPad2_eq (n : Nat) : natPad2 n = [dB (n / 10), dB n] := by
  unfold natPad2 pad2
  rw [← digitByte_nat, ← digitByte_nat]
  simp

theorem natPad4_eq (n : Nat) : natPad4 n = [dB (n / 1000), dB (n / 100), dB (n / 10), dB n] := by
  unfold natPad4 pad4
  rw [← digitByte_nat, ← digitByte_nat, ← digitByte_nat, ← digitByte_nat]
  simp

theorem fin10_digit : ∀ d : Fin 10, isDigit (UInt8.ofNat (48 + d.val)) = true ∧
    digitVal (UInt8.ofNat (48 + d.val)) = d.val := by decide

theorem isDigit_dB (k : Nat) : isDigit (dB k) = true :=
  (fin10_digit ⟨k % 10, Nat.mod_lt _ (by decide)⟩).1

theorem digitVal_dB (k : Nat) : digitVal (dB k) = k % 10 :=
  (fin10_digit ⟨k % 10, Nat.mod_lt _ (by decide)⟩).2

set_option maxRecDepth 100000 in
theorem digit_canon : ∀ c : UInt8, isDigit c = true →
    digitVal c < 10 ∧ c = UInt8.ofNat (48 + digitVal c) := by
  apply u8_forall
  decide

theorem digit_eq_dB (c : UInt8) (h : isDigit c = true) (k : Nat) (hk : k % 10 = digitVal c) :
    c = dB k := by
  unfold dB
  rw [hk]
  exact (digit_canon c h).2

set_option maxRecDepth 100000 in
theorem digit_not_sep : ∀ c : UInt8, isDigit c = true →
    c ≠ 0x2D ∧ c ≠ 0x3A ∧ c ≠ 0x2E ∧ c ≠ 0x2C ∧ c ≠ 0x5A ∧ c ≠ 0x2B ∧ c ≠ 0x54 := by
  apply u8_forall
  decide

/-! ### takeDigits -/

theorem takeDigits_cons (n : Nat) (c : UInt8) (s : Bytes) :
    takeDigits (n + 1) (c :: s) =
      if isDigit c then
        match takeDigits n s with
        | some (v, r) => some (digitVal c * 10 ^ n + v, r)
        | none => none
      else none := by
  rw [takeDigits]
  rfl

theorem takeDigits_succ_some (n : Nat) (s : Bytes) (v : Nat) (r : Bytes) :
    takeDigits (n + 1) s = some (v, r) ↔
      ∃ c s' v', s = c :: s' ∧ isDigit c = true ∧ takeDigits n s' = some (v', r) ∧
        v = digitVal c * 10 ^ n + v' := by
  cases s with
  | nil => simp [takeDigits]
  | cons c s' =>
    rw [takeDigits_cons]
    constructor
    · intro h
      split at h
      · rename_i hc
        split at h
        · rename_i v' r' htd
          simp only [Option.some.injEq, Prod.mk.injEq] at h
          obtain ⟨rfl, rfl⟩ := h
          exact ⟨c, s', v', rfl, hc, htd, rfl⟩
        · cases h
      · cases h
    · rintro ⟨c', s'', v', h1, hc, htd, rfl⟩
      cases h1
      simp [hc, htd]

theorem takeDigits_zero_some (s : Bytes) (v : Nat) (r : Bytes) :
    takeDigits 0 s = some (v, r) ↔ v = 0 ∧ r = s := by
  unfold takeDigits
  simp only [Option.some.injEq, Prod.mk.injEq]
  constructor
  · rintro ⟨rfl, rfl⟩; exact ⟨rfl, rfl⟩
  · rintro ⟨rfl, rfl⟩; exact ⟨rfl, rfl⟩

theorem takeDigits2_render (n : Nat) (rest : Bytes) (h : n ≤ 99) :
    takeDigits 2 (natPad2 n ++ rest) = some (n, rest) := by
  rw [natPad2_eq]
  simp only [takeDigits, List.cons_append, List.nil_append, isDigit_dB, digitVal_dB, if_true]
  simp only [Option.some.injEq, Prod.mk.injEq, and_true]
  omega

theorem takeDigits4_render (n : Nat) (rest : Bytes) (h : n ≤ 9999) :
    takeDigits 4 (natPad4 n ++ rest) = some (n, rest) := by
  rw [natPad4_eq]
  simp only [takeDigits, List.cons_append, List.nil_append, isDigit_dB, digitVal_dB, if_true]
  simp only [Option.some.injEq, Prod.mk.injEq, and_true]
  omega

theorem takeDigits2_sound (s : Bytes) (v : Nat) (r : Bytes) (h : takeDigits 2 s = some (v, r)) :
    v ≤ 99 ∧ s = natPad2 v ++ r := by
  rw [takeDigits_succ_some] at h
  obtain ⟨a, s1, v1, rfl, ha, h, rfl⟩ := h
  rw [takeDigits_succ_some] at h
  obtain ⟨b, s2, v2, rfl, hb, h, rfl⟩ := h
  rw [takeDigits_zero_some] at h
  obtain ⟨rfl, rfl⟩ := h
  have ha' := (digit_canon a ha).1
  have hb' := (digit_canon b hb).1
  refine ⟨by omega, ?_⟩
  rw [natPad2_eq]
  simp only [List.cons_append, List.nil_append]
  rw [← digit_eq_dB a ha _ (by omega), ← digit_eq_dB b hb _ (by omega)]

theorem takeDigits4_sound (s : Bytes) (v : Nat) (r : Bytes) (h : takeDigits 4 s = some (v, r)) :
    v ≤ 9999 ∧ s = natPad4 v ++ r := by
  rw [takeDigits_succ_some] at h
  obtain ⟨a, s1, v1, rfl, ha, h, rfl⟩ := h
  rw [takeDigits_succ_some] at h
  obtain ⟨b, s2, v2, rfl, hb, h, rfl⟩ := h
  rw [takeDigits_succ_some] at h
  obtain ⟨c, s3, v3, rfl, hc, h, rfl⟩ := h
  rw [takeDigits_succ_some] at h
  obtain ⟨d, s4, v4, rfl, hd, h, rfl⟩ := h
  rw [takeDigits_zero_some] at h
  obtain ⟨rfl, rfl⟩ := h
  have ha' := (digit_canon a ha).1
  have hb' := (digit_canon b hb).1
  have hc' := (digit_canon c hc).1
  have hd' := (digit_canon d hd).1
  refine ⟨by omega, ?_⟩
  rw [natPad4_eq]
  simp only [List.cons_append, List.nil_append]
  rw [← digit_eq_dB a ha _ (by omega), ← digit_eq_dB b hb _ (by omega),
    ← digit_eq_dB c hc _ (by omega), ← digit_eq_dB d hd _ (by omega)]

/-! ### Separators -/

/-- An optional separator as rendered. -/
def optSep (b : Bool) (c : UInt8) : Bytes := if b then [c] else []

theorem optSep_eq (b : Bool) (c : UInt8) : (if b then [c] else []) = optSep b c := rfl

theorem skipOpt_render (c : UInt8) (b : Bool) (x : UInt8) (xs : Bytes) (hx : x ≠ c) :
    skipOpt c (optSep b c ++ x :: xs) = x :: xs := by
  cases b <;> simp [optSep, skipOpt, hx]

theorem natPad2_head (n : Nat) (rest : Bytes) :
    ∃ x xs, natPad2 n ++ rest = x :: xs ∧ isDigit x = true := by
  rw [natPad2_eq]
  exact ⟨_, _, rfl, isDigit_dB _⟩

theorem takeDigits2_skip_render (c : UInt8) (hc : isDigit c = false) (b : Bool) (n : Nat)
    (rest : Bytes) (h : n ≤ 99) :
    takeDigits 2 (skipOpt c (optSep b c ++ (natPad2 n ++ rest))) = some (n, rest) := by
  obtain ⟨x, xs, hx, hd⟩ := natPad2_head n rest
  rw [hx, skipOpt_render, ← hx, takeDigits2_render n rest h]
  rintro rfl
  rw [hd] at hc
  cases hc

theorem skipOpt_decomp (c : UInt8) (s : Bytes) :
    s = optSep (decide (s.head? = some c)) c ++ skipOpt c s := by
  cases s with
  | nil => simp [optSep, skipOpt]
  | cons x xs =>
    by_cases h : x = c
    · subst h; simp [optSep, skipOpt]
    · simp [optSep, skipOpt, h]

theorem expect_some (c : UInt8) (s r : Bytes) (h : expect c s = some r) : s = c :: r := by
  cases s with
  | nil => simp [expect] at h
  | cons x xs =>
    simp only [expect] at h
    split at h
    · rename_i hx
      subst hx
      simp only [Option.some.injEq] at h
      rw [h]
    · cases h

/-! ### Fraction digits -/

theorem spanDigits_nondigit (r : Bytes) (hr : ∀ c, r.head? = some c → isDigit c = false) :
    spanDigits r = ([], r) := by
  cases r with
  | nil => rfl
  | cons c r' =>
    have := hr c rfl
    simp [spanDigits, this]

theorem spanDigits_append (ds r : Bytes) (hds : ∀ c ∈ ds, isDigit c = true)
    (hr : ∀ c, r.head? = some c → isDigit c = false) : spanDigits (ds ++ r) = (ds, r) := by
  induction ds with
  | nil => exact spanDigits_nondigit r hr
  | cons d ds ih =>
    have hd := hds d (List.mem_cons_self ..)
    have := ih (fun c hc => hds c (List.mem_cons_of_mem _ hc))
    simp [spanDigits, hd, this]

theorem spanDigits_sound (s ds r : Bytes) (h : spanDigits s = (ds, r)) :
    s = ds ++ r ∧ ∀ c ∈ ds, isDigit c = true := by
  induction s generalizing ds r with
  | nil =>
    simp only [spanDigits, Prod.mk.injEq] at h
    obtain ⟨rfl, rfl⟩ := h
    simp
  | cons c s ih =>
    simp only [spanDigits] at h
    split at h
    · rename_i hc
      obtain ⟨h1, h2⟩ := ih (spanDigits s).1 (spanDigits s).2 rfl
      simp only [Prod.mk.injEq] at h
      obtain ⟨rfl, rfl⟩ := h
      refine ⟨?_, ?_⟩
      · rw [List.cons_append, ← h1]
      · intro x hx
        rcases List.mem_cons.mp hx with rfl | hx
        · exact hc
        · exact h2 x hx
    · simp only [Prod.mk.injEq] at h
      obtain ⟨rfl, rfl⟩ := h
      simp

/-! ### Zone -/

def zoneWf : ZoneText → Prop
  | .z => True
  | .offset _ hh mm _ => hh ≤ 23 ∧ mm ≤ 59

theorem parseZone_sign (sg : UInt8) (rest : Bytes) (h : sg = 0x2B ∨ sg = 0x2D) :
    parseZone (sg :: rest) =
      match takeDigits 2 rest with
      | some (hh, r1) =>
        if hh ≤ ZONE_HOUR_MAX then
          match takeDigits 2 (skipOpt 0x3A r1) with
          | some (mm, r2) =>
            if mm ≤ 59 ∧ r2 = [] then
              some ((if sg = 0x2D then -1 else 1) * ((hh : Int) * 3600 + (mm : Int) * 60))
            else none
          | none => none
        else none
      | none => none := by
  unfold parseZone
  split
  · rename_i heq
    simp only [List.cons.injEq] at heq
    obtain ⟨rfl, _⟩ := heq
    rcases h with h | h <;> exact absurd h (by decide)
  · rename_i sg' rest' heq
    simp only [List.cons.injEq] at heq
    obtain ⟨rfl, rfl⟩ := heq
    rw [if_pos h]
    rfl
  · rename_i heq
    cases heq

theorem zone_render_eq (neg : Bool) (hh mm : Nat) (colon : Bool) :
    (ZoneText.offset neg hh mm colon).render =
      (if neg then 0x2D else 0x2B) :: (natPad2 hh ++ (optSep colon 0x3A ++ natPad2 mm)) := by
  simp only [ZoneText.render, optSep, List.cons_append, List.append_assoc]

theorem parseZone_render (zt : ZoneText) (h : zoneWf zt) :
    parseZone zt.render = some zt.secs := by
  cases zt with
  | z => rfl
  | offset neg hh mm colon =>
    obtain ⟨h1, h2⟩ := h
    rw [zone_render_eq, parseZone_sign _ _ (by cases neg <;> simp)]
    rw [takeDigits2_render hh _ (by omega)]
    have := takeDigits2_skip_render 0x3A (by decide) colon mm [] (by omega)
    simp only [List.append_nil] at this
    simp only [ZONE_HOUR_MAX, h1, if_true, this, h2, and_self, ZoneText.secs]
    cases neg <;> simp

theorem parseZone_sound (s : Bytes) (off : Int) (h : parseZone s = some off) :
    ∃ zt : ZoneText, zoneWf zt ∧ s = zt.render ∧ off = zt.secs := by
  cases s with
  | nil => simp [parseZone] at h
  | cons sg rest =>
    by_cases hsg : sg = 0x2B ∨ sg = 0x2D
    · rw [parseZone_sign sg rest hsg] at h
      split at h
      · rename_i hh r1 htd1
        split at h
        · rename_i hhh
          split at h
          · rename_i mm r2 htd2
            split at h
            · rename_i hmm
              obtain ⟨hmm, rfl⟩ := hmm
              simp only [Option.some.injEq] at h
              obtain ⟨_, e1⟩ := takeDigits2_sound _ _ _ htd1
              obtain ⟨_, e2⟩ := takeDigits2_sound _ _ _ htd2
              have e3 := skipOpt_decomp 0x3A r1
              refine ⟨.offset (decide (sg = 0x2D)) hh mm (decide (r1.head? = some 0x3A)),
                ⟨hhh, hmm⟩, ?_, ?_⟩
              · rw [zone_render_eq, ← List.append_nil (natPad2 mm), ← e2, ← e3, ← e1]
                rcases hsg with rfl | rfl <;> simp
              · rw [← h]
                simp only [ZoneText.secs]
                rcases hsg with rfl | rfl <;> simp
            · cases h
          · cases h
        · cases h
      · cases h
    · unfold parseZone at h
      split at h
      · exact ⟨.z, trivial, by assumption, by simpa [ZoneText.secs] using h.symm⟩
      · rename_i sg' rest' heq
        simp only [List.cons.injEq] at heq
        obtain ⟨rfl, rfl⟩ := heq
        rw [if_neg hsg] at h
        cases h
      · cases h

/-! ### Fraction -/

def fracPart (s : Bytes) : Option (Bytes × Bytes) :=
  match s with
  | c :: s' =>
    if c = 0x2E ∨ c = 0x2C then
      let (ds, r) := spanDigits s'
      if ds = [] then none else some (ds, r)
    else some ([], s)
  | [] => some ([], [])

def fracRender : Option (Bool × Bytes) → Bytes
  | none => []
  | some (comma, ds) => (if comma then 0x2C else 0x2E) :: ds

def fracWf : Option (Bool × Bytes) → Prop
  | none => True
  | some (_, ds) => ds ≠ [] ∧ ∀ c ∈ ds, isDigit c = true

def fracDigits (fr : Option (Bool × Bytes)) : Bytes := (fr.map (·.2)).getD []

theorem fracPart_render (fr : Option (Bool × Bytes)) (x : UInt8) (xs : Bytes)
    (hx : x = 0x5A ∨ x = 0x2B ∨ x = 0x2D) (hwf : fracWf fr) :
    fracPart (fracRender fr ++ x :: xs) = some (fracDigits fr, x :: xs) := by
  have hx1 : ¬ (x = 0x2E ∨ x = 0x2C) := by
    rcases hx with rfl | rfl | rfl <;> decide
  have hx2 : isDigit x = false := by
    rcases hx with rfl | rfl | rfl <;> decide
  cases fr with
  | none =>
    simp only [fracRender, List.nil_append, fracPart, if_neg hx1, fracDigits, Option.map_none,
      Option.getD_none]
  | some p =>
    obtain ⟨comma, ds⟩ := p
    obtain ⟨hne, hds⟩ := hwf
    have hsp : spanDigits (ds ++ x :: xs) = (ds, x :: xs) :=
      spanDigits_append ds (x :: xs) hds (by
        intro c hc
        simp only [List.head?_cons, Option.some.injEq] at hc
        subst hc
        exact hx2)
    have hsep : (if comma = true then (0x2C : UInt8) else 0x2E) = 0x2E ∨
        (if comma = true then (0x2C : UInt8) else 0x2E) = 0x2C := by
      cases comma <;> simp
    simp only [fracRender, List.cons_append, fracPart, if_pos hsep, hsp, if_neg hne, fracDigits,
      Option.map_some, Option.getD_some]

theorem fracPart_sound (s frac r : Bytes) (h : fracPart s = some (frac, r)) :
    ∃ fr, fracWf fr ∧ s = fracRender fr ++ r ∧ frac = fracDigits fr := by
  cases s with
  | nil =>
    simp only [fracPart, Option.some.injEq, Prod.mk.injEq] at h
    obtain ⟨rfl, rfl⟩ := h
    exact ⟨none, trivial, rfl, rfl⟩
  | cons c s' =>
    simp only [fracPart] at h
    split at h
    · rename_i hc
      split at h
      · cases h
      · rename_i hne
        simp only [Option.some.injEq, Prod.mk.injEq] at h
        obtain ⟨rfl, rfl⟩ := h
        obtain ⟨e, hds⟩ := spanDigits_sound s' _ _ rfl
        refine ⟨some (decide (c = 0x2C), (spanDigits s').1), ⟨hne, hds⟩, ?_, rfl⟩
        simp only [fracRender, List.cons_append, ← e]
        rcases hc with rfl | rfl <;> simp
    · simp only [Option.some.injEq, Prod.mk.injEq] at h
      obtain ⟨rfl, rfl⟩ := h
      exact ⟨none, trivial, rfl, rfl⟩

theorem matchIso_eq (s : Bytes) : matchIso s =
    match takeDigits 4 s with
    | none => none
    | some (year, s) =>
    match takeDigits 2 (skipOpt 0x2D s) with
    | none => none
    | some (month, s) =>
    if month < 1 ∨ month > 12 then none else
    match takeDigits 2 (skipOpt 0x2D s) with
    | none => none
    | some (day, s) =>
    if day < 1 ∨ day > 31 then none else
    match expect 0x54 s with
    | none => none
    | some s =>
    match takeDigits 2 s with
    | none => none
    | some (hour, s) =>
    if hour > 23 then none else
    match takeDigits 2 (skipOpt 0x3A s) with
    | none => none
    | some (minute, s) =>
    if minute > 59 then none else
    match takeDigits 2 (skipOpt 0x3A s) with
    | none => none
    | some (second, s) =>
    if second > 61 then none else
    match fracPart s with
    | none => none
    | some (frac, s) =>
    match parseZone s with
    | none => none
    | some off => some { year, month, day, hour, minute, second, frac, offsetSecs := off } := by
  rfl

/-! ### Assembly -/

theorem zone_render_head (zt : ZoneText) :
    ∃ x xs, zt.render = x :: xs ∧ (x = 0x5A ∨ x = 0x2B ∨ x = 0x2D) := by
  cases zt with
  | z => exact ⟨_, _, rfl, Or.inl rfl⟩
  | offset neg hh mm colon =>
    rw [zone_render_eq]
    cases neg
    · exact ⟨_, _, rfl, Or.inr (Or.inl rfl)⟩
    · exact ⟨_, _, rfl, Or.inr (Or.inr rfl)⟩

theorem render_eq (t : IsoText) : t.render =
    natPad4 t.year ++ (optSep t.dash1 0x2D ++ (natPad2 t.month ++ (optSep t.dash2 0x2D ++
      (natPad2 t.day ++ (0x54 :: (natPad2 t.hour ++ (optSep t.colon1 0x3A ++ (natPad2 t.minute ++
        (optSep t.colon2 0x3A ++ (natPad2 t.second ++ (fracRender t.frac ++ t.zone.render))))))))))) := by
  unfold IsoText.render
  simp only [List.append_assoc, List.cons_append, List.nil_append, optSep_eq]
  rfl

theorem wf_frac (t : IsoText) (h : t.wf) : fracWf t.frac := by
  have := h.2.2.2.2.2.2.2.2.1
  cases hf : t.frac with
  | none => trivial
  | some p =>
    obtain ⟨c, ds⟩ := p
    rw [hf] at this
    exact this

theorem wf_zone (t : IsoText) (h : t.wf) : zoneWf t.zone := by
  have := h.2.2.2.2.2.2.2.2.2
  cases hz : t.zone with
  | z => trivial
  | offset neg hh mm colon =>
    rw [hz] at this
    exact this

theorem wf_mk (t : IsoText) (hy : t.year ≤ 9999) (hm1 : 1 ≤ t.month) (hm2 : t.month ≤ 12)
    (hd1 : 1 ≤ t.day) (hd2 : t.day ≤ 31) (hh : t.hour ≤ 23) (hmi : t.minute ≤ 59)
    (hs : t.second ≤ 61) (hfr : fracWf t.frac) (hz : zoneWf t.zone) : t.wf := by
  refine ⟨hy, hm1, hm2, hd1, hd2, hh, hmi, hs, ?_, ?_⟩
  · cases hf : t.frac with
    | none => trivial
    | some p =>
      obtain ⟨c, ds⟩ := p
      rw [hf] at hfr
      exact hfr
  · cases hzt : t.zone with
    | z => trivial
    | offset neg hh mm colon =>
      rw [hzt] at hz
      exact hz

end IsoMatch

open IsoMatch

theorem matchIso_render (t : IsoText) (h : t.wf) : matchIso t.render = some t.toFields := by
  have hfr := wf_frac t h
  have hz := wf_zone t h
  obtain ⟨hy, hm1, hm2, hd1, hd2, hh, hmi, hs, _, _⟩ := h
  obtain ⟨x, xs, hx, hx'⟩ := zone_render_head t.zone
  rw [matchIso_eq, render_eq]
  rw [takeDigits4_render _ _ hy]
  simp only []
  rw [takeDigits2_skip_render 0x2D (by decide) _ _ _ (by omega)]
  simp only []
  rw [if_neg (by omega)]
  rw [takeDigits2_skip_render 0x2D (by decide) _ _ _ (by omega)]
  simp only []
  rw [if_neg (by omega)]
  simp only [expect, if_true]
  rw [takeDigits2_render _ _ (by omega)]
  simp only []
  rw [if_neg (by omega)]
  rw [takeDigits2_skip_render 0x3A (by decide) _ _ _ (by omega)]
  simp only []
  rw [if_neg (by omega)]
  rw [takeDigits2_skip_render 0x3A (by decide) _ _ _ (by omega)]
  simp only []
  rw [if_neg (by omega)]
  rw [hx, fracPart_render _ _ _ hx' hfr]
  simp only []
  rw [← hx, parseZone_render _ hz]
  rfl

theorem matchIso_sound (s : Bytes) (f : IsoFields) (h : matchIso s = some f) :
    ∃ t : IsoText, t.wf ∧ s = t.render ∧ f = t.toFields := by
  rw [matchIso_eq] at h
  split at h
  · cases h
  rename_i year s1 h1
  split at h
  · cases h
  rename_i month s2 h2
  split at h
  · cases h
  rename_i hmonth
  split at h
  · cases h
  rename_i day s3 h3
  split at h
  · cases h
  rename_i hday
  split at h
  · cases h
  rename_i s4 h4
  split at h
  · cases h
  rename_i hour s5 h5
  split at h
  · cases h
  rename_i hhour
  split at h
  · cases h
  rename_i minute s6 h6
  split at h
  · cases h
  rename_i hminute
  split at h
  · cases h
  rename_i second s7 h7
  split at h
  · cases h
  rename_i hsecond
  split at h
  · cases h
  rename_i frac s8 h8
  split at h
  · cases h
  rename_i off h9
  simp only [Option.some.injEq] at h
  subst h
  obtain ⟨by1, e1⟩ := takeDigits4_sound _ _ _ h1
  obtain ⟨_, e2⟩ := takeDigits2_sound _ _ _ h2
  obtain ⟨_, e3⟩ := takeDigits2_sound _ _ _ h3
  have e4 := expect_some _ _ _ h4
  obtain ⟨_, e5⟩ := takeDigits2_sound _ _ _ h5
  obtain ⟨_, e6⟩ := takeDigits2_sound _ _ _ h6
  obtain ⟨_, e7⟩ := takeDigits2_sound _ _ _ h7
  have d1 := skipOpt_decomp 0x2D s1
  have d2 := skipOpt_decomp 0x2D s2
  have d5 := skipOpt_decomp 0x3A s5
  have d6 := skipOpt_decomp 0x3A s6
  obtain ⟨fr, hfr, e8, rfl⟩ := fracPart_sound _ _ _ h8
  obtain ⟨zt, hzt, e9, rfl⟩ := parseZone_sound _ _ h9
  refine ⟨{ year, month, day, hour, minute, second,
            dash1 := decide (s1.head? = some 0x2D), dash2 := decide (s2.head? = some 0x2D),
            colon1 := decide (s5.head? = some 0x3A), colon2 := decide (s6.head? = some 0x3A),
            frac := fr, zone := zt }, ?_, ?_, rfl⟩
  · exact wf_mk _ by1 (by simp only []; omega) (by simp only []; omega) (by simp only []; omega)
      (by simp only []; omega) (by simp only []; omega) (by simp only []; omega)
      (by simp only []; omega) hfr hzt
  · rw [render_eq]
    simp only []
    rw [← e9, ← e8, ← e7, ← d6, ← e6, ← d5, ← e5, ← e4, ← e3, ← d2, ← e2, ← d1, ← e1]

theorem fieldsValid_iff (f : IsoFields) :
    fieldsValid f = true ↔ 1 ≤ f.month ∧ f.month ≤ 12 ∧ 1 ≤ f.day ∧
      (f.day : Int) ≤ daysInMonth f.year f.month ∧ f.hour < 24 ∧ f.minute < 60 ∧ f.second < 60 := by
  simp only [fieldsValid, Bool.and_eq_true, decide_eq_true_eq, and_assoc]

theorem fieldsValid_toFields (t : IsoText) (h : t.wf) :
    fieldsValid t.toFields = true ↔ t.civilValid := by
  obtain ⟨hy, hm1, hm2, hd1, hd2, hh, hmi, hs, _, _⟩ := h
  rw [fieldsValid_iff]
  show 1 ≤ t.month ∧ t.month ≤ 12 ∧ 1 ≤ t.day ∧
      (t.day : Int) ≤ daysInMonth t.year t.month ∧ t.hour < 24 ∧ t.minute < 60 ∧ t.second < 60 ↔
    (t.day : Int) ≤ daysInMonth t.year t.month ∧ t.second ≤ 59
  constructor
  · rintro ⟨_, _, _, h1, _, _, h2⟩
    exact ⟨h1, by omega⟩
  · rintro ⟨h1, h2⟩
    exact ⟨hm1, hm2, hd1, h1, by omega, by omega, by omega⟩

theorem fieldsInstant_toFields (t : IsoText) : fieldsInstant t.toFields = t.value := rfl

theorem parseIso_render_valid (t : IsoText) (h : t.wf) (c : t.civilValid) :
    parseIso t.render = some t.value := by
  unfold parseIso
  rw [matchIso_render t h]
  simp only []
  rw [if_pos ((fieldsValid_toFields t h).mpr c), fieldsInstant_toFields]

theorem parseIso_render_invalid (t : IsoText) (h : t.wf) (c : ¬ t.civilValid) :
    parseIso t.render = none := by
  unfold parseIso
  rw [matchIso_render t h]
  simp only []
  rw [if_neg (fun hv => c ((fieldsValid_toFields t h).mp hv))]

theorem parseIso_iff (s : Bytes) (v : Int) :
    parseIso s = some v ↔ ∃ t : IsoText, t.wf ∧ t.civilValid ∧ s = t.render ∧ v = t.value := by
  constructor
  · intro h
    unfold parseIso at h
    split at h
    · cases h
    · rename_i f hf
      split at h
      · rename_i hv
        simp only [Option.some.injEq] at h
        obtain ⟨t, hwf, rfl, rfl⟩ := matchIso_sound s f hf
        exact ⟨t, hwf, (fieldsValid_toFields t hwf).mp hv, rfl, by rw [← h, fieldsInstant_toFields]⟩
      · cases h
  · rintro ⟨t, hwf, c, rfl, rfl⟩
    rw [parseIso_render_valid t hwf c]

theorem parseIso_rejects (t : IsoText) (h : t.wf) (hbad : ¬ t.civilValid) :
    parseIso t.render = none := by
  exact parseIso_render_invalid t h hbad

theorem parseIso_text_independent (t t' : IsoText) (h : t.wf) (h' : t'.wf) (c : t.civilValid)
    (c' : t'.civilValid) (hv : t.value = t'.value) : parseIso t.render = parseIso t'.render := by
  rw [parseIso_render_valid t h c, parseIso_render_valid t' h' c', hv]

theorem sts_timestamp_line (a : Authenticator) (sts : Bytes) (h : stringToSign a = .ok sts) :
    ∃ scope, sts = AWS4_HMAC_SHA256 ++ [0x0A] ++ compactUtc a.timestamp ++ [0x0A] ++ scope ++ [0x0A]
      ++ hexLower a.creqSha := by
  unfold stringToSign at h
  split at h
  · cases h
  · rename_i scope _
    simp only [Outcome.ok.injEq] at h
    exact ⟨scope, h.symm⟩

theorem bad_timestamp_error (H : Bytes → Bytes) (c : CanonReq) (ap : AuthParams)
    (h : parseIso ap.timestampStr = none) :
    authenticatorOf H c ap = .err .IncompleteSignature := by
  unfold authenticatorOf
  rw [h]

/-! ### Nothing before, nothing after (C16 `matchIso_no_padding`) -/

theorem c16_takeDigits_nondigit (n : Nat) (c : UInt8) (s : Bytes) (hc : isDigit c = false) :
    takeDigits (n + 1) (c :: s) = none := by
  rw [takeDigits_cons, hc]
  rfl

theorem c16_takeDigits2_digits (a c : UInt8) (s : Bytes) (ha : isDigit a = true)
    (hc : isDigit c = true) :
    takeDigits 2 (a :: c :: s) = some (digitVal a * 10 ^ 1 + (digitVal c * 10 ^ 0 + 0), s) := by
  rw [takeDigits_cons, takeDigits_cons, ha, hc]
  rfl

theorem c16_takeDigits2_second_nondigit (a c : UInt8) (s : Bytes) (hc : isDigit c = false) :
    takeDigits 2 (a :: c :: s) = none := by
  rw [takeDigits_cons, c16_takeDigits_nondigit 0 c s hc]
  split <;> rfl

theorem c16_takeDigits4_digits (a b c d : UInt8) (s : Bytes) (ha : isDigit a = true)
    (hb : isDigit b = true) (hc : isDigit c = true) (hd : isDigit d = true) :
    ∃ v, takeDigits 4 (a :: b :: c :: d :: s) = some (v, s) := by
  rw [takeDigits_cons, takeDigits_cons, takeDigits_cons, takeDigits_cons, ha, hb, hc, hd]
  exact ⟨_, rfl⟩

theorem c16_skipOpt_digit (c x : UInt8) (s : Bytes) (hc : isDigit c = false)
    (hx : isDigit x = true) : skipOpt c (x :: s) = x :: s := by
  have : x ≠ c := by
    rintro rfl
    rw [hx] at hc
    cases hc
  simp only [skipOpt, if_neg this]

theorem c16_expect_ne (c x : UInt8) (s : Bytes) (h : x ≠ c) : expect c (x :: s) = none := by
  simp only [expect, if_neg h]

/-- The scanner on a text with one more leading digit than the grammar has: every field is read
one byte early, and the day field is followed by a digit where `T` must stand — or a `-` is met
inside a two-digit field. -/
theorem c16_matchIso_shifted (b y1 y2 y3 y4 m1 m2 d1 d2 : UInt8) (dash1 dash2 : Bool) (rest : Bytes)
    (hb : isDigit b = true) (h1 : isDigit y1 = true) (h2 : isDigit y2 = true)
    (h3 : isDigit y3 = true) (h4 : isDigit y4 = true) (hm1 : isDigit m1 = true)
    (hm2 : isDigit m2 = true) (hd1 : isDigit d1 = true) (hd2 : isDigit d2 = true) :
    matchIso (b :: y1 :: y2 :: y3 :: y4 :: (optSep dash1 0x2D ++ (m1 :: m2 :: (optSep dash2 0x2D ++
      (d1 :: d2 :: 0x54 :: rest))))) = none := by
  have hdash : isDigit 0x2D = false := by decide
  obtain ⟨v, hv⟩ := c16_takeDigits4_digits b y1 y2 y3
    (y4 :: (optSep dash1 0x2D ++ (m1 :: m2 :: (optSep dash2 0x2D ++ (d1 :: d2 :: 0x54 :: rest)))))
    hb h1 h2 h3
  rw [matchIso_eq, hv]
  simp only []
  rw [c16_skipOpt_digit 0x2D y4 _ hdash h4]
  cases dash1 with
  | true =>
    simp only [optSep, if_true, List.cons_append, List.nil_append]
    rw [c16_takeDigits2_second_nondigit y4 0x2D _ hdash]
  | false =>
    simp only [optSep, Bool.false_eq_true, if_false, List.nil_append]
    rw [c16_takeDigits2_digits y4 m1 _ h4 hm1]
    simp only []
    split
    · rfl
    rw [c16_skipOpt_digit 0x2D m2 _ hdash hm2]
    cases dash2 with
    | true =>
      simp only [if_true, List.cons_append, List.nil_append]
      rw [c16_takeDigits2_second_nondigit m2 0x2D _ hdash]
    | false =>
      simp only [Bool.false_eq_true, if_false, List.nil_append]
      rw [c16_takeDigits2_digits m2 d1 _ hm2 hd1]
      simp only []
      split
      · rfl
      rw [c16_expect_ne 0x54 d2 _ (digit_not_sep d2 hd2).2.2.2.2.2.2]

theorem c16_matchIso_prepend (t : IsoText) (b : UInt8) : matchIso (b :: t.render) = none := by
  cases hb : isDigit b with
  | false =>
    rw [matchIso_eq, c16_takeDigits_nondigit 3 b _ hb]
  | true =>
    rw [render_eq, natPad4_eq, natPad2_eq t.month, natPad2_eq t.day]
    simp only [List.cons_append, List.nil_append]
    exact c16_matchIso_shifted b _ _ _ _ _ _ _ _ _ _ _ hb (isDigit_dB _) (isDigit_dB _)
      (isDigit_dB _) (isDigit_dB _) (isDigit_dB _) (isDigit_dB _) (isDigit_dB _) (isDigit_dB _)

theorem c16_parseZone_append (zt : ZoneText) (h : zoneWf zt) (b : UInt8) :
    parseZone (zt.render ++ [b]) = none := by
  cases zt with
  | z =>
    by_cases hs : (0x5A : UInt8) = 0x2B ∨ (0x5A : UInt8) = 0x2D
    · rcases hs with hs | hs <;> exact absurd hs (by decide)
    · simp only [ZoneText.render, List.cons_append, List.nil_append]
      unfold parseZone
      split
      · rename_i heq
        simp only [List.cons.injEq] at heq
        exact absurd heq.2 (by simp)
      · rename_i sg' rest' heq
        simp only [List.cons.injEq] at heq
        obtain ⟨rfl, rfl⟩ := heq
        rw [if_neg hs]
      · rfl
  | offset neg hh mm colon =>
    obtain ⟨h1, h2⟩ := h
    rw [zone_render_eq, List.cons_append, parseZone_sign _ _ (by cases neg <;> simp)]
    rw [List.append_assoc, List.append_assoc, takeDigits2_render hh _ (by omega)]
    have := takeDigits2_skip_render 0x3A (by decide) colon mm [b] (by omega)
    simp only [ZONE_HOUR_MAX, h1, if_true, this]
    rw [if_neg (by simp)]

theorem c16_matchIso_append (t : IsoText) (h : t.wf) (b : UInt8) :
    matchIso (t.render ++ [b]) = none := by
  have hfr := wf_frac t h
  have hz := wf_zone t h
  obtain ⟨hy, hm1, hm2, hd1, hd2, hh, hmi, hs, _, _⟩ := h
  obtain ⟨x, xs, hx, hx'⟩ := zone_render_head t.zone
  rw [matchIso_eq, render_eq]
  simp only [List.append_assoc, List.cons_append]
  rw [takeDigits4_render _ _ hy]
  simp only []
  rw [takeDigits2_skip_render 0x2D (by decide) _ _ _ (by omega)]
  simp only []
  rw [if_neg (by omega)]
  rw [takeDigits2_skip_render 0x2D (by decide) _ _ _ (by omega)]
  simp only []
  rw [if_neg (by omega)]
  simp only [expect, if_true]
  rw [takeDigits2_render _ _ (by omega)]
  simp only []
  rw [if_neg (by omega)]
  rw [takeDigits2_skip_render 0x3A (by decide) _ _ _ (by omega)]
  simp only []
  rw [if_neg (by omega)]
  rw [takeDigits2_skip_render 0x3A (by decide) _ _ _ (by omega)]
  simp only []
  rw [if_neg (by omega)]
  have hx2 : t.zone.render ++ [b] = x :: (xs ++ [b]) := by rw [hx]; rfl
  rw [hx2, fracPart_render _ _ _ hx' hfr]
  simp only []
  rw [← hx2, c16_parseZone_append _ hz]

end SigV4

#print axioms SigV4.matchIso_render
#print axioms SigV4.matchIso_sound
#print axioms SigV4.parseIso_iff
#print axioms SigV4.parseIso_rejects
#print axioms SigV4.parseIso_text_independent
#print axioms SigV4.sts_timestamp_line
#print axioms SigV4.bad_timestamp_error
