/-
  SigV4.Model.Poll — the validation as a *polled* future. `sigv4_validate_request` is an `async fn`:
  the caller polls it; the only suspension points are inside `ServiceExt::oneshot` (tower
  util/oneshot.rs): while the service is not ready `poll_ready` returns `Pending`, then `call` is
  made once and the returned future is polled until it resolves. A scripted provider entry says how
  many times readiness and the answer are `Pending` before they resolve.

  The big-step model (`validate`) abstracts the polls away; this file keeps them, so that "a pending
  state or a re-poll never changes the outcome, never calls the provider twice and never calls it
  before readiness" becomes a theorem (C14) instead of an assumption about tower.
-/
import SigV4.Model.Validate

namespace SigV4

/-- One scripted provider behaviour at poll granularity. -/
structure PollEntry where
  pendingReady : Nat                      -- `poll_ready` returns `Pending` this many times first
  readyErr : Option ProvErr               -- then `Ready(Err e)` or `Ready(Ok(()))`
  pendingAnswer : Nat                     -- the future returned by `call` is `Pending` this many times
  answer : Except ProvErr ProviderResp    -- then resolves to this
  deriving Repr

/-- What the provider has seen so far. -/
structure PollLog where
  readyPolls : Nat := 0
  calls : List ProviderReq := []
  futurePolls : Nat := 0
  deriving Repr

/-- State of the validation future between polls. -/
inductive PollState where
  | start                                              -- never polled
  | awaitingReady (a : Authenticator) (sts : Bytes) (left : Nat)
  | awaitingAnswer (a : Authenticator) (sts : Bytes) (left : Nat)
  | finished
  deriving Repr

/-- Result of one poll. -/
inductive PollOut where
  | pending
  | ready (out : Outcome Returned)
  deriving Repr

/-- The `Called` state of `Oneshot`: poll the provider's future. -/
def pollAnswer (H : Bytes → Bytes) (e : PollEntry) (req : Request) (fp : FromParts) (a : Authenticator)
    (sts : Bytes) (left : Nat) (log : PollLog) : PollState × PollLog × PollOut :=
  let log := { log with futurePolls := log.futurePolls + 1 }
  match left with
  | n + 1 => (.awaitingAnswer a sts n, log, .pending)
  | 0 =>
    match e.answer with
    | .error pe => (.finished, log, .ready (.err pe.toKind))
    | .ok resp =>
      if (ctEq a.signature (hexLower (hmac H resp.key sts))).1 then
        (.finished, log, .ready (.ok (Returned.mk req.method req.headers fp.rebuiltUri fp.body resp.identity)))
      else (.finished, log, .ready (.err .SignatureDoesNotMatch))

/-- The `NotReady` state of `Oneshot`: poll readiness; when it resolves `Ok`, call once and poll the
returned future within the same poll. -/
def pollReady (H : Bytes → Bytes) (cfg : Config) (e : PollEntry) (req : Request) (fp : FromParts)
    (a : Authenticator) (sts : Bytes) (left : Nat) (log : PollLog) : PollState × PollLog × PollOut :=
  let log := { log with readyPolls := log.readyPolls + 1 }
  match left with
  | n + 1 => (.awaitingReady a sts n, log, .pending)
  | 0 =>
    match e.readyErr with
    | some pe => (.finished, log, .ready (.err pe.toKind))
    | none =>
      let preq : ProviderReq :=
        ProviderReq.mk (splitFirst 0x2F a.credential).1 a.sessionToken (utcDate a.timestamp) cfg.region cfg.service
      pollAnswer H e req fp a sts e.pendingAnswer { log with calls := log.calls ++ [preq] }

/-- One poll of the validation future. Everything before the key lookup runs in the first poll. -/
def pollValidate (H : Bytes → Bytes) (cfg : Config) (e : PollEntry) (req : Request)
    (st : PollState) (log : PollLog) : PollState × PollLog × PollOut :=
  match fromRequestParts H cfg.opts cfg.other req with
  | .err k => (.finished, log, .ready (.err k))
  | .panic p => (.finished, log, .ready (.panic p))
  | .ok fp =>
    match st with
    | .finished => (.finished, log, .ready (.panic "future polled after completion"))
    | .awaitingReady a sts left => pollReady H cfg e req fp a sts left log
    | .awaitingAnswer a sts left => pollAnswer H e req fp a sts left log
    | .start =>
      match getAuthenticator H cfg.reqs fp.creq with
      | .err k => (.finished, log, .ready (.err k))
      | .panic p => (.finished, log, .ready (.panic p))
      | .ok a =>
        match prevalidate a cfg.region cfg.service cfg.now with
        | .err k => (.finished, log, .ready (.err k))
        | .panic p => (.finished, log, .ready (.panic p))
        | .ok () =>
          match stringToSign a with
          | .err k => (.finished, log, .ready (.err k))
          | .panic p => (.finished, log, .ready (.panic p))
          | .ok sts => pollReady H cfg e req fp a sts e.pendingReady log

/-- Poll up to `fuel` times (an executor re-polls after every wake-up) until the future is ready. -/
def pollLoop (H : Bytes → Bytes) (cfg : Config) (e : PollEntry) (req : Request) :
    Nat → PollState → PollLog → Nat → Option (Outcome Returned × PollLog × Nat)
  | 0, _, _, _ => none
  | fuel + 1, st, log, polls =>
    match pollValidate H cfg e req st log with
    | (_, log', .ready out) => some (out, log', polls + 1)
    | (st', log', .pending) => pollLoop H cfg e req fuel st' log' (polls + 1)

/-- The big-step provider that corresponds to a poll-level entry. -/
def PollEntry.bigStep (e : PollEntry) : Provider Unit where
  ready _ := (e.readyErr, ())
  call _ _ := (e.answer, ())

end SigV4
