/-
  Property C03 — the credential scope binds the signature to this server's region, service and date.
-/
import SigV4.Spec.ValidateSpec
import SigV4.Lemmas.C03

namespace SigV4.C03

/-- The scope rule passes exactly when the credential has five slash-separated parts whose region,
service, terminator and date are the expected ones. -/
theorem scopeCheck_ok_iff (a : Authenticator) (region service : Bytes) :
    scopeCheck a region service = .ok () ↔
      ∃ ak, splitOn 0x2F a.credential = [ak, fmtDate (utcDate a.timestamp), region, service, b!"aws4_request"] := by
  sorry

/-- Another number of parts is an incomplete signature (400). -/
theorem arity_incomplete (a : Authenticator) (region service : Bytes)
    (h : (splitOn 0x2F a.credential).length ≠ 5) :
    scopeCheck a region service = .err .IncompleteSignature ∧ ErrKind.IncompleteSignature.status = 400 := by
  sorry

/-- Five parts with any mismatch is a signature mismatch (403). -/
theorem scope_mismatch (a : Authenticator) (region service : Bytes) (ak d r sv t : Bytes)
    (h : splitOn 0x2F a.credential = [ak, d, r, sv, t])
    (hm : r ≠ region ∨ sv ≠ service ∨ t ≠ b!"aws4_request" ∨ d ≠ fmtDate (utcDate a.timestamp)) :
    scopeCheck a region service = .err .SignatureDoesNotMatch ∧ ErrKind.SignatureDoesNotMatch.status = 403 := by
  sorry

/-- Acceptance implies the scope is this server's, with the date of the request instant in UTC. -/
theorem accept_implies_scope {σ : Type} (H : Bytes → Bytes) (cfg : Config) (P : Provider σ) (s : σ)
    (req : Request) (r : Returned) (h : (validate H cfg P s req).out = .ok r) :
    ∃ a ak, authOf H cfg req = .ok a ∧
      splitOn 0x2F a.credential = [ak, fmtDate (utcDate a.timestamp), cfg.region, cfg.service, b!"aws4_request"] := by
  sorry

/-- The key provider is asked for exactly that access key, session token, UTC date, and the
server's region and service — and for nothing else. -/
theorem provider_args {σ : Type} (H : Bytes → Bytes) (cfg : Config) (P : Provider σ) (s : σ)
    (req : Request) (c : ProviderReq) (hc : c ∈ (validate H cfg P s req).calls) :
    ∃ a ak, authOf H cfg req = .ok a ∧
      splitOn 0x2F a.credential = [ak, fmtDate (utcDate a.timestamp), cfg.region, cfg.service, b!"aws4_request"] ∧
      c = { accessKey := ak, sessionToken := a.sessionToken, date := utcDate a.timestamp,
            region := cfg.region, service := cfg.service } := by
  sorry

/-- A foreign scope is refused before the provider is consulted, so a signature that would verify
under the foreign scope's key is still refused — whatever the provider would have answered. -/
theorem foreign_scope_refused {σ : Type} (H : Bytes → Bytes) (cfg : Config) (P : Provider σ) (s : σ)
    (req : Request) (a : Authenticator) (ha : authOf H cfg req = .ok a)
    (hs : scopeCheck a cfg.region cfg.service ≠ .ok ()) :
    (∃ k, (validate H cfg P s req).out = .err k ∧ (k = .SignatureDoesNotMatch ∨ k = .IncompleteSignature)) ∧
    (validate H cfg P s req).calls = [] := by
  sorry

/-- The scope enters the string-to-sign: it is the credential minus the access key. -/
theorem scope_in_string_to_sign (a : Authenticator) (ak d r sv t : Bytes)
    (h : splitOn 0x2F a.credential = [ak, d, r, sv, t]) :
    stringToSign a = .ok (AWS4_HMAC_SHA256 ++ [0x0A] ++ compactUtc a.timestamp ++ [0x0A]
      ++ (d ++ [0x2F] ++ r ++ [0x2F] ++ sv ++ [0x2F] ++ t) ++ [0x0A] ++ hexLower a.creqSha) := by
  sorry

/-- A sample authenticator for the non-vacuity examples (2015-08-30T12:36:00Z). -/
def sampleAuth (cred : Bytes) : Authenticator :=
  { creqSha := [], credential := cred, sessionToken := none, signature := [], timestamp := 1440938160000000000 }

example : scopeCheck (sampleAuth b!"AKID/20150830/us-east-1/iam/aws4_request") b!"us-east-1" b!"iam" = .ok () := by decide
example : scopeCheck (sampleAuth b!"AKID/20150830/us-east-1/iam") b!"us-east-1" b!"iam" = .err .IncompleteSignature := by
  decide
example : scopeCheck (sampleAuth b!"AKID/20150830/us-east-1x/iam/aws4_request") b!"us-east-1" b!"iam"
    = .err .SignatureDoesNotMatch := by decide
example : scopeCheck (sampleAuth b!"AKID/20150831/us-east-1/iam/aws4_request") b!"us-east-1" b!"iam"
    = .err .SignatureDoesNotMatch := by decide

end SigV4.C03

#print axioms SigV4.C03.scopeCheck_ok_iff
#print axioms SigV4.C03.arity_incomplete
#print axioms SigV4.C03.scope_mismatch
#print axioms SigV4.C03.accept_implies_scope
#print axioms SigV4.C03.provider_args
#print axioms SigV4.C03.foreign_scope_refused
#print axioms SigV4.C03.scope_in_string_to_sign
