"""
rustlite.py — translation of small first-order Rust functions over bytes into Lean `do` blocks.

The target is Lean's own imperative notation in the `Option` monad, so the translation is close to
syntactic: `let mut` stays `let mut`, `for x in xs { … }` stays `for x in xs do …`, `if` stays `if`,
`x.push(e)` becomes `x := Rust.Vec.push x e`.  A `while` loop becomes a `for` loop over `fuel`
iterations that leaves through `break` when its condition fails, and the whole function yields `none`
if a loop runs out of fuel; the tie theorems show that `fuel = input length + 1` is always enough,
i.e. they prove termination of the Rust loop together with its result.

Subset (anything else raises Untranslatable and the item is reported unreadable):
  fn NAME(p: &[u8] | &str | u8, …) -> Vec<u8> | String | &[u8] | bool | u8 { stmts… tail-expr }
  stmts: let [mut] x [: T] = e;   x = e;   x.push(e);   x.pop();   if/else if/else;   for x in e { }
         while e { }   while let [first, rest @ ..] = x { }   while let [rest @ .., last] = x { }   break;
  exprs: literals, variables, * & ! unary, == != && || < <= > >=, `as` casts, .len() .last() .is_empty()
         .is_ascii_*(), String::new(), Vec::new(), Vec::with_capacity(e), Some(e), None,
         calls of other translated functions.
"""
from srcgen import Tok, matching, U8_METHODS   # noqa: E402  (srcgen imports this module lazily)


class Untranslatable(Exception):
    pass


TY_BYTES = "Bytes"

def parse_type(toks):
    s = "".join(str(t.v) for t in toks if t.k != "life")
    s = s.replace("mut", "")
    if s in ("&[u8]", "Vec<u8>", "&Vec<u8>"):
        return "vec"
    if s in ("String", "&str", "&String"):
        return "string"
    if s == "u8":
        return "u8"
    if s == "bool":
        return "bool"
    if s == "usize":
        return "usize"
    raise Untranslatable("type " + s)

LEAN_TY = {"vec": "Bytes", "string": "Rust.Str", "u8": "UInt8", "bool": "Bool", "usize": "Nat"}


class Fn:
    def __init__(self, name, toks, known_fns):
        self.name, self.toks, self.pos = name, toks, 0
        self.known = known_fns          # name -> (param types, ret type) of functions translated so far
        self.types = {}                 # variable -> rust-ish type tag
        self.loopvar = 0

    # -- token helpers
    def peek(self, o=0):
        return self.toks[self.pos + o] if self.pos + o < len(self.toks) else Tok("eof", None, -1)
    def eat(self, v=None, k=None):
        t = self.peek()
        if (v is not None and t.v != v) or (k is not None and t.k != k):
            raise Untranslatable(f"expected {v or k}, got {t!r}")
        self.pos += 1
        return t
    def at(self, v):
        return self.peek().v == v and self.peek().k in ("p", "id")

    # -- expressions: returns (lean term, type tag or None)
    def primary(self):
        t = self.eat()
        if t.k == "p" and t.v == "(":
            e, ty = self.expr(0); self.eat(")"); r = (f"({e})", ty)
        elif t.k == "p" and t.v in ("*", "&"):
            if self.at("mut"): self.eat()
            return self.primary()
        elif t.k == "p" and t.v == "!":
            e, ty = self.primary(); return (f"(!{e})", "bool")
        elif t.k == "byte":
            r = ("(0x%02X : UInt8)" % t.v, "u8")
        elif t.k == "num":
            r = (str(t.v), "num")
        elif t.k == "id" and t.v in ("true", "false"):
            r = (t.v, "bool")
        elif t.k == "id" and t.v == "Some" and self.at("("):
            self.eat("("); e, ty = self.expr(0); self.eat(")")
            r = (f"(some {e})", ("opt", ty))
        elif t.k == "id" and t.v == "None":
            r = ("none", ("opt", None))
        elif t.k == "id" and t.v in ("String", "Vec") and self.at("::"):
            self.eat("::")
            if self.at("<"):                       # Vec::<u8>::new()
                while not self.at(">"): self.eat()
                self.eat(">"); self.eat("::")
            m = self.eat(k="id").v
            self.eat("(")
            args = []
            while not self.at(")"):
                args.append(self.expr(0)[0])
                if self.at(","): self.eat()
            self.eat(")")
            if t.v == "String" and m == "new" and not args:
                r = ("Rust.Str.new", "string")
            elif t.v == "String" and m == "with_capacity" and len(args) == 1:
                r = (f"(Rust.Str.withCapacity {args[0]})", "string")
            elif t.v == "Vec" and m == "new" and not args:
                r = ("Rust.Vec.new", "vec")
            elif t.v == "Vec" and m == "with_capacity" and len(args) == 1:
                r = (f"(Rust.Vec.withCapacity {args[0]})", "vec")
            else:
                raise Untranslatable(f"{t.v}::{m}")
        elif t.k == "id" and self.at("(") and t.v in self.known:
            ptys, rty = self.known[t.v]
            self.eat("(")
            args = []
            while not self.at(")"):
                args.append(self.expr(0)[0])
                if self.at(","): self.eat()
            self.eat(")")
            if len(args) != len(ptys):
                raise Untranslatable("arity of " + t.v)
            r = (f"(← {t.v} fuel " + " ".join(args) + ")", rty)
        elif t.k == "id" and t.v in self.types:
            r = (t.v, self.types[t.v])
        else:
            raise Untranslatable(f"token {t!r}")
        # postfix: method calls, casts
        while True:
            if self.at(".") and self.peek(1).k == "id":
                self.eat("."); m = self.eat(k="id").v
                self.eat("(")
                args = []
                while not self.at(")"):
                    args.append(self.expr(0))
                    if self.at(","): self.eat()
                self.eat(")")
                e, ty = r
                if m == "len" and not args and ty in ("vec", "string"):
                    r = (f"({'Rust.Str.len' if ty == 'string' else 'Rust.Vec.len'} {e})", "usize")
                elif m == "is_empty" and not args and ty in ("vec", "string"):
                    r = (f"({'Rust.Str.isEmpty' if ty == 'string' else 'Rust.Vec.isEmpty'} {e})", "bool")
                elif m == "last" and not args and ty == "vec":
                    r = (f"(Rust.Vec.last {e})", ("opt", "u8"))
                elif m == "first" and not args and ty == "vec":
                    r = (f"(Rust.Vec.first {e})", ("opt", "u8"))
                elif m in U8_METHODS and not args and ty == "u8":
                    r = (f"({U8_METHODS[m]} {e})", "bool")
                else:
                    raise Untranslatable(f"method .{m} on {ty}")
            elif self.at("as"):
                self.eat(); ty2 = self.eat(k="id").v
                e, ty = r
                if ty == "u8" and ty2 == "char":
                    r = (f"(Rust.u8AsChar {e})", "char")
                elif ty == "u8" and ty2 in ("usize", "u32", "u64"):
                    r = (f"({e}).toNat", "usize")
                else:
                    raise Untranslatable(f"cast {ty} as {ty2}")
            else:
                return r

    PREC = {"||": 1, "&&": 2, "==": 3, "!=": 3, "<": 3, ">": 3, "<=": 3, ">=": 3, "+": 8, "-": 8}
    LEANOP = {"||": "||", "&&": "&&", "==": "==", "!=": "!=", "<": "<", ">": ">", "<=": "≤", ">=": "≥", "+": "+", "-": "-"}

    def expr(self, minp):
        lhs, lty = self.primary()
        while True:
            t = self.peek()
            if t.k != "p" or t.v not in self.PREC or self.PREC[t.v] < minp:
                return lhs, lty
            # `{` after an expression ends it (if/while conditions); nothing to do, `{` is not an operator
            op = self.eat().v
            rhs, rty = self.expr(self.PREC[op] + 1)
            if lty == "num" and rty == "u8": lhs = f"({lhs} : UInt8)"
            if rty == "num" and lty == "u8": rhs = f"({rhs} : UInt8)"
            if op in ("<", ">", "<=", ">="):
                lhs, lty = f"(decide ({lhs} {self.LEANOP[op]} {rhs}))", "bool"
            elif op in ("==", "!=", "&&", "||"):
                lhs, lty = f"({lhs} {self.LEANOP[op]} {rhs})", "bool"
            else:
                if op == "-" and lty == "usize":
                    raise Untranslatable("usize subtraction (may underflow)")
                lhs, lty = f"({lhs} {self.LEANOP[op]} {rhs})", (lty if lty != "num" else rty)

    # -- statements: returns list of Lean lines (already indented relative to the block)
    def block(self, ind):
        """`{ stmts }` -> lines; the block's value (tail expression) is not allowed here."""
        self.eat("{")
        lines = []
        while not self.at("}"):
            lines += self.stmt(ind)
        self.eat("}")
        if not lines:
            lines = [ind + "pure ()"]
        return lines

    def stmt(self, ind):
        t = self.peek()
        if t.k == "id" and t.v == "let":
            self.eat()
            mut = False
            if self.at("mut"): self.eat(); mut = True
            name = self.eat(k="id").v
            decl = None
            if self.at(":"):
                self.eat()
                tt = []
                while not self.at("="): tt.append(self.eat())
                decl = parse_type(tt)
            self.eat("=")
            e, ty = self.expr(0)
            self.eat(";")
            ty = decl or ty
            if ty in (None, "num") or isinstance(ty, tuple):
                raise Untranslatable("type of let " + name)
            self.types[name] = ty
            return [f"{ind}let {'mut ' if mut else ''}{name} : {LEAN_TY[ty]} := {e}"]
        if t.k == "id" and t.v == "if":
            return self.if_stmt(ind)
        if t.k == "id" and t.v == "for":
            self.eat()
            x = self.eat(k="id").v
            self.eat("in")
            e, ty = self.expr(0)
            if ty != "vec":
                raise Untranslatable("for over " + str(ty))
            self.types[x] = "u8"
            body = self.block(ind + "  ")
            return [f"{ind}for {x} in {e} do"] + body
        if t.k == "id" and t.v == "while":
            return self.while_stmt(ind)
        if t.k == "id" and t.v == "break":
            self.eat(); self.eat(";")
            if not self.loopvar:
                raise Untranslatable("break outside a while loop")
            return [f"{ind}done{self.loopvar} := true", f"{ind}break"]
        if t.k == "id" and t.v in self.types and self.peek(1).v == "=" and self.peek(1).k == "p":
            name = self.eat().v; self.eat("=")
            e, ty = self.expr(0); self.eat(";")
            return [f"{ind}{name} := {e}"]
        if t.k == "id" and t.v in self.types and self.peek(1).v == "." and self.peek(2).v in ("push", "pop", "clear"):
            name = self.eat().v; self.eat("."); m = self.eat().v; self.eat("(")
            ty = self.types[name]
            if m == "push":
                e, ety = self.expr(0); self.eat(")"); self.eat(";")
                if ty == "vec" and ety in ("u8", "num"):
                    return [f"{ind}{name} := Rust.Vec.push {name} {e}"]
                if ty == "string" and ety == "char":
                    return [f"{ind}{name} := Rust.Str.push {name} {e}"]
                raise Untranslatable(f"push {ety} onto {ty}")
            self.eat(")"); self.eat(";")
            if m == "pop" and ty == "vec":
                return [f"{ind}{name} := Rust.Vec.pop {name}"]
            raise Untranslatable("." + m)
        raise Untranslatable(f"statement starting with {t!r}")

    def if_stmt(self, ind):
        self.eat("if")
        c, ty = self.expr(0)
        then = self.block(ind + "  ")
        lines = [f"{ind}if {c} then"] + then
        if self.at("else"):
            self.eat()
            if self.at("if"):
                lines += [f"{ind}else"] + self.if_stmt(ind + "  ")
            else:
                lines += [f"{ind}else"] + self.block(ind + "  ")
        return lines

    def while_stmt(self, ind):
        self.eat("while")
        outer = self.loopvar
        self.depth = getattr(self, "depth", 0) + 1
        self.counter = getattr(self, "counter", 0) + 1
        n = self.counter
        self.loopvar = n
        i2, i3 = ind + "  ", ind + "    "
        lines = [f"{ind}let mut done{n} := false", f"{ind}for _ in List.range fuel do"]
        if self.at("let"):
            self.eat("let"); self.eat("[")
            pat = []
            while not self.at("]"): pat.append(self.eat())
            self.eat("]"); self.eat("=")
            v = self.eat(k="id").v
            if self.types.get(v) != "vec":
                raise Untranslatable("while let over " + v)
            p = [str(x.v) for x in pat]
            if len(p) == 5 and p[1] == "," and p[3] == "@" and p[4] == "..":        # [first, rest @ ..]
                first, rest = p[0], p[2]
                self.types[first], self.types[rest] = "u8", "vec"
                body = self.block(i3)
                lines += [f"{i2}match Rust.Vec.splitFirst {v} with", f"{i2}| some ({first}, {rest}) =>"] + body + \
                         [f"{i2}| none =>", f"{i3}done{n} := true", f"{i3}break"]
            elif len(p) == 5 and p[1] == "@" and p[2] == ".." and p[3] == ",":      # [rest @ .., last]
                rest, last = p[0], p[4]
                self.types[last], self.types[rest] = "u8", "vec"
                body = self.block(i3)
                lines += [f"{i2}match Rust.Vec.splitLast {v} with", f"{i2}| some ({rest}, {last}) =>"] + body + \
                         [f"{i2}| none =>", f"{i3}done{n} := true", f"{i3}break"]
            else:
                raise Untranslatable("slice pattern " + " ".join(p))
        else:
            c, ty = self.expr(0)
            body = self.block(i3)
            lines += [f"{i2}if {c} then"] + body + [f"{i2}else", f"{i3}done{n} := true", f"{i3}break"]
        lines += [f"{ind}if !done{n} then failure"]
        self.loopvar = outer
        return lines


def translate_fn(name, params, ret, body, known):
    """params/ret/body are token lists. Returns (lean text, (param types, ret type))."""
    # parameters
    ps, cur, depth = [], [], 0
    for t in params:
        if t.k == "p" and t.v in "([<": depth += 1
        if t.k == "p" and t.v in ")]>": depth -= 1
        if t.k == "p" and t.v == "," and depth == 0:
            ps.append(cur); cur = []
        else:
            cur.append(t)
    if cur: ps.append(cur)
    f = Fn(name, body, known)
    sig = []
    ptys = []
    for p in ps:
        if len(p) < 3 or p[1].v != ":":
            raise Untranslatable("parameter")
        ty = parse_type(p[2:])
        f.types[p[0].v] = ty
        ptys.append(ty)
        sig.append(f"({p[0].v} : {LEAN_TY[ty]})")
    rty = parse_type(ret)
    lines = []
    # statements until the tail expression: a statement is recognised by its first token(s)
    while True:
        t = f.peek()
        if t.k == "eof":
            raise Untranslatable("no tail expression")
        starts_stmt = (t.k == "id" and t.v in ("let", "if", "for", "while", "break")) or \
                      (t.k == "id" and t.v in f.types and f.peek(1).k == "p" and
                       (f.peek(1).v == "=" or (f.peek(1).v == "." and f.peek(2).v in ("push", "pop", "clear") and _ends_with_semicolon(f))))
        if not starts_stmt:
            break
        # a parameter re-bound with `let mut bytes = bytes;` needs a fresh mutable copy in Lean as well: same syntax works
        lines += f.stmt("  ")
    e, ety = f.expr(0)
    if f.peek().k != "eof":
        raise Untranslatable("trailing tokens after the tail expression")
    lines.append(f"  return {e}")
    text = f"def {name} (fuel : Nat) " + " ".join(sig) + f" : Option {LEAN_TY[rty]} := do\n" + "\n".join(lines)
    return text, (ptys, rty)


def _ends_with_semicolon(f):
    """x.push(e); — look ahead for the `;` after the call's closing parenthesis."""
    i = f.pos + 3
    if i >= len(f.toks) or f.toks[i].v != "(":
        return False
    j = matching(f.toks, i)
    return j + 1 < len(f.toks) and f.toks[j + 1].v == ";"
