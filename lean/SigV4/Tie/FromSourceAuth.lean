/-
  SigV4.Tie.FromSourceAuth — property statements about the functions *as translated from /repo/src on this run*,
  obtained by composing a tie theorem (generated function = model function) with a property theorem about the model.
  These say directly: the code the translator read satisfies the reference specification, for every input.
-/
import SigV4.Tie.FnsOAuth
import SigV4.Props.C04

namespace SigV4.Tie.FromSource

open SigV4

/-- C04, from the source: `prevalidate` as read from /repo/src, called with the entry point's tolerance, refuses every
instant outside [now − 15 min, now + 15 min] as a signature mismatch and, inside the window (bounds inclusive), gives the
verdict of the credential-scope rule alone. -/
theorem prevalidate_window : ∀ f, Src.auth.prevalidate? = some f →
    ∀ (fuel : Nat) (a : Authenticator) (region service : Bytes) (now : Int),
      CHRONO_MIN ≤ now → now ≤ CHRONO_MAX → nowRepresentable now →
      (¬ inWindow a.timestamp now → f fuel a.credential a.timestamp region service now ALLOWED_MISMATCH = .err .SignatureDoesNotMatch) ∧
      (inWindow a.timestamp now → f fuel a.credential a.timestamp region service now ALLOWED_MISMATCH = scopeCheck a region service) := by
  intro f hf fuel a region service now h1 h2 hr
  rw [Tie.prevalidate f hf fuel a region service now h1 h2]
  exact ⟨C04.prevalidate_outside a region service now hr, C04.prevalidate_inside a region service now hr⟩

end SigV4.Tie.FromSource

#print axioms SigV4.Tie.FromSource.prevalidate_window
