/- Helper lemmas for C08. -/
import SigV4.Spec.ValidateSpec
import SigV4.Model.Keys

namespace SigV4

end SigV4
