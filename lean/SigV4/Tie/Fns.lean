/-
  SigV4.Tie.Fns — the leaf functions of src/canonical.rs, translated statement by statement from
  /repo/src on this run (SigV4/Source/GeneratedFns.lean), compute exactly the model's functions, for
  every input, and their `while` loops terminate within `input length + 1` iterations.
-/
import SigV4.Tie.FnsLemmas

namespace SigV4.Tie

open SigV4

/-- `latin1_to_string` is the model's `latin1ToString` (no loop needs fuel). -/
theorem latin1_to_string : ∀ f, Src.canonical.latin1_to_string? = some f →
    ∀ (fuel : Nat) (bytes : Bytes), f fuel bytes = some (latin1ToString bytes) :=
  latin1_to_string_proof

/-- `normalize_header_value` is the model's `normHeaderValue`. -/
theorem normalize_header_value : ∀ f, Src.canonical.normalize_header_value? = some f →
    ∀ (fuel : Nat) (value : Bytes), value.length < fuel → f fuel value = some (normHeaderValue value) :=
  normalize_header_value_proof

/-- `trim_ascii_start` is the model's `trimAsciiStart`. -/
theorem trim_ascii_start : ∀ f, Src.canonical.trim_ascii_start? = some f →
    ∀ (fuel : Nat) (bytes : Bytes), bytes.length < fuel → f fuel bytes = some (trimAsciiStart bytes) :=
  trim_ascii_start_proof

/-- `trim_ascii_end` is the model's `trimAsciiEnd`. -/
theorem trim_ascii_end : ∀ f, Src.canonical.trim_ascii_end? = some f →
    ∀ (fuel : Nat) (bytes : Bytes), bytes.length < fuel → f fuel bytes = some (trimAsciiEnd bytes) :=
  trim_ascii_end_proof

/-- `trim_ascii` is the model's `trimAscii`. -/
theorem trim_ascii : ∀ f, Src.canonical.trim_ascii? = some f →
    ∀ (fuel : Nat) (bytes : Bytes), bytes.length < fuel → f fuel bytes = some (trimAscii bytes) :=
  trim_ascii_proof

end SigV4.Tie

#print axioms SigV4.Tie.latin1_to_string
#print axioms SigV4.Tie.normalize_header_value
#print axioms SigV4.Tie.trim_ascii_start
#print axioms SigV4.Tie.trim_ascii_end
#print axioms SigV4.Tie.trim_ascii
