/- Helper lemmas for C06 (HMAC key padding, secret buffer). -/
import SigV4.Model.Keys

namespace SigV4

/-! ### HMAC key block -/

theorem hmacKeyBlock_zero_pad (H : Bytes → Bytes) (k : Bytes) (z : Nat) (h : k.length + z ≤ 64) :
    hmacKeyBlock H (k ++ List.replicate z 0) = hmacKeyBlock H k := by
  have h1 : ¬ (k ++ List.replicate z (0 : UInt8)).length > 64 := by
    simp only [List.length_append, List.length_replicate]; omega
  have h2 : ¬ k.length > 64 := by omega
  have e : z + (64 - (k.length + z)) = 64 - k.length := by omega
  simp only [hmacKeyBlock, if_neg h1, if_neg h2]
  rw [List.append_assoc, List.length_append, List.length_replicate,
    List.replicate_append_replicate, e]

/-! ### `secretFromStr` -/

theorem AWS4_length : AWS4.length = 4 := rfl

theorem secretFromStr_ok_iff (M : Nat) (s : Bytes) (k : SecretKey) :
    secretFromStr M s = .ok k ↔
      s.length + 4 ≤ M ∧
        k = { buf := AWS4 ++ s ++ List.replicate (M - 4 - s.length) 0, len := s.length + 4 } := by
  unfold secretFromStr
  split
  · rename_i hc
    constructor
    · intro h; cases h
    · rintro ⟨h, _⟩; omega
  · rename_i hc
    constructor
    · intro h
      injection h with h
      exact ⟨by omega, h.symm⟩
    · rintro ⟨_, rfl⟩; rfl

/-! ### Decimal digits -/

theorem digitByte_toNat (n : Int) : (digitByte n).toNat = 48 + (n % 10).toNat := by
  unfold digitByte
  apply UInt8.toNat_ofNat_of_lt'
  show 48 + (n % 10).toNat < 256
  omega

theorem isDigit_digitByte (n : Int) : isDigit (digitByte n) = true := by
  have h := digitByte_toNat n
  unfold isDigit
  simp only [Bool.and_eq_true, decide_eq_true_eq, UInt8.le_iff_toNat_le]
  have : (0x30 : UInt8).toNat = 48 := rfl
  have : (0x39 : UInt8).toNat = 57 := rfl
  omega

theorem digitVal_digitByte (n : Int) : digitVal (digitByte n) = (n % 10).toNat := by
  have h := digitByte_toNat n
  unfold digitVal
  have h30 : (0x30 : UInt8).toNat = 48 := rfl
  rw [UInt8.toNat_sub_of_le _ _ (by rw [UInt8.le_iff_toNat_le]; omega)]
  omega

theorem pad2_val (n : Int) (h0 : 0 ≤ n) (h1 : n ≤ 99) :
    (n / 10 % 10).toNat * 10 + (n % 10).toNat = n.toNat := by
  omega

theorem pad4_val (n : Int) (h0 : 0 ≤ n) (h1 : n ≤ 9999) :
    (((n / 1000 % 10).toNat * 10 + (n / 100 % 10).toNat) * 10 + (n / 10 % 10).toNat) * 10
      + (n % 10).toNat = n.toNat := by
  omega

end SigV4
