/- Helper lemmas for C03. -/
import SigV4.Spec.ValidateSpec
import SigV4.Lemmas.C04
import SigV4.Lemmas.Headers

namespace SigV4

/-! ### `splitOn`, `splitFirst`, `joinWith` -/

theorem c03_splitOn_ne_nil (sep : UInt8) (s : Bytes) : splitOn sep s ≠ [] := by
  induction s with
  | nil => simp [splitOn]
  | cons c cs ih =>
    unfold splitOn
    split
    · simp
    · split <;> simp

theorem c03_splitOn_cons_sep (sep : UInt8) (cs : Bytes) :
    splitOn sep (sep :: cs) = [] :: splitOn sep cs := by
  rw [splitOn]; simp

theorem c03_splitOn_cons_ne {sep c : UInt8} (h : c ≠ sep) (cs p : Bytes) (ps : List Bytes)
    (hs : splitOn sep cs = p :: ps) : splitOn sep (c :: cs) = (c :: p) :: ps := by
  rw [splitOn, if_neg h, hs]

theorem c03_joinWith_cons_cons (sep x y : Bytes) (rest : List Bytes) :
    joinWith sep (x :: y :: rest) = x ++ sep ++ joinWith sep (y :: rest) := by
  rw [joinWith]

theorem joinWith_singleton (sep x : Bytes) : joinWith sep [x] = x := by
  rw [joinWith]

/-- Joining the pieces with the separator gives the string back. -/
theorem joinWith_splitOn (sep : UInt8) (s : Bytes) : joinWith [sep] (splitOn sep s) = s := by
  induction s with
  | nil => simp [splitOn, joinWith]
  | cons c cs ih =>
    obtain ⟨p, ps, hps⟩ : ∃ p ps, splitOn sep cs = p :: ps := by
      cases h : splitOn sep cs with
      | nil => exact absurd h (c03_splitOn_ne_nil sep cs)
      | cons p ps => exact ⟨p, ps, rfl⟩
    by_cases hc : c = sep
    · subst hc
      rw [c03_splitOn_cons_sep, hps, c03_joinWith_cons_cons, ← hps, ih]
      rfl
    · rw [c03_splitOn_cons_ne hc cs p ps hps]
      rw [hps] at ih
      cases ps with
      | nil =>
        rw [joinWith_singleton] at ih ⊢
        rw [ih]
      | cons q qs =>
        rw [c03_joinWith_cons_cons] at ih ⊢
        rw [← ih]
        simp

/-- `splitFirst` when there is more than one piece. -/
theorem splitFirst_of_splitOn_cons_cons (sep : UInt8) (s x y : Bytes) (rest : List Bytes)
    (h : splitOn sep s = x :: y :: rest) :
    splitFirst sep s = (x, some (joinWith [sep] (y :: rest))) := by
  induction s generalizing x with
  | nil => simp [splitOn] at h
  | cons c cs ih =>
    by_cases hc : c = sep
    · subst hc
      rw [c03_splitOn_cons_sep] at h
      injection h with hx hrest
      subst hx
      rw [← hrest, joinWith_splitOn]
      rw [splitFirst]; simp
    · obtain ⟨p, ps, hps⟩ : ∃ p ps, splitOn sep cs = p :: ps := by
        cases h' : splitOn sep cs with
        | nil => exact absurd h' (c03_splitOn_ne_nil sep cs)
        | cons p ps => exact ⟨p, ps, rfl⟩
      rw [c03_splitOn_cons_ne hc cs p ps hps] at h
      injection h with hx hrest
      subst hx; subst hrest
      rw [splitFirst, if_neg hc, ih p hps]

/-- The first component of `splitFirst` is the first piece. -/
theorem splitFirst_fst_of_splitOn_cons (sep : UInt8) (s x : Bytes) (rest : List Bytes)
    (h : splitOn sep s = x :: rest) : (splitFirst sep s).1 = x := by
  induction s generalizing x rest with
  | nil =>
    simp [splitOn] at h
    simp [splitFirst, h.1]
  | cons c cs ih =>
    by_cases hc : c = sep
    · subst hc
      rw [c03_splitOn_cons_sep] at h
      injection h with hx hrest
      subst hx
      rw [splitFirst]; simp
    · obtain ⟨p, ps, hps⟩ : ∃ p ps, splitOn sep cs = p :: ps := by
        cases h' : splitOn sep cs with
        | nil => exact absurd h' (c03_splitOn_ne_nil sep cs)
        | cons p ps => exact ⟨p, ps, rfl⟩
      rw [c03_splitOn_cons_ne hc cs p ps hps] at h
      injection h with hx hrest
      subst hx
      rw [splitFirst, if_neg hc]
      simp [ih p ps hps]

/-! ### The scope rule -/

theorem scopeCheck_five (a : Authenticator) (region service ak d r sv t : Bytes)
    (h : splitOn 0x2F a.credential = [ak, d, r, sv, t]) :
    scopeCheck a region service =
      if r = region ∧ sv = service ∧ t = b!"aws4_request" ∧ d = fmtDate (utcDate a.timestamp)
      then .ok () else .err .SignatureDoesNotMatch := by
  unfold scopeCheck
  rw [h]
  rfl

theorem scopeCheck_not_five (a : Authenticator) (region service : Bytes)
    (h : (splitOn 0x2F a.credential).length ≠ 5) :
    scopeCheck a region service = .err .IncompleteSignature := by
  unfold scopeCheck
  split
  · next heq => rw [heq] at h; simp at h
  · rfl

theorem length_eq_five {α : Type} (l : List α) (h : l.length = 5) :
    ∃ a b c d e, l = [a, b, c, d, e] := by
  match l, h with
  | [a, b, c, d, e], _ => exact ⟨a, b, c, d, e, rfl⟩

theorem scopeCheck_ok_iff' (a : Authenticator) (region service : Bytes) :
    scopeCheck a region service = .ok () ↔
      ∃ ak, splitOn 0x2F a.credential =
        [ak, fmtDate (utcDate a.timestamp), region, service, b!"aws4_request"] := by
  constructor
  · intro h
    by_cases h5 : (splitOn 0x2F a.credential).length = 5
    · obtain ⟨ak, d, r, sv, t, hs⟩ := length_eq_five _ h5
      rw [scopeCheck_five a region service ak d r sv t hs] at h
      split at h
      · next hc =>
        obtain ⟨h1, h2, h3, h4⟩ := hc
        subst h1; subst h2; subst h3; subst h4
        exact ⟨ak, hs⟩
      · cases h
    · rw [scopeCheck_not_five a region service h5] at h
      cases h
  · rintro ⟨ak, hs⟩
    rw [scopeCheck_five a region service ak _ _ _ _ hs]
    simp

/-- The three possible verdicts of the scope rule. -/
theorem scopeCheck_cases (a : Authenticator) (region service : Bytes) :
    scopeCheck a region service = .ok () ∨
    scopeCheck a region service = .err .SignatureDoesNotMatch ∨
    scopeCheck a region service = .err .IncompleteSignature := by
  unfold scopeCheck
  split
  · split <;> simp
  · simp

/-- `prevalidate` is either a freshness refusal or the scope rule's verdict (any `now`). -/
theorem prevalidate_cases (a : Authenticator) (region service : Bytes) (now : Int) :
    prevalidate a region service now = .err .SignatureDoesNotMatch ∨
    prevalidate a region service now = scopeCheck a region service := by
  unfold prevalidate
  split
  · exact Or.inl rfl
  · split
    · exact Or.inl rfl
    · exact Or.inr rfl

theorem scopeCheck_ok_of_prevalidate_ok (a : Authenticator) (region service : Bytes) (now : Int)
    (h : prevalidate a region service now = .ok ()) : scopeCheck a region service = .ok () := by
  rcases prevalidate_cases a region service now with h' | h'
  · rw [h'] at h; cases h
  · rw [← h']; exact h

/-! ### The string to sign -/

theorem stringToSign_of_five (a : Authenticator) (ak d r sv t : Bytes)
    (h : splitOn 0x2F a.credential = [ak, d, r, sv, t]) :
    stringToSign a = .ok (AWS4_HMAC_SHA256 ++ [0x0A] ++ compactUtc a.timestamp ++ [0x0A]
      ++ (d ++ [0x2F] ++ r ++ [0x2F] ++ sv ++ [0x2F] ++ t) ++ [0x0A] ++ hexLower a.creqSha) := by
  unfold stringToSign
  rw [splitFirst_of_splitOn_cons_cons 0x2F a.credential ak d [r, sv, t] h]
  simp [joinWith]

/-! ### Provider calls of `validateSignature` -/

theorem c03_getSigningKey_calls {σ : Type} (P : Provider σ) (s : σ) (a : Authenticator)
    (region service : Bytes) (c : ProviderReq)
    (hc : c ∈ (getSigningKey P s a region service).calls) : c = providerReqOf a region service := by
  unfold getSigningKey at hc
  simp only [] at hc
  split at hc
  · simp at hc
  · split at hc <;> simpa [providerReqOf] using hc

theorem validateSignature_calls {σ : Type} (H : Bytes → Bytes) (P : Provider σ) (s : σ)
    (a : Authenticator) (region service : Bytes) (now : Int) (c : ProviderReq)
    (hc : c ∈ (validateSignature H P s a region service now).calls) :
    c = providerReqOf a region service := by
  unfold validateSignature at hc
  split at hc
  · simp at hc
  · simp at hc
  · split at hc
    · simp at hc
    · simp at hc
    · apply c03_getSigningKey_calls P s a region service c
      revert hc
      simp only []
      split
      · exact id
      · exact id
      · split <;> exact id

/-! ### `latin1ToString` is injective -/

/-- The byte a two-byte UTF-8 sequence of a code point below 256 came from. -/
def c03_latin1Dec (h l : UInt8) : UInt8 := ((h &&& (3 : UInt8)) <<< (6 : UInt8)) ||| (l &&& (0x3F : UInt8))

set_option maxRecDepth 100000 in
theorem c03_latin1_lead_facts : ∀ x : UInt8,
    ¬ ((0xC0 : UInt8) ||| (x >>> (6 : UInt8))) < 0x80 ∧
    (¬ x < 0x80 →
      c03_latin1Dec ((0xC0 : UInt8) ||| (x >>> (6 : UInt8))) ((0x80 : UInt8) ||| (x &&& (0x3F : UInt8))) = x) := by
  apply u8_forall
  decide

theorem c03_latin1Byte_lt (x : UInt8) (h : x < 0x80) : latin1Byte x = [x] := by
  unfold latin1Byte
  rw [if_pos h]

theorem c03_latin1Byte_ge (x : UInt8) (h : ¬ x < 0x80) :
    latin1Byte x = [(0xC0 : UInt8) ||| (x >>> (6 : UInt8)), (0x80 : UInt8) ||| (x &&& (0x3F : UInt8))] := by
  unfold latin1Byte
  rw [if_neg h]

theorem c03_latin1Byte_append_inj (x y : UInt8) (r r' : Bytes)
    (h : latin1Byte x ++ r = latin1Byte y ++ r') : x = y ∧ r = r' := by
  by_cases hx : x < 0x80
  · by_cases hy : y < 0x80
    · rw [c03_latin1Byte_lt x hx, c03_latin1Byte_lt y hy] at h
      simp only [List.cons_append, List.nil_append, List.cons.injEq] at h
      exact h
    · rw [c03_latin1Byte_lt x hx, c03_latin1Byte_ge y hy] at h
      simp only [List.cons_append, List.nil_append, List.cons.injEq] at h
      rw [h.1] at hx
      exact absurd hx (c03_latin1_lead_facts y).1
  · by_cases hy : y < 0x80
    · rw [c03_latin1Byte_ge x hx, c03_latin1Byte_lt y hy] at h
      simp only [List.cons_append, List.nil_append, List.cons.injEq] at h
      rw [← h.1] at hy
      exact absurd hy (c03_latin1_lead_facts x).1
    · rw [c03_latin1Byte_ge x hx, c03_latin1Byte_ge y hy] at h
      simp only [List.cons_append, List.nil_append, List.cons.injEq] at h
      obtain ⟨h1, h2, h3⟩ := h
      refine ⟨?_, h3⟩
      rw [← (c03_latin1_lead_facts x).2 hx, ← (c03_latin1_lead_facts y).2 hy, h1, h2]

theorem c03_latin1Byte_ne_nil (x : UInt8) : latin1Byte x ≠ [] := by
  unfold latin1Byte
  split <;> simp

theorem c03_latin1ToString_cons (x : UInt8) (s : Bytes) :
    latin1ToString (x :: s) = latin1Byte x ++ latin1ToString s := by
  simp only [latin1ToString, List.flatMap_cons]

theorem c03_latin1ToString_inj (a b : Bytes) (h : latin1ToString a = latin1ToString b) : a = b := by
  induction a generalizing b with
  | nil =>
    cases b with
    | nil => rfl
    | cons y b =>
      rw [c03_latin1ToString_cons] at h
      have hn := c03_latin1Byte_ne_nil y
      cases hl : latin1Byte y with
      | nil => exact absurd hl hn
      | cons c cs =>
        rw [hl] at h
        simp [latin1ToString] at h
  | cons x a ih =>
    cases b with
    | nil =>
      rw [c03_latin1ToString_cons] at h
      have hn := c03_latin1Byte_ne_nil x
      cases hl : latin1Byte x with
      | nil => exact absurd hl hn
      | cons c cs =>
        rw [hl] at h
        simp [latin1ToString] at h
    | cons y b =>
      rw [c03_latin1ToString_cons, c03_latin1ToString_cons] at h
      obtain ⟨rfl, h'⟩ := c03_latin1Byte_append_inj x y _ _ h
      rw [ih b h']

end SigV4
