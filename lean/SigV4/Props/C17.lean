/-
  Property C17 — no key material or valid signature leaks through errors, Debug/Display or logs.

  Stated as non-interference: everything observable about a *refused* request (error kind, provider
  calls, provider state, log records at debug level or above) is the same whatever signing key the
  provider handed out. The renderings of the key types and the byte-level scan of error texts and
  log records for key material are checked on the real code by the harness (a test).
-/
import SigV4.Model.Observe
import SigV4.Spec.ValidateSpec
import SigV4.Lemmas.C17

namespace SigV4.C17

/-- Two providers that behave alike except for the *key bytes* they hand out. -/
def SameUpToKey {σ : Type} (P P' : Provider σ) : Prop :=
  (∀ st, P.ready st = P'.ready st) ∧
  (∀ st pr, (P.call st pr).2 = (P'.call st pr).2) ∧
  (∀ st pr, match (P.call st pr).1, (P'.call st pr).1 with
      | .ok r, .ok r' => r.identity = r'.identity
      | .error e, .error e' => e = e'
      | _, _ => False)

/-- Refusal non-interference: if a request is refused under both keys, the two refusals are
indistinguishable — same error kind, same provider calls, same provider state, same debug logs. -/
theorem refusal_noninterference {σ : Type} (H : Bytes → Bytes) (cfg : Config) (P P' : Provider σ) (s : σ)
    (req : Request) (hP : SameUpToKey P P')
    (hr : ∀ r, (validate H cfg P s req).out ≠ .ok r) (hr' : ∀ r, (validate H cfg P' s req).out ≠ .ok r) :
    (observe H cfg P s req).out = (observe H cfg P' s req).out ∧
    (observe H cfg P s req).calls = (observe H cfg P' s req).calls ∧
    (observe H cfg P s req).state = (observe H cfg P' s req).state ∧
    (observe H cfg P s req).debug = (observe H cfg P' s req).debug := by
  obtain ⟨h1, h2, h3⟩ := hP
  rcases validate_split H cfg req with ⟨o, _, h⟩ | ⟨a, fp, sts, ha, hfp, hpre, hsts, h⟩
  · simp only [observe, (h σ P s).1, (h σ P' s).1, (h σ P s).2, (h σ P' s).2, and_self]
  · have hv := (h σ P s).1
    have hv' := (h σ P' s).1
    rw [hv] at hr
    rw [hv'] at hr'
    simp only [observe, hv, hv', (h σ P s).2, (h σ P' s).2, finish]
    simp only [finish] at hr hr'
    obtain ⟨e1, e2, e3, e4⟩ := getSigningKey_sameUpToKey P P' s a cfg.region cfg.service h1 h2 h3
    refine ⟨?_, e1, e2, e3⟩
    rcases e4 with ⟨k, hk, hk'⟩ | ⟨r, r', hk, hk', _⟩
    · rw [hk, hk']
    · rw [hk] at hr ⊢
      rw [hk'] at hr' ⊢
      simp only [sigOut] at hr hr' ⊢
      by_cases hs : a.signature = hexLower (hmac H r.key sts)
      · rw [if_pos hs] at hr
        exact absurd rfl (hr _)
      · by_cases hs' : a.signature = hexLower (hmac H r'.key sts)
        · rw [if_pos hs'] at hr'
          exact absurd rfl (hr' _)
        · rw [if_neg hs, if_neg hs']

/-- Calls, provider state and debug records never depend on the key, accepted or not. -/
theorem calls_and_logs_independent_of_key {σ : Type} (H : Bytes → Bytes) (cfg : Config) (P P' : Provider σ) (s : σ)
    (req : Request) (hP : SameUpToKey P P') :
    (validate H cfg P s req).calls = (validate H cfg P' s req).calls ∧
    (validate H cfg P s req).state = (validate H cfg P' s req).state ∧
    validateDebug H cfg P s req = validateDebug H cfg P' s req := by
  obtain ⟨h1, h2, h3⟩ := hP
  rcases validate_split H cfg req with ⟨o, _, h⟩ | ⟨a, fp, sts, ha, hfp, hpre, hsts, h⟩
  · simp only [(h σ P s).1, (h σ P' s).1, (h σ P s).2, (h σ P' s).2, and_self]
  · simp only [(h σ P s).1, (h σ P' s).1, (h σ P s).2, (h σ P' s).2, finish]
    obtain ⟨e1, e2, e3, _⟩ := getSigningKey_sameUpToKey P P' s a cfg.region cfg.service h1 h2 h3
    exact ⟨e1, e2, e3⟩

/-- A wrong signature is refused with the one fixed kind whatever the key and whatever the presented
signature: the refusal does not even reveal *which* wrong signature was closer. -/
theorem mismatch_kind_fixed {σ : Type} (H : Bytes → Bytes) (cfg : Config) (P : Provider σ) (s : σ) (req : Request)
    (a : Authenticator) (resp : ProviderResp) (sts : Bytes)
    (ha : authOf H cfg req = .ok a) (hp : prevalidate a cfg.region cfg.service cfg.now = .ok ())
    (hrd : (P.ready s).1 = none)
    (hk : (P.call (P.ready s).2 (providerReqOf a cfg.region cfg.service)).1 = .ok resp)
    (hs : stringToSign a = .ok sts) (hne : a.signature ≠ hexLower (hmac H resp.key sts)) :
    (validate H cfg P s req).out = .err .SignatureDoesNotMatch ∧ validateDebug H cfg P s req = [] := by
  obtain ⟨fp, _, _, hv⟩ := validate_of_authOf_ok H cfg P s req a ha
  have hready : P.ready s = (none, (P.ready s).2) := by
    rcases hq : P.ready s with ⟨x, y⟩
    rw [hq] at hrd
    simp only at hrd
    rw [hrd]
  have hcall : P.call (P.ready s).2 (providerReqOf a cfg.region cfg.service) =
      (.ok resp, (P.call (P.ready s).2 (providerReqOf a cfg.region cfg.service)).2) := by
    rcases hq : P.call (P.ready s).2 (providerReqOf a cfg.region cfg.service) with ⟨x, y⟩
    rw [hq] at hk
    simp only at hk
    rw [hk]
  constructor
  · rw [hv, validateSignature_of_prevalidate_ok H P s a _ _ _ sts hp hs,
      getSigningKey_call_ok P s _ _ a _ _ resp hready hcall]
    simp only [finish, if_neg hne, Outcome.map_err]
  · rw [validateDebug_of_authOf_ok H cfg P s req a sts ha hp hs]
    rcases getSigningKey_debug_cases P s a cfg.region cfg.service with
      ⟨e, he, _⟩ | ⟨_, e, he, _⟩ | ⟨_, _, _, _, hd⟩
    · rw [hrd] at he; cases he
    · rw [hk] at he; cases he
    · exact hd

/-- Debug-level records exist only for provider failures and carry only the provider's own error. -/
theorem debug_only_provider_errors {σ : Type} (H : Bytes → Bytes) (cfg : Config) (P : Provider σ) (s : σ)
    (req : Request) (rec : DebugRec) (h : rec ∈ validateDebug H cfg P s req) :
    rec.site = "auth.rs:267" ∧
    ((P.ready s).1 = some rec.err ∨ ∃ pr, (P.call (P.ready s).2 pr).1 = .error rec.err) ∧
    (validate H cfg P s req).out = .err rec.err.toKind := by
  rcases validate_split H cfg req with ⟨o, _, hh⟩ | ⟨a, fp, sts, ha, hfp, hpre, hsts, hh⟩
  · rw [(hh σ P s).2] at h
    cases h
  · rw [(hh σ P s).2] at h
    rw [(hh σ P s).1]
    rcases getSigningKey_debug_cases P s a cfg.region cfg.service with
      ⟨e, he, hg, hd⟩ | ⟨_, e, he, hg, hd⟩ | ⟨_, _, _, _, hd⟩
    · rw [hd] at h
      have := List.mem_singleton.1 h
      subst this
      rw [hg]
      exact ⟨rfl, .inl he, rfl⟩
    · rw [hd] at h
      have := List.mem_singleton.1 h
      subst this
      rw [hg]
      exact ⟨rfl, .inr ⟨_, he⟩, rfl⟩
    · rw [hd] at h
      cases h

/-- The `Debug` and `Display` renderings of every key type, and the `Debug` rendering of the
provider's response that carries a signing key, are the same text whatever the key bytes are. -/
theorem key_renderings_constant (k : KeyKind) (key key' : Bytes) (p q : String) :
    renderKeyDebug k key = renderKeyDebug k key' ∧ renderKeyDisplay k key = renderKeyDisplay k key' ∧
    renderResponseDebug p q key = renderResponseDebug p q key' := by
  exact ⟨rfl, rfl, rfl⟩

example : renderKeyDebug .secret b!"wJalrXUtnFEMI" = "KSecretKey" := rfl

end SigV4.C17

#print axioms SigV4.C17.refusal_noninterference
#print axioms SigV4.C17.calls_and_logs_independent_of_key
#print axioms SigV4.C17.mismatch_kind_fixed
#print axioms SigV4.C17.debug_only_provider_errors
#print axioms SigV4.C17.key_renderings_constant
