/-
  SigV4.Tie.FromSourceQuery — property statements about the functions *as translated from /repo/src on this run*,
  obtained by composing a tie theorem (generated function = model function) with a property theorem about the model.
  These say directly: the code the translator read satisfies the reference specification, for every input.
-/
import SigV4.Tie.FnsOQuery
import SigV4.Props.C10

namespace SigV4.Tie.FromSource

open SigV4

/-- C10, from the source: `query_string_to_normalized_map` as read from /repo/src yields the decoded pairs of the
query string, re-encoded and grouped by name, and fails only with the malformed-query error, never a panic. -/
theorem query_string_to_normalized_map_is_reference : ∀ f, Src.canonical.query_string_to_normalized_map? = some f →
    ∀ (fuel : Nat) (q : Bytes), q.length < fuel →
      f fuel q = optToOutcome .MalformedQueryString ((refQueryPairs q).map fun ps => groupPairs (ps.map encPair)) := by
  intro f hf fuel q h
  rw [Tie.query_string_to_normalized_map f hf fuel q h]
  exact C10.parseQuery_eq_spec q

end SigV4.Tie.FromSource

#print axioms SigV4.Tie.FromSource.query_string_to_normalized_map_is_reference
