/-
  SigV4.Source.RustKeys — the runtime meaning of what the key-chain translator (srcgen/keychain.py) keeps from chrono:
  `NaiveDate::format(spec).to_string()` for a spec made of literal text and the directives `%Y`, `%m`, `%d` (the translator
  refuses any other directive).  Trusted, with SigV4.Source.Rust and RustO.
-/
import SigV4.Model.Time
import SigV4.Model.Keys

namespace SigV4.Rust.Chrono

/-- `date.format(spec).to_string()`: `%Y` the year as chrono prints it, `%m` / `%d` two digits, other bytes verbatim. -/
def formatDate : Bytes → Int × Int × Int → Bytes
  | 0x25 :: 0x59 :: r, d => fmtYear d.1 ++ formatDate r d
  | 0x25 :: 0x6D :: r, d => pad2 d.2.1 ++ formatDate r d
  | 0x25 :: 0x64 :: r, d => pad2 d.2.2 ++ formatDate r d
  | c :: r, d => c :: formatDate r d
  | [], _ => []

end SigV4.Rust.Chrono

/-! `usize` arithmetic, slices and the early-return shape of `KSecretKey::from_str`: every value is an `Option`
(`none` = the Rust code panics: subtraction below zero, a slice range outside the array, `copy_from_slice` between
different lengths).  `usize` overflow of `+` is not modelled (lengths of in-memory strings). -/
namespace SigV4.Rust.Keys

def add (a b : Option Nat) : Option Nat := do return (← a) + (← b)
def sub (a b : Option Nat) : Option Nat := do
  let x ← a; let y ← b
  if y ≤ x then some (x - y) else none
def lt (a b : Option Nat) : Option Bool := do return decide ((← a) < (← b))
def le (a b : Option Nat) : Option Bool := do return decide ((← a) ≤ (← b))
/-- `a || b`: `b` is evaluated only when `a` is false. -/
def or (a : Option Bool) (b : Unit → Option Bool) : Option Bool := do
  if (← a) then return true else b ()
/-- `buf[lo..hi].copy_from_slice(src)`. -/
def copyInto (buf : Bytes) (lo hi : Option Nat) (src : Bytes) : Option Bytes := do
  let lo ← lo; let hi ← hi
  if lo ≤ hi ∧ hi ≤ buf.length ∧ src.length = hi - lo then some (buf.take lo ++ src ++ buf.drop hi) else none
/-- `&buf[lo..hi]` (`none` = the range is outside the array: panic). -/
def slice (buf : Bytes) (lo hi : Option Nat) : Option Bytes := do
  let lo ← lo; let hi ← hi
  if lo ≤ hi ∧ hi ≤ buf.length then some ((buf.take hi).drop lo) else none
/-- `Err(KeyTooLongError)` / `Ok(key)` / panic. -/
def finish : Option (Except Unit SecretKey) → KeyOutcome
  | none => .panic "from_str"
  | some (.error _) => .tooLong
  | some (.ok k) => .ok k

end SigV4.Rust.Keys
