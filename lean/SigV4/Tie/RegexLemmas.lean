/-
  SigV4.Tie.RegexLemmas — proofs for SigV4/Tie/Regex.lean.
-/
import SigV4.Tie.Basic
import SigV4.Model.Time
import SigV4.Model.Uri
import SigV4.Tie.REMatch
import SigV4.Tie.REIso
import SigV4.Tie.RESlash

namespace SigV4

theorem RE.matchesB_iff_matches (r : RE) (s : Bytes) : RE.matchesB r s = true ↔ RE.Matches r s :=
  RE.matchesB_iff_matches' r s

namespace Tie

theorem iso_8601_regex_proof : ∀ a b r, Src.chronoutil.ISO_8601_REGEX = some (a, b, r) →
    a = true ∧ b = true ∧ ∀ s : Bytes, RE.Matches r s ↔ (matchIso s).isSome = true := by
  intro a b r h
  first
    | (simp only [Src.chronoutil.ISO_8601_REGEX, Option.some.injEq, Prod.mk.injEq] at h
       obtain ⟨rfl, rfl, rfl⟩ := h
       exact ⟨rfl, rfl, RE.matches_iso_iff⟩)
    | (simp [Src.chronoutil.ISO_8601_REGEX] at h)

theorem multislash_proof : ∀ a b r, Src.canonical.MULTISLASH = some (a, b, r) →
    a = false ∧ b = false ∧
    (∀ s : Bytes, RE.Matches r s ↔ ∃ n, 2 ≤ n ∧ s = List.replicate n (0x2F : UInt8)) ∧
    (∀ p : Bytes, RE.replaceAll r [0x2F] p = collapseSlashes p) := by
  intro a b r h
  first
    | (simp only [Src.canonical.MULTISLASH, Option.some.injEq, Prod.mk.injEq] at h
       obtain ⟨rfl, rfl, rfl⟩ := h
       exact ⟨rfl, rfl, RE.matches_multislash_iff, RE.replaceAll_multislash⟩)
    | (simp [Src.canonical.MULTISLASH] at h)

end Tie
end SigV4
