/-
  Property C09 — path canonicalisation is a normal form faithful to the decoded path.
  Only statements, non-vacuity examples and the axiom audit live here; lemmas are in SigV4/Lemmas.
-/
import SigV4.Spec.UriSpec
import SigV4.Lemmas.Uri

namespace SigV4.C09

/-- The element normaliser is decode-once-then-encode-once (with the crate's reading of `+`), and
fails with the element's error kind exactly on a malformed escape. -/
theorem normElem_eq_spec (isPath : Bool) (s : Bytes) :
    normElem isPath s = optToOutcome (elemErr isPath) ((pctDecode true s).map pctEncodeAll) := by
  exact SigV4.normElem_eq_spec isPath s

/-- Under the property's reading (`+` is an ordinary byte in a path): holds when the element has no
literal `+`. See `plus_counterexample` for why the hypothesis cannot be dropped on this code. -/
theorem normElem_path_spec_partial (s : Bytes) (h : (0x2B : UInt8) ∉ s) :
    normElem true s = optToOutcome .InvalidURIPath ((pctDecode false s).map pctEncodeAll) := by
  rw [pctDecode_eq_of_no_plus s h]; exact SigV4.normElem_eq_spec true s

/-- The finding: a literal `+` in a path element is canonicalised as a space, not as `%2B`. -/
theorem plus_counterexample :
    normElem true b!"a+b" = .ok b!"a%20b" ∧
    optToOutcome .InvalidURIPath ((pctDecode false b!"a+b").map pctEncodeAll) = .ok b!"a%2Bb" := by
  decide

/-- Every escape is `%` followed by the two upper-case hex digits of the byte. -/
theorem pctEncode_shape (c : UInt8) :
    ∃ h l, pctEncode c = [0x25, h, l] ∧ isUpperHexDigit h = true ∧ isUpperHexDigit l = true ∧
      hexVal h = some (c >>> (4 : UInt8)) ∧ hexVal l = some (c &&& (0xF : UInt8)) := by
  obtain ⟨f1, f2, -, -, -, f6, f7⟩ := pctEncode_facts c
  exact ⟨_, _, rfl, f6, f7, f1, f2⟩

/-- Output alphabet: only unreserved bytes and `%`; a byte is left literal iff it is unreserved. -/
theorem pctEncodeAll_alphabet (d : Bytes) : ∀ c ∈ pctEncodeAll d, isUnreserved c = true ∨ c = 0x25 := by
  exact SigV4.pctEncodeAll_alphabet d

/-- Encoding is injective on decoded strings: decoding the encoding gives the original back,
under either reading of `+` (the encoding never contains a literal `+`). -/
theorem pctDecode_pctEncodeAll (plus : Bool) (d : Bytes) : pctDecode plus (pctEncodeAll d) = some d := by
  exact SigV4.pctDecode_pctEncodeAll plus d

theorem normElem_idempotent (isPath : Bool) (s r : Bytes) (h : normElem isPath s = .ok r) :
    normElem isPath r = .ok r := by
  rw [SigV4.normElem_eq_spec] at h ⊢
  cases hd : pctDecode true s with
  | none => simp [hd] at h
  | some d =>
    simp only [hd, Option.map_some, optToOutcome_some, Outcome.ok.injEq] at h
    subst h
    simp [SigV4.pctDecode_pctEncodeAll]

/-- Two spellings of the same decoded element normalise identically. -/
theorem normElem_respell (isPath : Bool) (s s' : Bytes) (h : pctDecode true s = pctDecode true s') :
    normElem isPath s = normElem isPath s' := by
  rw [SigV4.normElem_eq_spec, SigV4.normElem_eq_spec, h]

/-- The canonical path is the reference normal form, in both modes; failure is `InvalidURIPath`
exactly for relative paths, malformed escapes and (standard mode) climbing above the root. -/
theorem canonPath_eq_ref (s3 : Bool) (p : Bytes) :
    canonPath s3 p = optToOutcome .InvalidURIPath (refPath true s3 p) := by
  exact SigV4.canonPath_eq_ref s3 p

/-- With the property's reading of `+`: holds for paths without a literal `+`. -/
theorem canonPath_spec_partial (s3 : Bool) (p : Bytes) (h : (0x2B : UInt8) ∉ p) :
    canonPath s3 p = optToOutcome .InvalidURIPath (refPath false s3 p) := by
  rw [refPath_no_plus s3 p h]; exact SigV4.canonPath_eq_ref s3 p

theorem canonPath_plus_counterexample :
    canonPath false b!"/a+b" = .ok b!"/a%20b" ∧ refPath false false b!"/a+b" = some b!"/a%2Bb" := by
  decide

theorem canonPath_idempotent (s3 : Bool) (p r : Bytes) (h : canonPath s3 p = .ok r) :
    canonPath s3 r = .ok r := by
  rw [SigV4.canonPath_eq_ref] at h ⊢
  cases hr : refPath true s3 p with
  | none => simp [hr] at h
  | some r' =>
    simp only [hr, optToOutcome_some, Outcome.ok.injEq] at h
    subst h
    rw [refPath_idempotent s3 p r' hr]; rfl

/-- Insensitivity to percent-encoding choices: paths whose raw segments decode alike canonicalise alike. -/
theorem canonPath_respell (s3 : Bool) (p p' : Bytes)
    (h : (splitOn 0x2F p).map (pctDecode true) = (splitOn 0x2F p').map (pctDecode true)) :
    canonPath s3 p = canonPath s3 p' := by
  rw [SigV4.canonPath_eq_ref, SigV4.canonPath_eq_ref, refPath_eq_refOfDecoded, refPath_eq_refOfDecoded, h]

/-- S3 mode preserves every segment: the output has as many segments as the input. -/
theorem canonPath_s3_preserves_segments (p r : Bytes) (hp : p ≠ []) (h : canonPath true p = .ok r) :
    (splitOn 0x2F r).length = (splitOn 0x2F p).length := by
  rw [SigV4.canonPath_eq_ref] at h
  cases hr : refPath true true p with
  | none => simp [hr] at h
  | some r' =>
    simp only [hr, optToOutcome_some, Outcome.ok.injEq] at h
    subst h
    exact canonPath_s3_segments p r' hp hr

/-- In standard mode the output has no empty (except a trailing one), `.` or `..` segment. -/
theorem canonPath_std_no_dot_segments (p r : Bytes) (h : canonPath false p = .ok r) :
    ∀ seg ∈ (splitOn 0x2F r).drop 1, seg ≠ DOT ∧ seg ≠ DOTDOT := by
  rw [SigV4.canonPath_eq_ref] at h
  cases hr : refPath true false p with
  | none => simp [hr] at h
  | some r' =>
    simp only [hr, optToOutcome_some, Outcome.ok.injEq] at h
    subst h
    exact canonPath_std_no_dots p r' hr

/-- Failures are always `InvalidURIPath`; the function never panics. -/
theorem canonPath_err_kind (s3 : Bool) (p : Bytes) :
    (∀ k, canonPath s3 p = .err k → k = .InvalidURIPath) ∧ (∀ site, canonPath s3 p ≠ .panic site) := by
  rw [SigV4.canonPath_eq_ref]
  cases refPath true s3 p with
  | none => exact ⟨fun k hk => (by cases hk; rfl), fun site hs => (by cases hs)⟩
  | some r => exact ⟨fun k hk => (by cases hk), fun site hs => (by cases hs)⟩

-- non-vacuity: the hypotheses above are met by concrete non-trivial inputs
example : canonPath false b!"/a/%2e%2E/b//c/./d%2fe/" = .ok b!"/b/c/d%2Fe/" := by decide
example : canonPath true b!"/a/../b//c" = .ok b!"/a/../b//c" := by decide
example : canonPath false b!"/a/../.." = .err .InvalidURIPath := by decide
example : (0x2B : UInt8) ∉ b!"/a%2Bb" := by decide

end SigV4.C09

#print axioms SigV4.C09.normElem_eq_spec
#print axioms SigV4.C09.normElem_path_spec_partial
#print axioms SigV4.C09.plus_counterexample
#print axioms SigV4.C09.pctEncode_shape
#print axioms SigV4.C09.pctEncodeAll_alphabet
#print axioms SigV4.C09.pctDecode_pctEncodeAll
#print axioms SigV4.C09.normElem_idempotent
#print axioms SigV4.C09.normElem_respell
#print axioms SigV4.C09.canonPath_eq_ref
#print axioms SigV4.C09.canonPath_spec_partial
#print axioms SigV4.C09.canonPath_plus_counterexample
#print axioms SigV4.C09.canonPath_idempotent
#print axioms SigV4.C09.canonPath_respell
#print axioms SigV4.C09.canonPath_s3_preserves_segments
#print axioms SigV4.C09.canonPath_std_no_dot_segments
#print axioms SigV4.C09.canonPath_err_kind
