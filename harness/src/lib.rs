//! Correspondence and oracle harness for the Lean model of scratchstack-aws-signature (library part).
pub mod case;
pub mod corpus;
pub mod driver;
pub mod gen;
pub mod imp;
pub mod props_direct;
pub mod props_runtime;
pub mod props_validate;
pub mod props_validate2;
pub mod props_round7;
pub mod refspec;
pub mod util;

use util::*;

pub struct Ctx {
    pub rng: Rng,
    pub drv: driver::Driver,
    pub rep: Report,
    pub thorough: bool,
    pub seed: u64,
}

impl Ctx {
    /// Scale a count by tier.
    pub fn n(&self, quick: usize, thorough: usize) -> usize {
        let n = if self.thorough { thorough } else { quick };
        // the dependency suite runs at a third of the volume (its exhaustive parts are unaffected)
        if self.rep.dep_mode && n > 6 {
            n / 3
        } else {
            n
        }
    }

    /// The direct crate-vs-model comparisons of every modelled function the validation path uses (path and
    /// query canonicalisation, header values, content type / UTF-8 / labels, timestamps, the freshness and scope
    /// rule, the query-carrier decoder, the byte-level helpers), run on behalf of a property whose theorems are
    /// about the validation as a whole: a change in any of them breaks the correspondence those theorems need.
    pub fn dependency_suite(&mut self) {
        self.rep.dep_mode = true;
        props_direct::c09_direct(self);
        props_direct::c10_direct(self);
        props_validate2::c11_direct(self);
        props_validate2::c12_pieces(self);
        props_direct::c16(self);
        props_validate::c03_prevalidate_sweep(self);
        self.rep.dep_mode = false;
    }
}
