/-
  SigV4.Spec.TimeSpec — the ISO-8601 grammar of property C16 as a *renderer*: a timestamp text is
  the rendering of its fields under some separator/zone style. The parser must accept exactly the
  renderings of in-range fields and give them the reference value.
-/
import SigV4.Model.Time

namespace SigV4

/-- The zone designator as written. -/
inductive ZoneText where
  | z                                                  -- `Z`
  | offset (neg : Bool) (hh mm : Nat) (colon : Bool)   -- `+hh[:]mm` / `-hh[:]mm`
  deriving Repr, DecidableEq

/-- A timestamp as written: field values and the choices the grammar leaves open. -/
structure IsoText where
  year : Nat
  month : Nat
  day : Nat
  hour : Nat
  minute : Nat
  second : Nat
  dash1 : Bool            -- `-` between year and month
  dash2 : Bool            -- `-` between month and day
  colon1 : Bool           -- `:` between hour and minute
  colon2 : Bool           -- `:` between minute and second
  frac : Option (Bool × Bytes)   -- fraction: comma instead of dot, and the digits (at least one)
  zone : ZoneText
  deriving Repr, DecidableEq

def natPad2 (n : Nat) : Bytes := pad2 (n : Int)
def natPad4 (n : Nat) : Bytes := pad4 (n : Int)

def ZoneText.render : ZoneText → Bytes
  | .z => [0x5A]
  | .offset neg hh mm colon =>
    (if neg then 0x2D else 0x2B) :: natPad2 hh ++ (if colon then [0x3A] else []) ++ natPad2 mm

def ZoneText.secs : ZoneText → Int
  | .z => 0
  | .offset neg hh mm _ => (if neg then -1 else 1) * ((hh : Int) * 3600 + (mm : Int) * 60)

def IsoText.render (t : IsoText) : Bytes :=
  natPad4 t.year ++ (if t.dash1 then [0x2D] else []) ++ natPad2 t.month
    ++ (if t.dash2 then [0x2D] else []) ++ natPad2 t.day ++ [0x54]
    ++ natPad2 t.hour ++ (if t.colon1 then [0x3A] else []) ++ natPad2 t.minute
    ++ (if t.colon2 then [0x3A] else []) ++ natPad2 t.second
    ++ (match t.frac with
        | none => []
        | some (comma, ds) => (if comma then 0x2C else 0x2E) :: ds)
    ++ t.zone.render

/-- Lexically well formed: every field has the number of digits and the range the grammar allows
(month 01-12, day 01-31, hour 00-23, minute 00-59, second 00-61 as the pattern admits it, zone
hour 00-23, zone minute 00-59, fraction of at least one digit). Calendar validity is separate. -/
def IsoText.wf (t : IsoText) : Prop :=
  t.year ≤ 9999 ∧ 1 ≤ t.month ∧ t.month ≤ 12 ∧ 1 ≤ t.day ∧ t.day ≤ 31 ∧ t.hour ≤ 23 ∧ t.minute ≤ 59 ∧
  t.second ≤ 61 ∧
  (match t.frac with
   | none => True
   | some (_, ds) => ds ≠ [] ∧ ∀ c ∈ ds, isDigit c = true) ∧
  (match t.zone with
   | .z => True
   | .offset _ hh mm _ => hh ≤ 23 ∧ mm ≤ 59)

def IsoText.toFields (t : IsoText) : IsoFields :=
  { year := t.year, month := t.month, day := t.day, hour := t.hour, minute := t.minute,
    second := t.second, frac := (t.frac.map (·.2)).getD [], offsetSecs := t.zone.secs }

/-- A real calendar date and time of day (no leap second). -/
def IsoText.civilValid (t : IsoText) : Prop :=
  (t.day : Int) ≤ daysInMonth t.year t.month ∧ t.second ≤ 59

/-- Reference value: civil time minus the zone offset, fraction truncated to nanoseconds. -/
def IsoText.value (t : IsoText) : Int :=
  ((daysFromCivil t.year t.month t.day * 86400 + (t.hour : Int) * 3600 + (t.minute : Int) * 60
      + (t.second : Int)) - t.zone.secs) * 1000000000
    + (fracNanos ((t.frac.map (·.2)).getD []) : Int)

end SigV4
