/-
  Property C18 — validation is deterministic and reentrant. PARTIAL: in the model, validation is a
  mathematical function of (request, server time, configuration, provider answer) — purity is its
  type. The content here is that nothing depends on the iteration order of the hash maps the code
  uses (process-random hash seeds) and that validations sharing a provider do not influence each
  other except through the provider. Thread interleavings over the lazily initialised regexes
  cannot be expressed in the model; they are exercised on the real code by the harness (a test).
-/
import SigV4.Spec.ValidateSpec
import SigV4.Spec.UriSpec
import SigV4.Lemmas.C18

namespace SigV4.C18

/-- Two canonical requests that differ only in the order of their hash-map entries. -/
def SameUpToMapOrder (c c' : CanonReq) : Prop :=
  c.method = c'.method ∧ c.path = c'.path ∧ c.bodySha = c'.bodySha ∧
  c.params.Perm c'.params ∧ c.headers.Perm c'.headers ∧
  (c.params.map (·.1)).Nodup ∧ (c.headers.map (·.1)).Nodup

/-- Lookups do not depend on entry order. -/
theorem assocGet_perm {β : Type} (m m' : List (Bytes × β)) (k : Bytes) (h : m.Perm m')
    (hn : (m.map (·.1)).Nodup) : assocGet m k = assocGet m' k := by
  sorry

/-- The canonical request bytes do not depend on hash-map iteration order. -/
theorem canonicalRequest_order_invariant (c c' : CanonReq) (signed : List Bytes) (h : SameUpToMapOrder c c') :
    canonicalRequest c signed = canonicalRequest c' signed := by
  sorry

/-- The requirement loops (which iterate over the header map's keys) do not depend on it either. -/
theorem requirementsMet_order_invariant (reqs : Requirements) (hdrs hdrs' : HeaderMap) (signed : List Bytes)
    (h : hdrs.Perm hdrs') (hn : (hdrs.map (·.1)).Nodup) :
    requirementsMet reqs hdrs signed = requirementsMet reqs hdrs' signed := by
  sorry

/-- Hence the authenticator — and with it the whole outcome — is independent of hash seeds. -/
theorem getAuthenticator_order_invariant (H : Bytes → Bytes) (reqs : Requirements) (c c' : CanonReq)
    (h : SameUpToMapOrder c c') : getAuthenticator H reqs c = getAuthenticator H reqs c' := by
  sorry

/-- The maps the code builds do have unique keys (so the theorems above apply to them). -/
theorem fromRequestParts_unique_keys (H : Bytes → Bytes) (opts : Options) (other : OtherCharset) (req : Request)
    (fp : FromParts) (h : fromRequestParts H opts other req = .ok fp) :
    (fp.creq.params.map (·.1)).Nodup ∧ (fp.creq.headers.map (·.1)).Nodup := by
  sorry

/-- Reentrancy: with a provider whose answers do not depend on its state (a pure key store), the
outcome of a validation is the same wherever it occurs in any history of other validations. -/
theorem outcome_independent_of_history {σ : Type} (H : Bytes → Bytes) (P : Provider σ) (s : σ)
    (before : List (Config × Request)) (cfg : Config) (req : Request)
    (hpure : ∀ st st' pr, (P.ready st).1 = (P.ready st').1 ∧ (P.call st pr).1 = (P.call st' pr).1) :
    (validateMany H P s (before ++ [(cfg, req)])).1.getLast? =
      some ((validate H cfg P s req).out, (validate H cfg P s req).calls) := by
  sorry

end SigV4.C18

#print axioms SigV4.C18.assocGet_perm
#print axioms SigV4.C18.canonicalRequest_order_invariant
#print axioms SigV4.C18.requirementsMet_order_invariant
#print axioms SigV4.C18.getAuthenticator_order_invariant
#print axioms SigV4.C18.fromRequestParts_unique_keys
#print axioms SigV4.C18.outcome_independent_of_history
