/- Helper lemmas for C19. -/
import SigV4.Spec.ValidateSpec
import SigV4.Spec.HeaderSpec
import SigV4.Spec.UriSpec
import SigV4.Lemmas.Headers

namespace SigV4

/-! ### `assocInsert` -/

theorem assocGet_assocInsert {β : Type} (m : List (Bytes × β)) (k' k : Bytes) (v : β) :
    assocGet (assocInsert m k' v) k = if k' = k then some v else assocGet m k := by
  induction m with
  | nil => simp [assocInsert, assocGet]
  | cons e rest ih =>
    obtain ⟨a, b⟩ := e
    unfold assocInsert
    by_cases ha : a = k'
    · subst ha
      simp only [if_true]
      unfold assocGet
      by_cases hk : a = k <;> simp [hk]
    · simp only [ha, if_false]
      unfold assocGet
      rw [ih]
      by_cases hk : a = k
      · have : ¬ k' = k := fun h => ha (hk.trans h.symm)
        simp [hk, this]
      · simp [hk]

/-! ### The Authorization parameter loop -/

/-- The value one parameter contributes for key `k` (after trimming). -/
def paramSel (k : Bytes) (p : Bytes) : Option Bytes :=
  match splitFirst 0x3D (trimAscii p) with
  | (k', some v) => if k' = k then some v else none
  | _ => none

theorem authHeaderParamLoop_get (ps : List Bytes) (m0 m : List (Bytes × Bytes)) (k : Bytes)
    (h : authHeaderParamLoop ps m0 = .ok m) :
    assocGet m k = (ps.reverse.findSome? (paramSel k)).or (assocGet m0 k) := by
  induction ps generalizing m0 with
  | nil =>
    unfold authHeaderParamLoop at h
    cases h
    simp
  | cons p rest ih =>
    unfold authHeaderParamLoop at h
    simp only at h
    rw [List.reverse_cons, List.findSome?_append]
    by_cases hp : trimAscii p = []
    · rw [if_pos hp] at h
      have hsel : paramSel k p = none := by
        unfold paramSel
        rw [hp]
        rfl
      rw [ih m0 h]
      simp [hsel]
    · rw [if_neg hp] at h
      cases hs : splitFirst 0x3D (trimAscii p) with
      | mk k' v? =>
        rw [hs] at h
        cases v? with
        | none => simp at h
        | some v =>
          simp only at h
          have hsel : paramSel k p = if k' = k then some v else none := by
            unfold paramSel
            rw [hs]
          rw [ih _ h, assocGet_assocInsert]
          cases hr : List.findSome? (paramSel k) rest.reverse with
          | some w => simp
          | none =>
            by_cases hk : k' = k <;> simp [hsel, hk]

/-! ### Grouping pairs -/

theorem foldl_assocPush_get (l : List (Bytes × Bytes)) (m0 : QueryMap) (k : Bytes) :
    assocGet (l.foldl (fun m kv => assocPush m kv.1 kv.2) m0) k =
      match assocGet m0 k with
      | some vs => some (vs ++ (l.filter fun kv => kv.1 = k).map (·.2))
      | none =>
        if (l.filter fun kv => kv.1 = k) = [] then none
        else some ((l.filter fun kv => kv.1 = k).map (·.2)) := by
  induction l generalizing m0 with
  | nil => cases hm : assocGet m0 k <;> simp [hm]
  | cons e rest ih =>
    obtain ⟨a, b⟩ := e
    rw [List.foldl_cons, ih, assocGet_assocPush]
    by_cases h : a = k
    · have hf : List.filter (fun kv : Bytes × Bytes => decide (kv.1 = k)) ((a, b) :: rest)
          = (a, b) :: List.filter (fun kv : Bytes × Bytes => decide (kv.1 = k)) rest := by
        simp [h]
      rw [hf]
      simp only [h, if_true]
      cases hm : assocGet m0 k <;> simp
    · have hf : List.filter (fun kv : Bytes × Bytes => decide (kv.1 = k)) ((a, b) :: rest)
          = List.filter (fun kv : Bytes × Bytes => decide (kv.1 = k)) rest := by
        simp [h]
      rw [hf]
      simp only [h, if_false]

theorem groupPairs_get (l : List (Bytes × Bytes)) (k : Bytes) :
    assocGet (groupPairs l) k =
      if (l.filter fun kv => kv.1 = k) = [] then none
      else some ((l.filter fun kv => kv.1 = k).map (·.2)) := by
  unfold groupPairs
  rw [foldl_assocPush_get]
  rfl

end SigV4
