"""keychain.py — third translator stage: the key-derivation chain of src/signing_key.rs.

Reads the ten methods `KSecretKey::{to_kdate,to_kregion,to_kservice,to_ksigning}`, `KDateKey::{to_kregion,to_kservice,
to_ksigning}`, `KRegionKey::{to_kservice,to_ksigning}`, `KServiceKey::to_ksigning` from /repo/src and writes
`SigV4/Source/GeneratedKeys.lean`: each method becomes a pure Lean function over byte strings, parameterised by the hash `H`
(`hmac_sha256(k, m)` becomes `hmac H k m`, the model's HMAC construction).

Understood statement shapes (anything else makes the method `unreadable`, generated as a stub and not counted):
    let [mut] x = EXPR;                       EXPR ::= ARG | hmac_sha256(ARG, ARG) | [0; SHA256_OUTPUT_LEN]
    x.copy_from_slice(y.as_ref());            (x a zeroed [u8; SHA256_OUTPUT_LEN], y a [u8; SHA256_OUTPUT_LEN]: x becomes y)
    Struct { key: x [,] }                     final expression of a deriving step
    self.m1(a, ..).m2(b, ..)…                 final expression of a shortcut
    ARG ::= ident | ident.as_bytes() | ident.as_slice() | ident.as_ref() | ident.format("…%Y%m%d…").to_string()
          | self.key[.as_slice()|.as_ref()] | self.prefixed_key[.as_slice()] | &self.prefixed_key[..self.len]
          | CONST[.as_bytes()]                (a string constant of signing_key.rs)
"""
import os

KEY_TYPES = ["KSecretKey", "KDateKey", "KRegionKey", "KServiceKey"]
METHODS = {"KSecretKey": ["to_kdate", "to_kregion", "to_kservice", "to_ksigning"], "KDateKey": ["to_kregion", "to_kservice", "to_ksigning"],
           "KRegionKey": ["to_kservice", "to_ksigning"], "KServiceKey": ["to_ksigning"]}
RET_OF = {"to_kdate": "KDateKey", "to_kregion": "KRegionKey", "to_kservice": "KServiceKey", "to_ksigning": "KSigningKey"}
LEAN_SELF = {"KSecretKey": "SecretKey", "KDateKey": "Bytes", "KRegionKey": "Bytes", "KServiceKey": "Bytes"}
LEAN_PARAM = {"date": "Int × Int × Int", "str": "Bytes"}


class KErr(Exception):
    pass


def is_p(t, v): return t.k == "p" and t.v == v
def is_id(t, v=None): return t.k == "id" and (v is None or t.v == v)


def impl_block(S, toks, ty):
    """Tokens inside the inherent `impl Ty { … }` (no generics, no trait)."""
    i = S.find_seq(toks, [("id", "impl"), ("id", ty), ("p", "{")])
    if i < 0:
        raise KErr("no inherent impl for " + ty)
    e = S.matching(toks, i + 2)
    return toks[i + 3:e]


def split_top(S, toks, sep):
    out, cur, d = [], [], 0
    for t in toks:
        if t.k == "p" and t.v in "([{": d += 1
        elif t.k == "p" and t.v in ")]}": d -= 1
        if d == 0 and is_p(t, sep):
            out.append(cur); cur = []
        else:
            cur.append(t)
    if cur:
        out.append(cur)
    return out


def parse_params(S, ptoks):
    parts = split_top(S, ptoks, ",")
    if not parts or not (len(parts[0]) == 2 and is_p(parts[0][0], "&") and is_id(parts[0][1], "self")):
        raise KErr("first parameter is not &self")
    res = []
    for p in parts[1:]:
        if len(p) == 3 and is_id(p[0]) and is_p(p[1], ":") and is_id(p[2], "NaiveDate"):
            res.append((p[0].v, "date"))
        elif len(p) == 4 and is_id(p[0]) and is_p(p[1], ":") and is_p(p[2], "&") and is_id(p[3], "str"):
            res.append((p[0].v, "str"))
        else:
            raise KErr("parameter shape")
    return res


class Ctx:
    def __init__(self, S, ty, env, consts, fmt_ok):
        self.S, self.ty, self.env, self.consts = S, ty, dict(env), consts
        self.zeroed = set()


def lean_lit(bs):
    return "[" + ", ".join("0x%02X" % b for b in bs) + "]"


def arg(cx, ts):
    """Translate ARG; returns (lean text, kind) with kind in {'bytes', 'date'}."""
    ts = list(ts)
    # &self.prefixed_key[..self.len]
    if len(ts) == 10 and is_p(ts[0], "&") and is_id(ts[1], "self") and is_p(ts[2], ".") and is_id(ts[3], "prefixed_key") and is_p(ts[4], "[") \
            and is_p(ts[5], "..") and is_id(ts[6], "self") and is_p(ts[7], ".") and is_id(ts[8], "len") and is_p(ts[9], "]"):
        if cx.ty != "KSecretKey": raise KErr("prefixed_key on " + cx.ty)
        return "(self.buf.take self.len)", "bytes"
    # strip the view conversions
    while len(ts) >= 4 and is_p(ts[-1], ")") and is_p(ts[-2], "(") and is_id(ts[-3]) and ts[-3].v in ("as_bytes", "as_slice", "as_ref") and is_p(ts[-4], "."):
        ts = ts[:-4]
    if len(ts) == 3 and is_id(ts[0], "self") and is_p(ts[1], ".") and is_id(ts[2]):
        if ts[2].v == "prefixed_key" and cx.ty == "KSecretKey": return "self.buf", "bytes"
        if ts[2].v == "key" and cx.ty != "KSecretKey": return "self", "bytes"
        raise KErr("field " + ts[2].v)
    if len(ts) == 1 and is_id(ts[0]):
        n = ts[0].v
        if n in cx.env:
            return cx.env[n]
        if n in cx.consts:
            return lean_lit(cx.consts[n]), "bytes"
        raise KErr("unknown name " + n)
    # ident.format("…").to_string()
    if len(ts) == 10 and is_id(ts[0]) and is_p(ts[1], ".") and is_id(ts[2], "format") and is_p(ts[3], "(") and ts[4].k == "str" and is_p(ts[5], ")") \
            and is_p(ts[6], ".") and is_id(ts[7], "to_string") and is_p(ts[8], "(") and is_p(ts[9], ")"):
        n = ts[0].v
        if cx.env.get(n, (None, None))[1] != "date": raise KErr("format on a non-date")
        spec = bytes(ts[4].v)
        i = 0
        while i < len(spec):
            if spec[i] == 0x25:
                if i + 1 >= len(spec) or chr(spec[i + 1]) not in "Ymd": raise KErr("format directive")
                i += 2
            else:
                i += 1
        return f"(Rust.Chrono.formatDate {lean_lit(spec)} {cx.env[n][0]})", "bytes"
    raise KErr("argument shape: " + " ".join(str(t.v) for t in ts))


def expr(cx, ts):
    if len(ts) >= 4 and is_id(ts[0], "hmac_sha256") and is_p(ts[1], "(") and cx.S.matching(ts, 1) == len(ts) - 1:
        parts = split_top(cx.S, ts[2:-1], ",")
        if len(parts) != 2: raise KErr("hmac arity")
        a, ka = arg(cx, parts[0]); b, kb = arg(cx, parts[1])
        if ka != "bytes" or kb != "bytes": raise KErr("hmac of a date")
        return f"hmac H {a} {b}", "bytes32"
    if len(ts) == 5 and is_p(ts[0], "[") and ts[1].k == "num" and str(ts[1].v) == "0" and is_p(ts[2], ";") and is_id(ts[3], "SHA256_OUTPUT_LEN") and is_p(ts[4], "]"):
        return None, "zeroed32"
    return arg(cx, ts)


def chain(cx, ts, known):
    """self.m1(args).m2(args)…  ->  nested calls of already translated methods."""
    if not (is_id(ts[0], "self") and is_p(ts[1], ".")): raise KErr("final expression")
    cur, cur_ty, i = "self", cx.ty, 1
    while i < len(ts):
        if not (is_p(ts[i], ".") and is_id(ts[i + 1]) and is_p(ts[i + 2], "(")): raise KErr("chain shape")
        m = ts[i + 1].v
        e = cx.S.matching(ts, i + 2)
        args = [arg(cx, a) for a in split_top(cx.S, ts[i + 3:e], ",")]
        sig = known.get((cur_ty, m))
        if sig is None: raise KErr(f"call of untranslated {cur_ty}::{m}")
        if [k for _, k in args] != ["date" if k == "date" else "bytes" for k in sig]: raise KErr("argument kinds")
        cur = f"({cur_ty}.{m} H {cur} " + " ".join(a for a, _ in args) + ")" if args else f"({cur_ty}.{m} H {cur})"
        cur_ty = RET_OF[m]
        i = e + 1
    return cur, cur_ty


def translate_method(S, ty, name, ptoks, rtoks, btoks, consts, known):
    params = parse_params(S, ptoks)
    if not (len(rtoks) == 1 and is_id(rtoks[0], RET_OF[name])): raise KErr("return type")
    env = {n: (n + "_", "date" if k == "date" else "bytes") for n, k in params}
    cx = Ctx(S, ty, env, consts, True)
    lines = []
    stmts = split_top(S, btoks, ";")
    final = stmts[-1] if btoks and not is_p(btoks[-1], ";") else None
    body = stmts[:-1] if final is not None else stmts
    if final is None: raise KErr("no final expression")
    fresh = [0]
    for st in body:
        if is_id(st[0], "let"):
            j = 1
            if is_id(st[j], "mut"): j += 1
            if not (is_id(st[j]) and is_p(st[j + 1], "=")): raise KErr("let shape")
            n = st[j].v
            tx, kind = expr(cx, st[j + 2:])
            if kind == "zeroed32":
                cx.zeroed.add(n); cx.env.pop(n, None)
                continue
            cx.zeroed.discard(n)
            fresh[0] += 1
            v = f"{n}_{fresh[0]}"
            lines.append(f"  let {v} := {tx}")
            cx.env[n] = (v, "date" if kind == "date" else ("bytes32" if kind == "bytes32" else "bytes"))
            if kind == "bytes32": cx.env[n] = (v, "bytes"); cx.env["#32:" + n] = True
        elif len(st) >= 6 and is_id(st[0]) and is_p(st[1], ".") and is_id(st[2], "copy_from_slice") and is_p(st[3], "("):
            dst = st[0].v
            inner = st[4:-1]
            if not (len(inner) == 5 and is_id(inner[0]) and is_p(inner[1], ".") and is_id(inner[2], "as_ref") and is_p(inner[3], "(") and is_p(inner[4], ")")):
                raise KErr("copy_from_slice source")
            src = inner[0].v
            if dst not in cx.zeroed or ("#32:" + src) not in cx.env: raise KErr("copy_from_slice of unequal or unknown lengths")
            cx.zeroed.discard(dst)
            cx.env[dst] = cx.env[src]; cx.env["#32:" + dst] = True
        else:
            raise KErr("statement shape: " + " ".join(str(t.v) for t in st[:6]))
    # final expression
    if is_id(final[0], RET_OF[name]) and is_p(final[1], "{"):
        inner = final[2:-1]
        if inner and is_p(inner[-1], ","): inner = inner[:-1]
        if not (len(inner) == 3 and is_id(inner[0], "key") and is_p(inner[1], ":") and is_id(inner[2])): raise KErr("struct literal")
        n = inner[2].v
        if ("#32:" + n) not in cx.env: raise KErr("key field is not a 32-byte value")
        res = cx.env[n][0]
    else:
        res, rty = chain(cx, final, known)
        if rty != RET_OF[name]: raise KErr("chain ends in " + rty)
    sig = " ".join(f"({n}_ : {LEAN_PARAM[k]})" for n, k in params)
    head = f"def {ty}.{name} (H : Bytes → Bytes) (self : {LEAN_SELF[ty]})" + (" " + sig if sig else "") + " : Bytes :="
    return "\n".join([head] + lines + [f"  {res}"]), [k for _, k in params]


# ---------------------------------------------------------------------------------------------- KSecretKey::from_str

def nat_expr(S, ts, env):
    """usize expression over `M`, locals and literals with + - < > <= >= || -> Lean term of type Option Nat / Option Bool."""
    def split_last(ts, ops):
        d = 0
        for i in range(len(ts) - 1, -1, -1):
            t = ts[i]
            if t.k == "p" and t.v in ")]}": d += 1
            elif t.k == "p" and t.v in "([{": d -= 1
            elif d == 0 and t.k == "p" and t.v in ops and i > 0:
                return i
        return -1
    i = split_last(ts, ["||"])
    if i > 0:
        return f"(Rust.Keys.or {nat_expr(S, ts[:i], env)} (fun _ => {nat_expr(S, ts[i + 1:], env)}))"
    i = split_last(ts, ["<", ">", "<=", ">="])
    if i > 0:
        a, b, op = nat_expr(S, ts[:i], env), nat_expr(S, ts[i + 1:], env), ts[i].v
        return {"<": f"(Rust.Keys.lt {a} {b})", ">": f"(Rust.Keys.lt {b} {a})", "<=": f"(Rust.Keys.le {a} {b})", ">=": f"(Rust.Keys.le {b} {a})"}[op]
    i = split_last(ts, ["+", "-"])
    if i > 0:
        a, b = nat_expr(S, ts[:i], env), nat_expr(S, ts[i + 1:], env)
        return f"(Rust.Keys.{'add' if ts[i].v == '+' else 'sub'} {a} {b})"
    if len(ts) == 1 and ts[0].k == "num":
        return f"(some {int(ts[0].v)})"
    if len(ts) == 1 and is_id(ts[0]) and ts[0].v in env:
        return f"(some {env[ts[0].v]})"
    if len(ts) >= 3 and is_p(ts[0], "(") and S.matching(ts, 0) == len(ts) - 1:
        return nat_expr(S, ts[1:-1], env)
    raise KErr("usize expression")


def translate_from_str(S, toks):
    i = S.find_seq(toks, [("id", "impl"), ("p", "<"), ("id", "const"), ("id", "M"), ("p", ":"), ("id", "usize"), ("p", ">"), ("id", "FromStr"),
                          ("id", "for"), ("id", "KSecretKey"), ("p", "<"), ("id", "M"), ("p", ">"), ("p", "{")])
    if i < 0: raise KErr("impl FromStr")
    blk = toks[i + 14:S.matching(toks, i + 13)]
    sig = S.fn_sig(blk, "from_str")
    if sig is None: raise KErr("from_str")
    p = sig[0]
    if not (len(p) == 4 and is_id(p[0]) and is_p(p[1], ":") and is_p(p[2], "&") and is_id(p[3], "str")): raise KErr("parameter")
    raw = p[0].v
    if [str(t.v) for t in sig[1]] != ["Result", "<", "Self", ",", "KeyTooLongError", ">"]: raise KErr("return type")
    body = sig[2]
    env, bufs, lines, k = {"M": "M"}, {}, [], 0
    n = [0]
    def fresh(x):
        n[0] += 1
        return f"{x}_{n[0]}"
    while k < len(body):
        t = body[k]
        if is_id(t, "let"):
            e, dpt = k, 0
            while not (dpt == 0 and is_p(body[e], ";")):
                if body[e].k == "p" and body[e].v in "([{": dpt += 1
                elif body[e].k == "p" and body[e].v in ")]}": dpt -= 1
                e += 1
            st = body[k + 1:e]
            if is_id(st[0], "mut"): st = st[1:]
            if not (is_id(st[0]) and is_p(st[1], "=")): raise KErr("let")
            name, rhs = st[0].v, st[2:]
            if len(rhs) == 5 and is_id(rhs[0], raw) and is_p(rhs[1], ".") and is_id(rhs[2], "len") and is_p(rhs[3], "(") and is_p(rhs[4], ")"):
                v = fresh(name); lines.append(f"  let {v} := {raw}_.length"); env[name] = v
            elif len(rhs) == 5 and is_p(rhs[0], "[") and rhs[1].k == "num" and int(rhs[1].v) == 0 and is_p(rhs[2], ";") and is_id(rhs[3], "M") and is_p(rhs[4], "]"):
                v = fresh(name); lines.append(f"  let {v} := List.replicate M (0 : UInt8)"); bufs[name] = v
            else:
                v = fresh(name); lines.append(f"  let {v} ← {nat_expr(S, rhs, env)}"); env[name] = v
            k = e + 1
        elif is_id(t, "if"):
            b = k + 1
            while not is_p(body[b], "{"): b += 1
            e = S.matching(body, b)
            inner = [str(x.v) for x in body[b + 1:e]]
            if inner != ["return", "Err", "(", "KeyTooLongError", ")", ";"]: raise KErr("if body")
            lines.append(f"  if (← {nat_expr(S, body[k + 1:b], env)}) then return (Except.error () : Except Unit SecretKey)")
            k = e + 1
        elif is_id(t) and t.v in bufs and is_p(body[k + 1], "["):
            e = S.matching(body, k + 1)
            rng = body[k + 2:e]
            d = [j for j, x in enumerate(rng) if is_p(x, "..")]
            if len(d) != 1: raise KErr("range")
            lo = nat_expr(S, rng[:d[0]], env) if d[0] > 0 else "(some 0)"
            if d[0] + 1 >= len(rng): raise KErr("open range")
            hi = nat_expr(S, rng[d[0] + 1:], env)
            if not (is_p(body[e + 1], ".") and is_id(body[e + 2], "copy_from_slice") and is_p(body[e + 3], "(")): raise KErr("slice use")
            ce = S.matching(body, e + 3)
            src = body[e + 4:ce]
            if len(src) == 1 and src[0].k == "bstr":
                stx = lean_lit(bytes(src[0].v))
            elif len(src) == 5 and is_id(src[0], raw) and is_p(src[1], ".") and is_id(src[2], "as_bytes") and is_p(src[3], "(") and is_p(src[4], ")"):
                stx = raw + "_"
            else:
                raise KErr("copy source")
            if not is_p(body[ce + 1], ";"): raise KErr("statement end")
            v = fresh(t.v); lines.append(f"  let {v} ← Rust.Keys.copyInto {bufs[t.v]} {lo} {hi} {stx}"); bufs[t.v] = v
            k = ce + 2
        elif is_id(t, "Ok") and is_p(body[k + 1], "("):
            e = S.matching(body, k + 1)
            if e != len(body) - 1: raise KErr("Ok not last")
            inner = body[k + 2:e]
            if not (is_id(inner[0], "Self") and is_p(inner[1], "{") and S.matching(inner, 1) == len(inner) - 1): raise KErr("Ok shape")
            fields = split_top(S, inner[2:-1], ",")
            buf = ln = None
            for f in fields:
                if len(f) == 1 and is_id(f[0], "prefixed_key"): buf = bufs.get("prefixed_key")
                elif len(f) >= 3 and is_id(f[0], "prefixed_key") and is_p(f[1], ":") and len(f) == 3 and is_id(f[2]): buf = bufs.get(f[2].v)
                elif len(f) >= 3 and is_id(f[0], "len") and is_p(f[1], ":"): ln = nat_expr(S, f[2:], env)
                elif len(f) == 1 and is_id(f[0], "len"): ln = f"(some {env['len']})"
                else: raise KErr("field")
            if buf is None or ln is None: raise KErr("fields")
            lines.append(f"  return Except.ok {{ buf := {buf}, len := (← {ln}) }})")
            k = e + 1
        else:
            raise KErr("statement: " + str(t.v))
    if not lines or not lines[-1].startswith("  return Except.ok"): raise KErr("no Ok")
    return "\n".join([f"def KSecretKey.from_str (M : Nat) ({raw}_ : Bytes) : KeyOutcome := Rust.Keys.finish (do"] + lines)


def translate_as_ref(S, toks):
    """`impl AsRef<[u8]> for KSecretKey { fn as_ref(&self) -> &[u8] { &self.prefixed_key[LO..HI] } }`"""
    i = S.find_seq(toks, [("id", "impl"), ("id", "AsRef"), ("p", "<"), ("p", "["), ("id", "u8"), ("p", "]"), ("p", ">"), ("id", "for"), ("id", "KSecretKey"), ("p", "{")])
    if i < 0: raise KErr("impl AsRef")
    blk = toks[i + 10:S.matching(toks, i + 9)]
    sig = S.fn_sig(blk, "as_ref")
    if sig is None: raise KErr("as_ref")
    if [str(t.v) for t in sig[0]] != ["&", "self"] or [str(t.v) for t in sig[1]] != ["&", "[", "u8", "]"]: raise KErr("signature")
    b = sig[2]
    if not (len(b) >= 7 and is_p(b[0], "&") and is_id(b[1], "self") and is_p(b[2], ".") and is_id(b[3], "prefixed_key") and is_p(b[4], "[")
            and S.matching(b, 4) == len(b) - 1): raise KErr("body")
    rng = b[5:-1]
    # `self.len` is the only field allowed inside the range
    flat, j = [], 0
    while j < len(rng):
        if is_id(rng[j], "self") and j + 2 < len(rng) and is_p(rng[j + 1], ".") and is_id(rng[j + 2], "len"):
            t = S.Tok("id", "self_len", rng[j].pos); flat.append(t); j += 3
        else:
            flat.append(rng[j]); j += 1
    d = [j for j, x in enumerate(flat) if is_p(x, "..")]
    if len(d) != 1: raise KErr("range")
    env = {"self_len": "self.len"}
    lo = nat_expr(S, flat[:d[0]], env) if d[0] > 0 else "(some 0)"
    hi = nat_expr(S, flat[d[0] + 1:], env) if d[0] + 1 < len(flat) else "(some self.buf.length)"
    return f"def KSecretKey.as_ref (self : SecretKey) : Option Bytes :=\n  Rust.Keys.slice self.buf {lo} {hi}"


def lean_type(ty, kinds):
    return "(Bytes → Bytes) → " + LEAN_SELF[ty] + " → " + "".join(f"({LEAN_PARAM[k]}) → " for k in kinds) + "Bytes"


DEFAULT_KINDS = {("KSecretKey", "to_kdate"): ["date"], ("KSecretKey", "to_kregion"): ["date", "str"], ("KSecretKey", "to_kservice"): ["date", "str", "str"],
                 ("KSecretKey", "to_ksigning"): ["date", "str", "str"], ("KDateKey", "to_kregion"): ["str"], ("KDateKey", "to_kservice"): ["str", "str"],
                 ("KDateKey", "to_ksigning"): ["str", "str"], ("KRegionKey", "to_kservice"): ["str"], ("KRegionKey", "to_ksigning"): ["str"],
                 ("KServiceKey", "to_ksigning"): []}


def generate_keys(S, repo):
    items, defs, wraps = {}, [], []
    try:
        toks = S.lex(open(os.path.join(repo, "src", "signing_key.rs"), encoding="utf-8").read())
        ctoks = S.lex(open(os.path.join(repo, "src", "crypto.rs"), encoding="utf-8").read())
        consts = {}
        i = 0
        while True:                                                     # `const NAME: &str = "…";`
            i = S.find_seq(toks, [("id", "const"), ("id", None), ("p", ":"), ("p", "&"), ("id", "str"), ("p", "="), ("str", None), ("p", ";")], i)
            if i < 0: break
            v = toks[i + 6].v
            consts[toks[i + 1].v] = bytes(v)
            i += 1
        # hmac_sha256 must be declared to return [u8; SHA256_OUTPUT_LEN] and the constant must be 32
        sig = S.fn_sig(ctoks, "hmac_sha256")
        ok32 = sig is not None and [str(t.v) for t in sig[1]] == ["[", "u8", ";", "SHA256_OUTPUT_LEN", "]"] and \
            S.find_seq(ctoks, [("id", "const"), ("id", "SHA256_OUTPUT_LEN"), ("p", ":"), ("id", "usize"), ("p", "="), ("num", None), ("p", ";")]) >= 0
        if ok32:
            j = S.find_seq(ctoks, [("id", "const"), ("id", "SHA256_OUTPUT_LEN"), ("p", ":"), ("id", "usize"), ("p", "=")])
            ok32 = str(ctoks[j + 5].v) == "32"
    except Exception:                                                   # noqa
        toks, ok32, consts = None, False, {}
    known = {}
    order = [("KServiceKey", "to_ksigning"), ("KRegionKey", "to_kservice"), ("KRegionKey", "to_ksigning"), ("KDateKey", "to_kregion"),
             ("KDateKey", "to_kservice"), ("KDateKey", "to_ksigning"), ("KSecretKey", "to_kdate"), ("KSecretKey", "to_kregion"),
             ("KSecretKey", "to_kservice"), ("KSecretKey", "to_ksigning")]
    for ty, name in order:
        key = f"signing_key.{ty}.{name}"
        text, kinds = None, DEFAULT_KINDS[(ty, name)]
        if toks is not None and ok32:
            try:
                blk = impl_block(S, toks, ty)
                sig = S.fn_sig(blk, name)
                if sig is None: raise KErr("no such method")
                text, got = translate_method(S, ty, name, sig[0], sig[1], sig[2], consts, known)
                if got != kinds:
                    text = None
                else:
                    known[(ty, name)] = kinds
            except Exception:                                           # noqa
                text = None
        lt = lean_type(ty, kinds)
        if text:
            defs.append(text + "\n")
            wraps.append(f"def signing_key.{ty}_{name}? : Option ({lt}) := some keys.{ty}.{name}")
            items[key] = "read"
        else:
            under = " ".join("_" for _ in range(2 + len(kinds)))
            defs.append(f"def {ty}.{name} : {lt} := fun {under} => []   -- stub: the method is outside the translator's subset on this tree\n")
            wraps.append(f"def signing_key.{ty}_{name}? : Option ({lt}) := none   -- outside the translator's subset on this tree")
            items[key] = "unreadable"
    try:
        ftext = translate_from_str(S, toks) if toks is not None else None
    except Exception:                                                   # noqa
        ftext = None
    if ftext:
        defs.append(ftext + "\n")
        wraps.append("def signing_key.KSecretKey_from_str? : Option (Nat → Bytes → KeyOutcome) := some keys.KSecretKey.from_str")
        items["signing_key.KSecretKey.from_str"] = "read"
    else:
        defs.append("def KSecretKey.from_str : Nat → Bytes → KeyOutcome := fun _ _ => .panic \"untranslated\"   -- stub\n")
        wraps.append("def signing_key.KSecretKey_from_str? : Option (Nat → Bytes → KeyOutcome) := none   -- outside the translator's subset on this tree")
        items["signing_key.KSecretKey.from_str"] = "unreadable"
    try:
        atext = translate_as_ref(S, toks) if toks is not None else None
    except Exception:                                                   # noqa
        atext = None
    if atext:
        defs.append(atext + "\n")
        wraps.append("def signing_key.KSecretKey_as_ref? : Option (SecretKey → Option Bytes) := some keys.KSecretKey.as_ref")
        items["signing_key.KSecretKey.as_ref"] = "read"
    else:
        defs.append("def KSecretKey.as_ref : SecretKey → Option Bytes := fun _ => none   -- stub\n")
        wraps.append("def signing_key.KSecretKey_as_ref? : Option (SecretKey → Option Bytes) := none   -- outside the translator's subset on this tree")
        items["signing_key.KSecretKey.as_ref"] = "unreadable"
    header = [
        "/-",
        "  GENERATED by /verif/srcgen/srcgen.py (keychain.py) from /repo/src/signing_key.rs — do not edit; regenerated on every",
        "  run of ./check.  Each function is the translation of the Rust method of the same name: a key object is its 32-byte",
        "  `key` field (a `KSecretKey` its buffer and length), `hmac_sha256(k, m)` is `hmac H k m` for an arbitrary hash `H`.",
        "-/",
        "import SigV4.Model.Keys",
        "import SigV4.Source.RustKeys",
        "",
        "set_option linter.unusedVariables false",
        "",
        "namespace SigV4.Src.keys",
        "",
    ]
    text = "\n".join(header + defs + ["end SigV4.Src.keys", "", "namespace SigV4.Src", ""] + wraps + ["", "end SigV4.Src", ""])
    return text, items
