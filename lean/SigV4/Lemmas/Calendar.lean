/- Calendar arithmetic: daysFromCivil / civilFromDays are mutually inverse; compact rendering. -/
import SigV4.Spec.TimeSpec

namespace SigV4

namespace Cal

/-- The year-of-era formula of `civil_from_days` is correct: it yields a year of era whose first
day is at or before `doe`, and `doe` is within that (March-based) year. -/
theorem yoe_spec (doe yoe : Int) (h0 : 0 ≤ doe) (h1 : doe ≤ 146096)
    (hy : yoe = (doe - doe / 1460 + doe / 36524 - doe / 146096) / 365) :
    0 ≤ yoe ∧ yoe ≤ 399 ∧ 0 ≤ doe - (365 * yoe + yoe / 4 - yoe / 100) ∧
    doe - (365 * yoe + yoe / 4 - yoe / 100) ≤ 365 ∧
    (doe - (365 * yoe + yoe / 4 - yoe / 100) = 365 →
      (yoe % 4 = 3 ∧ (yoe % 100 ≠ 99 ∨ yoe = 399))) := by
  by_cases hlast : doe = 146096
  · subst hlast; subst hy; decide
  obtain ⟨c, r, hc, hr0, hr1⟩ : ∃ c r : Int, doe = 36524 * c + r ∧ 0 ≤ r ∧ r < 36524 :=
    ⟨doe / 36524, doe % 36524, by omega, by omega, by omega⟩
  obtain ⟨q, s, hq, hs0, hs1⟩ : ∃ q s : Int, r = 1461 * q + s ∧ 0 ≤ s ∧ s < 1461 :=
    ⟨r / 1461, r % 1461, by omega, by omega, by omega⟩
  have hc0 : 0 ≤ c := by omega
  have hc4 : c ≤ 3 := by omega
  have hq0 : 0 ≤ q := by omega
  have hq4 : q ≤ 24 := by omega
  have he : doe / 36524 = c := by omega
  have hf : doe / 146096 = 0 := by omega
  by_cases hδ : 24 * c + q + s < 1460
  · have hd : doe / 1460 = 25 * c + q := by omega
    rw [hd, he, hf] at hy
    obtain ⟨y1, hy1, hy1a, hy1b⟩ : ∃ y1 : Int, y1 = s / 365 ∧ 0 ≤ y1 ∧ y1 ≤ 3 :=
      ⟨_, rfl, by omega, by omega⟩
    have hb : yoe = 100 * c + 4 * q + y1 := by omega
    have hg : yoe / 4 = 25 * c + q := by omega
    have hh : yoe / 100 = c := by omega
    rw [hg, hh]
    omega
  · have hd : doe / 1460 = 25 * c + q + 1 := by omega
    rw [hd, he, hf] at hy
    have hb : yoe = 100 * c + 4 * q + 3 := by omega
    have hg : yoe / 4 = 25 * c + q := by omega
    have hh : yoe / 100 = c := by omega
    rw [hg, hh]
    omega

theorem isLeapYear_iff (y : Int) :
    isLeapYear y = true ↔ (y % 4 = 0 ∧ y % 100 ≠ 0) ∨ y % 400 = 0 := by
  simp [isLeapYear]

/-- `civilFromDays` in relational form. -/
theorem civilFromDays_of (z era doe yoe doy mp : Int)
    (hz : z + 719468 = era * 146097 + doe) (hd0 : 0 ≤ doe) (hd1 : doe ≤ 146096)
    (hyoe : (doe - doe / 1460 + doe / 36524 - doe / 146096) / 365 = yoe)
    (hdoy : doe - (365 * yoe + yoe / 4 - yoe / 100) = doy)
    (hmp : (5 * doy + 2) / 153 = mp) :
    civilFromDays z =
      (if (if mp < 10 then mp + 3 else mp - 9) ≤ 2 then yoe + era * 400 + 1 else yoe + era * 400,
        if mp < 10 then mp + 3 else mp - 9, doy - (153 * mp + 2) / 5 + 1) := by
  have hera : (z + 719468) / 146097 = era := by omega
  have hdoe : z + 719468 - era * 146097 = doe := by omega
  simp only [civilFromDays, hera, hdoe, hyoe, hdoy, hmp]

/-- The year of era is recovered from the day of era. -/
theorem yoe_unique (yoe doy : Int) (h0 : 0 ≤ yoe) (h1 : yoe ≤ 399) (hd0 : 0 ≤ doy) (hd1 : doy ≤ 365)
    (hleap : doy = 365 → (yoe % 4 = 3 ∧ (yoe % 100 ≠ 99 ∨ yoe = 399))) (doe : Int)
    (hdoe : doe = yoe * 365 + yoe / 4 - yoe / 100 + doy) :
    0 ≤ doe ∧ doe ≤ 146096 ∧ (doe - doe / 1460 + doe / 36524 - doe / 146096) / 365 = yoe := by
  have hb0 : 0 ≤ doe := by omega
  have hb1 : doe ≤ 146096 := by omega
  refine ⟨hb0, hb1, ?_⟩
  generalize hy : (doe - doe / 1460 + doe / 36524 - doe / 146096) / 365 = yoe'
  obtain ⟨hy0, hy1, hdy0, hdy1, hleap'⟩ := yoe_spec doe yoe' hb0 hb1 hy.symm
  clear hy
  have hsplit : yoe' ≤ yoe - 2 ∨ yoe' = yoe - 1 ∨ yoe' = yoe ∨ yoe' = yoe + 1 ∨ yoe + 2 ≤ yoe' := by
    omega
  rcases hsplit with h | h | h | h | h
  · exfalso; omega
  · exfalso; subst h
    have e4 : (yoe - 1) / 4 = yoe / 4 - (if yoe % 4 = 0 then 1 else 0) := by split <;> omega
    have e100 : (yoe - 1) / 100 = yoe / 100 - (if yoe % 100 = 0 then 1 else 0) := by
      split <;> omega
    rw [e4, e100] at hdy0 hdy1 hleap'
    by_cases h4 : yoe % 4 = 0 <;> by_cases h100 : yoe % 100 = 0 <;> simp only [h4, h100, if_true, if_false] at hdy0 hdy1 hleap' <;> omega
  · exact h
  · exfalso; subst h
    have e4 : (yoe + 1) / 4 = yoe / 4 + (if yoe % 4 = 3 then 1 else 0) := by split <;> omega
    have e100 : (yoe + 1) / 100 = yoe / 100 + (if yoe % 100 = 99 then 1 else 0) := by
      split <;> omega
    rw [e4, e100] at hdy0 hdy1 hleap'
    by_cases h4 : yoe % 4 = 3 <;> by_cases h100 : yoe % 100 = 99 <;> simp only [h4, h100, if_true, if_false] at hdy0 hdy1 hleap' <;> omega
  · exfalso; omega

end Cal

theorem civilFromDays_daysFromCivil (y m d : Int) (hm : 1 ≤ m ∧ m ≤ 12)
    (hd : 1 ≤ d ∧ d ≤ daysInMonth y m) :
    civilFromDays (daysFromCivil y m d) = (y, m, d) := by
  obtain ⟨hd1, hd2⟩ := hd
  obtain ⟨y', hy'⟩ : ∃ y' : Int, (if m ≤ 2 then y - 1 else y) = y' := ⟨_, rfl⟩
  obtain ⟨era, yoe, hyy, hy0, hy1⟩ : ∃ era yoe : Int, y' = era * 400 + yoe ∧ 0 ≤ yoe ∧ yoe ≤ 399 :=
    ⟨y' / 400, y' % 400, by omega, by omega, by omega⟩
  obtain ⟨mp, hmp⟩ : ∃ mp : Int, (if m > 2 then m - 3 else m + 9) = mp := ⟨_, rfl⟩
  obtain ⟨doy, hdoy⟩ : ∃ doy : Int, (153 * mp + 2) / 5 + d - 1 = doy := ⟨_, rfl⟩
  have hE : y' / 400 = era := by omega
  have hS : y' - era * 400 = yoe := by omega
  have hdfc : daysFromCivil y m d =
      era * 146097 + (yoe * 365 + yoe / 4 - yoe / 100 + doy) - 719468 := by
    simp only [daysFromCivil, hy', hmp, hE, hS, hdoy]
  have hcases : m = 1 ∨ m = 2 ∨ m = 3 ∨ m = 4 ∨ m = 5 ∨ m = 6 ∨ m = 7 ∨ m = 8 ∨ m = 9 ∨
      m = 10 ∨ m = 11 ∨ m = 12 := by omega
  have key : 0 ≤ doy ∧ doy ≤ 365 ∧ (doy = 365 → (yoe % 4 = 3 ∧ (yoe % 100 ≠ 99 ∨ yoe = 399))) ∧
      (5 * doy + 2) / 153 = mp ∧ (if mp < 10 then mp + 3 else mp - 9) = m ∧
      doy - (153 * mp + 2) / 5 + 1 = d ∧
      (if m ≤ 2 then yoe + era * 400 + 1 else yoe + era * 400) = y := by
    clear hdfc hE hS
    rcases hcases with h | h | h | h | h | h | h | h | h | h | h | h <;> subst h <;>
      simp [daysInMonth, Cal.isLeapYear_iff] at hd2 hy' hmp ⊢ <;> subst hmp <;>
      simp at hdoy ⊢ <;> (try split at hd2) <;> omega
  obtain ⟨k0, k1, kleap, kmp, km, kd, ky⟩ := key
  obtain ⟨hb0, hb1, hyoe⟩ := Cal.yoe_unique yoe doy hy0 hy1 k0 k1 kleap _ rfl
  rw [hdfc, Cal.civilFromDays_of _ era _ yoe doy mp (by omega) hb0 hb1 hyoe (by omega) kmp]
  rw [km, kd, ky]

theorem daysFromCivil_civilFromDays (z : Int) :
    let c := civilFromDays z
    daysFromCivil c.1 c.2.1 c.2.2 = z ∧ 1 ≤ c.2.1 ∧ c.2.1 ≤ 12 ∧ 1 ≤ c.2.2 ∧ c.2.2 ≤ daysInMonth c.1 c.2.1 := by
  intro c
  obtain ⟨era, doe, hz, hd0, hd1⟩ : ∃ era doe, z + 719468 = era*146097 + doe ∧ 0 ≤ doe ∧ doe ≤ 146096 := ⟨(z+719468)/146097, (z+719468)%146097, by omega, by omega, by omega⟩
  have hera : (z+719468)/146097 = era := by omega
  have hc : c = civilFromDays z := rfl
  simp only [civilFromDays, hera] at hc
  have hdoe : z + 719468 - era * 146097 = doe := by omega
  simp only [hdoe] at hc
  generalize hyoe : (doe - doe / 1460 + doe / 36524 - doe / 146096) / 365 = yoe at hc
  obtain ⟨hy0, hy1, hdy0, hdy1, hleap⟩ := Cal.yoe_spec doe yoe hd0 hd1 hyoe.symm
  generalize hdoy : doe - (365 * yoe + yoe / 4 - yoe / 100) = doy at hc hdy0 hdy1 hleap
  generalize hmp : (5 * doy + 2) / 153 = mp at hc
  have hmp0 : 0 ≤ mp := by omega
  have hmp1 : mp ≤ 11 := by omega
  rw [hc]
  clear hc c hyoe hera hdoe
  have hcases : mp = 0 ∨ mp = 1 ∨ mp = 2 ∨ mp = 3 ∨ mp = 4 ∨ mp = 5 ∨ mp = 6 ∨ mp = 7 ∨ mp = 8 ∨
      mp = 9 ∨ mp = 10 ∨ mp = 11 := by omega
  rcases hcases with h | h | h | h | h | h | h | h | h | h | h | h <;> subst h <;>
    simp [daysFromCivil, daysInMonth, Cal.isLeapYear_iff]
  all_goals have hE : (yoe + era * 400) / 400 = era := by omega
  all_goals try rw [hE]
  all_goals try have hE1 : (yoe + era * 400 + 1 - 1) / 400 = era := by omega
  all_goals try rw [hE1]
  all_goals try rw [show yoe + era * 400 - era * 400 = yoe by omega]
  all_goals try rw [show yoe + era * 400 + 1 - 1 - era * 400 = yoe by omega]
  all_goals omega

namespace Cal

theorem digitByte_spec (n : Int) :
    isDigit (digitByte n) = true ∧ digitVal (digitByte n) = (n % 10).toNat ∧
    digitByte n ≠ 0x2D ∧ digitByte n ≠ 0x3A := by
  have hk : (n % 10).toNat < 10 := by omega
  unfold digitByte
  generalize (n % 10).toNat = k at hk
  have hcases : k = 0 ∨ k = 1 ∨ k = 2 ∨ k = 3 ∨ k = 4 ∨ k = 5 ∨ k = 6 ∨ k = 7 ∨ k = 8 ∨ k = 9 := by
    omega
  rcases hcases with h | h | h | h | h | h | h | h | h | h <;> subst h <;> decide

theorem takeDigits2_pad2 (n : Int) (h0 : 0 ≤ n) (h1 : n ≤ 99) (rest : Bytes) :
    takeDigits 2 (pad2 n ++ rest) = some (n.toNat, rest) := by
  obtain ⟨a1, a2, _, _⟩ := digitByte_spec (n / 10)
  obtain ⟨b1, b2, _, _⟩ := digitByte_spec n
  simp only [pad2, List.cons_append, List.nil_append, takeDigits, a1, b1, if_true, a2, b2]
  congr 2
  omega

theorem takeDigits4_pad4 (n : Int) (h0 : 0 ≤ n) (h1 : n ≤ 9999) (rest : Bytes) :
    takeDigits 4 (pad4 n ++ rest) = some (n.toNat, rest) := by
  obtain ⟨a1, a2, _, _⟩ := digitByte_spec (n / 1000)
  obtain ⟨b1, b2, _, _⟩ := digitByte_spec (n / 100)
  obtain ⟨c1, c2, _, _⟩ := digitByte_spec (n / 10)
  obtain ⟨d1, d2, _, _⟩ := digitByte_spec n
  simp only [pad4, List.cons_append, List.nil_append, takeDigits, a1, b1, c1, d1, if_true,
    a2, b2, c2, d2]
  congr 2
  omega

theorem skipOpt_pad2 (c : UInt8) (hc : c = 0x2D ∨ c = 0x3A) (n : Int) (rest : Bytes) :
    skipOpt c (pad2 n ++ rest) = pad2 n ++ rest := by
  obtain ⟨_, _, a3, a4⟩ := digitByte_spec (n / 10)
  rcases hc with rfl | rfl <;> simp [pad2, skipOpt, a3, a4]

theorem matchIso_compact (Y M D hh mm ss : Int)
    (hY : 0 ≤ Y ∧ Y ≤ 9999) (hM : 1 ≤ M ∧ M ≤ 12) (hD : 1 ≤ D ∧ D ≤ 31)
    (hh0 : 0 ≤ hh ∧ hh ≤ 23) (hm0 : 0 ≤ mm ∧ mm ≤ 59) (hs0 : 0 ≤ ss ∧ ss ≤ 59) :
    matchIso (pad4 Y ++ (pad2 M ++ (pad2 D ++ (0x54 :: (pad2 hh ++ (pad2 mm ++ (pad2 ss ++ [0x5A]))))))) =
      some { year := Y.toNat, month := M.toNat, day := D.toNat, hour := hh.toNat,
             minute := mm.toNat, second := ss.toNat, frac := [], offsetSecs := 0 } := by
  unfold matchIso
  rw [takeDigits4_pad4 Y hY.1 hY.2]
  simp only []
  rw [skipOpt_pad2 _ (Or.inl rfl), takeDigits2_pad2 M (by omega) (by omega)]
  simp only []
  rw [if_neg (by omega)]
  rw [skipOpt_pad2 _ (Or.inl rfl), takeDigits2_pad2 D (by omega) (by omega)]
  simp only []
  rw [if_neg (by omega)]
  simp only [expect, if_true]
  rw [takeDigits2_pad2 hh (by omega) (by omega)]
  simp only []
  rw [if_neg (by omega)]
  rw [skipOpt_pad2 _ (Or.inr rfl), takeDigits2_pad2 mm (by omega) (by omega)]
  simp only []
  rw [if_neg (by omega)]
  rw [skipOpt_pad2 _ (Or.inr rfl), takeDigits2_pad2 ss (by omega) (by omega)]
  simp only []
  rw [if_neg (by omega)]
  rw [if_neg (by decide)]
  rfl

theorem daysInMonth_le (y m : Int) : daysInMonth y m ≤ 31 := by
  unfold daysInMonth
  split
  · split <;> omega
  · split <;> omega

/-- The compact rendering, right-associated, for a four-digit year. -/
theorem compactUtc_eq (t : Int) (hy : 0 ≤ (utcDate t).1 ∧ (utcDate t).1 ≤ 9999) :
    compactUtc t =
      pad4 (utcDate t).1 ++ (pad2 (utcDate t).2.1 ++ (pad2 (utcDate t).2.2 ++ (0x54 ::
        (pad2 (t / NS_PER_SEC % 86400 / 3600) ++ (pad2 (t / NS_PER_SEC % 86400 % 3600 / 60) ++
          (pad2 (t / NS_PER_SEC % 86400 % 60) ++ [0x5A])))))) := by
  simp only [compactUtc, fmtDate, fmtYear, if_pos hy, List.append_assoc, List.cons_append,
    List.nil_append]

end Cal

theorem compact_shape (t : Int) (hy : 0 ≤ (utcDate t).1 ∧ (utcDate t).1 ≤ 9999) :
    (compactUtc t).length = 16 ∧ (compactUtc t)[8]? = some 0x54 ∧ (compactUtc t)[15]? = some 0x5A ∧
    (compactUtc t).take 8 = fmtDate (utcDate t) := by
  rw [Cal.compactUtc_eq t hy]
  simp [fmtDate, fmtYear, if_pos hy, pad4, pad2]

theorem compact_roundtrip (t : Int) (hy : 0 ≤ (utcDate t).1 ∧ (utcDate t).1 ≤ 9999) :
    parseIso (compactUtc t) = some (t - t % NS_PER_SEC) := by
  rw [Cal.compactUtc_eq t hy]
  have hc := daysFromCivil_civilFromDays (t / NS_PER_SEC / 86400)
  simp only [] at hc
  change daysFromCivil (utcDate t).1 (utcDate t).2.1 (utcDate t).2.2 = _ ∧
    1 ≤ (utcDate t).2.1 ∧ (utcDate t).2.1 ≤ 12 ∧ 1 ≤ (utcDate t).2.2 ∧
    (utcDate t).2.2 ≤ daysInMonth (utcDate t).1 (utcDate t).2.1 at hc
  generalize utcDate t = c at hy hc ⊢
  obtain ⟨Y, M, D⟩ := c
  simp only [] at hy hc ⊢
  obtain ⟨hdfc, hM1, hM2, hD1, hD2⟩ := hc
  have hD31 := Cal.daysInMonth_le Y M
  generalize hsecs : t / NS_PER_SEC = secs
  have hsod0 : 0 ≤ secs % 86400 := by omega
  have hsod1 : secs % 86400 < 86400 := by omega
  unfold parseIso
  rw [Cal.matchIso_compact Y M D _ _ _ hy ⟨hM1, hM2⟩ ⟨hD1, by omega⟩ (by omega) (by omega) (by omega)]
  simp only []
  have hYc : ((Y.toNat : Nat) : Int) = Y := Int.toNat_of_nonneg hy.1
  have hMc : ((M.toNat : Nat) : Int) = M := Int.toNat_of_nonneg (by omega)
  have hDc : ((D.toNat : Nat) : Int) = D := Int.toNat_of_nonneg (by omega)
  have hv : fieldsValid
      { year := Y.toNat, month := M.toNat, day := D.toNat, hour := (secs % 86400 / 3600).toNat,
        minute := (secs % 86400 % 3600 / 60).toNat, second := (secs % 86400 % 60).toNat, frac := [],
        offsetSecs := 0 } = true := by
    simp only [fieldsValid, hYc, hMc, hDc, Bool.and_eq_true, decide_eq_true_eq]
    refine ⟨⟨⟨⟨⟨⟨?_, ?_⟩, ?_⟩, hD2⟩, ?_⟩, ?_⟩, ?_⟩ <;> omega
  rw [if_pos hv]
  congr 1
  have hhc : (((secs % 86400 / 3600).toNat : Nat) : Int) = secs % 86400 / 3600 :=
    Int.toNat_of_nonneg (by omega)
  have hmc : (((secs % 86400 % 3600 / 60).toNat : Nat) : Int) = secs % 86400 % 3600 / 60 :=
    Int.toNat_of_nonneg (by omega)
  have hsc : (((secs % 86400 % 60).toNat : Nat) : Int) = secs % 86400 % 60 :=
    Int.toNat_of_nonneg (by omega)
  have hfr : fracNanos [] = 0 := by simp [fracNanos]
  simp only [fieldsInstant, hYc, hMc, hDc, hhc, hmc, hsc, hdfc, hsecs, hfr]
  subst hsecs
  simp only [NS_PER_SEC]
  omega

end SigV4

#print axioms SigV4.civilFromDays_daysFromCivil
#print axioms SigV4.daysFromCivil_civilFromDays
#print axioms SigV4.compact_roundtrip
#print axioms SigV4.compact_shape
