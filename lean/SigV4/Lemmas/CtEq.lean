/- Helper lemmas for C07. -/
import SigV4.Model.CtEq

namespace SigV4

/-- The accumulator ends at zero iff it started at zero and all bytes agree. -/
theorem ctFold_fst_eq_zero (a b : Bytes) (acc : UInt8) (h : a.length = b.length) :
    (ctFold a b acc).1 = 0 ↔ acc = 0 ∧ a = b := by
  induction a generalizing b acc with
  | nil =>
    cases b with
    | nil => simp [ctFold]
    | cons y ys => simp at h
  | cons x xs ih =>
    cases b with
    | nil => simp at h
    | cons y ys =>
      have hl : xs.length = ys.length := by simpa using h
      simp only [ctFold]
      rw [ih ys _ hl, UInt8.or_eq_zero_iff, UInt8.xor_eq_zero_iff]
      constructor
      · rintro ⟨⟨h1, h2⟩, h3⟩; exact ⟨h1, by rw [h2, h3]⟩
      · rintro ⟨h1, h2⟩
        injection h2 with h2 h3
        exact ⟨⟨h1, h2⟩, h3⟩

/-- The trace of the accumulate loop: one `xorOr` per index of the shorter input. -/
theorem ctFold_snd (a b : Bytes) (acc : UInt8) :
    (ctFold a b acc).2 = List.replicate (min a.length b.length) Step.xorOr := by
  induction a generalizing b acc with
  | nil => simp [ctFold]
  | cons x xs ih =>
    cases b with
    | nil => simp [ctFold]
    | cons y ys =>
      simp only [ctFold, List.length_cons, ih ys]
      rw [Nat.add_min_add_right, List.replicate_succ]

/-- The trace of `ctEq` as a function of the two lengths only. -/
theorem ctEq_snd (a b : Bytes) :
    (ctEq a b).2 =
      if a.length ≠ b.length then [Step.lenCheck]
      else Step.lenCheck :: List.replicate (min a.length b.length) Step.xorOr ++ [Step.reduce] := by
  unfold ctEq
  split
  · rfl
  · simp only [ctFold_snd]

theorem earlyExitEq_prefix (pre a b : Bytes) (x y : UInt8) (hxy : x ≠ y) :
    (earlyExitEq (pre ++ x :: a) (pre ++ y :: b)).2.length = pre.length + 1 := by
  induction pre with
  | nil => simp [earlyExitEq, hxy]
  | cons p ps ih => simp [earlyExitEq, ih]

end SigV4
