/- Helper lemmas for C14/C15 (structure of `validate`). -/
import SigV4.Spec.ValidateSpec
import SigV4.Lemmas.CtEq

namespace SigV4

/-! ### `splitFirst` / `splitOn` and the credential scope -/

theorem splitOn_of_splitFirst_none (sep : UInt8) (x : Bytes) (h : (splitFirst sep x).2 = none) :
    splitOn sep x = [x] := by
  induction x with
  | nil => rfl
  | cons c cs ih =>
    unfold splitFirst at h
    unfold splitOn
    by_cases hc : c = sep
    · simp [hc] at h
    · simp only [hc, if_false] at h ⊢
      rw [ih h]

/-- Once `prevalidate` accepted the credential scope, `stringToSign` cannot hit its panic site. -/
theorem stringToSign_ok_of_prevalidate {a : Authenticator} {region service : Bytes} {now : Int}
    (h : prevalidate a region service now = .ok ()) : ∃ sts, stringToSign a = .ok sts := by
  unfold stringToSign
  rcases hs : splitFirst 0x2F a.credential with ⟨x, _ | scope⟩
  · exfalso
    have h1 : splitOn 0x2F a.credential = [a.credential] :=
      splitOn_of_splitFirst_none _ _ (by rw [hs])
    unfold prevalidate at h
    rw [h1] at h
    split at h
    · cases h
    · split at h
      · cases h
      · cases h
  · exact ⟨_, rfl⟩

/-! ### `getSigningKey` -/

theorem getSigningKey_not_ready {σ : Type} (P : Provider σ) (s s' : σ) (a : Authenticator)
    (region service : Bytes) (e : ProvErr) (hr : P.ready s = (some e, s')) :
    getSigningKey P s a region service = { out := .err e.toKind, state := s', calls := [] } := by
  unfold getSigningKey
  simp only [hr]

theorem getSigningKey_call_err {σ : Type} (P : Provider σ) (s s' s'' : σ) (a : Authenticator)
    (region service : Bytes) (e : ProvErr) (hr : P.ready s = (none, s'))
    (hc : P.call s' (providerReqOf a region service) = (.error e, s'')) :
    getSigningKey P s a region service =
      { out := .err e.toKind, state := s'', calls := [providerReqOf a region service] } := by
  unfold getSigningKey
  unfold providerReqOf at hc
  simp only [hr, hc]
  rfl

theorem getSigningKey_call_ok {σ : Type} (P : Provider σ) (s s' s'' : σ) (a : Authenticator)
    (region service : Bytes) (resp : ProviderResp) (hr : P.ready s = (none, s'))
    (hc : P.call s' (providerReqOf a region service) = (.ok resp, s'')) :
    getSigningKey P s a region service =
      { out := .ok resp, state := s'', calls := [providerReqOf a region service] } := by
  unfold getSigningKey
  unfold providerReqOf at hc
  simp only [hr, hc]
  rfl

/-- Full case analysis of `getSigningKey`. -/
theorem getSigningKey_cases {σ : Type} (P : Provider σ) (s : σ) (a : Authenticator)
    (region service : Bytes) :
    (∃ e, (P.ready s).1 = some e ∧
      getSigningKey P s a region service =
        { out := .err e.toKind, state := (P.ready s).2, calls := [] }) ∨
    ((P.ready s).1 = none ∧ ∃ e,
      (P.call (P.ready s).2 (providerReqOf a region service)).1 = .error e ∧
      getSigningKey P s a region service =
        { out := .err e.toKind,
          state := (P.call (P.ready s).2 (providerReqOf a region service)).2,
          calls := [providerReqOf a region service] }) ∨
    ((P.ready s).1 = none ∧ ∃ resp,
      (P.call (P.ready s).2 (providerReqOf a region service)).1 = .ok resp ∧
      getSigningKey P s a region service =
        { out := .ok resp,
          state := (P.call (P.ready s).2 (providerReqOf a region service)).2,
          calls := [providerReqOf a region service] }) := by
  rcases hr : P.ready s with ⟨_ | e, s'⟩
  · rcases hc : P.call s' (providerReqOf a region service) with ⟨e | resp, s''⟩
    · exact .inr (.inl ⟨rfl, e, rfl, getSigningKey_call_err P s s' s'' a region service e hr hc⟩)
    · exact .inr (.inr ⟨rfl, resp, rfl, getSigningKey_call_ok P s s' s'' a region service resp hr hc⟩)
  · exact .inl ⟨e, rfl, getSigningKey_not_ready P s s' a region service e hr⟩

/-- `getSigningKey` makes no call, or exactly the one call `providerReqOf` after readiness. -/
theorem getSigningKey_calls {σ : Type} (P : Provider σ) (s : σ) (a : Authenticator)
    (region service : Bytes) :
    (getSigningKey P s a region service).calls = [] ∨
      ((P.ready s).1 = none ∧
        (getSigningKey P s a region service).calls = [providerReqOf a region service]) := by
  rcases getSigningKey_cases P s a region service with ⟨e, _, h⟩ | ⟨hr, e, _, h⟩ | ⟨hr, resp, _, h⟩
  · left; rw [h]
  · right; rw [h]; exact ⟨hr, rfl⟩
  · right; rw [h]; exact ⟨hr, rfl⟩

/-! ### `validateSignature` -/

theorem validateSignature_prevalidate_err {σ : Type} (H : Bytes → Bytes) (P : Provider σ) (s : σ)
    (a : Authenticator) (region service : Bytes) (now : Int) (k : ErrKind)
    (h : prevalidate a region service now = .err k) :
    validateSignature H P s a region service now = { out := .err k, state := s, calls := [] } := by
  unfold validateSignature
  simp only [h]

theorem validateSignature_prevalidate_panic {σ : Type} (H : Bytes → Bytes) (P : Provider σ) (s : σ)
    (a : Authenticator) (region service : Bytes) (now : Int) (p : String)
    (h : prevalidate a region service now = .panic p) :
    validateSignature H P s a region service now = { out := .panic p, state := s, calls := [] } := by
  unfold validateSignature
  simp only [h]

/-- After the pre-checks, `validateSignature` is `getSigningKey` followed by the comparison. -/
theorem validateSignature_of_prevalidate_ok {σ : Type} (H : Bytes → Bytes) (P : Provider σ) (s : σ)
    (a : Authenticator) (region service : Bytes) (now : Int) (sts : Bytes)
    (h : prevalidate a region service now = .ok ()) (hs : stringToSign a = .ok sts) :
    validateSignature H P s a region service now =
      { out :=
          match (getSigningKey P s a region service).out with
          | .err k => .err k
          | .panic p => .panic p
          | .ok resp =>
            if a.signature = hexLower (hmac H resp.key sts) then .ok resp
            else .err .SignatureDoesNotMatch,
        state := (getSigningKey P s a region service).state,
        calls := (getSigningKey P s a region service).calls } := by
  unfold validateSignature
  simp only [h, hs]
  split
  · rename_i heq; simp only [heq]
  · rename_i heq; simp only [heq]
  · rename_i resp heq
    simp only [heq]
    have hct : (ctEq a.signature (hexLower (hmac H resp.key sts))).1 = true ↔
        a.signature = hexLower (hmac H resp.key sts) := by
      unfold ctEq
      by_cases hl : a.signature.length = (hexLower (hmac H resp.key sts)).length
      · have := ctFold_fst_eq_zero a.signature (hexLower (hmac H resp.key sts)) 0 hl
        simp only [hl, ne_eq, not_true_eq_false, if_false, beq_iff_eq, this, true_and]
      · have hne : a.signature ≠ hexLower (hmac H resp.key sts) := fun e => hl (by rw [e])
        simp [hl, hne]
    by_cases hsig : a.signature = hexLower (hmac H resp.key sts)
    · rw [if_pos (hct.2 hsig), if_pos hsig]
    · rw [if_neg (fun h' => hsig (hct.1 h')), if_neg hsig]

/-! ### `validate` -/

/-- The part of `validate` that follows a successfully built authenticator. -/
def finish {σ : Type} (req : Request) (fp : FromParts) (r : Run σ ProviderResp) : Run σ Returned :=
  { out := r.out.map fun resp =>
      { method := req.method, headers := req.headers, rebuiltUri := fp.rebuiltUri,
        body := fp.body, identity := resp.identity },
    state := r.state, calls := r.calls }

theorem validate_of_authOf_err {σ : Type} (H : Bytes → Bytes) (cfg : Config) (P : Provider σ) (s : σ)
    (req : Request) (k : ErrKind) (h : authOf H cfg req = .err k) :
    validate H cfg P s req = { out := .err k, state := s, calls := [] } := by
  unfold authOf at h
  unfold validate
  split at h
  · rename_i fp hfp
    simp only [hfp, h]
  · rename_i k' hfp
    cases h
    simp only [hfp]
  · cases h

theorem validate_of_authOf_panic {σ : Type} (H : Bytes → Bytes) (cfg : Config) (P : Provider σ) (s : σ)
    (req : Request) (p : String) (h : authOf H cfg req = .panic p) :
    validate H cfg P s req = { out := .panic p, state := s, calls := [] } := by
  unfold authOf at h
  unfold validate
  split at h
  · rename_i fp hfp
    simp only [hfp, h]
  · cases h
  · rename_i p' hfp
    cases h
    simp only [hfp]

theorem validate_of_authOf_ok {σ : Type} (H : Bytes → Bytes) (cfg : Config) (P : Provider σ) (s : σ)
    (req : Request) (a : Authenticator) (h : authOf H cfg req = .ok a) :
    ∃ fp, fromRequestParts H cfg.opts cfg.other req = .ok fp ∧
      getAuthenticator H cfg.reqs fp.creq = .ok a ∧
      validate H cfg P s req =
        finish req fp (validateSignature H P s a cfg.region cfg.service cfg.now) := by
  unfold authOf at h
  split at h
  · rename_i fp hfp
    refine ⟨fp, hfp, h, ?_⟩
    unfold validate finish
    simp only [hfp, h]
    split <;> rename_i ho <;> simp only [ho, Outcome.map_ok, Outcome.map_err, Outcome.map_panic]
  · cases h
  · cases h

/-- Trichotomy for `authOf`, in the shape `validate` consumes it. -/
theorem authOf_cases (H : Bytes → Bytes) (cfg : Config) (req : Request) :
    (∃ a, authOf H cfg req = .ok a) ∨ (∃ k, authOf H cfg req = .err k) ∨
      (∃ p, authOf H cfg req = .panic p) := by
  cases authOf H cfg req with
  | ok a => exact .inl ⟨a, rfl⟩
  | err k => exact .inr (.inl ⟨k, rfl⟩)
  | panic p => exact .inr (.inr ⟨p, rfl⟩)

/-- Everything there is to know about one validation, in one statement. Either the request is
defective (no authenticator, or a failing pre-check): nothing happens to the provider and the
outcome is not a success; or it has an authenticator `a` passing the pre-checks and the run is
`getSigningKey` followed by the signature comparison. -/
theorem validate_cases {σ : Type} (H : Bytes → Bytes) (cfg : Config) (P : Provider σ) (s : σ)
    (req : Request) :
    ((validate H cfg P s req).calls = [] ∧ (validate H cfg P s req).state = s ∧
      (∀ r, (validate H cfg P s req).out ≠ .ok r) ∧
      ((∀ a, authOf H cfg req ≠ .ok a) ∨
        ∃ a, authOf H cfg req = .ok a ∧ prevalidate a cfg.region cfg.service cfg.now ≠ .ok ())) ∨
    (∃ a fp sts, authOf H cfg req = .ok a ∧
      fromRequestParts H cfg.opts cfg.other req = .ok fp ∧
      prevalidate a cfg.region cfg.service cfg.now = .ok () ∧ stringToSign a = .ok sts ∧
      validate H cfg P s req =
        finish req fp
          { out :=
              match (getSigningKey P s a cfg.region cfg.service).out with
              | .err k => .err k
              | .panic p => .panic p
              | .ok resp =>
                if a.signature = hexLower (hmac H resp.key sts) then .ok resp
                else .err .SignatureDoesNotMatch,
            state := (getSigningKey P s a cfg.region cfg.service).state,
            calls := (getSigningKey P s a cfg.region cfg.service).calls }) := by
  rcases authOf_cases H cfg req with ⟨a, ha⟩ | ⟨k, hk⟩ | ⟨p, hp⟩
  · obtain ⟨fp, hfp, _, hv⟩ := validate_of_authOf_ok H cfg P s req a ha
    cases hpre : prevalidate a cfg.region cfg.service cfg.now with
    | ok u =>
      cases u
      obtain ⟨sts, hsts⟩ := stringToSign_ok_of_prevalidate hpre
      refine .inr ⟨a, fp, sts, ha, hfp, hpre, hsts, ?_⟩
      rw [hv, validateSignature_of_prevalidate_ok H P s a _ _ _ sts hpre hsts]
    | err k =>
      left
      rw [hv, validateSignature_prevalidate_err H P s a _ _ _ k hpre]
      refine ⟨rfl, rfl, ?_, .inr ⟨a, ha, ?_⟩⟩
      · intro r hr; simp [finish] at hr
      · rw [hpre]; intro h'; cases h'
    | panic p =>
      left
      rw [hv, validateSignature_prevalidate_panic H P s a _ _ _ p hpre]
      refine ⟨rfl, rfl, ?_, .inr ⟨a, ha, ?_⟩⟩
      · intro r hr; simp [finish] at hr
      · rw [hpre]; intro h'; cases h'
  · left
    rw [validate_of_authOf_err H cfg P s req k hk]
    refine ⟨rfl, rfl, ?_, .inl ?_⟩
    · intro r hr; cases hr
    · intro a ha; rw [hk] at ha; cases ha
  · left
    rw [validate_of_authOf_panic H cfg P s req p hp]
    refine ⟨rfl, rfl, ?_, .inl ?_⟩
    · intro r hr; cases hr
    · intro a ha; rw [hp] at ha; cases ha

/-- Inversion of a successful validation. -/
theorem validate_ok_inv {σ : Type} (H : Bytes → Bytes) (cfg : Config) (P : Provider σ) (s : σ)
    (req : Request) (r : Returned) (h : (validate H cfg P s req).out = .ok r) :
    ∃ a fp resp sts, authOf H cfg req = .ok a ∧
      fromRequestParts H cfg.opts cfg.other req = .ok fp ∧
      prevalidate a cfg.region cfg.service cfg.now = .ok () ∧
      (P.ready s).1 = none ∧
      (P.call (P.ready s).2 (providerReqOf a cfg.region cfg.service)).1 = .ok resp ∧
      stringToSign a = .ok sts ∧ a.signature = hexLower (hmac H resp.key sts) ∧
      r = { method := req.method, headers := req.headers, rebuiltUri := fp.rebuiltUri,
            body := fp.body, identity := resp.identity } := by
  rcases validate_cases H cfg P s req with ⟨_, _, hno, _⟩ | ⟨a, fp, sts, ha, hfp, hpre, hsts, hv⟩
  · exact absurd h (hno r)
  · rw [hv] at h
    simp only [finish] at h
    rcases getSigningKey_cases P s a cfg.region cfg.service with
      ⟨e, _, hg⟩ | ⟨_, e, _, hg⟩ | ⟨hr, resp, hcall, hg⟩
    · rw [hg] at h; cases h
    · rw [hg] at h; cases h
    · rw [hg] at h
      simp only at h
      by_cases hsig : a.signature = hexLower (hmac H resp.key sts)
      · rw [if_pos hsig] at h
        simp only [Outcome.map_ok, Outcome.ok.injEq] at h
        exact ⟨a, fp, resp, sts, ha, hfp, hpre, hr, hcall, hsts, hsig, h.symm⟩
      · rw [if_neg hsig] at h; cases h

/-! ### `validateMany` -/

theorem validateMany_cons {σ : Type} (H : Bytes → Bytes) (P : Provider σ) (s : σ) (cfg : Config)
    (req : Request) (rest : List (Config × Request)) :
    validateMany H P s ((cfg, req) :: rest) =
      (((validate H cfg P s req).out, (validate H cfg P s req).calls)
          :: (validateMany H P (validate H cfg P s req).state rest).1,
        (validateMany H P (validate H cfg P s req).state rest).2) := rfl

end SigV4
