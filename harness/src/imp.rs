//! Calls into the real crate, in-process, each behind `catch_unwind`, with outputs rendered in the
//! same canonical text as the Lean driver prints.
use crate::case::*;
use crate::util::*;
use bytes::Bytes;
use chrono::{DateTime, NaiveDate, Utc};
use http::Request;
use scratchstack_aws_principal::{Principal, SessionData, SessionValue, User};
use scratchstack_aws_signature::{
    auth::SigV4Authenticator,
    canonical::{self, AuthParams, CanonicalRequest},
    errors::ServiceError,
    sigv4_validate_request, GetSigningKeyRequest, GetSigningKeyResponse, KSecretKey, KSigningKey, SignatureError,
    SignatureOptions, SliceSignedHeaderRequirements, VecSignedHeaderRequirements,
};
use std::borrow::Cow;
use std::future::Future;
use std::panic::{catch_unwind, AssertUnwindSafe};
use std::pin::Pin;
use std::str::FromStr;
use std::sync::{Arc, Mutex};
use std::task::{Context, Poll, Waker};
use tower::{BoxError, Service};

pub fn kind_of(e: &SignatureError) -> &'static str {
    match e {
        SignatureError::ExpiredToken(_) => "ExpiredToken",
        SignatureError::IO(_) => "IO",
        SignatureError::InternalServiceError(_) => "InternalServiceError",
        SignatureError::InvalidBodyEncoding(_) => "InvalidBodyEncoding",
        SignatureError::InvalidClientTokenId(_) => "InvalidClientTokenId",
        SignatureError::InvalidContentType(_) => "InvalidContentType",
        SignatureError::InvalidRequestMethod(_) => "InvalidRequestMethod",
        SignatureError::IncompleteSignature(_) => "IncompleteSignature",
        SignatureError::InvalidURIPath(_) => "InvalidURIPath",
        SignatureError::MalformedQueryString(_) => "MalformedQueryString",
        SignatureError::MissingAuthenticationToken(_) => "MissingAuthenticationToken",
        SignatureError::SignatureDoesNotMatch(_) => "SignatureDoesNotMatch",
        _ => "UnknownKind",
    }
}

/// A value of every kind (for the code/status table and as provider errors).
pub fn make_error(kind: &str) -> SignatureError {
    let m = "provider says no".to_string();
    match kind {
        "ExpiredToken" => SignatureError::ExpiredToken(m),
        "IO" => SignatureError::IO(std::io::Error::new(std::io::ErrorKind::Other, "disk on fire")),
        "InternalServiceError" => SignatureError::InternalServiceError("backend down".into()),
        "InvalidBodyEncoding" => SignatureError::InvalidBodyEncoding(m),
        "InvalidClientTokenId" => SignatureError::InvalidClientTokenId(m),
        "InvalidContentType" => SignatureError::InvalidContentType(m),
        "InvalidRequestMethod" => SignatureError::InvalidRequestMethod(m),
        "IncompleteSignature" => SignatureError::IncompleteSignature(m),
        "InvalidURIPath" => SignatureError::InvalidURIPath(m),
        "MalformedQueryString" => SignatureError::MalformedQueryString(m),
        "MissingAuthenticationToken" => SignatureError::MissingAuthenticationToken(m),
        "SignatureDoesNotMatch" => SignatureError::SignatureDoesNotMatch(Some(m)),
        _ => panic!("unknown kind {}", kind),
    }
}

pub fn errtab(kind: &str) -> String {
    let e = make_error(kind);
    format!("{} {}", ServiceError::error_code(&e), ServiceError::http_status(&e).as_u16())
}

fn panic_msg(p: Box<dyn std::any::Any + Send>) -> String {
    if let Some(s) = p.downcast_ref::<&str>() {
        s.to_string()
    } else if let Some(s) = p.downcast_ref::<String>() {
        s.clone()
    } else {
        "?".to_string()
    }
}

/// Outcome class of an implementation call, as text: `OK <payload>` / `ERR <kind>` / `PANIC`.
/// When enabled (by the harness's main), every call into the crate flips the process-wide `log` level between
/// Trace and Off: the arguments of the crate's `trace!`/`debug!` statements are evaluated in one and not in the
/// other, and nothing the caller can observe may depend on that.
pub static LOG_FLIP: std::sync::atomic::AtomicBool = std::sync::atomic::AtomicBool::new(false);
static LOG_FLIP_COUNT: std::sync::atomic::AtomicU64 = std::sync::atomic::AtomicU64::new(0);

pub fn flip_log_level() {
    if LOG_FLIP.load(std::sync::atomic::Ordering::Relaxed) {
        let n = LOG_FLIP_COUNT.fetch_add(1, std::sync::atomic::Ordering::Relaxed);
        log::set_max_level(if n % 2 == 0 { log::LevelFilter::Trace } else { log::LevelFilter::Off });
    }
}

pub fn guard<F: FnOnce() -> Result<String, SignatureError>>(f: F) -> String {
    flip_log_level();
    match catch_unwind(AssertUnwindSafe(f)) {
        Ok(Ok(s)) => format!("OK {}", s),
        Ok(Err(e)) => format!("ERR {}", kind_of(&e)),
        Err(p) => format!("PANIC {}", panic_msg(p).replace(' ', "_")),
    }
}

/// Compare outcome lines ignoring the panic site text.
pub fn same_outcome(a: &str, b: &str) -> bool {
    if a.starts_with("PANIC") && b.starts_with("PANIC") {
        return true;
    }
    a == b
}

pub fn elem(is_path: bool, s: &str) -> String {
    guard(|| {
        let r = if is_path {
            canonical::normalize_uri_path_component(s)?
        } else {
            canonical::normalize_query_string_element(s)?
        };
        Ok(hx(r.as_bytes()))
    })
}

pub fn path(s3: bool, p: &str) -> String {
    guard(|| Ok(hx(canonical::canonicalize_uri_path(p, s3)?.as_bytes())))
}

pub fn show_map(m: &std::collections::HashMap<String, Vec<String>>) -> String {
    if m.is_empty() {
        return ".".to_string();
    }
    let mut ks: Vec<&String> = m.keys().collect();
    ks.sort();
    ks.iter().map(|k| format!("{}:{}", hx(k.as_bytes()), hx_list(&m[*k]))).collect::<Vec<_>>().join("|")
}

pub fn qparse(q: &str) -> String {
    guard(|| Ok(show_map(&canonical::query_string_to_normalized_map(q)?)))
}

pub fn qcanon(q: &str) -> String {
    guard(|| {
        let m = canonical::query_string_to_normalized_map(q)?;
        Ok(hx(canonical::canonicalize_query_to_string(&m).as_bytes()))
    })
}

pub fn unesc(s: &str) -> String {
    guard(|| Ok(hx(canonical::unescape_uri_encoding(s).as_bytes())))
}

pub fn hval(v: &[u8]) -> String {
    guard(|| Ok(hx(&canonical::normalize_header_value(v))))
}

pub fn build_headers(hs: &[(String, Vec<u8>)]) -> Option<http::HeaderMap> {
    let mut m = http::HeaderMap::new();
    for (n, v) in hs {
        let name = http::header::HeaderName::from_bytes(n.as_bytes()).ok()?;
        let value = http::header::HeaderValue::from_bytes(v).ok()?;
        m.append(name, value);
    }
    Some(m)
}

pub fn ctype(hs: &[(String, Vec<u8>)]) -> Option<String> {
    flip_log_level();
    let m = build_headers(hs)?;
    Some(match catch_unwind(AssertUnwindSafe(|| canonical::get_content_type_and_charset(&m))) {
        Ok(None) => "NONE".to_string(),
        Ok(Some(c)) => format!(
            "CT {} CS {}",
            hx(c.content_type.as_bytes()),
            hx_opt(c.charset.as_ref().map(|s| s.as_bytes()))
        ),
        Err(_) => "PANIC".to_string(),
    })
}

fn blank_creq() -> CanonicalRequest {
    let req = Request::builder().method("GET").uri("/").body(()).unwrap();
    let (parts, _) = req.into_parts();
    CanonicalRequest::from_request_parts(parts, Bytes::new(), SignatureOptions::default()).unwrap().0
}

/// `parse_from_iso8601` reached through `get_authenticator_from_auth_parameters` (unstable API):
/// `OK <ns>` / `NONE` (the rule-9 error) / `PANIC`.
pub fn iso(s: &str) -> String {
    flip_log_level();
    let r = catch_unwind(AssertUnwindSafe(|| {
        let creq = blank_creq();
        let mut builder = SigV4Authenticator::builder();
        builder.credential("a/b/c/d/e".to_string());
        builder.signature("x".to_string());
        let ap = AuthParams { builder, signed_headers: vec!["host".to_string()], timestamp_str: s.to_string() };
        creq.get_authenticator_from_auth_parameters(ap).map(|a| a.request_timestamp())
    }));
    match r {
        Ok(Ok(t)) => format!("OK {}", ts_ns(t)),
        Ok(Err(e)) => {
            if kind_of(&e) == "IncompleteSignature" {
                "NONE".to_string()
            } else {
                format!("ERR {}", kind_of(&e))
            }
        }
        Err(p) => format!("PANIC {}", panic_msg(p).replace(' ', "_")),
    }
}

pub fn ts_ns(t: DateTime<Utc>) -> i128 {
    t.timestamp() as i128 * 1_000_000_000 + t.timestamp_subsec_nanos() as i128
}

pub fn mk_time(secs: i64, nanos: u32) -> Option<DateTime<Utc>> {
    DateTime::<Utc>::from_timestamp(secs, nanos)
}

macro_rules! from_str_m {
    ($m:expr, $s:expr, $($n:literal),*) => {
        match $m {
            $( $n => Some(catch_unwind(AssertUnwindSafe(|| KSecretKey::<$n>::from_str($s).map(|_| ())))), )*
            _ => None,
        }
    };
}

/// `KSecretKey::<M>::from_str` for the capacities compiled in: `OK` / `TOOLONG` / `PANIC`; None if M unsupported.
pub fn secret_from_str_m(m: usize, s: &str) -> Option<String> {
    let r = from_str_m!(m, s, 0, 1, 2, 3, 4, 5, 6, 7, 8, 20, 43, 45, 64, 100, 1024)?;
    Some(match r {
        Ok(Ok(())) => "OK".to_string(),
        Ok(Err(_)) => "TOOLONG".to_string(),
        Err(p) => format!("PANIC {}", panic_msg(p).replace(' ', "_")),
    })
}

/// The default-capacity key type and the whole derivation chain, every shortcut included.
pub fn keys44(secret: &str, date: NaiveDate, region: &str, service: &str) -> String {
    flip_log_level();
    let r = catch_unwind(AssertUnwindSafe(|| {
        let k = match KSecretKey::<44>::from_str(secret) {
            Ok(k) => k,
            Err(_) => return "TOOLONG".to_string(),
        };
        let kd = k.to_kdate(date);
        let kr = kd.to_kregion(region);
        let ks = kr.to_kservice(service);
        let kg = ks.to_ksigning();
        let agree = k.to_kregion(date, region) == kr
            && k.to_kservice(date, region, service) == ks
            && k.to_ksigning(date, region, service) == kg
            && kd.to_kservice(region, service) == ks
            && kd.to_ksigning(region, service) == kg
            && kr.to_ksigning(service) == kg;
        let asref: &[u8] = k.as_ref();
        let a: &[u8; 32] = kd.as_ref();
        let b: &[u8; 32] = kr.as_ref();
        let c: &[u8; 32] = ks.as_ref();
        let d: &[u8; 32] = kg.as_ref();
        format!("OK {} {} {} {} {} {}", hx(asref), hx(a), hx(b), hx(c), hx(d), agree as u8)
    }));
    match r {
        Ok(s) => s,
        Err(p) => format!("PANIC {}", panic_msg(p).replace(' ', "_")),
    }
}

pub fn signing_key_from_secret(secret: &str, date: NaiveDate, region: &str, service: &str) -> Option<KSigningKey> {
    catch_unwind(AssertUnwindSafe(|| KSecretKey::<44>::from_str(secret).ok().map(|k| k.to_ksigning(date, region, service))))
        .ok()
        .flatten()
}

// ---------------------------------------------------------------------------------------------
// Scripted, instrumented key provider

#[derive(Clone, Debug, PartialEq)]
pub struct CallRec {
    pub access_key: String,
    pub token: Option<String>,
    pub date: NaiveDate,
    pub region: String,
    pub service: String,
}

impl CallRec {
    pub fn show(&self) -> String {
        use chrono::Datelike;
        format!(
            "[{} {} {}/{}/{} {} {}]",
            hx(self.access_key.as_bytes()),
            hx_opt(self.token.as_ref().map(|t| t.as_bytes())),
            self.date.year(),
            self.date.month(),
            self.date.day(),
            hx(self.region.as_bytes()),
            hx(self.service.as_bytes())
        )
    }
}

#[derive(Clone, Debug)]
pub struct Entry {
    pub ready_err: Option<ProvErr>,
    pub pending_ready: u32,
    pub pending_answer: u32,
    pub answer: Answer,
}

#[derive(Default)]
pub struct ProvState {
    pub queue: std::collections::VecDeque<Entry>,
    pub calls: Vec<CallRec>,
    pub ready_polls: u64,
    /// set when `poll_ready` returned Ready(Ok) and no call has consumed it yet
    pub ready_signalled: bool,
    pub called_without_ready: u64,
    pub pending_left: u32,
    pub pending_init: bool,
    /// polls of the futures returned by `call`
    pub future_polls: u64,
}

#[derive(Clone)]
pub struct Provider(pub Arc<Mutex<ProvState>>);

#[derive(Debug)]
pub struct ForeignError;
impl std::fmt::Display for ForeignError {
    fn fmt(&self, f: &mut std::fmt::Formatter) -> std::fmt::Result {
        f.write_str("foreign provider failure")
    }
}
impl std::error::Error for ForeignError {}

/// A foreign error whose `source()` is an `io::Error`.
#[derive(Debug)]
pub struct ChainError(pub std::io::Error);
impl std::fmt::Display for ChainError {
    fn fmt(&self, f: &mut std::fmt::Formatter) -> std::fmt::Result {
        f.write_str("key store lookup failed")
    }
}
impl std::error::Error for ChainError {
    fn source(&self) -> Option<&(dyn std::error::Error + 'static)> {
        Some(&self.0)
    }
}

/// Wall-clock delay (milliseconds) of the provider's answer; set around the few cases that need a provider that
/// is slow in real time, 0 otherwise.
pub static PROVIDER_SLEEP_MS: std::sync::atomic::AtomicU64 = std::sync::atomic::AtomicU64::new(0);

fn to_box(e: &ProvErr) -> BoxError {
    match e {
        ProvErr::Sig(k) => Box::new(make_error(k)),
        ProvErr::Foreign => Box::new(ForeignError),
        ProvErr::ForeignOther(k) => match *k {
            "NotFound" => Box::new(std::io::Error::new(std::io::ErrorKind::NotFound, "no such key record")),
            "PermissionDenied" => Box::new(std::io::Error::new(std::io::ErrorKind::PermissionDenied, "key store refused")),
            "TimedOut" => Box::new(std::io::Error::new(std::io::ErrorKind::TimedOut, "key store timed out")),
            "Other" => Box::new(std::io::Error::new(std::io::ErrorKind::Other, "key store failed")),
            "Interrupted" => Box::new(std::io::Error::new(std::io::ErrorKind::Interrupted, "interrupted system call")),
            "WouldBlock" => Box::new(std::io::Error::new(std::io::ErrorKind::WouldBlock, "would block")),
            "ConnectionReset" => Box::new(std::io::Error::new(std::io::ErrorKind::ConnectionReset, "connection reset")),
            "UnexpectedEof" => Box::new(std::io::Error::new(std::io::ErrorKind::UnexpectedEof, "eof")),
            "ChainInterrupted" => Box::new(ChainError(std::io::Error::new(std::io::ErrorKind::Interrupted, "interrupted system call"))),
            "SigIOInterrupted" => Box::new(SignatureError::IO(std::io::Error::new(std::io::ErrorKind::Interrupted, "interrupted system call"))),
            "SigIOWouldBlock" => Box::new(SignatureError::IO(std::io::Error::new(std::io::ErrorKind::WouldBlock, "would block"))),
            _ => "key store unavailable".into(),
        },
    }
}

/// The identity "-" stands for a provider answer that carries a key but no principal and no session data.
pub fn principal_for(identity: &str) -> Principal {
    if identity == "-" {
        return Principal::default();
    }
    User::new("aws", "123456789012", "/", identity).expect("user").into()
}

/// Debug rendering of session data with its entries in sorted order (the type is a hash map: its own Debug order varies).
pub fn session_debug(s: &SessionData) -> String {
    let d = format!("{:?}", s);
    let inner = d.trim_start_matches(|c| c != '{').trim_start_matches('{').trim_end_matches(|c| c != '}').trim_end_matches('}');
    let mut parts: Vec<&str> = if inner.is_empty() { vec![] } else { inner.split(", \"").collect() };
    let parts2: Vec<String> = parts.drain(..).map(|p| p.trim_start_matches('"').to_string()).collect();
    let mut parts2 = parts2;
    parts2.sort();
    format!("{{{}}}", parts2.join(", "))
}

pub fn session_for(identity: &str) -> SessionData {
    let mut s = SessionData::new();
    if identity == "-" {
        return s;
    }
    s.insert("aws:username", SessionValue::String(identity.to_string()));
    if identity.starts_with("ip") {
        // an address value the provider chose to hand out in IPv4-mapped form: it comes back exactly like that
        s.insert("aws:SourceIp", SessionValue::IpAddr("::ffff:192.0.2.7".parse().unwrap()));
        s.insert("aws:VpcSourceIp", SessionValue::IpAddr("2001:db8::1".parse().unwrap()));
    }
    s
}

/// When set (by the C07 tracer in its child process) the provider raises SIGSTOP just before its
/// answer becomes ready: the start marker of the traced window.
pub static TRACE_MARK: std::sync::atomic::AtomicBool = std::sync::atomic::AtomicBool::new(false);
/// When set (by the C07 tracer in its child process) the provider raises SIGUSR1 at its first readiness
/// poll: the end marker of the *front* window (entry of the validation → first contact with the provider).
pub static TRACE_FRONT: std::sync::atomic::AtomicBool = std::sync::atomic::AtomicBool::new(false);

pub struct AnswerFuture {
    pending: u32,
    answer: Option<Result<GetSigningKeyResponse, BoxError>>,
    state: Arc<Mutex<ProvState>>,
}

impl Future for AnswerFuture {
    type Output = Result<GetSigningKeyResponse, BoxError>;
    fn poll(mut self: Pin<&mut Self>, cx: &mut Context<'_>) -> Poll<Self::Output> {
        self.state.lock().unwrap().future_polls += 1;
        if self.pending > 0 {
            self.pending -= 1;
            cx.waker().wake_by_ref();
            return Poll::Pending;
        }
        if TRACE_MARK.load(std::sync::atomic::Ordering::SeqCst) {
            unsafe { libc::raise(libc::SIGSTOP) };
        }
        let ms = PROVIDER_SLEEP_MS.load(std::sync::atomic::Ordering::SeqCst);
        if ms > 0 {
            std::thread::sleep(std::time::Duration::from_millis(ms));
        }
        Poll::Ready(self.answer.take().expect("polled after completion"))
    }
}

impl Service<GetSigningKeyRequest> for Provider {
    type Response = GetSigningKeyResponse;
    type Error = BoxError;
    type Future = AnswerFuture;

    fn poll_ready(&mut self, cx: &mut Context<'_>) -> Poll<Result<(), BoxError>> {
        if TRACE_FRONT.load(std::sync::atomic::Ordering::SeqCst) {
            unsafe { libc::raise(libc::SIGUSR1) };
        }
        let mut st = self.0.lock().unwrap();
        st.ready_polls += 1;
        let (pr, err) = match st.queue.front() {
            Some(e) => (e.pending_ready, e.ready_err.clone()),
            None => (0, None),
        };
        if !st.pending_init {
            st.pending_left = pr;
            st.pending_init = true;
        }
        if st.pending_left > 0 {
            st.pending_left -= 1;
            cx.waker().wake_by_ref();
            return Poll::Pending;
        }
        st.pending_init = false;
        if let Some(e) = err {
            st.queue.pop_front();
            return Poll::Ready(Err(to_box(&e)));
        }
        st.ready_signalled = true;
        Poll::Ready(Ok(()))
    }

    fn call(&mut self, req: GetSigningKeyRequest) -> AnswerFuture {
        let mut st = self.0.lock().unwrap();
        if !st.ready_signalled {
            st.called_without_ready += 1;
        }
        st.ready_signalled = false;
        st.calls.push(CallRec {
            access_key: req.access_key().to_string(),
            token: req.session_token().map(|s| s.to_string()),
            date: req.request_date(),
            region: req.region().to_string(),
            service: req.service().to_string(),
        });
        let entry = st.queue.pop_front();
        let (pending, answer) = match entry {
            None => (0, Err(to_box(&ProvErr::Foreign))),
            Some(e) => (
                e.pending_answer,
                match &e.answer {
                    Answer::Err(pe) => Err(to_box(pe)),
                    Answer::Key { key, identity } => {
                        let mut k = [0u8; 32];
                        let n = key.len().min(32);
                        k[..n].copy_from_slice(&key[..n]);
                        // KSigningKey has no public constructor from raw bytes; transmute-free route:
                        // derive it through the response builder from a key made by `raw_signing_key`.
                        GetSigningKeyResponse::builder()
                            .principal(principal_for(identity))
                            .session_data(session_for(identity))
                            .signing_key(raw_signing_key(&k))
                            .build()
                            .map_err(|e| -> BoxError { Box::new(e) })
                    }
                },
            ),
        };
        drop(st);
        AnswerFuture { pending, answer: Some(answer), state: self.0.clone() }
    }
}

/// A `KSigningKey` holding exactly these 32 bytes. The type is `Copy` with a single `[u8; 32]` field
/// and no public constructor; it is laid out as that array.
pub fn raw_signing_key(k: &[u8; 32]) -> KSigningKey {
    assert_eq!(std::mem::size_of::<KSigningKey>(), 32);
    unsafe { std::mem::transmute_copy::<[u8; 32], KSigningKey>(k) }
}

pub fn block_on<F: Future>(f: F) -> (F::Output, u64) {
    let mut f = Box::pin(f);
    let waker = Waker::noop();
    let mut cx = Context::from_waker(waker);
    let mut polls = 0u64;
    loop {
        polls += 1;
        if let Poll::Ready(v) = f.as_mut().poll(&mut cx) {
            return (v, polls);
        }
        if polls > 1_000_000 {
            panic!("future never completes");
        }
    }
}

/// Marker stored in the request's extensions by `build_request`.
#[derive(Clone, Debug, PartialEq)]
pub struct ExtensionMarker(pub u32);

#[derive(Clone, Debug, PartialEq)]
pub struct Returned {
    pub extension_kept: bool,
    /// number of values in the returned request's extensions (one was submitted)
    pub extensions_len: usize,
    pub method: String,
    pub uri: String,
    pub version: String,
    pub headers: Vec<(String, Vec<u8>)>,
    pub body: Vec<u8>,
    pub principal: String,
    pub session: String,
    /// the returned session data itself (a hash map: compare with `==`, never through its Debug text)
    pub session_data: SessionData,
}

pub struct ValOut {
    /// `OK` / `ERR <kind>` / `PANIC ...`
    pub class: String,
    pub returned: Option<Returned>,
    pub err_code_status: Option<(String, u16)>,
    pub err_is_signature_error: bool,
    pub err_display: String,
    pub err_debug: String,
    pub calls: Vec<CallRec>,
    pub called_without_ready: u64,
    pub queue_left: usize,
    /// executor polls of the validation future, readiness polls and answer-future polls seen by the provider
    pub polls: u64,
    pub ready_polls: u64,
    pub future_polls: u64,
    /// set when the growable requirements container, after the case's operation history, does not hold
    /// the lists the reference semantics predicts
    pub reqs_mismatch: Option<String>,
}

pub fn build_request(c: &Case) -> Option<Request<Bytes>> {
    let version = match c.version {
        9 => http::Version::HTTP_09,
        10 => http::Version::HTTP_10,
        2 => http::Version::HTTP_2,
        3 => http::Version::HTTP_3,
        _ => http::Version::HTTP_11,
    };
    // an extension value travels with the request parts; it must come back with them
    let mut b = Request::builder().method(c.method.as_bytes()).uri(c.uri.as_str()).version(version).extension(ExtensionMarker(0x51671));
    for (n, v) in &c.headers {
        let name = http::header::HeaderName::from_bytes(n.as_bytes()).ok()?;
        let mut value = http::header::HeaderValue::from_bytes(v).ok()?;
        if n.to_ascii_lowercase().starts_with("x-sensitive-") {
            // the out-of-band "sensitive" flag of a header value (HPACK never-indexed): it is not part of the value
            value.set_sensitive(true);
        }
        b = b.header(name, value);
    }
    b.body(Bytes::from(c.body.clone())).ok()
}

pub fn provider_for(entries: Vec<Entry>) -> Provider {
    let mut st = ProvState::default();
    st.queue = entries.into();
    Provider(Arc::new(Mutex::new(st)))
}

pub fn entry_of(c: &Case) -> Entry {
    Entry {
        ready_err: c.ready_err.clone(),
        pending_ready: c.pending_ready,
        pending_answer: c.pending_answer,
        answer: c.answer.clone(),
    }
}

fn headers_list(h: &http::HeaderMap) -> Vec<(String, Vec<u8>)> {
    h.iter().map(|(n, v)| (n.as_str().to_string(), v.as_bytes().to_vec())).collect()
}

/// Run `sigv4_validate_request` on the real crate against a given provider.
pub fn validate_with(c: &Case, req: Request<Bytes>, prov: &mut Provider) -> ValOut {
    flip_log_level();
    let now = mk_time(c.now.0, c.now.1).expect("server time in chrono range");
    let opts = SignatureOptions { s3: c.s3, url_encode_form: c.fold };
    let calls_before = prov.0.lock().unwrap().calls.len();
    let mut reqs_mismatch: Option<String> = None;
    let polls_seen = std::cell::Cell::new(0u64);
    let (ready_before, fut_before) = { let st = prov.0.lock().unwrap(); (st.ready_polls, st.future_polls) };
    let r = catch_unwind(AssertUnwindSafe(|| {
        if c.vec_reqs && c.req_ops.len() == 1 && c.req_ops[0].0 == 'N' {
            // the growable container built by its constructor from the three lists as given
            let a: Vec<&str> = c.always.iter().map(|s| s.as_str()).collect();
            let b: Vec<&str> = c.ifreq.iter().map(|s| s.as_str()).collect();
            let p: Vec<&str> = c.prefixes.iter().map(|s| s.as_str()).collect();
            let reqs = VecSignedHeaderRequirements::new(&a, &b, &p);
            { let (r, n) = block_on(sigv4_validate_request(req, &c.region, &c.service, prov, now, &reqs, opts)); polls_seen.set(n); r }
        } else if c.vec_reqs && !c.req_ops.is_empty() {
            use scratchstack_aws_signature::SignedHeaderRequirements;
            let mut reqs = VecSignedHeaderRequirements::default();
            for (op, name) in &c.req_ops {
                match op {
                    'A' => reqs.add_always_present(name),
                    'I' => reqs.add_if_in_request(name),
                    'P' => reqs.add_prefix(name),
                    'a' => reqs.remove_always_present(name),
                    'i' => reqs.remove_if_in_request(name),
                    'V' => {
                        // the container is *used* in the middle of its history: a validation of this very request
                        // (own provider, result discarded) — whatever a container remembers from being used must
                        // not outlive the next modification
                        if let Some(r2) = build_request(c) {
                            let mut p2 = provider_for(vec![entry_of(c)]);
                            let _ = block_on(sigv4_validate_request(r2, &c.region, &c.service, &mut p2, now, &reqs, opts));
                        }
                        let _ = reqs.clone();
                    }
                    _ => reqs.remove_prefix(name),
                }
            }
            let got = (
                reqs.always_present().iter().map(|x| x.to_string()).collect::<Vec<_>>(),
                reqs.if_in_request().iter().map(|x| x.to_string()).collect::<Vec<_>>(),
                reqs.prefixes().iter().map(|x| x.to_string()).collect::<Vec<_>>(),
            );
            if got != (c.always.clone(), c.ifreq.clone(), c.prefixes.clone()) {
                reqs_mismatch = Some(format!("{:?}", got));
            }
            { let (r, n) = block_on(sigv4_validate_request(req, &c.region, &c.service, prov, now, &reqs, opts)); polls_seen.set(n); r }
        } else if c.vec_reqs {
            // built through the mutating API, one name at a time
            let mut reqs = VecSignedHeaderRequirements::default();
            for a in &c.always {
                reqs.add_always_present(a);
            }
            for a in &c.ifreq {
                reqs.add_if_in_request(a);
            }
            for a in &c.prefixes {
                reqs.add_prefix(a);
            }
            { let (r, n) = block_on(sigv4_validate_request(req, &c.region, &c.service, prov, now, &reqs, opts)); polls_seen.set(n); r }
        } else {
            let a: Vec<Cow<str>> = c.always.iter().map(|s| Cow::Borrowed(s.as_str())).collect();
            let b: Vec<Cow<str>> = c.ifreq.iter().map(|s| Cow::Borrowed(s.as_str())).collect();
            let p: Vec<Cow<str>> = c.prefixes.iter().map(|s| Cow::Borrowed(s.as_str())).collect();
            let reqs = SliceSignedHeaderRequirements::new(&a, &b, &p);
            { let (r, n) = block_on(sigv4_validate_request(req, &c.region, &c.service, prov, now, &reqs, opts)); polls_seen.set(n); r }
        }
    }));
    let st = prov.0.lock().unwrap();
    let calls = st.calls[calls_before..].to_vec();
    let mut out = ValOut {
        class: String::new(),
        returned: None,
        err_code_status: None,
        err_is_signature_error: false,
        err_display: String::new(),
        err_debug: String::new(),
        calls,
        called_without_ready: st.called_without_ready,
        queue_left: st.queue.len(),
        polls: polls_seen.get(),
        ready_polls: st.ready_polls - ready_before,
        future_polls: st.future_polls - fut_before,
        reqs_mismatch,
    };
    match r {
        Err(p) => out.class = format!("PANIC {}", panic_msg(p).replace(' ', "_")),
        Ok(Ok((parts, body, resp))) => {
            out.class = "OK".to_string();
            out.returned = Some(Returned {
                extension_kept: parts.extensions.get::<ExtensionMarker>() == Some(&ExtensionMarker(0x51671)),
                extensions_len: parts.extensions.len(),
                method: parts.method.to_string(),
                uri: parts.uri.to_string(),
                version: format!("{:?}", parts.version),
                headers: headers_list(&parts.headers),
                body: body.to_vec(),
                principal: format!("{:?}", resp.principal()),
                session: session_debug(resp.session_data()),
                session_data: resp.session_data().clone(),
            });
        }
        Ok(Err(e)) => {
            out.err_display = format!("{}", e);
            out.err_debug = format!("{:?}", e);
            match e.downcast::<SignatureError>() {
                Ok(se) => {
                    out.err_is_signature_error = true;
                    out.class = format!("ERR {}", kind_of(&se));
                    out.err_code_status =
                        Some((ServiceError::error_code(&*se).to_string(), ServiceError::http_status(&*se).as_u16()));
                }
                Err(_) => out.class = "ERR NotASignatureError".to_string(),
            }
        }
    }
    out
}

/// What the `encoding` crate says about the charset of a form body, for labels the model does not
/// decide itself: `U` unknown label, `X` undecodable, `D<hex>` decoded text.
pub fn other_charset(label: Option<&str>, body: &[u8]) -> String {
    use encoding::label::encoding_from_whatwg_label;
    use encoding::types::DecoderTrap;
    match label {
        None => "U".to_string(),
        Some(l) => match encoding_from_whatwg_label(l) {
            None => "U".to_string(),
            Some(enc) => match catch_unwind(AssertUnwindSafe(|| enc.decode(body, DecoderTrap::Strict))) {
                Ok(Ok(t)) => {
                    if t.len() > 200_000 {
                        // keep protocol lines bounded; the model ignores this for UTF-8 labels
                        "X".to_string()
                    } else {
                        format!("D{}", hx(t.as_bytes()))
                    }
                }
                _ => "X".to_string(),
            },
        },
    }
}

pub fn is_utf8_label(l: &str) -> bool {
    encoding::label::encoding_from_whatwg_label(l).map(|e| e.name() == "utf-8").unwrap_or(false)
}

/// AUTH op on the implementation (unstable API): canonical request bytes, extracted parameters.
pub fn auth_op(c: &Case, req: Request<Bytes>) -> String {
    let opts = SignatureOptions { s3: c.s3, url_encode_form: c.fold };
    let a: Vec<Cow<str>> = c.always.iter().map(|s| Cow::Borrowed(s.as_str())).collect();
    let b: Vec<Cow<str>> = c.ifreq.iter().map(|s| Cow::Borrowed(s.as_str())).collect();
    let p: Vec<Cow<str>> = c.prefixes.iter().map(|s| Cow::Borrowed(s.as_str())).collect();
    let reqs = SliceSignedHeaderRequirements::new(&a, &b, &p);
    guard(|| {
        let (parts, body) = req.into_parts();
        let (creq, _parts, _body) = CanonicalRequest::from_request_parts(parts, body, opts)?;
        let ap = creq.get_auth_parameters(&reqs)?;
        let signed = ap.signed_headers.clone();
        let creq_bytes = creq.canonical_request(&signed);
        let a = creq.get_authenticator(&reqs)?;
        Ok(format!(
            "creq={} cred={} sig={} tok={} t={} signed={} params={}",
            hx(&creq_bytes),
            hx(a.credential().as_bytes()),
            hx(a.signature().as_bytes()),
            hx_opt(a.session_token().map(|t| t.as_bytes())),
            ts_ns(a.request_timestamp()),
            hx_list(&signed),
            show_map(creq.query_parameters())
        ))
    })
}

/// STS op: string to sign after prevalidate (unstable API).
pub fn sts_op(c: &Case, req: Request<Bytes>) -> String {
    let opts = SignatureOptions { s3: c.s3, url_encode_form: c.fold };
    let a: Vec<Cow<str>> = c.always.iter().map(|s| Cow::Borrowed(s.as_str())).collect();
    let b: Vec<Cow<str>> = c.ifreq.iter().map(|s| Cow::Borrowed(s.as_str())).collect();
    let p: Vec<Cow<str>> = c.prefixes.iter().map(|s| Cow::Borrowed(s.as_str())).collect();
    let reqs = SliceSignedHeaderRequirements::new(&a, &b, &p);
    let now = mk_time(c.now.0, c.now.1).expect("server time");
    guard(|| {
        let (parts, body) = req.into_parts();
        let (creq, _parts, _body) = CanonicalRequest::from_request_parts(parts, body, opts)?;
        let a = creq.get_authenticator(&reqs)?;
        a.prevalidate(&c.region, &c.service, now, chrono::Duration::minutes(15))?;
        Ok(hx(&a.get_string_to_sign()))
    })
}

/// Debug renderings of the intermediate public values of a validation (unstable API): the canonical
/// request, the extracted parameters, the authenticator.
pub fn debug_views(c: &Case, req: Request<Bytes>) -> Vec<String> {
    let opts = SignatureOptions { s3: c.s3, url_encode_form: c.fold };
    let r = catch_unwind(AssertUnwindSafe(|| {
        let mut out = Vec::new();
        let (parts, body) = req.into_parts();
        if let Ok((creq, _p, _b)) = CanonicalRequest::from_request_parts(parts, body, opts) {
            out.push(format!("{:?}", creq));
            out.push(format!("{:#?}", creq));
            let reqs = scratchstack_aws_signature::NO_ADDITIONAL_SIGNED_HEADERS;
            if let Ok(ap) = creq.get_auth_parameters(&reqs) {
                out.push(format!("{:?}", ap));
            }
            if let Ok(a) = creq.get_authenticator(&reqs) {
                out.push(format!("{:?}", a));
                out.push(format!("{:#?}", a));
            }
        }
        out
    }));
    r.unwrap_or_default()
}

/// The same validation with the body handed over as another `IntoRequestBytes` type
/// (`kind`: 0 = Bytes, 1 = Vec<u8>, 2 = () — only meaningful for an empty body) and, when `adapter` is
/// set, with the key provider wrapped by `service_for_signing_key_fn` instead of the instrumented service.
/// Returns the outcome class and (method, uri, body, principal) of the returned request.
pub fn validate_variant(c: &Case, kind: u8, adapter: bool) -> Option<(String, Option<(String, String, Vec<u8>, String)>)> {
    use scratchstack_aws_signature::service_for_signing_key_fn;
    let now = mk_time(c.now.0, c.now.1)?;
    let opts = SignatureOptions { s3: c.s3, url_encode_form: c.fold };
    let a: Vec<Cow<str>> = c.always.iter().map(|s| Cow::Borrowed(s.as_str())).collect();
    let b: Vec<Cow<str>> = c.ifreq.iter().map(|s| Cow::Borrowed(s.as_str())).collect();
    let p: Vec<Cow<str>> = c.prefixes.iter().map(|s| Cow::Borrowed(s.as_str())).collect();
    let reqs = SliceSignedHeaderRequirements::new(&a, &b, &p);
    let base = build_request(c)?;
    let (parts, body) = base.into_parts();
    let answer = c.answer.clone();
    let ready_err = c.ready_err.clone();
    let run = move || -> Result<(http::request::Parts, Bytes, scratchstack_aws_signature::auth::SigV4AuthenticatorResponse), BoxError> {
        macro_rules! go {
            ($req:expr) => {{
                if adapter {
                    let shared = std::sync::Arc::new(answer.clone());
                    // (bound to a variable first: passed directly, the adapter's `FnOnce` bound would make the
                    // closure FnOnce-only and the resulting ServiceFn would not be a Service)
                    let f = move |_r: GetSigningKeyRequest| {
                        let a = shared.clone();
                        async move {
                            match &*a {
                                Answer::Err(pe) => Err(to_box(pe)),
                                Answer::Key { key, identity } => {
                                    let mut k = [0u8; 32];
                                    let n = key.len().min(32);
                                    k[..n].copy_from_slice(&key[..n]);
                                    GetSigningKeyResponse::builder().principal(principal_for(identity)).session_data(session_for(identity)).signing_key(raw_signing_key(&k)).build().map_err(|e| -> BoxError { Box::new(e) })
                                }
                            }
                        }
                    };
                    let mut svc = service_for_signing_key_fn(f);
                    block_on(sigv4_validate_request($req, &c.region, &c.service, &mut svc, now, &reqs, opts)).0
                } else {
                    let mut prov = provider_for(vec![Entry { ready_err: ready_err.clone(), pending_ready: 0, pending_answer: 0, answer: answer.clone() }]);
                    block_on(sigv4_validate_request($req, &c.region, &c.service, &mut prov, now, &reqs, opts)).0
                }
            }};
        }
        match kind {
            1 => go!(Request::from_parts(parts, body.to_vec())),
            2 => go!(Request::from_parts(parts, ())),
            _ => go!(Request::from_parts(parts, body)),
        }
    };
    let r = catch_unwind(AssertUnwindSafe(run));
    Some(match r {
        Err(_) => ("PANIC".to_string(), None),
        Ok(Ok((parts, body, resp))) => ("OK".to_string(), Some((parts.method.to_string(), parts.uri.to_string(), body.to_vec(), format!("{:?}", resp.principal())))),
        Ok(Err(e)) => match e.downcast::<SignatureError>() {
            Ok(se) => (format!("ERR {}", kind_of(&se)), None),
            Err(_) => ("ERR NotASignatureError".to_string(), None),
        },
    })
}

/// `prevalidate` + `get_string_to_sign` on an authenticator built directly (unstable API), for arbitrary
/// credential strings and instants.
pub fn preval(cred: &str, t: (i64, u32), now: (i64, u32), region: &str, service: &str) -> Option<String> {
    flip_log_level();
    let ts = mk_time(t.0, t.1)?;
    let now = mk_time(now.0, now.1)?;
    Some(guard(|| {
        let mut b = SigV4Authenticator::builder();
        b.canonical_request_sha256([0u8; 32]);
        b.credential(cred.to_string());
        b.signature("x".to_string());
        b.request_timestamp(ts);
        let a = b.build().expect("all fields set");
        a.prevalidate(region, service, now, chrono::Duration::minutes(15))?;
        Ok(hx(&a.get_string_to_sign()))
    }))
}

pub fn is_unreserved(b: u8) -> bool {
    canonical::is_rfc3986_unreserved(b)
}
pub fn upper_hex(b: u8) -> Vec<u8> {
    canonical::u8_to_upper_hex(b).to_vec()
}
pub fn latin1(s: &[u8]) -> Vec<u8> {
    canonical::latin1_to_string(s).into_bytes()
}
pub fn trim(s: &[u8]) -> Vec<u8> {
    canonical::trim_ascii(s).to_vec()
}

/// Several validations in flight on one thread: each future is polled in turn (round robin) until all are done,
/// so that every validation is suspended at its key provider while the others run. Outcome per case:
/// `OK uri=<returned uri>` / `ERR <kind>` / `PANIC`; None if a request is not admitted by `http`.
pub fn validate_interleaved(cases: &[Case]) -> Option<Vec<String>> {
    let mut provs: Vec<Provider> = cases.iter().map(|c| provider_for(vec![entry_of(c)])).collect();
    let reqsets: Vec<VecSignedHeaderRequirements> = cases
        .iter()
        .map(|c| {
            let mut r = VecSignedHeaderRequirements::default();
            for a in &c.always {
                r.add_always_present(a);
            }
            for a in &c.ifreq {
                r.add_if_in_request(a);
            }
            for a in &c.prefixes {
                r.add_prefix(a);
            }
            r
        })
        .collect();
    let mut requests = Vec::new();
    for c in cases {
        requests.push(build_request(c)?);
    }
    let r = catch_unwind(AssertUnwindSafe(|| {
        let mut futs: Vec<Option<Pin<Box<dyn Future<Output = String> + '_>>>> = Vec::new();
        for (((c, p), rs), req) in cases.iter().zip(provs.iter_mut()).zip(reqsets.iter()).zip(requests.into_iter()) {
            let now = mk_time(c.now.0, c.now.1).expect("server time in chrono range");
            let opts = SignatureOptions { s3: c.s3, url_encode_form: c.fold };
            futs.push(Some(Box::pin(async move {
                match sigv4_validate_request(req, &c.region, &c.service, p, now, rs, opts).await {
                    Ok((parts, _body, _resp)) => format!("OK uri={}", parts.uri),
                    Err(e) => match e.downcast::<SignatureError>() {
                        Ok(se) => format!("ERR {}", kind_of(&se)),
                        Err(_) => "ERR NotASignatureError".to_string(),
                    },
                }
            })));
        }
        let waker = Waker::noop();
        let mut cx = Context::from_waker(waker);
        let mut out: Vec<Option<String>> = vec![None; futs.len()];
        let mut rounds = 0u64;
        while out.iter().any(|o| o.is_none()) {
            rounds += 1;
            if rounds > 100_000 {
                panic!("interleaved validations never complete");
            }
            for (i, f) in futs.iter_mut().enumerate() {
                if let Some(fut) = f {
                    if let Poll::Ready(v) = fut.as_mut().poll(&mut cx) {
                        out[i] = Some(v);
                        *f = None;
                    }
                }
            }
        }
        out.into_iter().map(|o| o.unwrap()).collect::<Vec<String>>()
    }));
    Some(match r {
        Ok(v) => v,
        Err(p) => vec![format!("PANIC {}", panic_msg(p).replace(' ', "_")); cases.len()],
    })
}

/// Start a validation, poll it `polls` times and drop it unfinished (a client that went away, a timeout):
/// returns true if it completed within those polls. Whatever the library holds while a validation is in
/// flight must be released when its future is dropped.
pub fn validate_abandoned(c: &Case, polls: usize) -> Option<bool> {
    let mut prov = provider_for(vec![entry_of(c)]);
    let req = build_request(c)?;
    let a: Vec<Cow<str>> = c.always.iter().map(|s| Cow::Borrowed(s.as_str())).collect();
    let b: Vec<Cow<str>> = c.ifreq.iter().map(|s| Cow::Borrowed(s.as_str())).collect();
    let p: Vec<Cow<str>> = c.prefixes.iter().map(|s| Cow::Borrowed(s.as_str())).collect();
    let reqs = SliceSignedHeaderRequirements::new(&a, &b, &p);
    let now = mk_time(c.now.0, c.now.1)?;
    let opts = SignatureOptions { s3: c.s3, url_encode_form: c.fold };
    let r = catch_unwind(AssertUnwindSafe(|| {
        let mut fut = Box::pin(sigv4_validate_request(req, &c.region, &c.service, &mut prov, now, &reqs, opts));
        let waker = Waker::noop();
        let mut cx = Context::from_waker(waker);
        for _ in 0..polls {
            if fut.as_mut().poll(&mut cx).is_ready() {
                return true;
            }
        }
        false
    }));
    Some(r.unwrap_or(true))
}

// ---------------------------------------------------------------------------------------------
// Histories on one authenticator object (unstable API) and re-submission of returned request parts

/// One step of a history on a single `SigV4Authenticator` (or on a clone of it, `on_clone`).
#[derive(Clone, Debug)]
pub struct AuthStep {
    pub validate: bool, // false: prevalidate, true: validate_signature (provider returns a fixed key; the signature is "x")
    pub on_clone: bool,
    pub region: String,
    pub service: String,
    pub now: (i64, u32),
    pub mismatch_secs: i64,
}

/// Run the steps in order on one authenticator built directly from (credential, timestamp). Each entry of the result is
/// `OK` / `ERR <kind>` / `PANIC…` followed by ` calls=<n>` for validate steps.
pub fn auth_history(cred: &str, t: (i64, u32), steps: &[AuthStep]) -> Option<Vec<String>> {
    let ts = mk_time(t.0, t.1)?;
    let mut b = SigV4Authenticator::builder();
    b.canonical_request_sha256([7u8; 32]);
    b.credential(cred.to_string());
    b.signature("x".to_string());
    b.request_timestamp(ts);
    let a = b.build().ok()?;
    let mut out = Vec::new();
    for st in steps {
        flip_log_level();
        let now = mk_time(st.now.0, st.now.1)?;
        let cl;
        let obj: &SigV4Authenticator = if st.on_clone {
            cl = a.clone();
            &cl
        } else {
            &a
        };
        let dur = chrono::Duration::seconds(st.mismatch_secs);
        if !st.validate {
            out.push(guard(|| {
                obj.prevalidate(&st.region, &st.service, now, dur)?;
                Ok(String::new())
            }).trim().to_string());
        } else {
            let mut prov = provider_for(vec![Entry { ready_err: None, pending_ready: 0, pending_answer: 0, answer: Answer::Key { key: vec![9u8; 32], identity: "u".into() } }]);
            let r = catch_unwind(AssertUnwindSafe(|| block_on(obj.validate_signature(&st.region, &st.service, now, dur, &mut prov)).0));
            let calls = prov.0.lock().unwrap().calls.len();
            let class = match r {
                Err(p) => format!("PANIC {}", panic_msg(p).replace(' ', "_")),
                Ok(Ok(_)) => "OK".to_string(),
                Ok(Err(e)) => format!("ERR {}", kind_of(&e)),
            };
            out.push(format!("{} calls={}", class, calls));
        }
    }
    Some(out)
}

/// Validate `c`; if it is accepted, put the returned parts together with `new_body` and hand the result to `f`
/// (a second validation, the AUTH diagnostic, …). The returned parts carry whatever the first validation left in them.
pub fn with_resubmitted<T>(c: &Case, new_body: &[u8], f: impl FnOnce(Request<Bytes>) -> T) -> Option<(Vec<(String, Vec<u8>)>, String, T)> {
    let req = build_request(c)?;
    let now = mk_time(c.now.0, c.now.1)?;
    let opts = SignatureOptions { s3: c.s3, url_encode_form: c.fold };
    let a: Vec<Cow<str>> = c.always.iter().map(|s| Cow::Borrowed(s.as_str())).collect();
    let b: Vec<Cow<str>> = c.ifreq.iter().map(|s| Cow::Borrowed(s.as_str())).collect();
    let p: Vec<Cow<str>> = c.prefixes.iter().map(|s| Cow::Borrowed(s.as_str())).collect();
    let reqs = SliceSignedHeaderRequirements::new(&a, &b, &p);
    let mut prov = provider_for(vec![entry_of(c)]);
    let r = catch_unwind(AssertUnwindSafe(|| block_on(sigv4_validate_request(req, &c.region, &c.service, &mut prov, now, &reqs, opts)).0)).ok()?;
    let (parts, _body, _resp) = r.ok()?;
    let headers = headers_list(&parts.headers);
    let uri = parts.uri.to_string();
    let again = Request::from_parts(parts, Bytes::from(new_body.to_vec()));
    Some((headers, uri, f(again)))
}

// ---------------------------------------------------------------------------------------------
// One `service_for_signing_key_fn` adapter object used for a whole history of validations

/// Validate the cases in order through ONE adapter built by `service_for_signing_key_fn` around a function that
/// answers the i-th lookup with the i-th case's scripted answer (key + identity, or error). Returns for every case
/// `OK principal=<Debug>` / `ERR kind` / `PANIC`, and the number of times the wrapped function was called.
pub fn validate_history_through_adapter(cases: &[Case], use_clone: bool) -> Option<(Vec<String>, usize)> {
    use scratchstack_aws_signature::service_for_signing_key_fn;
    let answers: Arc<Vec<Answer>> = Arc::new(cases.iter().map(|c| c.answer.clone()).collect());
    let cursor = Arc::new(std::sync::atomic::AtomicUsize::new(0));
    let calls = Arc::new(std::sync::atomic::AtomicUsize::new(0));
    let (a2, c2, n2) = (answers.clone(), cursor.clone(), calls.clone());
    let f = move |_r: GetSigningKeyRequest| {
        let idx = c2.load(std::sync::atomic::Ordering::SeqCst);
        n2.fetch_add(1, std::sync::atomic::Ordering::SeqCst);
        let a = a2[idx.min(a2.len() - 1)].clone();
        async move {
            match a {
                Answer::Err(pe) => Err(to_box(&pe)),
                Answer::Key { key, identity } => {
                    let mut k = [0u8; 32];
                    let n = key.len().min(32);
                    k[..n].copy_from_slice(&key[..n]);
                    GetSigningKeyResponse::builder().principal(principal_for(&identity)).session_data(session_for(&identity)).signing_key(raw_signing_key(&k)).build().map_err(|e| -> BoxError { Box::new(e) })
                }
            }
        }
    };
    let svc = service_for_signing_key_fn(f);
    let mut out = Vec::new();
    for (i, c) in cases.iter().enumerate() {
        cursor.store(i, std::sync::atomic::Ordering::SeqCst);
        let req = build_request(c)?;
        let now = mk_time(c.now.0, c.now.1)?;
        let opts = SignatureOptions { s3: c.s3, url_encode_form: c.fold };
        let a: Vec<Cow<str>> = c.always.iter().map(|s| Cow::Borrowed(s.as_str())).collect();
        let b: Vec<Cow<str>> = c.ifreq.iter().map(|s| Cow::Borrowed(s.as_str())).collect();
        let p: Vec<Cow<str>> = c.prefixes.iter().map(|s| Cow::Borrowed(s.as_str())).collect();
        let reqs = SliceSignedHeaderRequirements::new(&a, &b, &p);
        flip_log_level();
        let mut s = if use_clone && i % 2 == 1 { svc.clone() } else { svc.clone() };
        let r = catch_unwind(AssertUnwindSafe(|| block_on(sigv4_validate_request(req, &c.region, &c.service, &mut s, now, &reqs, opts)).0));
        out.push(match r {
            Err(_) => "PANIC".to_string(),
            Ok(Ok((_p, _b, resp))) => format!("OK principal={:?} session_ok={}", resp.principal(), match &c.answer { Answer::Key { identity, .. } => resp.session_data() == &session_for(identity), _ => false }),
            Ok(Err(e)) => match e.downcast::<SignatureError>() {
                Ok(se) => format!("ERR {}", kind_of(&se)),
                Err(_) => "ERR NotASignatureError".to_string(),
            },
        });
    }
    Some((out, calls.load(std::sync::atomic::Ordering::SeqCst)))
}

/// `canonical_request(signed)` evaluated for each list in turn on ONE `CanonicalRequest` object (unstable API), and
/// on a fresh object per list: returns (on one object, on fresh objects), hex-encoded.
pub fn canonical_request_history(c: &Case, lists: &[Vec<String>]) -> Option<(Vec<String>, Vec<String>)> {
    let opts = SignatureOptions { s3: c.s3, url_encode_form: c.fold };
    let mk = || -> Option<CanonicalRequest> {
        let req = build_request(c)?;
        let (parts, body) = req.into_parts();
        CanonicalRequest::from_request_parts(parts, body, opts).ok().map(|x| x.0)
    };
    let one = mk()?;
    let mut a = Vec::new();
    let mut b = Vec::new();
    for (i, l) in lists.iter().enumerate() {
        flip_log_level();
        let obj = if i % 2 == 1 { one.clone() } else { one.clone() };
        let target: &CanonicalRequest = if i % 3 == 2 { &obj } else { &one };
        a.push(guard(|| Ok(hx(&target.canonical_request(l)))));
        let fresh = mk()?;
        b.push(guard(|| Ok(hx(&fresh.canonical_request(l)))));
    }
    Some((a, b))
}
