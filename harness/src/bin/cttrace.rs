//! C07 runtime tie: instruction-address traces of the refusal of wrong signatures, recorded by
//! single-stepping a forked child under ptrace from the moment the key provider's answer becomes
//! ready to the return of `sigv4_validate_request`.
//!
//! This binary supplies byte-wise early-exit `memcmp`/`bcmp`, so that a comparison done through them
//! (e.g. `==` on slices) shows a position-dependent trace whatever the C library's vector width.
use sigv4_verif_harness::case::*;
use sigv4_verif_harness::gen::*;
use sigv4_verif_harness::imp;
use sigv4_verif_harness::props_validate::{set_signature, simple_logical};
use sigv4_verif_harness::util::*;
use std::sync::atomic::Ordering;

#[no_mangle]
pub unsafe extern "C" fn memcmp(a: *const u8, b: *const u8, n: usize) -> i32 {
    let mut i = 0usize;
    while i < n {
        let x = core::ptr::read_volatile(a.add(i));
        let y = core::ptr::read_volatile(b.add(i));
        if x != y {
            return x as i32 - y as i32;
        }
        i += 1;
    }
    0
}

#[no_mangle]
pub unsafe extern "C" fn bcmp(a: *const u8, b: *const u8, n: usize) -> i32 {
    let mut i = 0usize;
    while i < n {
        let x = core::ptr::read_volatile(a.add(i));
        let y = core::ptr::read_volatile(b.add(i));
        if x != y {
            return 1;
        }
        i += 1;
    }
    0
}

/// What runs in the traced child between the two markers.
enum Work<'a> {
    Validate(&'a Case),
    /// the variant of a signed base whose presented signature first differs at `pos` (built in the child)
    Variant { base: &'a Signed, pos: usize, k: usize },
    /// the same variant, traced from the entry of the validation to the provider's first readiness poll
    /// (the *front* window): nothing there may depend on which characters of the signature are wrong either
    /// (a remembered earlier signature compared with `==`, say)
    FrontVariant { base: &'a Signed, pos: usize, k: usize },
    /// self-check of the tracer: an early-exit comparison of two 64-byte strings through `==`
    EarlyExit(&'a [u8], &'a [u8]),
}

fn run_work(w: &Work) {
    match w {
        Work::Validate(c) => {
            let req = imp::build_request(c).expect("request");
            let mut prov = imp::provider_for(vec![imp::entry_of(c)]);
            imp::TRACE_MARK.store(true, Ordering::SeqCst);
            let v = imp::validate_with(c, req, &mut prov);
            unsafe { libc::raise(libc::SIGUSR1) };
            std::hint::black_box(v.class);
        }
        Work::Variant { base, pos, k } => {
            let c = variant_of(base, *pos, *k);
            run_work(&Work::Validate(&c));
        }
        Work::FrontVariant { base, pos, k } => {
            let c = variant_of(base, *pos, *k);
            let req = imp::build_request(&c).expect("request");
            let mut prov = imp::provider_for(vec![imp::entry_of(&c)]);
            imp::TRACE_FRONT.store(true, Ordering::SeqCst);
            unsafe { libc::raise(libc::SIGSTOP) };
            let v = imp::validate_with(&c, req, &mut prov);
            // not reached when the provider is consulted (its readiness poll raises the end marker)
            unsafe { libc::raise(libc::SIGUSR1) };
            std::hint::black_box(v.class);
        }
        Work::EarlyExit(a, b) => {
            unsafe { libc::raise(libc::SIGSTOP) };
            let eq = std::hint::black_box(*a) == std::hint::black_box(*b);
            unsafe { libc::raise(libc::SIGUSR1) };
            std::hint::black_box(eq);
        }
    }
}

/// Fork, trace the child between its SIGSTOP marker and its SIGUSR1 marker; the RIP sequence goes into
/// `rips` (cleared first; never reallocated: the tracer must not disturb its own heap between forks, or the
/// children — copies of it — would start from different allocator states).
fn trace(w: &Work, rips: &mut Vec<u64>) -> Result<(), &'static str> {
    rips.clear();
    unsafe {
        let pid = libc::fork();
        if pid < 0 {
            return Err("fork failed");
        }
        if pid == 0 {
            libc::ptrace(libc::PTRACE_TRACEME, 0, 0, 0);
            libc::raise(libc::SIGSTOP); // synchronise with the tracer
            run_work(w);
            libc::_exit(0);
        }
        let mut status = 0i32;
        let wait = |status: &mut i32| -> i32 { libc::waitpid(pid, status as *mut i32, 0) };
        wait(&mut status);
        if !libc::WIFSTOPPED(status) {
            return Err("child did not stop");
        }
        // run to the start marker (the provider's answer is about to become ready)
        libc::ptrace(libc::PTRACE_CONT, pid, 0, 0);
        wait(&mut status);
        if !(libc::WIFSTOPPED(status) && libc::WSTOPSIG(status) == libc::SIGSTOP) {
            libc::kill(pid, libc::SIGKILL);
            wait(&mut status);
            return Err("no start marker");
        }
        let mut regs: libc::user_regs_struct = std::mem::zeroed();
        loop {
            if libc::ptrace(libc::PTRACE_SINGLESTEP, pid, 0, 0) != 0 {
                return Err("singlestep failed");
            }
            wait(&mut status);
            if libc::WIFEXITED(status) || libc::WIFSIGNALED(status) {
                return Err("child ended before the end marker");
            }
            let sig = libc::WSTOPSIG(status);
            if sig == libc::SIGUSR1 {
                break;
            }
            if sig != libc::SIGTRAP {
                libc::kill(pid, libc::SIGKILL);
                wait(&mut status);
                return Err("unexpected signal while stepping");
            }
            libc::ptrace(libc::PTRACE_GETREGS, pid, 0, &mut regs as *mut _);
            if rips.len() == rips.capacity() {
                libc::kill(pid, libc::SIGKILL);
                wait(&mut status);
                return Err("trace too long");
            }
            rips.push(regs.rip);
        }
        libc::kill(pid, libc::SIGKILL);
        wait(&mut status);
        Ok(())
    }
}

fn same_class_other(c: u8, k: usize) -> u8 {
    if c.is_ascii_digit() {
        b'0' + ((c - b'0') as usize + 1 + k % 9) as u8 % 10
    } else {
        b'a' + ((c - b'a') as usize + 1 + k % 5) as u8 % 6
    }
}

fn variant_of(s: &Signed, p: usize, k: usize) -> Case {
    let mut sig = s.signature.clone().into_bytes();
    sig[p] = same_class_other(sig[p], k);
    if k == 2 {
        // an upper-case hex letter at the first differing position (a client that sends upper-case hex)
        sig[p] = b'A' + ((p % 6) as u8);
    }
    if k == 3 {
        // a character outside the hex alphabet at the first differing position (a guess padded with 'x', say)
        sig[p] = b'g' + (p % 19) as u8;
    }
    if k == 1 {
        // everything after the first difference differs too (same class)
        for q in p + 1..64 {
            sig[q] = same_class_other(sig[q], q);
        }
    }
    let sig = String::from_utf8(sig).unwrap();
    let mut c = s.case.clone();
    set_signature(&mut c, &s.signature, &sig);
    c
}

fn first_divergence(a: &[u64], b: &[u64]) -> Option<usize> {
    if a == b {
        return None;
    }
    Some(a.iter().zip(b.iter()).position(|(x, y)| x != y).unwrap_or(a.len().min(b.len())))
}

/// A `log` sink that formats every record it is given (as a real logger would) and keeps nothing.
struct Sink;
impl log::Log for Sink {
    fn enabled(&self, _m: &log::Metadata) -> bool {
        true
    }
    fn log(&self, r: &log::Record) {
        use std::fmt::Write;
        let mut s = String::new();
        let _ = write!(s, "{}", r.args());
        std::hint::black_box(s.len());
    }
    fn flush(&self) {}
}
static SINK: Sink = Sink;

fn main() {
    let args: Vec<String> = std::env::args().collect();
    let thorough = args.get(1).map(|s| s == "thorough").unwrap_or(false);
    let seed: u64 = args.get(2).and_then(|s| s.parse().ok()).unwrap_or(20260929);
    std::panic::set_hook(Box::new(|_| {}));
    let mut rng = Rng::new(seed);
    let mut rep = Report::default();
    let t0 = std::time::Instant::now();

    let mut cur: Vec<u64> = Vec::with_capacity(8_000_000);
    let mut reference: Vec<u64> = Vec::with_capacity(8_000_000);
    // self-check of the tracer: an early-exit comparison must show position-dependent traces
    {
        let a = [b'a'; 64];
        let mut b0 = a;
        b0[0] = b'b';
        let mut b63 = a;
        b63[63] = b'b';
        let r1 = trace(&Work::EarlyExit(&a, &b0), &mut cur);
        let n0 = cur.len();
        let r2 = trace(&Work::EarlyExit(&a, &b63), &mut cur);
        let n63 = cur.len();
        if r1.is_err() || r2.is_err() {
            rep.fail(Failure { kind: "INTERNAL", op: "TRACE".into(), class: "tracer-failed".into(), input: "self-check".into(), imp: format!("{:?} {:?}", r1.err(), r2.err()), model: String::new(), spec: String::new(), clause: "ptrace single-stepping does not work in this environment".into() });
            rep.print();
            println!("DONE");
            return;
        }
        rep.add("selfcheck.early_exit_steps_pos0", n0 as u64);
        rep.add("selfcheck.early_exit_steps_pos63", n63 as u64);
        if n0 == n63 {
            rep.fail(Failure { kind: "INTERNAL", op: "TRACE".into(), class: "tracer-blind".into(), input: "early-exit comparison, first difference at 0 vs 63".into(), imp: format!("{} vs {} steps", n0, n63), model: "trace length = index of first difference + 1".into(), spec: String::new(), clause: "the tracer does not distinguish an early-exit comparison at different positions".into() });
        }
    }

    if std::env::var("CTTRACE_MAPS").is_ok() {
        eprintln!("{}", std::fs::read_to_string("/proc/self/maps").unwrap_or_default());
    }
    let nbases = if thorough { 6 } else { 2 };
    for base in 0..nbases {
        // base request: header carrier for even bases, query carrier for odd ones; random otherwise
        let mut l = if base < 2 { simple_logical(if base == 0 { Carrier::Header } else { Carrier::Query }, 1_440_938_160_000_000_000) } else { random_logical(&mut rng) };
        l.secret = if base % 2 == 0 { "wJalrXUtnFEMI/K7MDENG+bPxRfiCYEXAMPLEKEY".into() } else { "Zq9x8mT2vB4nH6kL1pS3dF5gJ7hK0aQwErTyUiOp".into() };
        let now = now_for(&l, 0);
        let s = sign_and_spell(&l, &mut rng, &Spelling::plain(), now);
        // warm-up in the parent: accepted once, refused once (lazy statics, allocator, hash seeds)
        for c in [s.case.clone(), { let mut c = s.case.clone(); let bad: String = s.signature.chars().rev().collect(); set_signature(&mut c, &s.signature, &bad); c }] {
            let req = imp::build_request(&c).unwrap();
            let mut prov = imp::provider_for(vec![imp::entry_of(&c)]);
            let v = imp::validate_with(&c, req, &mut prov);
            std::hint::black_box(v.class);
        }
        // odd bases run with the application's logging switched to TRACE (arguments of trace! statements are
        // then evaluated): the comparison must be constant-time with or without logging
        if base % 2 == 1 {
            let _ = log::set_logger(&SINK);
            log::set_max_level(log::LevelFilter::Trace);
        } else {
            log::set_max_level(log::LevelFilter::Off);
        }
        // quick: one variant per position (kinds alternate along the positions); thorough: all three
        let variants_per_pos = if thorough { 4 } else { 1 };
        let variant_kinds: [usize; 4] = [0, 2, 1, 3];
        // no heap activity in this loop: results go into fixed arrays and are reported afterwards
        let mut results: [(usize, usize, usize, i64, bool); 256] = [(0, 0, 0, -1, false); 256];
        let mut nres = 0usize;
        let mut have_ref = false;
        let mut errors: [&'static str; 256] = [""; 256];
        for p in 0..64usize {
            for kk in 0..variants_per_pos {
                // quick: kinds alternate along the positions — one wrong character, an upper-case one, a non-hex
                // one, and (at a few positions) everything after the first difference wrong as well
                let k = if thorough { variant_kinds[kk] } else if p % 16 == 5 { 1 } else { [0usize, 2, 0, 3][p % 4] };
                let r = trace(&Work::Variant { base: &s, pos: p, k }, &mut cur);
                match r {
                    Err(e) => {
                        errors[nres] = e;
                        results[nres] = (p, k, 0, -1, true);
                    }
                    Ok(()) => {
                        if !have_ref {
                            reference.clear();
                            reference.extend_from_slice(&cur); // within capacity: no allocation
                            have_ref = true;
                            results[nres] = (p, k, cur.len(), -1, false);
                        } else {
                            let d = first_divergence(&reference, &cur).map(|x| x as i64).unwrap_or(-1);
                            results[nres] = (p, k, cur.len(), d, false);
                        }
                    }
                }
                nres += 1;
            }
        }
        // front window: a few positions (same character class, k = 0), first against the others
        let front_positions: [usize; 5] = [0, 1, 31, 62, 63];
        let mut front: [(usize, usize, i64, bool, &'static str); 5] = [(0, 0, -1, false, ""); 5];
        let mut have_front_ref = false;
        for (fi, &p) in front_positions.iter().enumerate() {
            match trace(&Work::FrontVariant { base: &s, pos: p, k: 0 }, &mut cur) {
                Err(e) => front[fi] = (p, 0, -1, true, e),
                Ok(()) => {
                    if !have_front_ref {
                        reference.clear();
                        reference.extend_from_slice(&cur);
                        have_front_ref = true;
                        front[fi] = (p, cur.len(), -1, false, "");
                    } else {
                        let d = first_divergence(&reference, &cur).map(|x| x as i64).unwrap_or(-1);
                        front[fi] = (p, cur.len(), d, false, "");
                    }
                }
            }
        }
        for fi in 0..front.len() {
            let (p, len, d, failed, err) = front[fi];
            rep.count("evaluations");
            rep.count("evaluations.front_window");
            rep.count("traces_validated_against_impl");
            rep.add("steps_total", len as u64);
            if failed {
                rep.fail(Failure { kind: "INTERNAL", op: "TRACE".into(), class: "tracer-failed".into(), input: format!("base {} position {} (front window)", base, p), imp: err.to_string(), model: String::new(), spec: String::new(), clause: "tracing the front window of a refusal failed".into() });
            } else if d >= 0 {
                rep.fail(Failure {
                    kind: "ORACLE",
                    op: "TRACE".into(),
                    class: "c07-front-trace-differs".into(),
                    input: format!("request {} ; presented signature differs first at position {} vs position {} ; window: entry of sigv4_validate_request to the provider's first readiness poll, after the same request has been accepted once in this process", s.case.describe(), p, front[0].0),
                    imp: format!("{} instructions vs {}; traces diverge at step {}", len, front[0].1, d),
                    model: "nothing before the key lookup depends on the expected signature (C07.refusal_trace_independent_of_position)".into(),
                    spec: String::new(),
                    clause: "C07: the instruction sequence executed before the key lookup depends on which characters of the presented signature are wrong".into(),
                });
            }
        }
        rep.add(&format!("front_steps_base{}", base), front[0].1 as u64);
        for i in 0..nres {
            let (p, k, len, d, failed) = results[i];
            rep.count("evaluations");
            rep.count("traces_validated_against_impl");
            rep.distinct(&format!("{}:{}:{}", base, p, k));
            rep.add("steps_total", len as u64);
            if failed {
                rep.fail(Failure { kind: "INTERNAL", op: "TRACE".into(), class: "tracer-failed".into(), input: format!("base {} position {}", base, p), imp: errors[i].to_string(), model: String::new(), spec: String::new(), clause: "tracing a refusal failed".into() });
            } else if d >= 0 {
                rep.fail(Failure {
                    kind: "ORACLE",
                    op: "TRACE".into(),
                    class: "c07-trace-differs".into(),
                    input: format!("request {} ; presented signature differs first at position {} (variant {}) vs position {}", s.case.describe(), p, k, results[0].0),
                    imp: format!("{} instructions vs {}; traces diverge at step {}", len, results[0].2, d),
                    model: "ctEq trace depends on lengths only (C07.ctEq_trace_length_only)".into(),
                    spec: String::new(),
                    clause: "C07: the instruction sequence executed while refusing a wrong signature depends on which characters are wrong".into(),
                });
            }
        }
        rep.add(&format!("steps_base{}", base), results[0].2 as u64);
        if rep.samples.len() < 4 {
            rep.sample(format!("base {}: {} ; 64 first-difference positions x {} variant(s), reference trace {} instructions", base, s.case.describe().chars().take(200).collect::<String>(), variants_per_pos, results[0].2));
        }
    }
    rep.add("wall_ms", t0.elapsed().as_millis() as u64);
    rep.print();
    println!("DONE");
}
