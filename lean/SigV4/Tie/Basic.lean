/-
  SigV4.Tie.Basic — what it means for an item read from the source to agree with the model.
-/
import SigV4.Source.Generated

namespace SigV4

/-- `Reads o v`: whenever the translator could read the item from /repo/src (`o = some x`), what it
read is the model's value `v`.  (`o = none` — the item's shape is outside the translator's subset on
this tree — makes the statement empty; ./check counts and reports those items, and the tie for
them rests on the correspondence run alone.) -/
def Reads {α : Type} (o : Option α) (v : α) : Prop := ∀ x, o = some x → x = v

/-- The same for a function read from the source, pointwise. -/
def ReadsFn {α β : Type} (o : Option (α → β)) (g : α → β) : Prop := ∀ f, o = some f → ∀ a, f a = g a

theorem Reads.of_some {α : Type} {x v : α} (h : x = v) : Reads (some x) v := by
  intro y hy; cases hy; exact h

theorem ReadsFn.of_some {α β : Type} {f g : α → β} (h : ∀ a, f a = g a) : ReadsFn (some f) g := by
  intro f' hf; cases hf; exact h

theorem Reads.none {α : Type} (v : α) : Reads (none : Option α) v := by intro _ h; cases h
theorem ReadsFn.none {α β : Type} (g : α → β) : ReadsFn (none : Option (α → β)) g := by intro _ h; cases h

/-- Equal outcomes, where two panics count as equal whatever their site labels. -/
def Tie.SameUpToSite {α : Type} : Outcome α → Outcome α → Prop
  | .ok x, .ok y => x = y
  | .err j, .err k => j = k
  | .panic _, .panic _ => True
  | _, _ => False

/-- A statement about all bytes from the statement about all `n < 256`. -/
theorem forall_uint8_of_fin {p : UInt8 → Prop} (h : ∀ n : Fin 256, p (UInt8.ofNat n.val)) : ∀ c : UInt8, p c := by
  intro c
  have := h ⟨c.toNat, c.toNat_lt⟩
  simpa using this

end SigV4
