/-
  SigV4.Tie.RESlash — the pattern `//+`: its language, and `replace_all` with it against the
  model's `collapseSlashes`.
-/
import SigV4.Tie.REMatch
import SigV4.Model.Uri

namespace SigV4
namespace RE

/-- The pattern `//+` as `srcgen` writes it. -/
def multislashRE : RE := seqs [byte 0x2F, plus (byte 0x2F)]

theorem matches_star_byte_iff {c : UInt8} {s : Bytes} :
    Matches (.star (byte c)) s ↔ ∃ n, s = List.replicate n c := by
  unfold byte
  rw [matches_star_cls_iff]
  have hcls : ∀ x, inClass [(c, c)] x = true ↔ x = c := by
    intro x
    simp only [inClass, List.any_cons, List.any_nil, Bool.or_false, Bool.and_eq_true,
      decide_eq_true_eq]
    constructor
    · intro h; exact UInt8.le_antisymm h.2 h.1
    · rintro rfl; exact ⟨UInt8.le_refl _, UInt8.le_refl _⟩
  simp only [hcls]
  constructor
  · intro h
    exact ⟨s.length, (List.eq_replicate_iff.mpr ⟨rfl, h⟩)⟩
  · rintro ⟨n, rfl⟩ x hx
    exact (List.mem_replicate.mp hx).2

theorem matches_multislash_iff (s : Bytes) :
    Matches multislashRE s ↔ ∃ n, 2 ≤ n ∧ s = List.replicate n (0x2F : UInt8) := by
  unfold multislashRE plus
  rw [seqs_cons_cons, seqs_single, matches_seq_iff]
  simp only [matches_seq_iff, matches_byte_iff, matches_star_byte_iff]
  constructor
  · rintro ⟨s1, s2, rfl, rfl, s3, s4, rfl, rfl, n, rfl⟩
    exact ⟨n + 2, by omega, by simp [List.replicate_succ]⟩
  · rintro ⟨n, hn, rfl⟩
    refine ⟨[0x2F], List.replicate (n - 1) 0x2F, ?_, rfl, [0x2F], List.replicate (n - 2) 0x2F, ?_, rfl,
      n - 2, rfl⟩
    · obtain ⟨m, rfl⟩ : ∃ m, n = m + 1 := ⟨n - 1, by omega⟩
      simp [List.replicate_succ]
    · obtain ⟨m, rfl⟩ : ∃ m, n = m + 2 := ⟨n - 2, by omega⟩
      simp [List.replicate_succ]

/-! ### `longestAux` on runs of slashes -/

/-- `r` has an empty language. -/
def Dead (r : RE) : Prop := ∀ u, ¬ Matches r u

theorem Dead.deriv {r : RE} (h : Dead r) (c : UInt8) : Dead (deriv c r) := by
  intro u hu
  exact h _ ((deriv_iff c r u).mp hu)

theorem Dead.nullable {r : RE} (h : Dead r) : RE.nullable r = false := by
  cases hn : RE.nullable r with
  | false => rfl
  | true => exact absurd ((nullable_iff r).mp hn) (h _)

theorem longestAux_dead (s : Bytes) : ∀ (r : RE) (n : Nat) (best : Option Nat), Dead r →
    longestAux r s n best = best := by
  induction s with
  | nil => intro r n best _; rfl
  | cons c s ih =>
    intro r n best h
    simp only [longestAux]
    rw [(h.deriv c).nullable]
    exact ih _ _ _ (h.deriv c)

/-- The language of `r` is the runs of at least `j` slashes. -/
def Slashes (j : Nat) (r : RE) : Prop :=
  ∀ u, Matches r u ↔ ∃ m, j ≤ m ∧ u = List.replicate m (0x2F : UInt8)

theorem Slashes.deriv_slash {j : Nat} {r : RE} (h : Slashes j r) : Slashes (j - 1) (deriv 0x2F r) := by
  intro u
  rw [deriv_iff, h]
  constructor
  · rintro ⟨m, hm, hu⟩
    cases m with
    | zero => cases hu
    | succ m =>
      simp only [List.replicate_succ, List.cons.injEq, true_and] at hu
      exact ⟨m, by omega, hu⟩
  · rintro ⟨m, hm, rfl⟩
    exact ⟨m + 1, by omega, rfl⟩

theorem Slashes.deriv_other {j : Nat} {r : RE} (h : Slashes j r) {x : UInt8} (hx : x ≠ 0x2F) :
    Dead (deriv x r) := by
  intro u hu
  rw [deriv_iff, h] at hu
  obtain ⟨m, _, hu⟩ := hu
  cases m with
  | zero => cases hu
  | succ m =>
    simp only [List.replicate_succ, List.cons.injEq] at hu
    exact hx hu.1

theorem Slashes.nullable {j : Nat} {r : RE} (h : Slashes j r) : RE.nullable r = decide (j = 0) := by
  cases hn : RE.nullable r with
  | true =>
    have := (h []).mp ((nullable_iff r).mp hn)
    obtain ⟨m, hm, hu⟩ := this
    cases m with
    | zero => simp; omega
    | succ m => cases hu
  | false =>
    by_cases hj : j = 0
    · subst hj
      have : Matches r [] := (h []).mpr ⟨0, Nat.le_refl _, rfl⟩
      rw [(nullable_iff r).mpr this] at hn
      cases hn
    · simp [hj]

/-- `rest` does not begin with a slash. -/
def NoSlashHead (rest : Bytes) : Prop := ∀ xs, rest ≠ (0x2F : UInt8) :: xs

theorem longestAux_slashes (k : Nat) : ∀ (j : Nat) (r : RE) (n : Nat) (best : Option Nat) (rest : Bytes),
    Slashes j r → NoSlashHead rest →
    longestAux r (List.replicate k (0x2F : UInt8) ++ rest) n best =
      if j ≤ k ∧ 1 ≤ k then some (n + k) else best := by
  induction k with
  | zero =>
    intro j r n best rest h hrest
    simp only [List.replicate_zero, List.nil_append]
    rw [if_neg (by omega)]
    cases rest with
    | nil => rfl
    | cons x xs =>
      have hx : x ≠ 0x2F := by
        rintro rfl
        exact hrest xs rfl
      simp only [longestAux]
      rw [(h.deriv_other hx).nullable]
      exact longestAux_dead _ _ _ _ (h.deriv_other hx)
  | succ k ih =>
    intro j r n best rest h hrest
    simp only [List.replicate_succ, List.cons_append, longestAux]
    rw [ih (j - 1) _ _ _ rest h.deriv_slash hrest, h.deriv_slash.nullable]
    by_cases hj : j ≤ 1
    · have hj0 : j - 1 = 0 := by omega
      simp only [hj0, decide_true, if_true]
      rw [if_pos (show j ≤ k + 1 ∧ 1 ≤ k + 1 by omega)]
      by_cases hk : 1 ≤ k
      · rw [if_pos (show 0 ≤ k ∧ 1 ≤ k by omega)]
        congr 1
        omega
      · rw [if_neg (show ¬ (0 ≤ k ∧ 1 ≤ k) by omega)]
        congr 1
        omega
    · have hj0 : ¬ (j - 1 = 0) := by omega
      simp only [hj0, decide_false, Bool.false_eq_true, if_false]
      by_cases hk : j ≤ k + 1
      · rw [if_pos (show j - 1 ≤ k ∧ 1 ≤ k by omega), if_pos (show j ≤ k + 1 ∧ 1 ≤ k + 1 by omega)]
        congr 1
        omega
      · rw [if_neg (show ¬ (j - 1 ≤ k ∧ 1 ≤ k) by omega), if_neg (show ¬ (j ≤ k + 1 ∧ 1 ≤ k + 1) by omega)]

theorem slashes_multislash : Slashes 2 multislashRE := matches_multislash_iff

theorem longestPrefix_multislash (k : Nat) (rest : Bytes) (hrest : NoSlashHead rest) :
    longestPrefix multislashRE (List.replicate k (0x2F : UInt8) ++ rest) =
      if 2 ≤ k then some k else none := by
  unfold longestPrefix
  rw [longestAux_slashes k 2 _ 0 none rest slashes_multislash hrest]
  by_cases hk : 2 ≤ k
  · rw [if_pos ⟨hk, by omega⟩, if_pos hk, Nat.zero_add]
  · rw [if_neg (by omega), if_neg hk]

/-! ### `replace_all` -/

theorem run_decomp (s : Bytes) : ∃ k rest, s = List.replicate k (0x2F : UInt8) ++ rest ∧ NoSlashHead rest := by
  induction s with
  | nil => exact ⟨0, [], rfl, by intro xs h; cases h⟩
  | cons c s ih =>
    by_cases hc : c = 0x2F
    · obtain ⟨k, rest, rfl, hrest⟩ := ih
      subst hc
      exact ⟨k + 1, rest, rfl, hrest⟩
    · refine ⟨0, c :: s, rfl, ?_⟩
      intro xs h
      simp only [List.cons.injEq] at h
      exact hc h.1

theorem collapseAux_true_run (k : Nat) (rest : Bytes) :
    collapseAux true (List.replicate k (0x2F : UInt8) ++ rest) = collapseAux true rest := by
  induction k with
  | zero => rfl
  | succ k ih =>
    simp only [List.replicate_succ, List.cons_append, collapseAux, if_true]
    exact ih

theorem collapseAux_true_noslash (rest : Bytes) (h : NoSlashHead rest) :
    collapseAux true rest = collapseAux false rest := by
  cases rest with
  | nil => rfl
  | cons x xs =>
    have hx : x ≠ 0x2F := by
      rintro rfl
      exact h xs rfl
    simp only [collapseAux, if_neg hx]

theorem collapse_run (k : Nat) (rest : Bytes) (h : NoSlashHead rest) :
    collapseAux false (List.replicate (k + 1) (0x2F : UInt8) ++ rest) =
      0x2F :: collapseAux false rest := by
  simp only [List.replicate_succ, List.cons_append, collapseAux, if_true, Bool.false_eq_true,
    if_false]
  rw [collapseAux_true_run, collapseAux_true_noslash rest h]

theorem drop_run (k : Nat) (rest : Bytes) :
    (List.replicate k (0x2F : UInt8) ++ rest).drop k = rest := by
  have : (List.replicate k (0x2F : UInt8)).length = k := List.length_replicate
  rw [List.drop_append]
  simp

theorem replaceAllAux_multislash (fuel : Nat) : ∀ s : Bytes, s.length < fuel →
    replaceAllAux multislashRE [0x2F] fuel s = collapseAux false s := by
  induction fuel with
  | zero => intro s h; omega
  | succ fuel ih =>
    intro s hlen
    cases s with
    | nil => rfl
    | cons c s' =>
      obtain ⟨k, rest, hs, hrest⟩ := run_decomp (c :: s')
      have hlp := longestPrefix_multislash k rest hrest
      rw [← hs] at hlp
      simp only [replaceAllAux]
      rw [hlp]
      by_cases hk : 2 ≤ k
      · rw [if_pos hk]
        simp only []
        rw [hs, drop_run]
        have hl : rest.length < fuel := by
          have := congrArg List.length hs
          simp only [List.length_cons, List.length_append, List.length_replicate] at this
          simp only [List.length_cons] at hlen
          omega
        rw [ih rest hl]
        obtain ⟨m, rfl⟩ : ∃ m, k = m + 1 := ⟨k - 1, by omega⟩
        rw [collapse_run m rest hrest]
        rfl
      · rw [if_neg hk]
        simp only []
        have hl : s'.length < fuel := by
          simp only [List.length_cons] at hlen
          omega
        rw [ih s' hl]
        by_cases hc : c = 0x2F
        · subst hc
          -- exactly one slash
          have hk1 : k = 1 := by
            cases k with
            | zero =>
              simp only [List.replicate_zero, List.nil_append] at hs
              exact absurd hs.symm (hrest s')
            | succ k => omega
          subst hk1
          simp only [List.replicate_succ, List.replicate_zero, List.cons_append, List.nil_append,
            List.cons.injEq, true_and] at hs
          subst hs
          simp only [collapseAux, if_true, Bool.false_eq_true, if_false]
          rw [collapseAux_true_noslash _ hrest]
        · simp only [collapseAux, if_neg hc]

theorem replaceAll_multislash (p : Bytes) : replaceAll multislashRE [0x2F] p = collapseSlashes p := by
  unfold replaceAll collapseSlashes
  exact replaceAllAux_multislash _ p (Nat.lt_succ_self _)

end RE
end SigV4
