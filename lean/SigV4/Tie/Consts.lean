/-
  SigV4.Tie.Consts — the literal constants of the crate, as read from /repo/src on this run, are the
  constants the model uses.  A changed literal in the source changes `Generated.lean` and the
  corresponding theorem below no longer checks.
-/
import SigV4.Tie.Basic
import SigV4.Model.Auth
import SigV4.Model.Keys

namespace SigV4.Tie

open SigV4

/-- Closes `Reads (Src.…) v` for a literal: unfold the generated definition, compare by evaluation. -/
macro "tie_literal" d:ident : tactic =>
  `(tactic| first
     | (unfold $d; exact Reads.none _)
     | (unfold $d; exact Reads.of_some (by decide)))

-- the algorithm name: Authorization scheme / X-Amz-Algorithm value (canonical.rs) and first line of the string-to-sign (auth.rs)
theorem algorithm_canonical : Reads Src.canonical.AWS4_HMAC_SHA256 AWS4_HMAC_SHA256 := by tie_literal Src.canonical.AWS4_HMAC_SHA256
theorem algorithm_auth : Reads Src.auth.AWS4_HMAC_SHA256 AWS4_HMAC_SHA256 := by tie_literal Src.auth.AWS4_HMAC_SHA256
-- the scope terminator: compared in prevalidate (auth.rs) and fed to the last HMAC of the key chain (signing_key.rs)
theorem terminator_auth : Reads Src.auth.AWS4_REQUEST AWS4_REQUEST := by tie_literal Src.auth.AWS4_REQUEST
theorem terminator_signing_key : Reads Src.signing_key.AWS4_REQUEST AWS4_REQUEST := by tie_literal Src.signing_key.AWS4_REQUEST
-- header and parameter names
theorem authorization : Reads Src.canonical.AUTHORIZATION AUTHORIZATION := by tie_literal Src.canonical.AUTHORIZATION
theorem credential : Reads Src.canonical.CREDENTIAL CREDENTIAL := by tie_literal Src.canonical.CREDENTIAL
theorem signature : Reads Src.canonical.SIGNATURE SIGNATURE := by tie_literal Src.canonical.SIGNATURE
theorem signed_headers : Reads Src.canonical.SIGNED_HEADERS SIGNED_HEADERS := by tie_literal Src.canonical.SIGNED_HEADERS
theorem date : Reads Src.canonical.DATE DATE := by tie_literal Src.canonical.DATE
theorem x_amz_algorithm : Reads Src.canonical.X_AMZ_ALGORITHM X_AMZ_ALGORITHM := by tie_literal Src.canonical.X_AMZ_ALGORITHM
theorem x_amz_credential : Reads Src.canonical.X_AMZ_CREDENTIAL X_AMZ_CREDENTIAL := by tie_literal Src.canonical.X_AMZ_CREDENTIAL
theorem x_amz_date : Reads Src.canonical.X_AMZ_DATE X_AMZ_DATE := by tie_literal Src.canonical.X_AMZ_DATE
theorem x_amz_date_lower : Reads Src.canonical.X_AMZ_DATE_LOWER X_AMZ_DATE_LOWER := by tie_literal Src.canonical.X_AMZ_DATE_LOWER
theorem x_amz_security_token : Reads Src.canonical.X_AMZ_SECURITY_TOKEN X_AMZ_SECURITY_TOKEN := by tie_literal Src.canonical.X_AMZ_SECURITY_TOKEN
theorem x_amz_security_token_lower : Reads Src.canonical.X_AMZ_SECURITY_TOKEN_LOWER X_AMZ_SECURITY_TOKEN_LOWER := by tie_literal Src.canonical.X_AMZ_SECURITY_TOKEN_LOWER
theorem x_amz_signature : Reads Src.canonical.X_AMZ_SIGNATURE X_AMZ_SIGNATURE := by tie_literal Src.canonical.X_AMZ_SIGNATURE
theorem x_amz_signed_headers : Reads Src.canonical.X_AMZ_SIGNED_HEADERS X_AMZ_SIGNED_HEADERS := by tie_literal Src.canonical.X_AMZ_SIGNED_HEADERS
-- form folding
theorem content_type : Reads Src.canonical.CONTENT_TYPE CONTENT_TYPE := by tie_literal Src.canonical.CONTENT_TYPE
theorem charset : Reads Src.canonical.CHARSET CHARSET := by tie_literal Src.canonical.CHARSET
theorem form_urlencoded : Reads Src.canonical.APPLICATION_X_WWW_FORM_URLENCODED FORM_URLENCODED := by tie_literal Src.canonical.APPLICATION_X_WWW_FORM_URLENCODED
-- the compact timestamp format handed to chrono: the model's `compactUtc` is the rendering of exactly this format
theorem compact_format : Reads Src.auth.ISO8601_COMPACT_FORMAT b!"%Y%m%dT%H%M%SZ" := by tie_literal Src.auth.ISO8601_COMPACT_FORMAT

/-- The window: `Duration::minutes(ALLOWED_MISMATCH_MINUTES)` in the entry point is the model's
`ALLOWED_MISMATCH` (nanoseconds). -/
theorem allowed_mismatch : ∀ secs, Src.signature.allowed_mismatch_seconds = some secs → secs * NS_PER_SEC = ALLOWED_MISMATCH := by
  first
    | (unfold Src.signature.allowed_mismatch_seconds; intro secs h; cases h; simp [ALLOWED_MISMATCH, NS_PER_SEC]; done)
    | (unfold Src.signature.allowed_mismatch_seconds; intro _ h; cases h; done)

theorem allowed_mismatch_minutes : Reads Src.signature.ALLOWED_MISMATCH_MINUTES 15 := by tie_literal Src.signature.ALLOWED_MISMATCH_MINUTES

end SigV4.Tie

#print axioms SigV4.Tie.algorithm_canonical
#print axioms SigV4.Tie.algorithm_auth
#print axioms SigV4.Tie.terminator_auth
#print axioms SigV4.Tie.terminator_signing_key
#print axioms SigV4.Tie.authorization
#print axioms SigV4.Tie.credential
#print axioms SigV4.Tie.signature
#print axioms SigV4.Tie.signed_headers
#print axioms SigV4.Tie.date
#print axioms SigV4.Tie.x_amz_algorithm
#print axioms SigV4.Tie.x_amz_credential
#print axioms SigV4.Tie.x_amz_date
#print axioms SigV4.Tie.x_amz_date_lower
#print axioms SigV4.Tie.x_amz_security_token
#print axioms SigV4.Tie.x_amz_security_token_lower
#print axioms SigV4.Tie.x_amz_signature
#print axioms SigV4.Tie.x_amz_signed_headers
#print axioms SigV4.Tie.content_type
#print axioms SigV4.Tie.charset
#print axioms SigV4.Tie.form_urlencoded
#print axioms SigV4.Tie.compact_format
#print axioms SigV4.Tie.allowed_mismatch
#print axioms SigV4.Tie.allowed_mismatch_minutes
