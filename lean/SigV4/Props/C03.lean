/-
  Property C03 — the credential scope binds the signature to this server's region, service and date.
-/
import SigV4.Spec.ValidateSpec
import SigV4.Lemmas.C03

namespace SigV4.C03

/-- The scope rule passes exactly when the credential has five slash-separated parts whose region,
service, terminator and date are the expected ones. -/
theorem scopeCheck_ok_iff (a : Authenticator) (region service : Bytes) :
    scopeCheck a region service = .ok () ↔
      ∃ ak, splitOn 0x2F a.credential = [ak, fmtDate (utcDate a.timestamp), region, service, b!"aws4_request"] := by
  exact scopeCheck_ok_iff' a region service

/-- Another number of parts is an incomplete signature (400). -/
theorem arity_incomplete (a : Authenticator) (region service : Bytes)
    (h : (splitOn 0x2F a.credential).length ≠ 5) :
    scopeCheck a region service = .err .IncompleteSignature ∧ ErrKind.IncompleteSignature.status = 400 := by
  exact ⟨scopeCheck_not_five a region service h, rfl⟩

/-- Five parts with any mismatch is a signature mismatch (403). -/
theorem scope_mismatch (a : Authenticator) (region service : Bytes) (ak d r sv t : Bytes)
    (h : splitOn 0x2F a.credential = [ak, d, r, sv, t])
    (hm : r ≠ region ∨ sv ≠ service ∨ t ≠ b!"aws4_request" ∨ d ≠ fmtDate (utcDate a.timestamp)) :
    scopeCheck a region service = .err .SignatureDoesNotMatch ∧ ErrKind.SignatureDoesNotMatch.status = 403 := by
  refine ⟨?_, rfl⟩
  rw [scopeCheck_five a region service ak d r sv t h, if_neg]
  rintro ⟨h1, h2, h3, h4⟩
  rcases hm with hm | hm | hm | hm
  · exact hm h1
  · exact hm h2
  · exact hm h3
  · exact hm h4

/-- Acceptance implies the scope is this server's, with the date of the request instant in UTC. -/
theorem accept_implies_scope {σ : Type} (H : Bytes → Bytes) (cfg : Config) (P : Provider σ) (s : σ)
    (req : Request) (r : Returned) (h : (validate H cfg P s req).out = .ok r) :
    ∃ a ak, authOf H cfg req = .ok a ∧
      splitOn 0x2F a.credential = [ak, fmtDate (utcDate a.timestamp), cfg.region, cfg.service, b!"aws4_request"] := by
  obtain ⟨a, ha⟩ := authOf_ok_of_validate P s (Or.inl ⟨r, h⟩)
  obtain ⟨_, _, _, _, hok⟩ := c04_validate_of_authOf_ok P s ha
  obtain ⟨resp, hresp⟩ := hok r h
  have hp := prevalidate_ok_of_validateSignature H P s a cfg.region cfg.service cfg.now
    (Or.inl ⟨resp, hresp⟩)
  obtain ⟨ak, hak⟩ := (scopeCheck_ok_iff a cfg.region cfg.service).mp
    (scopeCheck_ok_of_prevalidate_ok a cfg.region cfg.service cfg.now hp)
  exact ⟨a, ak, ha, hak⟩

/-- The key provider is asked for exactly that access key, session token, UTC date, and the
server's region and service — and for nothing else. -/
theorem provider_args {σ : Type} (H : Bytes → Bytes) (cfg : Config) (P : Provider σ) (s : σ)
    (req : Request) (c : ProviderReq) (hc : c ∈ (validate H cfg P s req).calls) :
    ∃ a ak, authOf H cfg req = .ok a ∧
      splitOn 0x2F a.credential = [ak, fmtDate (utcDate a.timestamp), cfg.region, cfg.service, b!"aws4_request"] ∧
      c = { accessKey := ak, sessionToken := a.sessionToken, date := utcDate a.timestamp,
            region := cfg.region, service := cfg.service } := by
  have hne : (validate H cfg P s req).calls ≠ [] := List.ne_nil_of_mem hc
  obtain ⟨a, ha⟩ := authOf_ok_of_validate P s (Or.inr hne)
  obtain ⟨hcalls, _, _, _, _⟩ := c04_validate_of_authOf_ok P s ha
  rw [hcalls] at hc hne
  have hp := prevalidate_ok_of_validateSignature H P s a cfg.region cfg.service cfg.now (Or.inr hne)
  obtain ⟨ak, hak⟩ := (scopeCheck_ok_iff a cfg.region cfg.service).mp
    (scopeCheck_ok_of_prevalidate_ok a cfg.region cfg.service cfg.now hp)
  refine ⟨a, ak, ha, hak, ?_⟩
  rw [validateSignature_calls H P s a cfg.region cfg.service cfg.now c hc, providerReqOf,
    splitFirst_fst_of_splitOn_cons 0x2F a.credential ak _ hak]

/-- A foreign scope is refused before the provider is consulted, so a signature that would verify
under the foreign scope's key is still refused — whatever the provider would have answered. -/
theorem foreign_scope_refused {σ : Type} (H : Bytes → Bytes) (cfg : Config) (P : Provider σ) (s : σ)
    (req : Request) (a : Authenticator) (ha : authOf H cfg req = .ok a)
    (hs : scopeCheck a cfg.region cfg.service ≠ .ok ()) :
    (∃ k, (validate H cfg P s req).out = .err k ∧ (k = .SignatureDoesNotMatch ∨ k = .IncompleteSignature)) ∧
    (validate H cfg P s req).calls = [] := by
  obtain ⟨hcalls, _, herr, _, _⟩ := c04_validate_of_authOf_ok P s ha
  have hk : ∃ k, prevalidate a cfg.region cfg.service cfg.now = .err k ∧
      (k = .SignatureDoesNotMatch ∨ k = .IncompleteSignature) := by
    rcases prevalidate_cases a cfg.region cfg.service cfg.now with hp | hp
    · exact ⟨_, hp, Or.inl rfl⟩
    · rcases scopeCheck_cases a cfg.region cfg.service with h1 | h1 | h1
      · exact absurd h1 hs
      · exact ⟨_, hp.trans h1, Or.inl rfl⟩
      · exact ⟨_, hp.trans h1, Or.inr rfl⟩
  obtain ⟨k, hpk, hk⟩ := hk
  have hv := validateSignature_of_prevalidate_err H P s a cfg.region cfg.service cfg.now k hpk
  rw [hv] at hcalls herr
  exact ⟨⟨k, herr k rfl, hk⟩, hcalls⟩

/-- The scope enters the string-to-sign: it is the credential minus the access key. -/
theorem scope_in_string_to_sign (a : Authenticator) (ak d r sv t : Bytes)
    (h : splitOn 0x2F a.credential = [ak, d, r, sv, t]) :
    stringToSign a = .ok (AWS4_HMAC_SHA256 ++ [0x0A] ++ compactUtc a.timestamp ++ [0x0A]
      ++ (d ++ [0x2F] ++ r ++ [0x2F] ++ sv ++ [0x2F] ++ t) ++ [0x0A] ++ hexLower a.creqSha) := by
  exact stringToSign_of_five a ak d r sv t h

/-- A sample authenticator for the non-vacuity examples (2015-08-30T12:36:00Z). -/
def sampleAuth (cred : Bytes) : Authenticator :=
  { creqSha := [], credential := cred, sessionToken := none, signature := [], timestamp := 1440938160000000000 }

example : scopeCheck (sampleAuth b!"AKID/20150830/us-east-1/iam/aws4_request") b!"us-east-1" b!"iam" = .ok () := by decide
example : scopeCheck (sampleAuth b!"AKID/20150830/us-east-1/iam") b!"us-east-1" b!"iam" = .err .IncompleteSignature := by
  decide
example : scopeCheck (sampleAuth b!"AKID/20150830/us-east-1x/iam/aws4_request") b!"us-east-1" b!"iam"
    = .err .SignatureDoesNotMatch := by decide
example : scopeCheck (sampleAuth b!"AKID/20150831/us-east-1/iam/aws4_request") b!"us-east-1" b!"iam"
    = .err .SignatureDoesNotMatch := by decide

/-- Header bytes and decoded query-carrier parameters are read one character per byte
(`latin1_to_string`, `c as char`). That reading is injective: two different byte strings are never
read as the same credential, so the scope comparison (on text) decides the bytes on the wire. -/
theorem latin1ToString_injective (a b : Bytes) (h : latin1ToString a = latin1ToString b) : a = b := by
  exact c03_latin1ToString_inj a b h

/-- The UTF-8 bytes of a non-ASCII region are *not* read as that region. -/
example : latin1ToString [0x72, 0xC3, 0xA9] ≠ [0x72, 0xC3, 0xA9] := by decide
example : latin1ToString [0x72, 0xE9] = [0x72, 0xC3, 0xA9] := by decide

end SigV4.C03

#print axioms SigV4.C03.scopeCheck_ok_iff
#print axioms SigV4.C03.arity_incomplete
#print axioms SigV4.C03.scope_mismatch
#print axioms SigV4.C03.accept_implies_scope
#print axioms SigV4.C03.provider_args
#print axioms SigV4.C03.foreign_scope_refused
#print axioms SigV4.C03.scope_in_string_to_sign
#print axioms SigV4.C03.latin1ToString_injective
