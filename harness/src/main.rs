//! Correspondence and oracle harness for the Lean model of scratchstack-aws-signature.
//! Usage: harness <C01..C19|ALL> <quick|thorough> [seed]   |   harness replay <file>
mod case;
mod driver;
mod gen;
mod imp;
mod props_direct;
mod props_validate;
mod props_validate2;
mod props_runtime;
mod refspec;
mod util;

use util::*;

pub struct Ctx {
    pub rng: Rng,
    pub drv: driver::Driver,
    pub rep: Report,
    pub thorough: bool,
    pub seed: u64,
}

impl Ctx {
    /// Scale a count by tier.
    pub fn n(&self, quick: usize, thorough: usize) -> usize {
        if self.thorough {
            thorough
        } else {
            quick
        }
    }
}

fn main() {
    let args: Vec<String> = std::env::args().collect();
    if args.len() < 3 {
        eprintln!("usage: harness <property> <quick|thorough> [seed]");
        std::process::exit(2);
    }
    std::panic::set_hook(Box::new(|_| {}));
    let prop = args[1].clone();
    let thorough = args[2] == "thorough";
    let seed: u64 = args.get(3).and_then(|s| s.parse().ok()).unwrap_or(20260929);
    let mut ctx = Ctx { rng: Rng::new(seed), drv: driver::Driver::spawn(), rep: Report::default(), thorough, seed };
    let t0 = std::time::Instant::now();
    match prop.as_str() {
        "selftest" => props_direct::selftest(&mut ctx),
        "C01" => props_validate::c01(&mut ctx),
        "C02" => props_validate::c02(&mut ctx),
        "C03" => props_validate::c03(&mut ctx),
        "C04" => props_validate::c04(&mut ctx),
        "C05" => props_validate::c05(&mut ctx),
        "C06" => props_direct::c06(&mut ctx),
        "C08" => props_validate2::c08(&mut ctx),
        "C09" => props_direct::c09(&mut ctx),
        "C10" => props_direct::c10(&mut ctx),
        "C11" => props_validate2::c11(&mut ctx),
        "C12" => props_validate2::c12(&mut ctx),
        "C13" => props_validate2::c13(&mut ctx),
        "C14" => props_validate2::c14(&mut ctx),
        "C15" => props_validate2::c15(&mut ctx),
        "C16" => props_direct::c16(&mut ctx),
        "C17" => props_runtime::c17(&mut ctx),
        "C18" => props_runtime::c18(&mut ctx),
        "C19" => props_validate::c19(&mut ctx),
        _ => {
            eprintln!("unknown property {}", prop);
            std::process::exit(2);
        }
    }
    ctx.rep.add("model_answers", ctx.drv.asked);
    ctx.rep.add("wall_ms", t0.elapsed().as_millis() as u64);
    ctx.rep.print();
    println!("DONE");
}
