/-
  Property C01 — forgery resistance. The statements are in `SigV4/Props/C01Core.lean` (namespace
  `SigV4.C01`); this file adds the capstone that combines them and audits the axioms of all of them.
-/
import SigV4.Props.C01Core
import SigV4.Lemmas.C01Capstone

namespace SigV4.C01

/-- One signature, one key, two requests: if the same presented signature verifies under the same key
for two authenticators built from two canonical requests, then either every component the
signature covers is the same — timestamp line, scope, method, canonical path, canonical query,
header block, signed-header list, payload hash — or the pair exhibits an explicit collision of
`hmac H` or of `H`. (A signature issued for one request never validates a request whose canonical
form, timestamp or scope differs, short of a collision.) -/
theorem one_signature_one_request (H : Bytes → Bytes) (hlen : ∀ x y, (H x).length = (H y).length)
    (a a' : Authenticator) (c c' : CanonReq) (signed signed' : List Bytes) (key sts sts' : Bytes)
    (hc : a.creqSha = H (canonicalRequest c signed)) (hc' : a'.creqSha = H (canonicalRequest c' signed'))
    (hs : stringToSign a = .ok sts) (hs' : stringToSign a' = .ok sts')
    (hsig : a.signature = a'.signature)
    (hv : a.signature = hexLower (hmac H key sts)) (hv' : a'.signature = hexLower (hmac H key sts'))
    (hy : 0 ≤ (utcDate a.timestamp).1 ∧ (utcDate a.timestamp).1 ≤ 9999)
    (hy' : 0 ≤ (utcDate a'.timestamp).1 ∧ (utcDate a'.timestamp).1 ≤ 9999)
    (hm : NoNL c.method ∧ NoNL c'.method) (hp : NoNL c.path ∧ NoNL c'.path)
    (hq : NoNL (canonQuery c.params) ∧ NoNL (canonQuery c'.params))
    (hl : NoNL (joinWith [0x3B] signed) ∧ NoNL (joinWith [0x3B] signed'))
    (hb : NoNL c.bodySha ∧ NoNL c'.bodySha) :
    (compactUtc a.timestamp = compactUtc a'.timestamp ∧
      (splitFirst 0x2F a.credential).2 = (splitFirst 0x2F a'.credential).2 ∧
      c.method = c'.method ∧ c.path = c'.path ∧ canonQuery c.params = canonQuery c'.params ∧
      signed.flatMap (headerLine c.headers) = signed'.flatMap (headerLine c'.headers) ∧
      joinWith [0x3B] signed = joinWith [0x3B] signed' ∧ c.bodySha = c'.bodySha)
    ∨ (sts ≠ sts' ∧ hmac H key sts = hmac H key sts')
    ∨ (canonicalRequest c signed ≠ canonicalRequest c' signed' ∧
        H (canonicalRequest c signed) = H (canonicalRequest c' signed')) :=
  one_signature_one_request_lemma H hlen a a' c c' signed signed' key sts sts' hc hc' hs hs' hsig hv hv' hy hy' hm hp hq hl hb

end SigV4.C01

#print axioms SigV4.C01.accept_iff
#print axioms SigV4.C01.accept_implies_signature
#print axioms SigV4.C01.canonicalRequest_components
#print axioms SigV4.C01.hexLower_injective
#print axioms SigV4.C01.hexLower_length
#print axioms SigV4.C01.stringToSign_injective
#print axioms SigV4.C01.canonicalRequest_injective
#print axioms SigV4.C01.components_newline_free
#print axioms SigV4.C01.no_cross_validation
#print axioms SigV4.C01.wrong_length_refused
#print axioms SigV4.C01.signature_unique
#print axioms SigV4.C01.one_signature_one_request
