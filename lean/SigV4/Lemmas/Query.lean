/- Helper lemmas for C10 (query parsing, grouping, sorting). -/
import SigV4.Props.C09

namespace SigV4

/-! ### Insertion sort -/

section SortSec
variable {α : Type} (le : α → α → Bool)

theorem insertBy_perm (x : α) (l : List α) : (insertBy le x l).Perm (x :: l) := by
  induction l with
  | nil => exact List.Perm.refl _
  | cons y ys ih =>
    simp only [insertBy]
    split
    · exact List.Perm.refl _
    · exact (List.Perm.cons y ih).trans (List.Perm.swap x y ys)

theorem sortBy_perm (l : List α) : (sortBy le l).Perm l := by
  induction l with
  | nil => exact List.Perm.refl _
  | cons x xs ih =>
    simp only [sortBy]
    exact (insertBy_perm le x _).trans (List.Perm.cons x ih)

variable {le}

theorem insertBy_pairwise
    (tot : ∀ a b, le a b = true ∨ le b a = true)
    (trans : ∀ a b c, le a b = true → le b c = true → le a c = true)
    (x : α) (l : List α) (h : l.Pairwise (fun a b => le a b = true)) :
    (insertBy le x l).Pairwise (fun a b => le a b = true) := by
  induction l with
  | nil => simp [insertBy]
  | cons y ys ih =>
    simp only [insertBy]
    rw [List.pairwise_cons] at h
    split
    · rename_i hxy
      rw [List.pairwise_cons]
      refine ⟨?_, List.pairwise_cons.2 h⟩
      intro z hz
      rcases List.mem_cons.1 hz with rfl | hz
      · exact hxy
      · exact trans _ _ _ hxy (h.1 z hz)
    · rename_i hxy
      have hyx : le y x = true := by
        rcases tot x y with h' | h'
        · exact absurd h' hxy
        · exact h'
      rw [List.pairwise_cons]
      refine ⟨?_, ih h.2⟩
      intro z hz
      rcases List.mem_cons.1 ((insertBy_perm le x ys).mem_iff.1 hz) with rfl | hz
      · exact hyx
      · exact h.1 z hz

theorem sortBy_pairwise
    (tot : ∀ a b, le a b = true ∨ le b a = true)
    (trans : ∀ a b c, le a b = true → le b c = true → le a c = true)
    (l : List α) : (sortBy le l).Pairwise (fun a b => le a b = true) := by
  induction l with
  | nil => simp [sortBy]
  | cons x xs ih => exact insertBy_pairwise tot trans x _ ih

theorem sortBy_eq_of_perm
    (tot : ∀ a b, le a b = true ∨ le b a = true)
    (trans : ∀ a b c, le a b = true → le b c = true → le a c = true)
    (antisymm : ∀ a b, le a b = true → le b a = true → a = b)
    {l l' : List α} (h : l.Perm l') : sortBy le l = sortBy le l' :=
  List.Perm.eq_of_pairwise (fun a b _ _ => antisymm a b)
    (sortBy_pairwise tot trans l) (sortBy_pairwise tot trans l')
    (((sortBy_perm le l).trans h).trans (sortBy_perm le l').symm)

end SortSec

/-! ### The byte-string and pair orders -/

theorem bytesLe_total (a b : Bytes) : bytesLe a b = true ∨ bytesLe b a = true := by
  induction a generalizing b with
  | nil => simp [bytesLe]
  | cons x xs ih =>
    cases b with
    | nil => simp [bytesLe]
    | cons y ys =>
      simp only [bytesLe, Bool.or_eq_true, Bool.and_eq_true, decide_eq_true_eq, beq_iff_eq]
      by_cases hxy : x < y
      · exact .inl (.inl hxy)
      · by_cases hyx : y < x
        · exact .inr (.inl hyx)
        · have : x = y := by
            rw [UInt8.lt_iff_toNat_lt] at hxy hyx
            exact UInt8.toNat_inj.1 (by omega)
          subst this
          rcases ih ys with h | h
          · exact .inl (.inr ⟨rfl, h⟩)
          · exact .inr (.inr ⟨rfl, h⟩)

theorem bytesLe_trans (a b c : Bytes) (hab : bytesLe a b = true) (hbc : bytesLe b c = true) :
    bytesLe a c = true := by
  induction a generalizing b c with
  | nil => simp [bytesLe]
  | cons x xs ih =>
    cases b with
    | nil => simp [bytesLe] at hab
    | cons y ys =>
      cases c with
      | nil => simp [bytesLe] at hbc
      | cons z zs =>
        simp only [bytesLe, Bool.or_eq_true, Bool.and_eq_true, decide_eq_true_eq, beq_iff_eq] at *
        rcases hab with hab | ⟨rfl, hab⟩
        · rcases hbc with hbc | ⟨rfl, _⟩
          · left
            rw [UInt8.lt_iff_toNat_lt] at *
            omega
          · exact .inl hab
        · rcases hbc with hbc | ⟨rfl, hbc⟩
          · exact .inl hbc
          · exact .inr ⟨rfl, ih _ _ hab hbc⟩

theorem bytesLe_antisymm (a b : Bytes) (hab : bytesLe a b = true) (hba : bytesLe b a = true) :
    a = b := by
  induction a generalizing b with
  | nil =>
    cases b with
    | nil => rfl
    | cons y ys => simp [bytesLe] at hba
  | cons x xs ih =>
    cases b with
    | nil => simp [bytesLe] at hab
    | cons y ys =>
      simp only [bytesLe, Bool.or_eq_true, Bool.and_eq_true, decide_eq_true_eq, beq_iff_eq] at *
      rcases hab with hab | ⟨rfl, hab⟩
      · rcases hba with hba | ⟨rfl, _⟩
        · rw [UInt8.lt_iff_toNat_lt] at *
          omega
        · rw [UInt8.lt_iff_toNat_lt] at *
          omega
      · rcases hba with hba | ⟨_, hba⟩
        · rw [UInt8.lt_iff_toNat_lt] at *
          omega
        · rw [ih _ hab hba]

theorem bytesLe_refl (a : Bytes) : bytesLe a a = true := by
  rcases bytesLe_total a a with h | h <;> exact h

theorem pairLe_total (x y : Bytes × Bytes) : pairLe x y = true ∨ pairLe y x = true := by
  unfold pairLe
  by_cases h : x.1 = y.1
  · rw [if_pos h, if_pos h.symm]; exact bytesLe_total _ _
  · rw [if_neg h, if_neg (Ne.symm h)]; exact bytesLe_total _ _

theorem pairLe_trans (x y z : Bytes × Bytes) (hxy : pairLe x y = true) (hyz : pairLe y z = true) :
    pairLe x z = true := by
  unfold pairLe at *
  by_cases h1 : x.1 = y.1
  · rw [if_pos h1] at hxy
    by_cases h2 : y.1 = z.1
    · rw [if_pos h2] at hyz
      rw [if_pos (h1.trans h2)]
      exact bytesLe_trans _ _ _ hxy hyz
    · rw [if_neg h2] at hyz
      rw [if_neg (h1 ▸ h2), h1]
      exact hyz
  · rw [if_neg h1] at hxy
    by_cases h2 : y.1 = z.1
    · rw [if_pos h2] at hyz
      rw [if_neg (h2 ▸ h1), ← h2]
      exact hxy
    · rw [if_neg h2] at hyz
      have h3 := bytesLe_trans _ _ _ hxy hyz
      by_cases h4 : x.1 = z.1
      · exfalso
        rw [h4] at hxy
        exact h2 (bytesLe_antisymm _ _ hyz hxy)
      · rw [if_neg h4]; exact h3

theorem pairLe_antisymm (x y : Bytes × Bytes) (hxy : pairLe x y = true) (hyx : pairLe y x = true) :
    x = y := by
  unfold pairLe at *
  by_cases h : x.1 = y.1
  · rw [if_pos h] at hxy
    rw [if_pos h.symm] at hyx
    exact Prod.ext h (bytesLe_antisymm _ _ hxy hyx)
  · rw [if_neg h] at hxy
    rw [if_neg (Ne.symm h)] at hyx
    exact absurd (bytesLe_antisymm _ _ hxy hyx) h

theorem sortBy_pairLe_eq_of_perm {l l' : List (Bytes × Bytes)} (h : l.Perm l') :
    sortBy pairLe l = sortBy pairLe l' :=
  sortBy_eq_of_perm pairLe_total pairLe_trans pairLe_antisymm h

/-! ### Grouping -/

theorem flattenMap_nil : flattenMap [] = [] := rfl

theorem flattenMap_cons (kv : Bytes × List Bytes) (m : QueryMap) :
    flattenMap (kv :: m) = kv.2.map (fun v => (kv.1, v)) ++ flattenMap m := by
  simp [flattenMap]

theorem flattenMap_assocPush_perm (m : QueryMap) (k v : Bytes) :
    (flattenMap (assocPush m k v)).Perm (flattenMap m ++ [(k, v)]) := by
  induction m with
  | nil => simp [assocPush, flattenMap]
  | cons kv rest ih =>
    obtain ⟨k', vs⟩ := kv
    simp only [assocPush]
    split
    · rename_i hk
      subst hk
      simp only [flattenMap_cons, List.map_append, List.map_cons, List.map_nil, List.append_assoc]
      exact List.Perm.append_left _ List.perm_append_comm
    · simp only [flattenMap_cons, List.append_assoc]
      exact List.Perm.append_left _ ih

theorem flattenMap_foldl_perm (l : List (Bytes × Bytes)) (m0 : QueryMap) :
    (flattenMap (l.foldl (fun m kv => assocPush m kv.1 kv.2) m0)).Perm (flattenMap m0 ++ l) := by
  induction l generalizing m0 with
  | nil => simp
  | cons x xs ih =>
    simp only [List.foldl_cons]
    refine (ih _).trans ?_
    have := (flattenMap_assocPush_perm m0 x.1 x.2).append_right xs
    simpa using this

theorem keys_assocPush (m : QueryMap) (k v : Bytes) :
    (assocPush m k v).map (·.1) = if k ∈ m.map (·.1) then m.map (·.1) else m.map (·.1) ++ [k] := by
  induction m with
  | nil => simp [assocPush]
  | cons kv rest ih =>
    obtain ⟨k', vs⟩ := kv
    simp only [assocPush]
    by_cases hk : k' = k
    · subst hk; simp
    · rw [if_neg hk]
      simp only [List.map_cons, ih, List.mem_cons]
      have hk' : ¬ k = k' := fun h => hk h.symm
      by_cases hm : k ∈ rest.map (·.1)
      · simp [hm]
      · simp [hm, hk']

theorem nodup_keys_assocPush (m : QueryMap) (k v : Bytes) (h : (m.map (·.1)).Nodup) :
    ((assocPush m k v).map (·.1)).Nodup := by
  rw [keys_assocPush]
  split
  · exact h
  · rename_i hk
    rw [List.nodup_append]
    refine ⟨h, by simp, ?_⟩
    intro a ha b hb
    simp only [List.mem_singleton] at hb
    subst hb
    intro hab; subst hab; exact hk ha

theorem filter_flattenMap_of_not_mem (m : QueryMap) (k : Bytes) (h : k ∉ m.map (·.1)) :
    (flattenMap m).filter (·.1 = k) = [] := by
  rw [List.filter_eq_nil_iff]
  intro x hx
  simp only [flattenMap, List.mem_flatMap, List.mem_map] at hx
  obtain ⟨kv, hkv, v, _, rfl⟩ := hx
  simp only [decide_eq_true_eq]
  intro hk
  exact h (List.mem_map.2 ⟨kv, hkv, hk⟩)

theorem flattenMap_assocPush_filter (m : QueryMap) (k v n : Bytes) (h : (m.map (·.1)).Nodup) :
    (flattenMap (assocPush m k v)).filter (·.1 = n) = (flattenMap m ++ [(k, v)]).filter (·.1 = n) := by
  induction m with
  | nil => simp [assocPush, flattenMap]
  | cons kv rest ih =>
    obtain ⟨k', vs⟩ := kv
    simp only [List.map_cons, List.nodup_cons] at h
    simp only [assocPush]
    split
    · rename_i hk
      subst hk
      simp only [flattenMap_cons, List.map_append, List.map_cons, List.map_nil, List.append_assoc,
        List.filter_append]
      by_cases hn : k' = n
      · subst hn
        rw [filter_flattenMap_of_not_mem rest k' h.1]
        simp
      · simp [hn]
    · simp only [flattenMap_cons, List.append_assoc, List.filter_append]
      rw [ih h.2, List.filter_append]

theorem flattenMap_foldl_filter (l : List (Bytes × Bytes)) (m0 : QueryMap) (n : Bytes)
    (h : (m0.map (·.1)).Nodup) :
    (flattenMap (l.foldl (fun m kv => assocPush m kv.1 kv.2) m0)).filter (·.1 = n)
      = (flattenMap m0 ++ l).filter (·.1 = n) := by
  induction l generalizing m0 with
  | nil => simp
  | cons x xs ih =>
    simp only [List.foldl_cons]
    rw [ih _ (nodup_keys_assocPush m0 x.1 x.2 h)]
    rw [List.filter_append, flattenMap_assocPush_filter m0 x.1 x.2 n h]
    simp only [List.filter_append, List.append_assoc]
    rw [← List.filter_append (l₁ := [(x.fst, x.snd)])]
    rfl

theorem queryPairs_eq_filter (m : QueryMap) :
    queryPairs m = (flattenMap m).filter fun kv => kv.1 ≠ X_AMZ_SIGNATURE := by
  induction m with
  | nil => rfl
  | cons kv rest ih =>
    rw [flattenMap_cons, List.filter_append, ← ih]
    unfold queryPairs
    by_cases hk : kv.1 = X_AMZ_SIGNATURE
    · simp [hk]
    · simp only [hk, List.filter_map, Function.comp_def, List.filter_cons, ne_eq, not_false_eq_true,
        decide_true, if_true, List.flatMap_cons]
      congr 2
      exact (List.filter_eq_self.2 fun _ _ => rfl).symm

/-! ### `mapM` in `Option` -/

theorem optMapM_cons {α β : Type} (f : α → Option β) (a : α) (l : List α) :
    (a :: l).mapM f = (f a).bind fun b => (l.mapM f).map (b :: ·) := by
  rw [List.mapM_cons]
  cases f a <;> cases l.mapM f <;> rfl

/-- `mapM f l` is determined by `l.map f`. -/
theorem optMapM_eq_of_map_eq {α α' β : Type} (f : α → Option β) (g : α' → Option β)
    (l : List α) (l' : List α') (h : l.map f = l'.map g) : l.mapM f = l'.mapM g := by
  induction l generalizing l' with
  | nil =>
    cases l' with
    | nil => rfl
    | cons _ _ => simp at h
  | cons a as ih =>
    cases l' with
    | nil => simp at h
    | cons b bs =>
      simp only [List.map_cons, List.cons.injEq] at h
      rw [optMapM_cons, optMapM_cons, h.1, ih bs h.2]

/-- Permuting the input of `mapM` permutes the output (and failure is order-independent). -/
theorem optMapM_perm {α β : Type} (f : α → Option β) {l l' : List α} (h : l.Perm l') :
    (l.mapM f = none ∧ l'.mapM f = none) ∨
      ∃ r r', l.mapM f = some r ∧ l'.mapM f = some r' ∧ r.Perm r' := by
  induction h with
  | nil => exact .inr ⟨[], [], rfl, rfl, List.Perm.refl _⟩
  | cons a _ ih =>
    rw [optMapM_cons, optMapM_cons]
    cases f a with
    | none => exact .inl ⟨rfl, rfl⟩
    | some b =>
      rcases ih with ⟨h1, h2⟩ | ⟨r, r', h1, h2, hp⟩
      · rw [h1, h2]; exact .inl ⟨rfl, rfl⟩
      · rw [h1, h2]; exact .inr ⟨_, _, rfl, rfl, hp.cons b⟩
  | swap a b l =>
    simp only [optMapM_cons]
    cases f a <;> cases f b <;> cases l.mapM f <;> simp [List.Perm.swap]
  | trans _ _ ih1 ih2 =>
    rcases ih1 with ⟨h1, h2⟩ | ⟨r, r', h1, h2, hp⟩
    · rcases ih2 with ⟨h3, h4⟩ | ⟨s, s', h3, h4, hq⟩
      · exact .inl ⟨h1, h4⟩
      · rw [h2] at h3; cases h3
    · rcases ih2 with ⟨h3, h4⟩ | ⟨s, s', h3, h4, hq⟩
      · rw [h2] at h3; cases h3
      · rw [h2] at h3; cases h3
        exact .inr ⟨_, _, h1, h4, hp.trans hq⟩

/-! ### The parser loop -/

theorem queryLoop_eq_spec (comps : List Bytes) (m : QueryMap) :
    queryLoop comps m =
      optToOutcome .MalformedQueryString
        (((comps.filter (· ≠ [])).mapM decodeComponent).map fun ps =>
          (ps.map encPair).foldl (fun m kv => assocPush m kv.1 kv.2) m) := by
  induction comps generalizing m with
  | nil => rfl
  | cons comp rest ih =>
    unfold queryLoop
    by_cases hc : comp = []
    · simp [hc, ih]
    · rw [if_neg hc]
      have hf : (comp :: rest).filter (· ≠ []) = comp :: rest.filter (· ≠ []) := by
        simp [hc]
      rw [hf, optMapM_cons]
      rcases hs : splitFirst 0x3D comp with ⟨key, value?⟩
      simp only [C09.normElem_eq_spec]
      cases hk : pctDecode true key with
      | none =>
        have hd : decodeComponent comp = none := by simp [decodeComponent, hs, hk]
        simp [hd, optToOutcome, elemErr]
      | some dk =>
        cases hv : pctDecode true (value?.getD []) with
        | none =>
          have hd : decodeComponent comp = none := by simp [decodeComponent, hs, hk, hv]
          simp [hd, optToOutcome, elemErr]
        | some dv =>
          have hd : decodeComponent comp = some (dk, dv) := by simp [decodeComponent, hs, hk, hv]
          simp only [hd, optToOutcome, Option.map_some, ih, Option.bind_some]
          cases List.mapM decodeComponent (List.filter (fun x => decide (x ≠ [])) rest) with
          | none => rfl
          | some ps => simp [encPair]

/-! ### Top-level consequences -/

theorem groupPairs_perm' (l : List (Bytes × Bytes)) : (flattenMap (groupPairs l)).Perm l := by
  have := flattenMap_foldl_perm l []
  simpa [groupPairs, flattenMap_nil] using this

theorem groupPairs_order' (l : List (Bytes × Bytes)) (k : Bytes) :
    (flattenMap (groupPairs l)).filter (·.1 = k) = l.filter (·.1 = k) := by
  have := flattenMap_foldl_filter l [] k (by simp)
  simpa [groupPairs, flattenMap_nil] using this

theorem refQueryPairs_nil : refQueryPairs [] = some [] := rfl

theorem parseQuery_eq_spec' (q : Bytes) :
    parseQuery q =
      optToOutcome .MalformedQueryString
        ((refQueryPairs q).map fun ps => groupPairs (ps.map encPair)) := by
  unfold parseQuery
  split
  · rename_i hq
    subst hq
    rfl
  · exact queryLoop_eq_spec _ _

theorem canonQuery_groupPairs (ps : List (Bytes × Bytes)) :
    canonQuery (groupPairs (ps.map encPair)) = refCanonQuery ps := by
  unfold canonQuery refCanonQuery
  rw [queryPairs_eq_filter]
  congr 2
  exact sortBy_pairLe_eq_of_perm ((groupPairs_perm' _).filter _)

theorem parseQuery_canon (q : Bytes) :
    (parseQuery q).map canonQuery =
      optToOutcome .MalformedQueryString ((refQueryPairs q).map refCanonQuery) := by
  rw [parseQuery_eq_spec']
  cases refQueryPairs q with
  | none => rfl
  | some ps => simp [optToOutcome, canonQuery_groupPairs]

theorem refCanonQuery_perm {ps ps' : List (Bytes × Bytes)} (h : ps.Perm ps') :
    refCanonQuery ps = refCanonQuery ps' := by
  unfold refCanonQuery
  congr 2
  exact sortBy_pairLe_eq_of_perm ((h.map _).filter _)

theorem canonQuery_perm {m m' : QueryMap} (h : m.Perm m') : canonQuery m = canonQuery m' := by
  unfold canonQuery
  congr 2
  apply sortBy_pairLe_eq_of_perm
  unfold queryPairs
  exact (h.filter _).flatMap_right _

theorem parseQuery_canon_of_comp_perm (q q' : Bytes)
    (h : (splitOn 0x26 q).Perm (splitOn 0x26 q')) :
    (parseQuery q).map canonQuery = (parseQuery q').map canonQuery := by
  rw [parseQuery_canon, parseQuery_canon]
  unfold refQueryPairs
  rcases optMapM_perm decodeComponent (h.filter (· ≠ [])) with ⟨h1, h2⟩ | ⟨r, r', h1, h2, hp⟩
  · rw [h1, h2]
  · rw [h1, h2]
    simp [refCanonQuery_perm hp]

theorem parseQuery_canon_of_filter_eq (q q' : Bytes)
    (h : (splitOn 0x26 q).filter (· ≠ []) = (splitOn 0x26 q').filter (· ≠ [])) :
    (parseQuery q).map canonQuery = (parseQuery q').map canonQuery := by
  rw [parseQuery_canon, parseQuery_canon]
  unfold refQueryPairs
  rw [h]

theorem parseQuery_canon_of_decode_eq (q q' : Bytes)
    (h : ((splitOn 0x26 q).filter (· ≠ [])).map decodeComponent
        = ((splitOn 0x26 q').filter (· ≠ [])).map decodeComponent) :
    (parseQuery q).map canonQuery = (parseQuery q').map canonQuery := by
  rw [parseQuery_canon, parseQuery_canon]
  unfold refQueryPairs
  rw [optMapM_eq_of_map_eq _ _ _ _ h]

theorem pairLe_iff (x y : Bytes × Bytes) :
    pairLe x y = true ↔
      (x.1 ≠ y.1 ∧ bytesLe x.1 y.1 = true) ∨ (x.1 = y.1 ∧ bytesLe x.2 y.2 = true) := by
  unfold pairLe
  by_cases h : x.1 = y.1
  · simp [h]
  · simp [h]

theorem parseQuery_err_kind' (q : Bytes) :
    (∀ k, parseQuery q = .err k → k = .MalformedQueryString) ∧
      (∀ site, parseQuery q ≠ .panic site) := by
  rw [parseQuery_eq_spec']
  cases refQueryPairs q with
  | none =>
    refine ⟨?_, ?_⟩
    · intro k hk
      simp only [Option.map_none, optToOutcome, Outcome.err.injEq] at hk
      exact hk.symm
    · intro site hs
      simp [optToOutcome] at hs
  | some ps =>
    refine ⟨?_, ?_⟩
    · intro k hk
      simp [optToOutcome] at hk
    · intro site hs
      simp [optToOutcome] at hs

end SigV4
