/-
  SigV4.Tie.Keys — the ten derivation methods of src/signing_key.rs, translated from /repo/src on this run
  (SigV4/Source/GeneratedKeys.lean, srcgen/keychain.py), are the model's derivation functions, for every hash `H`, key,
  date, region and service: which value is the HMAC key and which the message at each step, the `%Y%m%d` rendering of the
  date, the `aws4_request` terminator, and the wiring of every shortcut.
-/
import SigV4.Source.GeneratedKeys
import SigV4.Tie.Basic

namespace SigV4.Tie

open SigV4

theorem formatDate_ymd (d : Int × Int × Int) :
    Rust.Chrono.formatDate [0x25, 0x59, 0x25, 0x6D, 0x25, 0x64] d = fmtDate d := by
  simp [Rust.Chrono.formatDate, fmtDate]

theorem kservice_to_ksigning : ∀ f, Src.signing_key.KServiceKey_to_ksigning? = some f →
    ∀ (H : Bytes → Bytes) (k : Bytes), f H k = kserviceToKSigning H k := by
  intro f hf; cases hf; intro H k; rfl

theorem kregion_to_kservice : ∀ f, Src.signing_key.KRegionKey_to_kservice? = some f →
    ∀ (H : Bytes → Bytes) (k service : Bytes), f H k service = kregionToKService H k service := by
  intro f hf; cases hf; intro H k service; rfl

theorem kregion_to_ksigning : ∀ f, Src.signing_key.KRegionKey_to_ksigning? = some f →
    ∀ (H : Bytes → Bytes) (k service : Bytes), f H k service = kregionToKSigning H k service := by
  intro f hf; cases hf; intro H k service; rfl

theorem kdate_to_kregion : ∀ f, Src.signing_key.KDateKey_to_kregion? = some f →
    ∀ (H : Bytes → Bytes) (k region : Bytes), f H k region = kdateToKRegion H k region := by
  intro f hf; cases hf; intro H k region; rfl

theorem kdate_to_kservice : ∀ f, Src.signing_key.KDateKey_to_kservice? = some f →
    ∀ (H : Bytes → Bytes) (k region service : Bytes), f H k region service = kdateToKService H k region service := by
  intro f hf; cases hf; intro H k region service; rfl

theorem kdate_to_ksigning : ∀ f, Src.signing_key.KDateKey_to_ksigning? = some f →
    ∀ (H : Bytes → Bytes) (k region service : Bytes), f H k region service = kdateToKSigning H k region service := by
  intro f hf; cases hf; intro H k region service; rfl

theorem ksecret_to_kdate : ∀ f, Src.signing_key.KSecretKey_to_kdate? = some f →
    ∀ (H : Bytes → Bytes) (k : SecretKey) (d : Int × Int × Int), f H k d = toKDate H k d := by
  intro f hf; cases hf; intro H k d
  show hmac H k.buf (Rust.Chrono.formatDate _ d) = hmac H k.buf (fmtDate d)
  rw [formatDate_ymd]

theorem ksecret_to_kregion : ∀ f, Src.signing_key.KSecretKey_to_kregion? = some f →
    ∀ (H : Bytes → Bytes) (k : SecretKey) (d : Int × Int × Int) (region : Bytes), f H k d region = toKRegion H k d region := by
  intro f hf; cases hf; intro H k d region
  show kdateToKRegion H (Src.keys.KSecretKey.to_kdate H k d) region = _
  rw [ksecret_to_kdate _ rfl]; rfl

theorem ksecret_to_kservice : ∀ f, Src.signing_key.KSecretKey_to_kservice? = some f →
    ∀ (H : Bytes → Bytes) (k : SecretKey) (d : Int × Int × Int) (region service : Bytes),
      f H k d region service = toKService H k d region service := by
  intro f hf; cases hf; intro H k d region service
  show kdateToKService H (Src.keys.KSecretKey.to_kdate H k d) region service = _
  rw [ksecret_to_kdate _ rfl]; rfl

theorem ksecret_to_ksigning : ∀ f, Src.signing_key.KSecretKey_to_ksigning? = some f →
    ∀ (H : Bytes → Bytes) (k : SecretKey) (d : Int × Int × Int) (region service : Bytes),
      f H k d region service = toKSigning H k d region service := by
  intro f hf; cases hf; intro H k d region service
  show kdateToKSigning H (Src.keys.KSecretKey.to_kdate H k d) region service = _
  rw [ksecret_to_kdate _ rfl]; rfl

end SigV4.Tie

#print axioms SigV4.Tie.kservice_to_ksigning
#print axioms SigV4.Tie.kregion_to_kservice
#print axioms SigV4.Tie.kregion_to_ksigning
#print axioms SigV4.Tie.kdate_to_kregion
#print axioms SigV4.Tie.kdate_to_kservice
#print axioms SigV4.Tie.kdate_to_ksigning
#print axioms SigV4.Tie.ksecret_to_kdate
#print axioms SigV4.Tie.ksecret_to_kregion
#print axioms SigV4.Tie.ksecret_to_kservice
#print axioms SigV4.Tie.ksecret_to_ksigning
