/- Helper lemmas for C13 (error precedence and the error taxonomy). -/
import SigV4.Spec.ValidateSpec
import SigV4.Lemmas.C14
import SigV4.Props.C09
import SigV4.Props.C10

namespace SigV4

/-! ### The six built-in kinds -/

/-- The kinds the crate itself (as opposed to the key provider) can report. -/
def ErrKind.builtin (k : ErrKind) : Prop :=
  k = .InvalidURIPath ∨ k = .MalformedQueryString ∨ k = .InvalidBodyEncoding ∨
    k = .MissingAuthenticationToken ∨ k = .IncompleteSignature ∨ k = .SignatureDoesNotMatch

theorem ErrKind.builtin_mem {k : ErrKind} (h : k.builtin) :
    k ∈ [ErrKind.InvalidURIPath, .MalformedQueryString, .InvalidBodyEncoding,
         .MissingAuthenticationToken, .IncompleteSignature, .SignatureDoesNotMatch] := by
  rcases h with h | h | h | h | h | h <;> subst h <;> simp

/-! ### `validate` stopped in one of the first two stages -/

theorem validate_of_fromRequestParts_err {σ : Type} (H : Bytes → Bytes) (cfg : Config)
    (P : Provider σ) (s : σ) (req : Request) (k : ErrKind)
    (h : fromRequestParts H cfg.opts cfg.other req = .err k) :
    validate H cfg P s req = { out := .err k, state := s, calls := [] } := by
  unfold validate
  simp only [h]

theorem validate_of_getAuthenticator_err {σ : Type} (H : Bytes → Bytes) (cfg : Config)
    (P : Provider σ) (s : σ) (req : Request) (fp : FromParts) (k : ErrKind)
    (hfp : fromRequestParts H cfg.opts cfg.other req = .ok fp)
    (h : getAuthenticator H cfg.reqs fp.creq = .err k) :
    validate H cfg P s req = { out := .err k, state := s, calls := [] } := by
  unfold validate
  simp only [hfp, h]

/-! ### `fromRequestParts` -/

theorem decodeFormBody_err_kind (charset : Option Bytes) (other : OtherCharset) (body : Bytes)
    (k : ErrKind) (h : decodeFormBody charset other body = .err k) : k = .InvalidBodyEncoding := by
  unfold decodeFormBody at h
  simp only at h
  repeat' split at h
  all_goals first | (cases h; rfl) | cases h

theorem fromRequestParts_path_err (H : Bytes → Bytes) (opts : Options) (other : OtherCharset)
    (req : Request) (k : ErrKind) (h : canonPath opts.s3 req.path = .err k) :
    fromRequestParts H opts other req = .err .InvalidURIPath := by
  have hk := (C09.canonPath_err_kind opts.s3 req.path).1 k h
  subst hk
  unfold fromRequestParts
  simp only [h]

theorem fromRequestParts_query_err (H : Bytes → Bytes) (opts : Options) (other : OtherCharset)
    (req : Request) (p : Bytes) (k : ErrKind) (hp : canonPath opts.s3 req.path = .ok p)
    (hq : parseQuery (req.query.getD []) = .err k) :
    fromRequestParts H opts other req = .err .MalformedQueryString := by
  have hk := (C10.parseQuery_err_kind _).1 k hq
  subst hk
  unfold fromRequestParts
  simp only [hp, hq]

theorem fromRequestParts_body_err (H : Bytes → Bytes) (opts : Options) (other : OtherCharset)
    (req : Request) (p : Bytes) (up : QueryMap) (k : ErrKind)
    (hp : canonPath opts.s3 req.path = .ok p)
    (hq : parseQuery (req.query.getD []) = .ok up) (hf : foldsBody opts req.headers = true)
    (hd : decodeFormBody ((contentTypeCharset req.headers).bind (·.2)) other req.body = .err k) :
    fromRequestParts H opts other req = .err k := by
  unfold fromRequestParts
  simp only [hp, hq, hf, hd, if_true]

theorem fromRequestParts_body_query_err (H : Bytes → Bytes) (opts : Options) (other : OtherCharset)
    (req : Request) (p : Bytes) (up : QueryMap) (text : Bytes) (k : ErrKind)
    (hp : canonPath opts.s3 req.path = .ok p)
    (hq : parseQuery (req.query.getD []) = .ok up) (hf : foldsBody opts req.headers = true)
    (hd : decodeFormBody ((contentTypeCharset req.headers).bind (·.2)) other req.body = .ok text)
    (ht : parseQuery text = .err k) :
    fromRequestParts H opts other req = .err .MalformedQueryString := by
  have hk := (C10.parseQuery_err_kind _).1 k ht
  subst hk
  unfold fromRequestParts
  simp only [hp, hq, hf, hd, ht, if_true]

theorem fromRequestParts_err_kind (H : Bytes → Bytes) (opts : Options) (other : OtherCharset)
    (req : Request) (k : ErrKind) (h : fromRequestParts H opts other req = .err k) :
    k = .InvalidURIPath ∨ k = .MalformedQueryString ∨ k = .InvalidBodyEncoding := by
  cases hp : canonPath opts.s3 req.path with
  | err k' =>
    rw [fromRequestParts_path_err H opts other req k' hp] at h
    cases h; exact .inl rfl
  | panic site => exact absurd hp ((C09.canonPath_err_kind _ _).2 site)
  | ok p =>
    cases hq : parseQuery (req.query.getD []) with
    | err k' =>
      rw [fromRequestParts_query_err H opts other req p k' hp hq] at h
      cases h; exact .inr (.inl rfl)
    | panic site => exact absurd hq ((C10.parseQuery_err_kind _).2 site)
    | ok up =>
      cases hf : foldsBody opts req.headers with
      | false =>
        unfold fromRequestParts at h
        simp only [hp, hq, hf] at h
        cases h
      | true =>
        cases hd : decodeFormBody ((contentTypeCharset req.headers).bind (·.2)) other req.body with
        | err k' =>
          rw [fromRequestParts_body_err H opts other req p up k' hp hq hf hd] at h
          cases h
          exact .inr (.inr (decodeFormBody_err_kind _ _ _ _ hd))
        | panic site =>
          unfold fromRequestParts at h
          simp only [hp, hq, hf, hd, if_true] at h
          cases h
        | ok text =>
          cases ht : parseQuery text with
          | err k' =>
            rw [fromRequestParts_body_query_err H opts other req p up text k' hp hq hf hd ht] at h
            cases h; exact .inr (.inl rfl)
          | panic site => exact absurd ht ((C10.parseQuery_err_kind _).2 site)
          | ok bp =>
            unfold fromRequestParts at h
            simp only [hp, hq, hf, hd, ht, if_true] at h
            repeat' split at h
            all_goals first | (cases h; exact .inr (.inl rfl)) | cases h

/-! ### Parameter extraction -/

theorem authHeaderParamLoop_err_kind (ps : List Bytes) (m : List (Bytes × Bytes)) (k : ErrKind)
    (h : authHeaderParamLoop ps m = .err k) : k = .IncompleteSignature := by
  induction ps generalizing m with
  | nil => cases h
  | cons p rest ih =>
    unfold authHeaderParamLoop at h
    simp only at h
    split at h
    · exact ih _ h
    · split at h
      · cases h; rfl
      · exact ih _ h

theorem authParamsFromHeader_bad_alg (c : CanonReq) (ah : Bytes)
    (h : (splitFirst 0x20 (trimAscii ah)).1 ≠ AWS4_HMAC_SHA256) :
    authParamsFromHeader c ah = .err .IncompleteSignature := by
  unfold authParamsFromHeader
  simp only [ne_eq, h, not_false_eq_true, if_true]

theorem authParamsFromHeader_err_kind (c : CanonReq) (ah : Bytes) (k : ErrKind)
    (h : authParamsFromHeader c ah = .err k) : k = .IncompleteSignature := by
  unfold authParamsFromHeader at h
  simp only at h
  split at h
  · cases h; rfl
  · split at h
    · rename_i k' hl
      cases h
      exact authHeaderParamLoop_err_kind _ _ _ hl
    · cases h
    · split at h
      · cases h
      · cases h; rfl

theorem authParamsFromQuery_bad_alg (c : CanonReq) (alg : Bytes) (h : alg ≠ AWS4_HMAC_SHA256) :
    authParamsFromQuery c alg = .err .MissingAuthenticationToken := by
  unfold authParamsFromQuery
  simp only [ne_eq, h, not_false_eq_true, if_true]

theorem authParamsFromQuery_err_kind (c : CanonReq) (alg : Bytes) (k : ErrKind)
    (h : authParamsFromQuery c alg = .err k) :
    k = .IncompleteSignature ∨ k = .MissingAuthenticationToken := by
  unfold authParamsFromQuery at h
  split at h
  · cases h; exact .inr rfl
  · split at h
    · split at h <;> cases h
    · cases h; exact .inl rfl

theorem extractAuthParams_none_none (c : CanonReq) (h1 : assocGet c.headers AUTHORIZATION = none)
    (h2 : assocGet c.params X_AMZ_ALGORITHM = none) :
    extractAuthParams c = .err .MissingAuthenticationToken := by
  unfold extractAuthParams
  simp only [h1, h2]

theorem extractAuthParams_some_some (c : CanonReq) (x y : List Bytes)
    (h1 : assocGet c.headers AUTHORIZATION = some x)
    (h2 : assocGet c.params X_AMZ_ALGORITHM = some y) :
    extractAuthParams c = .err .SignatureDoesNotMatch := by
  unfold extractAuthParams
  rw [h1, h2]
  cases x <;> cases y <;> rfl

theorem extractAuthParams_err_kind (c : CanonReq) (k : ErrKind) (h : extractAuthParams c = .err k) :
    k = .MissingAuthenticationToken ∨ k = .IncompleteSignature ∨ k = .SignatureDoesNotMatch := by
  unfold extractAuthParams at h
  split at h
  · exact .inr (.inl (authParamsFromHeader_err_kind _ _ _ h))
  · rcases authParamsFromQuery_err_kind _ _ _ h with h' | h'
    · exact .inr (.inl h')
    · exact .inl h'
  · cases h
  · cases h
  · cases h; exact .inr (.inr rfl)
  · cases h; exact .inl rfl

theorem getAuthParams_of_extract_err (reqs : Requirements) (c : CanonReq) (k : ErrKind)
    (h : extractAuthParams c = .err k) : getAuthParams reqs c = .err k := by
  unfold getAuthParams
  simp only [h]

theorem getAuthParams_of_requirements (reqs : Requirements) (c : CanonReq) (ap : AuthParams)
    (h : extractAuthParams c = .ok ap)
    (hr : requirementsMet reqs c.headers ap.signedHeaders = false) :
    getAuthParams reqs c = .err .SignatureDoesNotMatch := by
  unfold getAuthParams
  simp only [h, hr, Bool.false_eq_true, if_false]

theorem getAuthParams_err_kind (reqs : Requirements) (c : CanonReq) (k : ErrKind)
    (h : getAuthParams reqs c = .err k) :
    k = .MissingAuthenticationToken ∨ k = .IncompleteSignature ∨ k = .SignatureDoesNotMatch := by
  unfold getAuthParams at h
  split at h
  · rename_i k' he
    cases h
    exact extractAuthParams_err_kind c _ he
  · cases h
  · split at h
    · cases h
    · cases h; exact .inr (.inr rfl)

theorem getAuthenticator_of_getAuthParams_err (H : Bytes → Bytes) (reqs : Requirements) (c : CanonReq)
    (k : ErrKind) (h : getAuthParams reqs c = .err k) : getAuthenticator H reqs c = .err k := by
  unfold getAuthenticator
  simp only [h]

theorem getAuthenticator_of_bad_date (H : Bytes → Bytes) (reqs : Requirements) (c : CanonReq)
    (ap : AuthParams) (h : getAuthParams reqs c = .ok ap) (hd : parseIso ap.timestampStr = none) :
    getAuthenticator H reqs c = .err .IncompleteSignature := by
  unfold getAuthenticator authenticatorOf
  simp only [h, hd]

theorem getAuthenticator_err_kind (H : Bytes → Bytes) (reqs : Requirements) (c : CanonReq) (k : ErrKind)
    (h : getAuthenticator H reqs c = .err k) :
    k = .MissingAuthenticationToken ∨ k = .IncompleteSignature ∨ k = .SignatureDoesNotMatch := by
  unfold getAuthenticator at h
  split at h
  · rename_i k' he
    cases h
    exact getAuthParams_err_kind reqs c _ he
  · cases h
  · unfold authenticatorOf at h
    split at h
    · cases h; exact .inr (.inl rfl)
    · cases h

theorem authOf_err_kind (H : Bytes → Bytes) (cfg : Config) (req : Request) (k : ErrKind)
    (h : authOf H cfg req = .err k) : k.builtin := by
  unfold authOf at h
  split at h
  · rcases getAuthenticator_err_kind H _ _ k h with h' | h' | h'
    · exact .inr (.inr (.inr (.inl h')))
    · exact .inr (.inr (.inr (.inr (.inl h'))))
    · exact .inr (.inr (.inr (.inr (.inr h'))))
  · rename_i k' hfp
    cases h
    rcases fromRequestParts_err_kind H _ _ req _ hfp with h' | h' | h'
    · exact .inl h'
    · exact .inr (.inl h')
    · exact .inr (.inr (.inl h'))
  · cases h

/-! ### `prevalidate` -/

theorem C13.minTs_of_representable (now : Int) (hr : nowRepresentable now) :
    minTs now = now - ALLOWED_MISMATCH := by
  unfold nowRepresentable at hr
  unfold minTs
  rw [if_neg (by omega)]

theorem C13.maxTs_of_representable (now : Int) (hr : nowRepresentable now) :
    maxTs now = now + ALLOWED_MISMATCH := by
  unfold nowRepresentable at hr
  unfold maxTs
  rw [if_neg (by omega)]

theorem C13.prevalidate_inside (a : Authenticator) (region service : Bytes) (now : Int)
    (hr : nowRepresentable now) (h : inWindow a.timestamp now) :
    prevalidate a region service now = scopeCheck a region service := by
  unfold inWindow at h
  unfold prevalidate scopeCheck
  rw [C13.minTs_of_representable now hr, C13.maxTs_of_representable now hr]
  rw [if_neg (by omega), if_neg (by omega)]
  rfl

theorem C13.prevalidate_outside (a : Authenticator) (region service : Bytes) (now : Int)
    (hr : nowRepresentable now) (h : ¬ inWindow a.timestamp now) :
    prevalidate a region service now = .err .SignatureDoesNotMatch := by
  unfold inWindow at h
  unfold prevalidate
  rw [C13.minTs_of_representable now hr, C13.maxTs_of_representable now hr]
  by_cases h1 : a.timestamp < now - ALLOWED_MISMATCH
  · rw [if_pos h1]
  · rw [if_neg h1, if_pos (by omega)]

theorem C13.scopeCheck_not_five (a : Authenticator) (region service : Bytes)
    (h : (splitOn 0x2F a.credential).length ≠ 5) :
    scopeCheck a region service = .err .IncompleteSignature := by
  unfold scopeCheck
  split
  · next heq => rw [heq] at h; simp at h
  · rfl

theorem C13.scopeCheck_five_cases (a : Authenticator) (region service : Bytes)
    (h : (splitOn 0x2F a.credential).length = 5) :
    scopeCheck a region service = .ok () ∨
      scopeCheck a region service = .err .SignatureDoesNotMatch := by
  unfold scopeCheck
  split
  · split
    · exact .inl rfl
    · exact .inr rfl
  · next hne =>
    exfalso
    match hs : splitOn 0x2F a.credential, h with
    | [x1, x2, x3, x4, x5], _ => exact hne x1 x2 x3 x4 x5 hs

theorem C13.prevalidate_err_kind (a : Authenticator) (region service : Bytes) (now : Int) (k : ErrKind)
    (h : prevalidate a region service now = .err k) :
    k = .IncompleteSignature ∨ k = .SignatureDoesNotMatch := by
  unfold prevalidate at h
  repeat' split at h
  all_goals first | (cases h; first | exact .inl rfl | exact .inr rfl) | cases h

/-! ### The tail of `validate` -/

theorem validate_out_of_validateSignature_err {σ : Type} (H : Bytes → Bytes) (cfg : Config)
    (P : Provider σ) (s : σ) (req : Request) (a : Authenticator) (k : ErrKind)
    (ha : authOf H cfg req = .ok a)
    (h : (validateSignature H P s a cfg.region cfg.service cfg.now).out = .err k) :
    (validate H cfg P s req).out = .err k := by
  obtain ⟨fp, _, _, hv⟩ := validate_of_authOf_ok H cfg P s req a ha
  rw [hv]
  simp only [finish, h, Outcome.map_err]

theorem validate_of_prevalidate_err {σ : Type} (H : Bytes → Bytes) (cfg : Config)
    (P : Provider σ) (s : σ) (req : Request) (a : Authenticator) (k : ErrKind)
    (ha : authOf H cfg req = .ok a)
    (h : prevalidate a cfg.region cfg.service cfg.now = .err k) :
    (validate H cfg P s req).out = .err k ∧ (validate H cfg P s req).calls = [] := by
  obtain ⟨fp, _, _, hv⟩ := validate_of_authOf_ok H cfg P s req a ha
  rw [hv, validateSignature_prevalidate_err H P s a _ _ _ k h]
  exact ⟨rfl, rfl⟩

theorem validate_calls_of_prevalidate_not_ok {σ : Type} (H : Bytes → Bytes) (cfg : Config)
    (P : Provider σ) (s : σ) (req : Request) (a : Authenticator)
    (ha : authOf H cfg req = .ok a)
    (h : prevalidate a cfg.region cfg.service cfg.now ≠ .ok ()) :
    (validate H cfg P s req).calls = [] := by
  obtain ⟨fp, _, _, hv⟩ := validate_of_authOf_ok H cfg P s req a ha
  cases hp : prevalidate a cfg.region cfg.service cfg.now with
  | ok u => cases u; exact absurd hp h
  | err k => rw [hv, validateSignature_prevalidate_err H P s a _ _ _ k hp]; rfl
  | panic p => rw [hv, validateSignature_prevalidate_panic H P s a _ _ _ p hp]; rfl

/-- After the pre-checks the outcome is that of the key lookup followed by the comparison. -/
theorem validate_out_of_prevalidate_ok {σ : Type} (H : Bytes → Bytes) (cfg : Config)
    (P : Provider σ) (s : σ) (req : Request) (a : Authenticator) (sts : Bytes)
    (ha : authOf H cfg req = .ok a)
    (hp : prevalidate a cfg.region cfg.service cfg.now = .ok ()) (hs : stringToSign a = .ok sts) :
    ∃ fp : FromParts, (validate H cfg P s req).out =
      (match (getSigningKey P s a cfg.region cfg.service).out with
        | .err k => .err k
        | .panic p => .panic p
        | .ok resp =>
          if a.signature = hexLower (hmac H resp.key sts) then .ok resp
          else .err .SignatureDoesNotMatch : Outcome ProviderResp).map fun resp =>
        ({ method := req.method, headers := req.headers, rebuiltUri := fp.rebuiltUri,
           body := fp.body, identity := resp.identity } : Returned) := by
  obtain ⟨fp, _, _, hv⟩ := validate_of_authOf_ok H cfg P s req a ha
  refine ⟨fp, ?_⟩
  rw [hv, validateSignature_of_prevalidate_ok H P s a _ _ _ sts hp hs]
  rfl

end SigV4
