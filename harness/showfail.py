#!/usr/bin/env python3
# Pretty-print FAIL lines of the harness: python3 showfail.py < output
import sys, collections
seen=collections.Counter()
for line in sys.stdin:
    if not line.startswith("FAIL\t"): continue
    f=line.rstrip("\n").split("\t")
    kind,op,cls,inp,imp,model,spec,clause=f[1:9]
    key=(kind,op,cls)
    seen[key]+=1
    if seen[key]>int(sys.argv[1]) if len(sys.argv)>1 else seen[key]>1: continue
    print(f"--- {kind} {op} class={cls}")
    print("  imp  :", imp[:300])
    print("  model:", model[:300])
    if spec: print("  spec :", spec[:300])
    print("  what :", clause[:900])
print(dict(seen))
