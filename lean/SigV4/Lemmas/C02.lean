/- Helper lemmas for C02. -/
import SigV4.Spec.Signer

namespace SigV4

end SigV4
