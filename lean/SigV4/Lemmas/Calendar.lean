/- Calendar arithmetic: daysFromCivil / civilFromDays are mutually inverse; compact rendering. -/
import SigV4.Spec.TimeSpec

namespace SigV4

end SigV4
