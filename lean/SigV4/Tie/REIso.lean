/-
  SigV4.Tie.REIso — the language of the ISO-8601 pattern of src/chronoutil.rs is the set of
  renderings of well-formed `IsoText`s, i.e. what `matchIso` accepts.
-/
import SigV4.Tie.REMatch
import SigV4.Lemmas.IsoMatch

set_option linter.unusedSimpArgs false

namespace SigV4
namespace RE
open IsoMatch

/-! ### Bytes as numbers -/

theorem inClass_one (l h c : UInt8) :
    inClass [(l, h)] c = true ↔ l.toNat ≤ c.toNat ∧ c.toNat ≤ h.toNat := by
  simp [inClass, UInt8.le_iff_toNat_le]

theorem inClass_two (l1 h1 l2 h2 c : UInt8) :
    inClass [(l1, h1), (l2, h2)] c = true ↔
      (l1.toNat ≤ c.toNat ∧ c.toNat ≤ h1.toNat) ∨ (l2.toNat ≤ c.toNat ∧ c.toNat ≤ h2.toNat) := by
  simp [inClass, UInt8.le_iff_toNat_le]

theorem isDigit_iff (c : UInt8) : isDigit c = true ↔ 48 ≤ c.toNat ∧ c.toNat ≤ 57 := by
  simp [isDigit, UInt8.le_iff_toNat_le]

theorem toNat_dB (k : Nat) : (dB k).toNat = 48 + k % 10 := by
  unfold dB
  rw [UInt8.toNat_ofNat']
  omega

theorem pad2_bytes (a b : UInt8) (n : Nat) (hn : n ≤ 99) :
    [a, b] = natPad2 n ↔ a.toNat = 48 + n / 10 ∧ b.toNat = 48 + n % 10 := by
  rw [natPad2_eq]
  simp only [List.cons.injEq, and_true, ← UInt8.toNat_inj, toNat_dB]
  omega

theorem pad4_bytes (a b c d : UInt8) (n : Nat) (hn : n ≤ 9999) :
    [a, b, c, d] = natPad4 n ↔ a.toNat = 48 + n / 1000 ∧ b.toNat = 48 + n / 100 % 10 ∧
      c.toNat = 48 + n / 10 % 10 ∧ d.toNat = 48 + n % 10 := by
  rw [natPad4_eq]
  simp only [List.cons.injEq, and_true, ← UInt8.toNat_inj, toNat_dB]
  omega

/-! ### Field languages -/

/-- Concatenation of languages. -/
def Cat (A B : Bytes → Prop) (s : Bytes) : Prop := ∃ s1 s2, s = s1 ++ s2 ∧ A s1 ∧ B s2

theorem matches_seq_congr {a b : RE} {A B : Bytes → Prop} (ha : ∀ s, Matches a s ↔ A s)
    (hb : ∀ s, Matches b s ↔ B s) (s : Bytes) : Matches (.seq a b) s ↔ Cat A B s := by
  rw [matches_seq_iff]
  unfold Cat
  simp only [ha, hb]

/-- Two-digit decimal numbers in a range. -/
def LNum (lo hi : Nat) (s : Bytes) : Prop := ∃ n, lo ≤ n ∧ n ≤ hi ∧ s = natPad2 n

/-- Four-digit decimal numbers. -/
def LYear (s : Bytes) : Prop := ∃ n, n ≤ 9999 ∧ s = natPad4 n

/-- An optional separator byte. -/
def LOpt (c : UInt8) (s : Bytes) : Prop := ∃ b : Bool, s = optSep b c

def LByte (c : UInt8) (s : Bytes) : Prop := s = [c]

def LFrac (s : Bytes) : Prop := ∃ fr, fracWf fr ∧ s = fracRender fr

def LZone (s : Bytes) : Prop := ∃ zt, zoneWf zt ∧ s = ZoneText.render zt

theorem matches_cls_cls {r1 r2 : List (UInt8 × UInt8)} {s : Bytes} :
    Matches (.seq (.cls r1) (.cls r2)) s ↔
      ∃ a b, s = [a, b] ∧ inClass r1 a = true ∧ inClass r2 b = true := by
  simp only [matches_seq_iff, matches_cls_iff]
  constructor
  · rintro ⟨s1, s2, rfl, ⟨a, rfl, ha⟩, ⟨b, rfl, hb⟩⟩
    exact ⟨a, b, rfl, ha, hb⟩
  · rintro ⟨a, b, rfl, ha, hb⟩
    exact ⟨[a], [b], rfl, ⟨a, rfl, ha⟩, ⟨b, rfl, hb⟩⟩

theorem cls2_num (r1 r2 : List (UInt8 × UInt8)) (lo hi : Nat) (hhi : hi ≤ 99)
    (h : ∀ a b : UInt8, (inClass r1 a = true ∧ inClass r2 b = true) ↔
      ∃ n, lo ≤ n ∧ n ≤ hi ∧ a.toNat = 48 + n / 10 ∧ b.toNat = 48 + n % 10) (s : Bytes) :
    Matches (.seq (.cls r1) (.cls r2)) s ↔ LNum lo hi s := by
  rw [matches_cls_cls]
  unfold LNum
  constructor
  · rintro ⟨a, b, rfl, hab⟩
    obtain ⟨n, h1, h2, h3⟩ := (h a b).mp hab
    exact ⟨n, h1, h2, (pad2_bytes a b n (by omega)).mpr h3⟩
  · rintro ⟨n, h1, h2, rfl⟩
    rw [natPad2_eq]
    refine ⟨_, _, rfl, (h _ _).mpr ⟨n, h1, h2, ?_⟩⟩
    exact (pad2_bytes _ _ n (by omega)).mp (natPad2_eq n).symm

theorem LNum_or {lo1 hi1 lo2 hi2 : Nat} (lo hi : Nat) (h1 : lo = lo1) (h2 : hi = hi2)
    (h3 : lo2 ≤ hi1 + 1) (h4 : lo1 ≤ lo2) (h5 : hi1 ≤ hi2) (s : Bytes) :
    LNum lo1 hi1 s ∨ LNum lo2 hi2 s ↔ LNum lo hi s := by
  subst h1 h2
  unfold LNum
  constructor
  · rintro (⟨n, a, b, rfl⟩ | ⟨n, a, b, rfl⟩)
    · exact ⟨n, by omega, by omega, rfl⟩
    · exact ⟨n, by omega, by omega, rfl⟩
  · rintro ⟨n, a, b, rfl⟩
    by_cases hn : n ≤ hi1
    · exact Or.inl ⟨n, a, hn, rfl⟩
    · exact Or.inr ⟨n, by omega, b, rfl⟩

/-- Discharges the side condition of `cls2_num` for concrete classes. -/
macro "num_tac" : tactic => `(tactic|
  (intro a b
   simp only [inClass_one, inClass_two, UInt8.toNat_ofNat, Nat.reducePow, Nat.reduceMod]
   constructor
   · intro h
     exact ⟨(a.toNat - 48) * 10 + (b.toNat - 48), by omega, by omega, by omega, by omega⟩
   · rintro ⟨n, h⟩
     omega))

/-! ### The pieces of the pattern -/

def digitCls : RE := .cls [(0x30, 0x39)]

def yearRE : RE := group (seqs [rep digitCls 4])

def monthRE : RE := group (alts [seqs [byte 0x30, cls [(0x31, 0x39)]], seqs [byte 0x31, cls [(0x30, 0x32)]]])

def dayRE : RE := group (alts [seqs [byte 0x30, cls [(0x31, 0x39)]],
  seqs [cls [(0x31, 0x31), (0x32, 0x32)], cls [(0x30, 0x39)]],
  seqs [byte 0x33, cls [(0x30, 0x30), (0x31, 0x31)]]])

def hourRE : RE := group (alts [seqs [cls [(0x30, 0x30), (0x31, 0x31)], cls [(0x30, 0x39)]],
  seqs [byte 0x32, cls [(0x30, 0x33)]]])

def minuteRE : RE := group (seqs [cls [(0x30, 0x35)], cls [(0x30, 0x39)]])

def secondRE : RE := group (alts [seqs [cls [(0x30, 0x35)], cls [(0x30, 0x39)]],
  seqs [byte 0x36, cls [(0x30, 0x31)]]])

def fracRE : RE := opt (group (seqs [cls [(0x2E, 0x2E), (0x2C, 0x2C)], group (seqs [plus digitCls])]))

def zoneRE : RE := group (alts [seqs [cls [(0x2D, 0x2D), (0x2B, 0x2B)], hourRE, opt (byte 0x3A),
  cls [(0x30, 0x35)], cls [(0x30, 0x39)]], seqs [byte 0x5A]])

/-- The ISO-8601 pattern as `srcgen` writes it. -/
def isoRE : RE := seqs [yearRE, opt (byte 0x2D), monthRE, opt (byte 0x2D), dayRE, byte 0x54, hourRE,
  opt (byte 0x3A), minuteRE, opt (byte 0x3A), secondRE, fracRE, zoneRE]

theorem matches_digitCls_iff (s : Bytes) : Matches digitCls s ↔ ∃ c, s = [c] ∧ isDigit c = true := by
  unfold digitCls
  rw [matches_cls_iff]
  simp only [inClass_one, isDigit_iff, UInt8.toNat_ofNat, Nat.reducePow, Nat.reduceMod]

theorem matches_year (s : Bytes) : Matches yearRE s ↔ LYear s := by
  unfold yearRE
  rw [seqs_single, matches_group_iff]
  simp only [rep_succ, rep_zero, matches_seq_iff, matches_eps_iff, matches_digitCls_iff]
  unfold LYear
  constructor
  · rintro ⟨_, _, rfl, ⟨a, rfl, ha⟩, _, _, rfl, ⟨b, rfl, hb⟩, _, _, rfl, ⟨c, rfl, hc⟩, _, _, rfl,
      ⟨d, rfl, hd⟩, rfl⟩
    rw [isDigit_iff] at ha hb hc hd
    refine ⟨(a.toNat - 48) * 1000 + (b.toNat - 48) * 100 + (c.toNat - 48) * 10 + (d.toNat - 48),
      by omega, ?_⟩
    exact (pad4_bytes a b c d _ (by omega)).mpr ⟨by omega, by omega, by omega, by omega⟩
  · rintro ⟨n, hn, rfl⟩
    rw [natPad4_eq]
    exact ⟨[_], _, rfl, ⟨_, rfl, isDigit_dB _⟩, [_], _, rfl, ⟨_, rfl, isDigit_dB _⟩, [_], _, rfl,
      ⟨_, rfl, isDigit_dB _⟩, [_], _, rfl, ⟨_, rfl, isDigit_dB _⟩, rfl⟩

theorem matches_optByte (c : UInt8) (s : Bytes) : Matches (opt (byte c)) s ↔ LOpt c s := by
  rw [matches_opt_iff, matches_byte_iff]
  unfold LOpt optSep
  constructor
  · rintro (rfl | rfl)
    · exact ⟨true, rfl⟩
    · exact ⟨false, rfl⟩
  · rintro ⟨b, rfl⟩
    cases b
    · exact Or.inr rfl
    · exact Or.inl rfl

theorem matches_byte' (c : UInt8) (s : Bytes) : Matches (byte c) s ↔ LByte c s := matches_byte_iff

theorem matches_month (s : Bytes) : Matches monthRE s ↔ LNum 1 12 s := by
  unfold monthRE
  rw [matches_group_iff, alts_cons_cons, alts_single, matches_alt_iff]
  simp only [seqs_cons_cons, seqs_single, byte]
  rw [cls2_num _ _ 1 9 (by omega) (by num_tac), cls2_num _ _ 10 12 (by omega) (by num_tac)]
  exact LNum_or 1 12 rfl rfl (by omega) (by omega) (by omega) s

theorem matches_day (s : Bytes) : Matches dayRE s ↔ LNum 1 31 s := by
  unfold dayRE
  rw [matches_group_iff, alts_cons_cons, alts_cons_cons, alts_single, matches_alt_iff, matches_alt_iff]
  simp only [seqs_cons_cons, seqs_single, byte]
  rw [cls2_num _ _ 1 9 (by omega) (by num_tac), cls2_num _ _ 10 29 (by omega) (by num_tac),
    cls2_num _ _ 30 31 (by omega) (by num_tac)]
  rw [LNum_or 10 31 rfl rfl (by omega) (by omega) (by omega) s]
  exact LNum_or 1 31 rfl rfl (by omega) (by omega) (by omega) s

theorem matches_hour (s : Bytes) : Matches hourRE s ↔ LNum 0 23 s := by
  unfold hourRE
  rw [matches_group_iff, alts_cons_cons, alts_single, matches_alt_iff]
  simp only [seqs_cons_cons, seqs_single, byte]
  rw [cls2_num _ _ 0 19 (by omega) (by num_tac), cls2_num _ _ 20 23 (by omega) (by num_tac)]
  exact LNum_or 0 23 rfl rfl (by omega) (by omega) (by omega) s

theorem matches_min2 (s : Bytes) :
    Matches (.seq (cls [(0x30, 0x35)]) (cls [(0x30, 0x39)])) s ↔ LNum 0 59 s :=
  cls2_num _ _ 0 59 (by omega) (by num_tac) s

theorem matches_minute (s : Bytes) : Matches minuteRE s ↔ LNum 0 59 s := by
  unfold minuteRE
  rw [matches_group_iff, seqs_cons_cons, seqs_single]
  exact matches_min2 s

theorem matches_second (s : Bytes) : Matches secondRE s ↔ LNum 0 61 s := by
  unfold secondRE
  rw [matches_group_iff, alts_cons_cons, alts_single, matches_alt_iff]
  simp only [seqs_cons_cons, seqs_single, byte]
  rw [cls2_num _ _ 0 59 (by omega) (by num_tac), cls2_num _ _ 60 61 (by omega) (by num_tac)]
  exact LNum_or 0 61 rfl rfl (by omega) (by omega) (by omega) s

theorem plus_digit_iff (s : Bytes) :
    Matches (plus digitCls) s ↔ s ≠ [] ∧ ∀ c ∈ s, isDigit c = true := by
  unfold digitCls
  rw [matches_plus_cls_iff]
  simp only [inClass_one, isDigit_iff, UInt8.toNat_ofNat, Nat.reducePow, Nat.reduceMod]

theorem sep_cls_iff (c : UInt8) (x y : UInt8) :
    inClass [(x, x), (y, y)] c = true ↔ c = x ∨ c = y := by
  rw [inClass_two]
  simp only [← UInt8.toNat_inj]
  omega

theorem matches_frac (s : Bytes) : Matches fracRE s ↔ LFrac s := by
  unfold fracRE
  rw [matches_opt_iff, matches_group_iff, seqs_cons_cons, seqs_single, seqs_single, matches_seq_iff]
  simp only [matches_group_iff, plus_digit_iff, matches_cls_iff, sep_cls_iff]
  unfold LFrac
  constructor
  · rintro (⟨_, ds, rfl, ⟨c, rfl, hc⟩, hne, hds⟩ | rfl)
    · refine ⟨some (decide (c = 0x2C), ds), ⟨hne, hds⟩, ?_⟩
      rcases hc with rfl | rfl <;> simp [fracRender]
    · exact ⟨none, trivial, rfl⟩
  · rintro ⟨fr, hwf, rfl⟩
    cases fr with
    | none => exact Or.inr rfl
    | some p =>
      obtain ⟨comma, ds⟩ := p
      obtain ⟨hne, hds⟩ := hwf
      refine Or.inl ⟨[if comma then 0x2C else 0x2E], ds, rfl, ⟨_, rfl, ?_⟩, hne, hds⟩
      cases comma <;> simp

theorem matches_zone (s : Bytes) : Matches zoneRE s ↔ LZone s := by
  unfold zoneRE
  rw [matches_group_iff, alts_cons_cons, alts_single, matches_alt_iff, seqs_single, matches_byte_iff]
  simp only [seqs_cons_cons, seqs_single]
  rw [matches_seq_congr (A := fun s => ∃ c, s = [c] ∧ (c = 0x2D ∨ c = 0x2B)) (by
      intro s; simp only [matches_cls_iff, sep_cls_iff])
    (matches_seq_congr matches_hour (matches_seq_congr (matches_optByte 0x3A) matches_min2))]
  unfold LZone Cat LNum LOpt
  constructor
  · rintro (⟨_, _, rfl, ⟨sg, rfl, hsg⟩, _, _, rfl, ⟨hh, _, hhh, rfl⟩, _, _, rfl, ⟨colon, rfl⟩,
      ⟨mm, _, hmm, rfl⟩⟩ | rfl)
    · refine ⟨.offset (decide (sg = 0x2D)) hh mm colon, ⟨hhh, hmm⟩, ?_⟩
      rw [zone_render_eq]
      rcases hsg with rfl | rfl <;> simp
    · exact ⟨.z, trivial, rfl⟩
  · rintro ⟨zt, hwf, rfl⟩
    cases zt with
    | z => exact Or.inr rfl
    | offset neg hh mm colon =>
      obtain ⟨h1, h2⟩ := hwf
      rw [zone_render_eq]
      refine Or.inl ⟨[if neg then 0x2D else 0x2B], _, rfl, ⟨_, rfl, ?_⟩, _, _, rfl,
        ⟨hh, Nat.zero_le _, h1, rfl⟩, _, _, rfl, ⟨colon, rfl⟩, ⟨mm, Nat.zero_le _, h2, rfl⟩⟩
      cases neg <;> simp

/-! ### Assembly -/

theorem matches_iso_cat (s : Bytes) : Matches isoRE s ↔
    Cat LYear (Cat (LOpt 0x2D) (Cat (LNum 1 12) (Cat (LOpt 0x2D) (Cat (LNum 1 31) (Cat (LByte 0x54)
      (Cat (LNum 0 23) (Cat (LOpt 0x3A) (Cat (LNum 0 59) (Cat (LOpt 0x3A) (Cat (LNum 0 61)
        (Cat LFrac LZone))))))))))) s := by
  unfold isoRE
  simp only [seqs_cons_cons, seqs_single]
  exact matches_seq_congr matches_year (matches_seq_congr (matches_optByte _)
    (matches_seq_congr matches_month (matches_seq_congr (matches_optByte _)
    (matches_seq_congr matches_day (matches_seq_congr (matches_byte' _)
    (matches_seq_congr matches_hour (matches_seq_congr (matches_optByte _)
    (matches_seq_congr matches_minute (matches_seq_congr (matches_optByte _)
    (matches_seq_congr matches_second (matches_seq_congr matches_frac matches_zone))))))))))) s

theorem matches_iso_render (s : Bytes) : Matches isoRE s ↔ ∃ t : IsoText, t.wf ∧ s = t.render := by
  rw [matches_iso_cat]
  unfold Cat LYear LOpt LNum LByte LFrac LZone
  constructor
  · rintro ⟨_, _, rfl, ⟨year, hy, rfl⟩, _, _, rfl, ⟨dash1, rfl⟩, _, _, rfl, ⟨month, hm1, hm2, rfl⟩,
      _, _, rfl, ⟨dash2, rfl⟩, _, _, rfl, ⟨day, hd1, hd2, rfl⟩, _, _, rfl, rfl, _, _, rfl,
      ⟨hour, _, hh, rfl⟩, _, _, rfl, ⟨colon1, rfl⟩, _, _, rfl, ⟨minute, _, hmi, rfl⟩, _, _, rfl,
      ⟨colon2, rfl⟩, _, _, rfl, ⟨second, _, hs, rfl⟩, _, _, rfl, ⟨fr, hfr, rfl⟩, ⟨zt, hzt, rfl⟩⟩
    refine ⟨{ year, month, day, hour, minute, second, dash1, dash2, colon1, colon2, frac := fr,
              zone := zt }, ?_, ?_⟩
    · exact wf_mk _ hy hm1 hm2 hd1 hd2 hh hmi hs hfr hzt
    · rw [render_eq]
      rfl
  · rintro ⟨t, hwf, rfl⟩
    have hfr := wf_frac t hwf
    have hz := wf_zone t hwf
    obtain ⟨hy, hm1, hm2, hd1, hd2, hh, hmi, hs, _, _⟩ := hwf
    rw [render_eq]
    exact ⟨_, _, rfl, ⟨t.year, hy, rfl⟩, _, _, rfl, ⟨t.dash1, rfl⟩, _, _, rfl, ⟨t.month, hm1, hm2, rfl⟩,
      _, _, rfl, ⟨t.dash2, rfl⟩, _, _, rfl, ⟨t.day, hd1, hd2, rfl⟩, [0x54], _, rfl, rfl, _, _, rfl,
      ⟨t.hour, Nat.zero_le _, hh, rfl⟩, _, _, rfl, ⟨t.colon1, rfl⟩, _, _, rfl,
      ⟨t.minute, Nat.zero_le _, hmi, rfl⟩, _, _, rfl, ⟨t.colon2, rfl⟩, _, _, rfl,
      ⟨t.second, Nat.zero_le _, hs, rfl⟩, _, _, rfl, ⟨t.frac, hfr, rfl⟩, ⟨t.zone, hz, rfl⟩⟩

theorem matches_iso_iff (s : Bytes) : Matches isoRE s ↔ (matchIso s).isSome = true := by
  rw [matches_iso_render]
  constructor
  · rintro ⟨t, hwf, rfl⟩
    rw [matchIso_render t hwf]
    rfl
  · intro h
    obtain ⟨f, hf⟩ := Option.isSome_iff_exists.mp h
    obtain ⟨t, hwf, hs, _⟩ := matchIso_sound s f hf
    exact ⟨t, hwf, hs⟩

end RE
end SigV4
