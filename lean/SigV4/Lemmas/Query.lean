/- Helper lemmas for C10 (query parsing, grouping, sorting). -/
import SigV4.Spec.UriSpec
import SigV4.Lemmas.Uri

namespace SigV4

end SigV4
