/-
  SigV4.Model.Keys — `KSecretKey::from_str` and the derivation chain (src/signing_key.rs:149-250).
-/
import SigV4.Model.Hmac
import SigV4.Model.Time

namespace SigV4

/-- A `KSecretKey<M>`: the `M`-byte zero-filled buffer and the stored length. -/
structure SecretKey where
  buf : Bytes
  len : Nat
  deriving Repr, DecidableEq

inductive KeyOutcome where
  | ok (k : SecretKey)
  | tooLong                      -- `Err(KeyTooLongError)`
  | panic (site : String)
  deriving Repr, DecidableEq

def AWS4 : Bytes := b!"AWS4"
def AWS4_REQUEST : Bytes := b!"aws4_request"

/-- `KSecretKey::<M>::from_str` (signing_key.rs:153-167): refuse when the secret does not fit
behind the 4-byte prefix (including capacities below 4), otherwise copy it to `buf[4..4+len]`. -/
def secretFromStr (M : Nat) (raw : Bytes) : KeyOutcome :=
  if M < 4 ∨ raw.length > M - 4 then .tooLong
  else .ok { buf := AWS4 ++ raw ++ List.replicate (M - 4 - raw.length) 0, len := raw.length + 4 }

/-- `AsRef<[u8]> for KSecretKey`: `&prefixed_key[4..len]`. -/
def SecretKey.asRef (k : SecretKey) : Bytes := (k.buf.take k.len).drop 4

/-- `to_kdate`: the whole buffer is the HMAC key, the `%Y%m%d` date the message. -/
def toKDate (H : Bytes → Bytes) (k : SecretKey) (date : Int × Int × Int) : Bytes :=
  hmac H k.buf (fmtDate date)

def kdateToKRegion (H : Bytes → Bytes) (kdate region : Bytes) : Bytes := hmac H kdate region
def kregionToKService (H : Bytes → Bytes) (kregion service : Bytes) : Bytes := hmac H kregion service
def kserviceToKSigning (H : Bytes → Bytes) (kservice : Bytes) : Bytes := hmac H kservice AWS4_REQUEST

/-! The shortcut derivations, written as the code composes them. -/
def kregionToKSigning (H : Bytes → Bytes) (kregion service : Bytes) : Bytes :=
  kserviceToKSigning H (kregionToKService H kregion service)
def kdateToKService (H : Bytes → Bytes) (kdate region service : Bytes) : Bytes :=
  kregionToKService H (kdateToKRegion H kdate region) service
def kdateToKSigning (H : Bytes → Bytes) (kdate region service : Bytes) : Bytes :=
  kregionToKSigning H (kdateToKRegion H kdate region) service
def toKRegion (H : Bytes → Bytes) (k : SecretKey) (date : Int × Int × Int) (region : Bytes) : Bytes :=
  kdateToKRegion H (toKDate H k date) region
def toKService (H : Bytes → Bytes) (k : SecretKey) (date : Int × Int × Int) (region service : Bytes) : Bytes :=
  kdateToKService H (toKDate H k date) region service
def toKSigning (H : Bytes → Bytes) (k : SecretKey) (date : Int × Int × Int) (region service : Bytes) : Bytes :=
  kdateToKSigning H (toKDate H k date) region service

end SigV4
