/-
  Property C12 — form folding merges URL and body parameters losslessly, else hashes the body as is.
-/
import SigV4.Spec.ValidateSpec
import SigV4.Spec.UriSpec
import SigV4.Lemmas.C12

namespace SigV4.C12

/-- When the body is folded: exactly when the option is on and the first Content-Type header's text
before the first `;`, trimmed, is `application/x-www-form-urlencoded` (DESIGN §8.4). -/
theorem folds_iff (opts : Options) (hs : HeaderList) :
    foldsBody opts hs = true ↔
      opts.fold = true ∧ ∃ v, firstHeader hs CONTENT_TYPE = some v ∧
        latin1ToString (trimAscii ((splitOn 0x3B v).headD [])) = FORM_URLENCODED := by
  unfold foldsBody contentTypeCharset
  cases hfh : firstHeader hs CONTENT_TYPE with
  | none => simp
  | some v =>
    cases hsp : splitOn 0x3B v with
    | nil => exact absurd hsp (c12_splitOn_ne_nil _ _)
    | cons ct rest => simp [hsp]

/-- Folding: the parameters that are authenticated are the URL parameters merged with the body
parameters, the payload hash is that of the empty body, and the body handed on is empty. -/
theorem fold_shape (H : Bytes → Bytes) (opts : Options) (other : OtherCharset) (req : Request) (fp : FromParts)
    (h : fromRequestParts H opts other req = .ok fp) (hf : foldsBody opts req.headers = true) :
    ∃ up text bp, parseQuery (req.query.getD []) = .ok up ∧
      decodeFormBody ((contentTypeCharset req.headers).bind (·.2)) other req.body = .ok text ∧
      parseQuery text = .ok bp ∧ fp.creq.params = mergeParams up bp ∧
      fp.creq.bodySha = hexLower (H []) ∧ fp.body = [] := by
  unfold fromRequestParts at h
  split at h
  · cases h
  · cases h
  · split at h
    · cases h
    · cases h
    · rename_i up hup
      simp only [hf, if_true] at h
      split at h
      · cases h
      · cases h
      · rename_i text htext
        split at h
        · cases h
        · cases h
        · rename_i bp hbp
          split at h
          · split at h
            · cases h
            · simp only [Outcome.ok.injEq] at h
              subst h
              exact ⟨up, text, bp, hup, htext, hbp, rfl, rfl, rfl⟩
          · split at h
            · cases h
            · simp only [Outcome.ok.injEq] at h
              subst h
              exact ⟨up, text, bp, hup, htext, hbp, rfl, rfl, rfl⟩

/-- Body parameters are treated exactly as if they had been appended to the URL query: the canonical
query of the merged parameters is the canonical query of `url & body`. -/
theorem fold_as_if_appended (q text : Bytes) (up bp : QueryMap)
    (hu : parseQuery q = .ok up) (hb : parseQuery text = .ok bp) :
    (parseQuery (q ++ [0x26] ++ text)).map canonQuery = .ok (canonQuery (mergeParams up bp)) := by
  obtain ⟨A, hA, rfl⟩ := c12_parseQuery_ok q up hu
  obtain ⟨B, hB, rfl⟩ := c12_parseQuery_ok text bp hb
  rw [parseQuery_eq_spec', c12_refQueryPairs_append, hA, hB]
  simp only [Option.bind_some, Option.map_some, optToOutcome, Outcome.map_ok, Outcome.ok.injEq]
  apply c12_canonQuery_of_flatten_perm
  refine (groupPairs_perm' _).trans ?_
  refine List.Perm.trans ?_ (c12_flattenMap_mergeParams_perm _ _).symm
  rw [List.map_append]
  exact ((groupPairs_perm' _).symm).append ((groupPairs_perm' _).symm)

/-- No URL or body parameter is dropped or invented, repeated names included: the merged pairs are
a permutation of the URL pairs followed by the body pairs, and every name keeps its values in the
order URL first, body second. -/
theorem fold_multiset (q text : Bytes) (up bp : QueryMap)
    (hu : parseQuery q = .ok up) (hb : parseQuery text = .ok bp) :
    (flattenMap (mergeParams up bp)).Perm (flattenMap up ++ flattenMap bp) ∧
    ∀ k, (assocGet (mergeParams up bp) k).getD [] = (assocGet up k).getD [] ++ (assocGet bp k).getD [] := by
  have _ := hu
  refine ⟨c12_flattenMap_mergeParams_perm up bp, fun k => ?_⟩
  exact foldl_assocExtend_get bp up k (c12_parseQuery_nodup text bp hb)

/-- Without folding (option off, or any other content type) the body contributes nothing to the
query and is hashed verbatim and handed on untouched. -/
theorem nofold_shape (H : Bytes → Bytes) (opts : Options) (other : OtherCharset) (req : Request) (fp : FromParts)
    (h : fromRequestParts H opts other req = .ok fp) (hf : foldsBody opts req.headers = false) :
    parseQuery (req.query.getD []) = .ok fp.creq.params ∧ fp.creq.bodySha = hexLower (H req.body) ∧
    fp.body = req.body ∧ fp.rebuiltUri = none := by
  unfold fromRequestParts at h
  split at h
  · cases h
  · cases h
  · split at h
    · cases h
    · cases h
    · rename_i up hup
      simp only [hf, Bool.false_eq_true, if_false, Outcome.ok.injEq] at h
      subst h
      exact ⟨hup, rfl, rfl, rfl⟩

/-- Hence every body byte is covered by the signature: two unfolded requests with different bodies
have different payload hashes unless `H` collides. -/
theorem nofold_body_covered (H : Bytes → Bytes) (opts : Options) (other : OtherCharset) (req req' : Request)
    (fp fp' : FromParts) (h : fromRequestParts H opts other req = .ok fp) (h' : fromRequestParts H opts other req' = .ok fp')
    (hf : foldsBody opts req.headers = false) (hf' : foldsBody opts req'.headers = false)
    (hs : fp.creq.bodySha = fp'.creq.bodySha) : H req.body = H req'.body := by
  obtain ⟨_, h1, _, _⟩ := nofold_shape H opts other req fp h hf
  obtain ⟨_, h2, _, _⟩ := nofold_shape H opts other req' fp' h' hf'
  rw [h1, h2] at hs
  exact c12_hexLower_inj _ _ hs

/-- An unknown charset label, or a body that does not decode under the declared (or default UTF-8)
charset, is refused as an invalid body encoding (400). -/
theorem bad_body_encoding (H : Bytes → Bytes) (opts : Options) (other : OtherCharset) (req : Request) (p : Bytes) (up : QueryMap)
    (hp : canonPath opts.s3 req.path = .ok p) (hq : parseQuery (req.query.getD []) = .ok up)
    (hf : foldsBody opts req.headers = true)
    (hbad : decodeFormBody ((contentTypeCharset req.headers).bind (·.2)) other req.body = .err .InvalidBodyEncoding) :
    fromRequestParts H opts other req = .err .InvalidBodyEncoding ∧ ErrKind.InvalidBodyEncoding.status = 400 := by
  refine ⟨?_, rfl⟩
  unfold fromRequestParts
  simp only [hp, hq, hf, if_true, hbad]

theorem decodeFormBody_cases (charset : Option Bytes) (other : OtherCharset) (body : Bytes) :
    -- UTF-8 (declared by one of its labels, or unspecified): accepted iff well-formed UTF-8, unchanged
    ((charset = none ∨ ∃ cs, charset = some cs ∧ isUtf8Label cs = true) →
        decodeFormBody charset other body = if utf8Valid body then .ok body else .err .InvalidBodyEncoding) ∧
    -- any other label: unknown to the decoder library or undecodable → refused
    (∀ cs, charset = some cs → isUtf8Label cs = false → other = .unknown →
        decodeFormBody charset other body = .err .InvalidBodyEncoding) ∧
    (∀ cs, charset = some cs → isUtf8Label cs = false → other = .undecodable →
        decodeFormBody charset other body = .err .InvalidBodyEncoding) := by
  refine ⟨?_, ?_, ?_⟩
  · rintro (rfl | ⟨cs, rfl, hcs⟩)
    · rfl
    · simp [decodeFormBody, hcs]
  · rintro cs rfl hcs rfl
    simp [decodeFormBody, hcs]
  · rintro cs rfl hcs rfl
    simp [decodeFormBody, hcs]

/-- The three labels that denote UTF-8, in any letter case and with surrounding label whitespace. -/
theorem utf8_labels : isUtf8Label b!"utf-8" = true ∧ isUtf8Label b!"UTF8" = true ∧
    isUtf8Label b!" Unicode-1-1-UTF-8\t" = true ∧ isUtf8Label b!"latin1" = false ∧ isUtf8Label b!"\"utf-8\"" = false := by
  decide

example : foldsBody { s3 := false, fold := true } [(b!"content-type", b!" application/x-www-form-urlencoded ; charset=utf-8")] = true := by
  decide
example : foldsBody { s3 := false, fold := true } [(b!"content-type", b!"application/X-WWW-FORM-URLENCODED")] = false := by decide
example : (parseQuery b!"a=1&b=2" |>.bind fun up => parseQuery b!"a=3&c=4" |>.map fun bp => canonQuery (mergeParams up bp))
    = .ok b!"a=1&a=3&b=2&c=4" := by decide

end SigV4.C12

#print axioms SigV4.C12.folds_iff
#print axioms SigV4.C12.fold_shape
#print axioms SigV4.C12.fold_as_if_appended
#print axioms SigV4.C12.fold_multiset
#print axioms SigV4.C12.nofold_shape
#print axioms SigV4.C12.nofold_body_covered
#print axioms SigV4.C12.bad_body_encoding
#print axioms SigV4.C12.decodeFormBody_cases
#print axioms SigV4.C12.utf8_labels
