/-
  SigV4.Source.RustKeys — the runtime meaning of what the key-chain translator (srcgen/keychain.py) keeps from chrono:
  `NaiveDate::format(spec).to_string()` for a spec made of literal text and the directives `%Y`, `%m`, `%d` (the translator
  refuses any other directive).  Trusted, with SigV4.Source.Rust and RustO.
-/
import SigV4.Model.Time

namespace SigV4.Rust.Chrono

/-- `date.format(spec).to_string()`: `%Y` the year as chrono prints it, `%m` / `%d` two digits, other bytes verbatim. -/
def formatDate : Bytes → Int × Int × Int → Bytes
  | 0x25 :: 0x59 :: r, d => fmtYear d.1 ++ formatDate r d
  | 0x25 :: 0x6D :: r, d => pad2 d.2.1 ++ formatDate r d
  | 0x25 :: 0x64 :: r, d => pad2 d.2.2 ++ formatDate r d
  | c :: r, d => c :: formatDate r d
  | [], _ => []

end SigV4.Rust.Chrono
