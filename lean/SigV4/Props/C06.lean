/-
  Property C06 — signing-key derivation equals the SigV4 HMAC chain for all inputs.
  `H` is an arbitrary hash with 64-byte blocks: nothing here depends on SHA-256 itself.
-/
import SigV4.Model.Keys
import SigV4.Lemmas.Keys

namespace SigV4.C06

/-- HMAC zero-pads a key of at most one block; so handing it the zero-filled buffer instead of the
`len`-byte prefix changes nothing. (The code feeds all `M = 44 ≤ 64` bytes of the buffer.) -/
theorem hmac_zero_pad (H : Bytes → Bytes) (k m : Bytes) (z : Nat) (h : k.length + z ≤ 64) :
    hmac H (k ++ List.replicate z 0) m = hmac H k m := by
  unfold hmac
  rw [hmacKeyBlock_zero_pad H k z h]

/-- A secret is accepted iff it fits behind the 4-byte prefix; longer ones are refused with the
error, and construction never panics — whatever the capacity. -/
theorem length_rule (M : Nat) (s : Bytes) :
    (s.length + 4 ≤ M → ∃ k, secretFromStr M s = .ok k) ∧
    (s.length + 4 > M → secretFromStr M s = .tooLong) ∧
    (∀ site, secretFromStr M s ≠ .panic site) := by
  refine ⟨fun h => ?_, fun h => ?_, fun site => ?_⟩
  · exact ⟨_, (secretFromStr_ok_iff M s _).2 ⟨h, rfl⟩⟩
  · unfold secretFromStr
    rw [if_pos]
    omega
  · unfold secretFromStr
    split <;> intro h <;> cases h

/-- The secret read back from a key object is the secret that was put in, and the buffer has the
declared capacity. -/
theorem secret_roundtrip (M : Nat) (s : Bytes) (k : SecretKey) (h : secretFromStr M s = .ok k) :
    k.asRef = s ∧ k.buf.length = M ∧ k.buf.take k.len = AWS4 ++ s := by
  obtain ⟨hl, rfl⟩ := (secretFromStr_ok_iff M s k).1 h
  have h4 : AWS4.length = 4 := rfl
  have ht : ((AWS4 ++ s) ++ List.replicate (M - 4 - s.length) (0 : UInt8)).take (s.length + 4)
      = AWS4 ++ s := by
    rw [List.take_append_of_le_length (by simp [h4]; omega), List.take_of_length_le (by simp [h4]; omega)]
  refine ⟨?_, ?_, ht⟩
  · show List.drop 4 (List.take (s.length + 4) _) = s
    rw [ht]
    rfl
  · simp only [List.length_append, List.length_replicate, h4]
    omega

/-- kDate = HMAC("AWS4" + secret, YYYYMMDD), for every capacity up to one HMAC block. -/
theorem kdate_spec (H : Bytes → Bytes) (M : Nat) (hM : M ≤ 64) (s : Bytes) (k : SecretKey)
    (h : secretFromStr M s = .ok k) (date : Int × Int × Int) :
    toKDate H k date = hmac H (AWS4 ++ s) (fmtDate date) := by
  obtain ⟨hl, rfl⟩ := (secretFromStr_ok_iff M s k).1 h
  unfold toKDate
  apply hmac_zero_pad
  simp only [List.length_append, AWS4_length]
  omega

/-- The whole chain: kSigning = HMAC(HMAC(HMAC(HMAC("AWS4"+secret, date), region), service), "aws4_request"). -/
theorem ksigning_spec (H : Bytes → Bytes) (M : Nat) (hM : M ≤ 64) (s : Bytes) (k : SecretKey)
    (h : secretFromStr M s = .ok k) (date : Int × Int × Int) (region service : Bytes) :
    toKSigning H k date region service =
      hmac H (hmac H (hmac H (hmac H (AWS4 ++ s) (fmtDate date)) region) service) AWS4_REQUEST ∧
    toKService H k date region service =
      hmac H (hmac H (hmac H (AWS4 ++ s) (fmtDate date)) region) service ∧
    toKRegion H k date region = hmac H (hmac H (AWS4 ++ s) (fmtDate date)) region := by
  have hk := kdate_spec H M hM s k h date
  simp only [toKSigning, toKService, toKRegion, kdateToKSigning, kdateToKService, kregionToKSigning,
    kserviceToKSigning, kregionToKService, kdateToKRegion, hk, and_self]

/-- Every shortcut derivation equals the step-by-step one. -/
theorem shortcuts_agree (H : Bytes → Bytes) (k : SecretKey) (date : Int × Int × Int) (region service : Bytes) :
    let kd := toKDate H k date
    let kr := kdateToKRegion H kd region
    let ks := kregionToKService H kr service
    let kg := kserviceToKSigning H ks
    toKRegion H k date region = kr ∧ toKService H k date region service = ks ∧
    toKSigning H k date region service = kg ∧ kdateToKService H kd region service = ks ∧
    kdateToKSigning H kd region service = kg ∧ kregionToKSigning H kr service = kg := by
  intro kd kr ks kg
  exact ⟨rfl, rfl, rfl, rfl, rfl, rfl⟩

/-- The date enters as exactly eight ASCII digits YYYYMMDD for every calendar date of years 0-9999. -/
theorem fmtDate_shape (y m d : Int) (hy : 0 ≤ y ∧ y ≤ 9999) (hm : 1 ≤ m ∧ m ≤ 12) (hd : 1 ≤ d ∧ d ≤ 31) :
    (fmtDate (y, m, d)).length = 8 ∧ (∀ c ∈ fmtDate (y, m, d), isDigit c = true) ∧
    digitsVal (fmtDate (y, m, d)) = (y * 10000 + m * 100 + d).toNat := by
  have hyy : (0 ≤ y ∧ y ≤ 9999) := hy
  simp only [fmtDate, fmtYear, if_pos hyy, pad4, pad2]
  refine ⟨rfl, ?_, ?_⟩
  · intro c hc
    simp only [List.cons_append, List.nil_append, List.mem_cons, List.not_mem_nil, or_false] at hc
    rcases hc with h | h | h | h | h | h | h | h <;> subst h <;> exact isDigit_digitByte _
  · simp only [digitsVal, List.cons_append, List.nil_append, List.foldl_cons, List.foldl_nil,
      digitVal_digitByte]
    have e1 := pad4_val y hy.1 hy.2
    have e2 := pad2_val m (by omega) (by omega)
    have e3 := pad2_val d (by omega) (by omega)
    have e4 : (y * 10000 + m * 100 + d).toNat = y.toNat * 10000 + m.toNat * 100 + d.toNat := by
      omega
    rw [e4, ← e1, ← e2, ← e3]
    generalize (y / 1000 % 10).toNat = a1
    generalize (y / 100 % 10).toNat = a2
    generalize (y / 10 % 10).toNat = a3
    generalize (y % 10).toNat = a4
    generalize (m / 10 % 10).toNat = a5
    generalize (m % 10).toNat = a6
    generalize (d / 10 % 10).toNat = a7
    generalize (d % 10).toNat = a8
    omega

example : ∃ k, secretFromStr 44 b!"wJalrXUtnFEMI/K7MDENG+bPxRfiCYEXAMPLEKEY" = .ok k := ⟨_, rfl⟩
example : secretFromStr 44 b!"short" ≠ .tooLong := by decide
example : secretFromStr 3 b!"" = .tooLong := by decide
example : fmtDate (2015, 8, 30) = b!"20150830" := by decide

end SigV4.C06

#print axioms SigV4.C06.hmac_zero_pad
#print axioms SigV4.C06.length_rule
#print axioms SigV4.C06.secret_roundtrip
#print axioms SigV4.C06.kdate_spec
#print axioms SigV4.C06.ksigning_spec
#print axioms SigV4.C06.shortcuts_agree
#print axioms SigV4.C06.fmtDate_shape
