/- Helper lemmas for C05. -/
import SigV4.Spec.ValidateSpec
import SigV4.Spec.HeaderSpec
import SigV4.Model.Requirements
import SigV4.Lemmas.Headers

namespace SigV4

/-! ### Keys of association lists -/

theorem mem_keys_assocPush {β : Type} (m : List (Bytes × List β)) (k : Bytes) (v : β) (x : Bytes) :
    x ∈ (assocPush m k v).map Prod.fst ↔ x ∈ m.map Prod.fst ∨ x = k := by
  induction m with
  | nil => simp [assocPush]
  | cons e rest ih =>
    obtain ⟨k', vs⟩ := e
    unfold assocPush
    by_cases h : k' = k
    · subst h
      simp only [if_true, List.map_cons, List.mem_cons]
      constructor
      · intro h; exact Or.inl h
      · rintro (h | h)
        · exact h
        · exact Or.inl h
    · simp only [h, if_false, List.map_cons, List.mem_cons, ih]
      constructor
      · rintro (h | h | h)
        · exact Or.inl (Or.inl h)
        · exact Or.inl (Or.inr h)
        · exact Or.inr h
      · rintro ((h | h) | h)
        · exact Or.inl h
        · exact Or.inr (Or.inl h)
        · exact Or.inr (Or.inr h)

theorem mem_keys_normalizeHeaders_gen (hs : HeaderList) (m : HeaderMap) (x : Bytes) :
    x ∈ (normalizeHeaders hs m).map Prod.fst ↔
      x ∈ m.map Prod.fst ∨ x ∈ hs.map (fun h => asciiLower h.1) := by
  induction hs generalizing m with
  | nil => simp [normalizeHeaders]
  | cons e rest ih =>
    obtain ⟨k, v⟩ := e
    simp only [normalizeHeaders, ih, mem_keys_assocPush, List.map_cons, List.mem_cons]
    constructor
    · rintro ((h | h) | h)
      · exact Or.inl h
      · exact Or.inr (Or.inl h)
      · exact Or.inr (Or.inr h)
    · rintro (h | h | h)
      · exact Or.inl (Or.inl h)
      · exact Or.inl (Or.inr h)
      · exact Or.inr h

/-- The keys of the normalised header map are exactly the lower-cased header names. -/
theorem mem_keys_normalizeHeaders (hs : HeaderList) (x : Bytes) :
    x ∈ (normalizeHeaders hs []).map Prod.fst ↔ x ∈ hs.map (fun h => asciiLower h.1) := by
  simp [mem_keys_normalizeHeaders_gen]

theorem assocGet_isSome_iff {β : Type} (m : List (Bytes × β)) (k : Bytes) :
    (assocGet m k).isSome = true ↔ k ∈ m.map Prod.fst := by
  induction m with
  | nil => simp [assocGet]
  | cons e rest ih =>
    obtain ⟨k', v⟩ := e
    unfold assocGet
    by_cases h : k' = k
    · simp [h]
    · have h' : ¬ k = k' := fun e => h e.symm
      simp [h, h', ih]

/-! ### `requirementsMet` as a proposition -/

theorem requirementsMet_eq_true_iff (reqs : Requirements) (hdrs : HeaderMap) (signed : List Bytes) :
    requirementsMet reqs hdrs signed = true ↔
      (HOST ∈ signed ∨ AUTHORITY ∈ signed) ∧
      (∀ a ∈ reqs.always, asciiLower a ∈ signed) ∧
      (∀ c ∈ reqs.ifInRequest, asciiLower c ∈ hdrs.map Prod.fst → asciiLower c ∈ signed) ∧
      (∀ p ∈ reqs.prefixes, ∀ n ∈ hdrs.map Prod.fst,
          (asciiLower p).isPrefixOf n = true → n ∈ signed) := by
  unfold requirementsMet isPrefixOf
  simp only [Bool.and_eq_true, Bool.or_eq_true, List.all_eq_true, List.contains_iff_mem,
    Bool.not_eq_true', List.mem_map, and_assoc]
  refine and_congr Iff.rfl (and_congr Iff.rfl (and_congr ?_ ?_))
  · refine forall_congr' fun c => forall_congr' fun _ => ?_
    cases hc : (assocGet hdrs (asciiLower c)).isSome
    · have : ¬ (∃ a, a ∈ hdrs ∧ a.1 = asciiLower c) := by
        intro h
        have := (assocGet_isSome_iff hdrs (asciiLower c)).2 (List.mem_map.2 h)
        simp [hc] at this
      simp [this]
    · have : ∃ a, a ∈ hdrs ∧ a.1 = asciiLower c :=
        List.mem_map.1 ((assocGet_isSome_iff hdrs (asciiLower c)).1 hc)
      simp [this]
  · refine forall_congr' fun p => forall_congr' fun _ => ?_
    constructor
    · rintro h n ⟨kv, hkv, rfl⟩ hpre
      rcases h kv hkv with h | h
      · rw [hpre] at h; cases h
      · exact h
    · intro h kv hkv
      cases hpre : (asciiLower p).isPrefixOf kv.1
      · exact Or.inl rfl
      · exact Or.inr (h kv.1 ⟨kv, hkv, rfl⟩ hpre)

/-! ### Dependence on the declared lists only through lower-cased membership -/

theorem all_congr_of_mem_iff {α : Type} (l l' : List α) (f : α → Bool)
    (h : ∀ x, x ∈ l ↔ x ∈ l') : l.all f = l'.all f := by
  rw [Bool.eq_iff_iff]
  simp only [List.all_eq_true]
  constructor
  · intro H x hx; exact H x ((h x).2 hx)
  · intro H x hx; exact H x ((h x).1 hx)

theorem all_lower_congr (l l' : List Bytes) (f : Bytes → Bool)
    (h : ∀ x, x ∈ l.map asciiLower ↔ x ∈ l'.map asciiLower) :
    l.all (fun a => f (asciiLower a)) = l'.all (fun a => f (asciiLower a)) := by
  have := all_congr_of_mem_iff _ _ f h
  simpa [List.all_map, Function.comp_def] using this

/-! ### `fromRequestParts` and `validate` -/

theorem fromRequestParts_headers (H : Bytes → Bytes) (opts : Options) (other : OtherCharset)
    (req : Request) (fp : FromParts) (h : fromRequestParts H opts other req = .ok fp) :
    fp.creq.headers = normalizeHeaders req.headers [] := by
  unfold fromRequestParts at h
  split at h
  · cases h
  · cases h
  · split at h
    · cases h
    · cases h
    · simp only at h
      split at h
      · split at h
        · cases h
        · cases h
        · split at h
          · cases h
          · cases h
          · repeat' split at h
            all_goals first
              | (injection h with h; subst h; rfl)
              | cases h
      · injection h with h; subst h; rfl

end SigV4
