//! Checks that drive `sigv4_validate_request` end to end (and the AUTH/STS diagnostics).
use crate::case::*;
use crate::gen::*;
use crate::imp;
use crate::refspec as rs;
use crate::util::*;
use crate::Ctx;

/// What the oracle of a property expects from a case.
#[derive(Clone, Debug, PartialEq)]
pub enum Expect {
    Accept,
    /// refused with this error kind (None = any refusal)
    Refuse(Option<&'static str>),
    /// no expectation from the oracle (correspondence only)
    Any,
}

pub struct Job {
    pub case: Case,
    pub expect: Expect,
    pub class: String,
    pub clause: String,
    /// expected provider calls count, if the oracle constrains it
    pub expect_calls: Option<usize>,
}

pub struct Done {
    pub job: Job,
    pub imp: imp::ValOut,
    pub imp_line: String,
    pub model_line: String,
    pub submitted_uri: String,
}

fn imp_line(c: &Case, v: &imp::ValOut, submitted_uri: &str) -> String {
    let calls = format!("CALLS {}{}", v.calls.len(), v.calls.iter().map(|c| format!(" {}", c.show())).collect::<String>());
    if v.class == "OK" {
        let r = v.returned.as_ref().unwrap();
        let id = match &c.answer {
            Answer::Key { identity, .. } => {
                if r.principal == format!("{:?}", imp::principal_for(identity)) && r.session == format!("{:?}", imp::session_for(identity)) {
                    hx(identity.as_bytes())
                } else {
                    "MISMATCH".to_string()
                }
            }
            _ => "NOKEY".to_string(),
        };
        let _ = submitted_uri;
        format!("OK uri={} body={} id={} {}", hx(r.uri.as_bytes()), hx(&r.body), id, calls)
    } else if v.class.starts_with("PANIC") {
        format!("PANIC {}", calls)
    } else {
        format!("{} {}", v.class, calls)
    }
}

fn norm_model_line(m: &str, submitted_uri: &str) -> String {
    if m.starts_with("PANIC") {
        // drop the site
        let idx = m.find(" CALLS").unwrap_or(m.len());
        return format!("PANIC{}", &m[idx..]);
    }
    m.replace("uri=SAME", &format!("uri={}", hx(submitted_uri.as_bytes())))
}

/// Charset information the model takes as a parameter (see `OtherCharset` in the model).
pub fn other_for(c: &Case) -> String {
    match rs::ref_content_type(&c.headers) {
        Some((_, Some(label))) => imp::other_charset(std::str::from_utf8(&label).ok(), &c.body),
        _ => "U".to_string(),
    }
}

/// Run jobs on the implementation and the model; record correspondence breaks and oracle failures.
pub fn run_jobs(ctx: &mut Ctx, op: &'static str, jobs: Vec<Job>) -> Vec<Done> {
    let mut lines = Vec::new();
    let mut pre = Vec::new();
    for job in jobs {
        let req = match imp::build_request(&job.case) {
            Some(r) => r,
            None => {
                ctx.rep.count("not_admitted_by_http");
                continue;
            }
        };
        let submitted_uri = req.uri().to_string();
        let path = req.uri().path().to_string();
        let query = req.uri().query().map(|q| q.to_string());
        let other = other_for(&job.case);
        lines.push(format!("VALIDATE {}", job.case.fields(&path, query.as_deref(), &other)));
        let mut prov = imp::provider_for(vec![imp::entry_of(&job.case)]);
        let v = imp::validate_with(&job.case, req, &mut prov);
        pre.push((job, v, submitted_uri));
    }
    let answers = ctx.drv.ask_all(&lines);
    let mut out = Vec::new();
    for (((job, v, submitted_uri), model), line) in pre.into_iter().zip(answers.into_iter()).zip(lines.into_iter()) {
        ctx.rep.count("evaluations");
        ctx.rep.count(&format!("evaluations.{}", op));
        ctx.rep.count("traces_validated_against_impl");
        let il = imp_line(&job.case, &v, &submitted_uri);
        let ml = norm_model_line(&model, &submitted_uri);
        ctx.rep.count(&format!("impl_outcome.{}", v.class.split('_').next().unwrap_or("").replace(' ', ".")));
        ctx.rep.distinct(&format!("{}|{}", line, il));
        if il != ml {
            ctx.rep.fail(Failure {
                kind: "CORR",
                op: op.to_string(),
                class: job.class.clone(),
                input: line.clone(),
                imp: il.clone(),
                model: ml.clone(),
                spec: String::new(),
                clause: format!("implementation and model disagree on: {}", job.case.describe()),
            });
        }
        // generic oracles that hold for every validation (C13/C14 taxonomy and provider discipline)
        if v.calls.len() > 1 || v.called_without_ready > 0 {
            ctx.rep.fail(Failure {
                kind: "ORACLE",
                op: op.to_string(),
                class: "provider-discipline".into(),
                input: line.clone(),
                imp: il.clone(),
                model: ml.clone(),
                spec: String::new(),
                clause: "key provider called more than once or before it signalled readiness".into(),
            });
        }
        if v.class.starts_with("ERR") && !v.err_is_signature_error {
            ctx.rep.fail(Failure {
                kind: "ORACLE",
                op: op.to_string(),
                class: "not-a-signature-error".into(),
                input: line.clone(),
                imp: il.clone(),
                model: ml.clone(),
                spec: String::new(),
                clause: "failure of the built-in entry point is not a SignatureError".into(),
            });
        }
        if v.class.starts_with("PANIC") {
            ctx.rep.fail(Failure {
                kind: "ORACLE",
                op: op.to_string(),
                class: format!("panic:{}", job.class),
                input: line.clone(),
                imp: v.class.clone(),
                model: ml.clone(),
                spec: String::new(),
                clause: format!("validation panicked on: {}", job.case.describe()),
            });
        }
        let ok = v.class == "OK";
        let bad = match &job.expect {
            Expect::Any => false,
            Expect::Accept => !ok,
            Expect::Refuse(None) => ok,
            Expect::Refuse(Some(k)) => v.class != format!("ERR {}", k),
        };
        let bad_calls = job.expect_calls.map(|n| v.calls.len() != n).unwrap_or(false);
        if bad || bad_calls {
            ctx.rep.fail(Failure {
                kind: "ORACLE",
                op: op.to_string(),
                class: job.class.clone(),
                input: line.clone(),
                imp: il.clone(),
                model: ml.clone(),
                spec: format!("{:?} calls={:?}", job.expect, job.expect_calls),
                clause: format!("{} — {}", job.clause, job.case.describe()),
            });
        }
        out.push(Done { job, imp: v, imp_line: il, model_line: ml, submitted_uri });
    }
    out
}

fn job(case: Case, expect: Expect, class: &str, clause: &str) -> Job {
    Job { case, expect, class: class.to_string(), clause: clause.to_string(), expect_calls: None }
}

fn flip_hex_digit(c: u8) -> u8 {
    // another hex digit of the same class (digit stays digit, letter stays letter)
    match c {
        b'0'..=b'8' => c + 1,
        b'9' => b'0',
        b'a'..=b'e' => c + 1,
        b'f' => b'a',
        _ => b'0',
    }
}

/// Replace the presented signature in a signed case (either carrier).
pub fn set_signature(c: &mut Case, old: &str, new: &str) {
    for (n, v) in c.headers.iter_mut() {
        if n.eq_ignore_ascii_case("authorization") {
            let s = String::from_utf8_lossy(v).replace(old, new);
            *v = s.into_bytes();
        }
    }
    c.uri = c.uri.replace(old, new);
}

// ---------------------------------------------------------------------------------------------
// C01 forgery resistance

pub fn c01(ctx: &mut Ctx) {
    let mut rng = ctx.rng.fork();
    let nbase = ctx.n(60, 1200);
    let mut jobs = Vec::new();
    for i in 0..nbase {
        let l = random_logical(&mut rng);
        let sp = if i % 2 == 0 { Spelling::plain() } else { Spelling::random(&mut rng) };
        let now = now_for(&l, rng.range(-600, 600) as i128 * 1_000_000_000);
        let s = sign_and_spell(&l, &mut rng, &sp, now);
        let must = "C01: accepted although the presented signature is not HMAC(key, string-to-sign of the request as received)";
        jobs.push(job(s.case.clone(), Expect::Accept, "c01-valid", "C01/C02: a reference-signed request was refused"));
        if ctx.rep.samples.len() < 4 {
            ctx.rep.sample(format!("base: {}", s.case.describe()));
        }
        // each of the 64 signature digits (quick: 8 positions spread, thorough: all 64)
        let positions: Vec<usize> = if ctx.thorough { (0..64).collect() } else { (0..8).map(|k| (k * 9 + i) % 64).collect() };
        for p in positions {
            let mut c = s.case.clone();
            let mut sig = s.signature.clone().into_bytes();
            sig[p] = flip_hex_digit(sig[p]);
            set_signature(&mut c, &s.signature, std::str::from_utf8(&sig).unwrap());
            jobs.push(job(c, Expect::Refuse(Some("SignatureDoesNotMatch")), "c01-sigdigit", must));
        }
        // wrong length, upper case, empty-ish
        for alt in [s.signature[..63].to_string(), format!("{}0", s.signature), s.signature.to_uppercase(), "0".repeat(64)] {
            if alt == s.signature {
                continue;
            }
            let mut c = s.case.clone();
            set_signature(&mut c, &s.signature, &alt);
            jobs.push(job(c, Expect::Refuse(None), "c01-sigshape", must));
        }
        // key: one byte differs
        {
            let mut c = s.case.clone();
            let mut k = s.key.clone();
            let p = rng.below(32);
            k[p] ^= 1 << rng.below(8);
            c.answer = Answer::Key { key: k, identity: s.identity.clone() };
            jobs.push(job(c, Expect::Refuse(Some("SignatureDoesNotMatch")), "c01-key", must));
        }
        // method
        {
            let mut c = s.case.clone();
            c.method = if c.method == "GET" { "POST".into() } else { "GET".into() };
            jobs.push(job(c, Expect::Refuse(Some("SignatureDoesNotMatch")), "c01-method", must));
        }
        // body byte (only when the body is hashed as is, or changes the folded parameters)
        if !s.case.body.is_empty() {
            let mut c = s.case.clone();
            let p = rng.below(c.body.len());
            c.body[p] = if c.body[p] == b'x' { b'y' } else { b'x' };
            jobs.push(job(c, Expect::Refuse(None), "c01-body", must));
        } else {
            let mut c = s.case.clone();
            c.body = b"x".to_vec();
            // an added body changes the payload hash unless it is folded into an identical query
            jobs.push(job(c, Expect::Refuse(None), "c01-body", must));
        }
        // path: append a segment
        {
            let mut c = s.case.clone();
            let (p, q) = match c.uri.find('?') {
                Some(i) => (c.uri[..i].to_string(), c.uri[i..].to_string()),
                None => (c.uri.clone(), String::new()),
            };
            c.uri = format!("{}{}x{}", p, if p.ends_with('/') { "" } else { "/" }, q);
            jobs.push(job(c, Expect::Refuse(Some("SignatureDoesNotMatch")), "c01-path", must));
        }
        // query: add a parameter
        {
            let mut c = s.case.clone();
            c.uri = if c.uri.contains('?') { format!("{}&zz=1", c.uri) } else { format!("{}?zz=1", c.uri) };
            jobs.push(job(c, Expect::Refuse(Some("SignatureDoesNotMatch")), "c01-query", must));
        }
        // a signed header value
        {
            let mut c = s.case.clone();
            for (n, v) in c.headers.iter_mut() {
                if n.eq_ignore_ascii_case("host") {
                    v.extend_from_slice(b"x");
                }
            }
            jobs.push(job(c, Expect::Refuse(Some("SignatureDoesNotMatch")), "c01-header", must));
        }
        // timestamp +-1 s (same day unless at the boundary): re-render the date text
        for delta in [1i128, -1] {
            let mut l2 = l.clone();
            l2.time_ns += delta * 1_000_000_000;
            let s2 = sign_and_spell(&l2, &mut rng.clone(), &Spelling::plain(), now);
            // take the other request's date text but keep this request's signature
            let mut c = sign_and_spell(&l, &mut rng.clone(), &Spelling::plain(), now).case;
            let t_old = render_time(l.time_ns, l.time_style);
            let t_new = render_time(l2.time_ns, l2.time_style);
            for (_, v) in c.headers.iter_mut() {
                if *v == t_old.as_bytes() {
                    *v = t_new.as_bytes().to_vec();
                }
            }
            let enc_old = String::from_utf8(rs::encode(t_old.as_bytes())).unwrap();
            let enc_new = String::from_utf8(rs::encode(t_new.as_bytes())).unwrap();
            c.uri = c.uri.replace(&enc_old, &enc_new);
            let _ = s2;
            jobs.push(job(c, Expect::Refuse(None), "c01-time", must));
        }
        // scope fields: region of the server differs from the signed one
        {
            let mut c = s.case.clone();
            c.region = format!("{}x", c.region);
            jobs.push(job(c, Expect::Refuse(Some("SignatureDoesNotMatch")), "c01-scope", must));
        }
        if jobs.len() > 4000 {
            run_jobs(ctx, "VALIDATE", std::mem::take(&mut jobs));
        }
    }
    run_jobs(ctx, "VALIDATE", jobs);
}

// ---------------------------------------------------------------------------------------------
// C02 completeness

pub fn c02(ctx: &mut Ctx) {
    let mut rng = ctx.rng.fork();
    let nlog = ctx.n(300, 6000);
    let nspell = ctx.n(6, 12);
    let skews: [i128; 9] = [0, 1, -1, 899, -899, 900, -900, 450, -450];
    let mut jobs = Vec::new();
    let clause = "C02: a request signed by the reference signer, inside the window and in scope, was refused";
    for i in 0..nlog {
        let l = random_logical(&mut rng);
        for j in 0..nspell {
            let sp = if j == 0 { Spelling::plain() } else { Spelling::random(&mut rng) };
            let skew = skews[(i + j) % skews.len()] * 1_000_000_000;
            let now = now_for(&l, skew);
            let s = sign_and_spell(&l, &mut rng, &sp, now);
            let class = format!(
                "c02-{}{}",
                if l.carrier == Carrier::Query { "query-carrier" } else { "header-carrier" },
                if l.fold && l.form.is_some() { "-folded" } else { "" }
            );
            if ctx.rep.samples.len() < 8 && j == 1 {
                ctx.rep.sample(format!("spelled: {}", s.case.describe()));
            }
            ctx.rep.count(&format!("gen.carrier.{:?}", l.carrier));
            if l.token.is_some() {
                ctx.rep.count("gen.with_token");
            }
            if l.s3 {
                ctx.rep.count("gen.s3");
            }
            if l.fold && l.form.is_some() {
                ctx.rep.count("gen.folded");
            }
            jobs.push(job(s.case, Expect::Accept, &class, clause));
        }
        if jobs.len() > 4000 {
            run_jobs(ctx, "VALIDATE", std::mem::take(&mut jobs));
        }
    }
    // the recorded finding: a literal '+' in a path segment
    for _ in 0..ctx.n(20, 200) {
        let mut l = random_logical(&mut rng);
        l.segments.push(b"a+b".to_vec());
        l.trailing_slash = false;
        let mut sp = Spelling::plain();
        sp.literal_plus_in_path = true;
        let now = now_for(&l, 0);
        let s = sign_and_spell(&l, &mut rng, &sp, now);
        jobs.push(job(s.case, Expect::Accept, "path-literal-plus", clause));
    }
    run_jobs(ctx, "VALIDATE", jobs);
}

pub fn c03(_ctx: &mut Ctx) {}
pub fn c04(_ctx: &mut Ctx) {}
pub fn c05(_ctx: &mut Ctx) {}
pub fn c08(_ctx: &mut Ctx) {}
pub fn c11(_ctx: &mut Ctx) {}
pub fn c12(_ctx: &mut Ctx) {}
pub fn c13(_ctx: &mut Ctx) {}
pub fn c14(_ctx: &mut Ctx) {}
pub fn c15(_ctx: &mut Ctx) {}
pub fn c17(_ctx: &mut Ctx) {}
pub fn c18(_ctx: &mut Ctx) {}
pub fn c19(_ctx: &mut Ctx) {}
