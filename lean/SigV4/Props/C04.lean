/-
  Property C04 — freshness: only requests within 15 minutes of server time are accepted.
-/
import SigV4.Spec.ValidateSpec
import SigV4.Lemmas.C04

namespace SigV4.C04

/-- The allowed mismatch is exactly 15 minutes, in nanoseconds. -/
theorem allowed_mismatch_value : ALLOWED_MISMATCH = 900 * 1000000000 := by
  decide

/-- Outside the window the authenticator is refused as a signature mismatch (expired / not yet
current), whatever its credential looks like. -/
theorem prevalidate_outside (a : Authenticator) (region service : Bytes) (now : Int)
    (hr : nowRepresentable now) (h : ¬ inWindow a.timestamp now) :
    prevalidate a region service now = .err .SignatureDoesNotMatch := by
  exact prevalidate_err_of_not_inWindow a region service now hr h

/-- Inside the window (bounds inclusive) the timestamp alone never causes rejection: the verdict is
that of the credential-scope rule. -/
theorem prevalidate_inside (a : Authenticator) (region service : Bytes) (now : Int)
    (hr : nowRepresentable now) (h : inWindow a.timestamp now) :
    prevalidate a region service now = scopeCheck a region service := by
  exact prevalidate_eq_scopeCheck_of_inWindow a region service now hr h

/-- The decision depends only on the instant: two authenticators with the same instant (whatever
text denoted it, whatever else they carry) get the same freshness verdict — either both are
inside the window, where the timestamp causes no rejection, or both are refused as stale/early. -/
theorem freshness_depends_only_on_instant (a a' : Authenticator) (region service : Bytes) (now : Int)
    (hr : nowRepresentable now) (ht : a.timestamp = a'.timestamp) :
    (prevalidate a region service now = scopeCheck a region service ∧
      prevalidate a' region service now = scopeCheck a' region service) ∨
    (prevalidate a region service now = .err .SignatureDoesNotMatch ∧
      prevalidate a' region service now = .err .SignatureDoesNotMatch) :=
  freshness_verdict_depends_only_on_instant a a' region service now hr ht

/-- Acceptance implies freshness. -/
theorem accept_implies_inWindow {σ : Type} (H : Bytes → Bytes) (cfg : Config) (P : Provider σ) (s : σ)
    (req : Request) (r : Returned) (hr : nowRepresentable cfg.now)
    (h : (validate H cfg P s req).out = .ok r) :
    ∃ a, authOf H cfg req = .ok a ∧ inWindow a.timestamp cfg.now := by
  obtain ⟨a, ha⟩ := authOf_ok_of_validate P s (Or.inl ⟨r, h⟩)
  refine ⟨a, ha, ?_⟩
  obtain ⟨_, _, _, _, hok⟩ := c04_validate_of_authOf_ok P s ha
  obtain ⟨resp, hresp⟩ := hok r h
  exact inWindow_of_prevalidate_ok a cfg.region cfg.service cfg.now hr
    (prevalidate_ok_of_validateSignature H P s a cfg.region cfg.service cfg.now (Or.inl ⟨resp, hresp⟩))

/-- Outside the window the request is refused before any key lookup: no provider call, provider
state untouched, whatever the provider would have answered. -/
theorem outside_window_no_key_lookup {σ : Type} (H : Bytes → Bytes) (cfg : Config) (P : Provider σ) (s : σ)
    (req : Request) (a : Authenticator) (hr : nowRepresentable cfg.now)
    (ha : authOf H cfg req = .ok a) (h : ¬ inWindow a.timestamp cfg.now) :
    (validate H cfg P s req).out = .err .SignatureDoesNotMatch ∧ (validate H cfg P s req).calls = [] ∧
    (validate H cfg P s req).state = s := by
  obtain ⟨hc, hs, he, _, _⟩ := c04_validate_of_authOf_ok P s ha
  have hv := validateSignature_of_prevalidate_err H P s a cfg.region cfg.service cfg.now _
    (prevalidate_err_of_not_inWindow a cfg.region cfg.service cfg.now hr h)
  rw [hv] at hc hs he
  exact ⟨he _ rfl, hc, hs⟩

/-- Both bounds are inclusive and sharp at nanosecond resolution. -/
theorem window_bounds_sharp (now : Int) :
    inWindow (now - ALLOWED_MISMATCH) now ∧ inWindow (now + ALLOWED_MISMATCH) now ∧
    ¬ inWindow (now - ALLOWED_MISMATCH - 1) now ∧ ¬ inWindow (now + ALLOWED_MISMATCH + 1) now := by
  unfold inWindow
  rw [ALLOWED_MISMATCH_val]
  omega

/-- Every server time between year 0001 and year 9999 is representable (so the theorems above apply
to all of them, including day, month, year and leap-day boundaries). -/
theorem civil_years_representable (now : Int)
    (h : daysFromCivil 1 1 1 * 86400 * NS_PER_SEC ≤ now ∧ now < daysFromCivil 10000 1 1 * 86400 * NS_PER_SEC) :
    nowRepresentable now := by
  have h1 : daysFromCivil 1 1 1 * 86400 * NS_PER_SEC = -62135596800000000000 := by decide
  have h2 : daysFromCivil 10000 1 1 * 86400 * NS_PER_SEC = 253402300800000000000 := by decide
  rw [h1, h2] at h
  unfold nowRepresentable
  rw [ALLOWED_MISMATCH_val, CHRONO_MIN_val, CHRONO_MAX_val]
  omega

example : nowRepresentable 1440938160000000000 := by decide
example : inWindow 1440938160000000000 (1440938160000000000 + 900 * 1000000000) := by decide
example : ¬ inWindow 1440938160000000000 (1440938160000000000 + 900 * 1000000000 + 1) := by decide

end SigV4.C04

#print axioms SigV4.C04.allowed_mismatch_value
#print axioms SigV4.C04.prevalidate_outside
#print axioms SigV4.C04.prevalidate_inside
#print axioms SigV4.C04.freshness_depends_only_on_instant
#print axioms SigV4.C04.accept_implies_inWindow
#print axioms SigV4.C04.outside_window_no_key_lookup
#print axioms SigV4.C04.window_bounds_sharp
#print axioms SigV4.C04.civil_years_representable
