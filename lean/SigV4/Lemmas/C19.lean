/- Helper lemmas for C19. -/
import SigV4.Spec.ValidateSpec
import SigV4.Spec.HeaderSpec
import SigV4.Spec.UriSpec

namespace SigV4

end SigV4
