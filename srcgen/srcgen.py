#!/usr/bin/env python3
"""
srcgen.py — translator from /repo/src to Lean (the "regenerated on every run" half of the tie).

Reads the Rust sources of the crate with a small lexer and emits
    /verif/lean/SigV4/Source/Generated.lean
containing, for every item of ITEMS below, a Lean definition `SigV4.Src.<file>.<NAME> : Option T`:
`some v` when the item could be read from the source as it is now, `none` when its shape is outside
what this translator understands (the tie for that item then rests on the correspondence run alone).

What is translated (and nothing else):
  * `const NAME: T = <literal>;`          string / byte-string / integer / byte-array literals, `X.len()`
  * `static ref NAME: Regex = Regex::new(<literal>)`  -> abstract syntax `RE` (SigV4/Source/RE.lean)
  * `fn error_code` / `fn http_status`    match tables  kind -> constant
  * `fn is_rfc3986_unreserved(c: u8) -> bool { <boolean expression over c> }`
  * `fn u8_to_upper_hex(b: u8) -> [u8; 2]`  (array of table look-ups)
  * the `Duration::minutes(CONST)` argument of the entry point, the three format strings of auth.rs

The theorems in /verif/lean/SigV4/Tie/*.lean relate each definition to the hand-written model.
Usage: srcgen.py [--repo /repo] [--out <file>] [--json <file>]   (exit 0 always; problems are reported
in the JSON side file and as `none` items).
"""
import json, os, re, sys

# ------------------------------------------------------------------------------------------------ lexer

class Tok:
    __slots__ = ("k", "v", "pos")
    def __init__(self, k, v, pos):
        self.k, self.v, self.pos = k, v, pos
    def __repr__(self):
        return f"{self.k}:{self.v!r}"

ESC = {"n": 10, "r": 13, "t": 9, "\\": 92, "0": 0, "'": 39, '"': 34}

def _unescape(body, is_bytes):
    """Rust (byte-)string body -> list of byte values (UTF-8 for str)."""
    out, i = [], 0
    while i < len(body):
        c = body[i]
        if c != "\\":
            out.extend(c.encode("utf-8"))
            i += 1
            continue
        n = body[i + 1]
        if n in ESC:
            out.append(ESC[n]); i += 2
        elif n == "x":
            out.append(int(body[i + 2:i + 4], 16)); i += 4
        elif n == "u":
            j = body.index("}", i)
            out.extend(chr(int(body[i + 3:j], 16)).encode("utf-8")); i = j + 1
        elif n == "\n":
            i += 2
            while i < len(body) and body[i] in " \t\n\r":
                i += 1
        else:
            raise ValueError("escape \\" + n)
    return out

def lex(src):
    toks, i, n = [], 0, len(src)
    while i < n:
        c = src[i]
        if c in " \t\r\n":
            i += 1; continue
        if src.startswith("//", i):
            j = src.find("\n", i); i = n if j < 0 else j; continue
        if src.startswith("/*", i):
            depth, i = 1, i + 2
            while i < n and depth:
                if src.startswith("/*", i): depth += 1; i += 2
                elif src.startswith("*/", i): depth -= 1; i += 2
                else: i += 1
            continue
        m = re.compile(r'(b?)r(#*)"').match(src, i)
        if m:
            hashes = m.group(2)
            end = src.index('"' + hashes, m.end())
            body = src[m.end():end]
            toks.append(Tok("bstr" if m.group(1) else "str", list(body.encode("utf-8")), i))
            i = end + 1 + len(hashes); continue
        if c == '"' or src.startswith('b"', i):
            isb = c == "b"
            j = i + (2 if isb else 1)
            k = j
            while src[k] != '"':
                k += 2 if src[k] == "\\" else 1
            toks.append(Tok("bstr" if isb else "str", _unescape(src[j:k], isb), i))
            i = k + 1; continue
        if src.startswith("b'", i):
            k = i + 2
            while src[k] != "'":
                k += 2 if src[k] == "\\" else 1
            toks.append(Tok("byte", _unescape(src[i + 2:k], True)[0], i)); i = k + 1; continue
        if c == "'":
            m = re.compile(r"'(\\.[^']*|[^\\'])'").match(src, i)
            if m:
                toks.append(Tok("char", _unescape(m.group(1), False), i)); i = m.end(); continue
            m = re.compile(r"'[A-Za-z_][A-Za-z0-9_]*").match(src, i)
            toks.append(Tok("life", m.group(0), i)); i = m.end(); continue
        m = re.compile(r"[A-Za-z_][A-Za-z0-9_]*").match(src, i)
        if m:
            toks.append(Tok("id", m.group(0), i)); i = m.end(); continue
        m = re.compile(r"0x[0-9a-fA-F_]+|[0-9][0-9_]*").match(src, i)
        if m:
            t = m.group(0).replace("_", "")
            v = int(t, 16) if t.startswith("0x") else int(t)
            j = m.end()
            m2 = re.compile(r"(u8|u16|u32|u64|usize|i8|i16|i32|i64|isize)").match(src, j)
            if m2: j = m2.end()
            toks.append(Tok("num", v, i)); i = j; continue
        for p in ("::", "=>", "->", "==", "!=", "<=", ">=", "&&", "||", ">>", "<<", ".."):
            if src.startswith(p, i):
                toks.append(Tok("p", p, i)); i += len(p); break
        else:
            toks.append(Tok("p", c, i)); i += 1
    return toks

def find_seq(toks, pat, start=0):
    """Index of the first position where the (kind, value) pattern matches; value None = any."""
    for i in range(start, len(toks) - len(pat) + 1):
        if all(toks[i + j].k == k and (v is None or toks[i + j].v == v) for j, (k, v) in enumerate(pat)):
            return i
    return -1

def matching(toks, i):
    """Index of the token closing the bracket opened at toks[i]."""
    op = toks[i].v
    cl = {"(": ")", "[": "]", "{": "}"}[op]
    d = 0
    for j in range(i, len(toks)):
        if toks[j].k == "p" and toks[j].v == op: d += 1
        elif toks[j].k == "p" and toks[j].v == cl:
            d -= 1
            if d == 0: return j
    raise ValueError("unbalanced")

# ------------------------------------------------------------------------------------------------ Lean output helpers

def lean_bytes(bs):
    return "[" + ", ".join("0x%02X" % b for b in bs) + "]"

def printable(bs):
    return "".join(chr(b) if 32 <= b < 127 else "." for b in bs)

KINDS = ["ExpiredToken", "IO", "InternalServiceError", "InvalidBodyEncoding", "InvalidClientTokenId",
         "InvalidContentType", "InvalidRequestMethod", "IncompleteSignature", "InvalidURIPath",
         "MalformedQueryString", "MissingAuthenticationToken", "SignatureDoesNotMatch"]
STATUS = {"BAD_REQUEST": 400, "FORBIDDEN": 403, "INTERNAL_SERVER_ERROR": 500, "UNAUTHORIZED": 401, "OK": 200,
          "NOT_FOUND": 404, "SERVICE_UNAVAILABLE": 503, "BAD_GATEWAY": 502, "CONFLICT": 409, "ACCEPTED": 202,
          "NO_CONTENT": 204, "CREATED": 201, "METHOD_NOT_ALLOWED": 405, "NOT_IMPLEMENTED": 501}

# ------------------------------------------------------------------------------------------------ constants

def read_consts(toks):
    """name -> ('bytes', [..]) | ('int', n) | ('array', [..]) for every `const NAME: T = literal;`."""
    out, i = {}, 0
    while True:
        i = find_seq(toks, [("id", "const"), ("id", None), ("p", ":")], i)
        if i < 0:
            return out
        name = toks[i + 1].v
        if i > 0 and toks[i - 1].k == "p" and toks[i - 1].v in ("<", ","):      # const generic parameter
            i += 1
            continue
        j = i + 3
        tdepth = 0
        while j < len(toks) and not (tdepth == 0 and toks[j].k == "p" and toks[j].v in ("=", ";")):
            if toks[j].k == "p" and toks[j].v in "([": tdepth += 1
            if toks[j].k == "p" and toks[j].v in ")]": tdepth -= 1
            j += 1
        if j >= len(toks):
            return out
        if toks[j].v == "=":
            k = j + 1
            e = []
            depth = 0
            while k < len(toks) and not (toks[k].k == "p" and toks[k].v == ";" and depth == 0):
                if toks[k].k == "p" and toks[k].v in "([{": depth += 1
                if toks[k].k == "p" and toks[k].v in ")]}": depth -= 1
                e.append(toks[k]); k += 1
            val = None
            if len(e) == 1 and e[0].k in ("str", "bstr"):
                val = ("bytes", e[0].v)
            elif len(e) == 1 and e[0].k == "num":
                val = ("int", e[0].v)
            elif len(e) == 2 and e[0].k == "p" and e[0].v == "-" and e[1].k == "num":
                val = ("int", -e[1].v)
            elif e and e[0].k == "p" and e[0].v == "[" and all(t.k in ("byte", "num") or (t.k == "p" and t.v in "[],") for t in e):
                val = ("array", [t.v for t in e if t.k in ("byte", "num")])
            elif len(e) == 5 and e[0].k == "id" and [t.v for t in e[1:]] == [".", "len", "(", ")"] and out.get(e[0].v, ("", 0))[0] == "bytes":
                val = ("int", len(out[e[0].v][1]))
            if val is not None:
                out[name] = val
            i = k
        else:
            i = j

# ------------------------------------------------------------------------------------------------ regex literals

class ReErr(Exception):
    pass

def parse_regex(pat):
    """Pattern text (list of byte values) -> (anchored_start, anchored_end, lean term).  Subset: literals,
    classes `[a-bcd]` (no negation), `.`-free, groups `(..)`, `(?:..)`, `(?P<n>..)`, `|`, `?`, `*`, `+`, `{n}`,
    `^` first and `$` last, the flag group `(?x)` first (whitespace then insignificant), `\\d` refused (Unicode)."""
    s = bytes(pat).decode("utf-8")
    verbose = False
    if s.startswith("(?x)"):
        verbose, s = True, s[4:]
    pos = 0

    def ws():
        nonlocal pos
        if verbose:
            while pos < len(s) and s[pos] in " \t\n\r":
                pos += 1

    def cls_byte():
        nonlocal pos
        c = s[pos]
        if c == "\\":
            n = s[pos + 1]
            if n in r"\.-+[]()|?*{}^$/":
                pos += 2; return ord(n)
            raise ReErr("class escape \\" + n)
        if ord(c) > 126:
            raise ReErr("non-ASCII in class")
        pos += 1
        return ord(c)

    def atom():
        nonlocal pos
        ws()
        c = s[pos]
        if c == "(":
            pos += 1
            if s.startswith("?:", pos):
                pos += 2
            elif s.startswith("?P<", pos) or s.startswith("?<", pos):
                pos = s.index(">", pos) + 1
            elif s.startswith("?", pos):
                raise ReErr("flag group")
            inner = alt()
            ws()
            if pos >= len(s) or s[pos] != ")":
                raise ReErr("missing )")
            pos += 1
            return f"(RE.group {inner})"
        if c == "[":
            pos += 1
            if s[pos] == "^":
                raise ReErr("negated class")
            rs = []
            while s[pos] != "]":
                lo = cls_byte()
                hi = lo
                if s[pos] == "-" and s[pos + 1] != "]":
                    pos += 1
                    hi = cls_byte()
                rs.append((lo, hi))
            pos += 1
            return "(RE.cls [" + ", ".join("(0x%02X, 0x%02X)" % r for r in rs) + "])"
        if c == "\\":
            n = s[pos + 1]
            if n in r"\.-+[]()|?*{}^$/":
                pos += 2
                return "(RE.byte 0x%02X)" % ord(n)
            raise ReErr("escape \\" + n + " (Unicode-aware classes are not translated)")
        if c in ".^$":
            raise ReErr("unsupported metacharacter " + c)
        if c in ")|?*+{":
            raise ReErr("unexpected " + c)
        if ord(c) > 126:
            raise ReErr("non-ASCII literal")
        pos += 1
        return "(RE.byte 0x%02X)" % ord(c)

    def postfix():
        nonlocal pos
        a = atom()
        while True:
            ws()
            if pos >= len(s):
                return a
            c = s[pos]
            if c == "?":
                pos += 1; a = f"(RE.opt {a})"
            elif c == "*":
                pos += 1; a = f"(RE.star {a})"
            elif c == "+":
                pos += 1; a = f"(RE.plus {a})"
            elif c == "{":
                m = re.compile(r"\{([0-9]+)\}").match(s, pos)
                if not m:
                    raise ReErr("repetition other than {n}")
                pos = m.end(); a = f"(RE.rep {a} {int(m.group(1))})"
            else:
                return a
            if pos < len(s) and s[pos] in "?+":
                raise ReErr("lazy/possessive quantifier")

    def seq():
        nonlocal pos
        parts = []
        while True:
            ws()
            if pos >= len(s) or s[pos] in ")|" or (s[pos] == "$"):
                break
            parts.append(postfix())
        return "(RE.seqs [" + ", ".join(parts) + "])"

    def alt():
        nonlocal pos
        branches = [seq()]
        while True:
            ws()
            if pos < len(s) and s[pos] == "|":
                pos += 1
                branches.append(seq())
            else:
                break
        return branches[0] if len(branches) == 1 else "(RE.alts [" + ", ".join(branches) + "])"

    ws()
    a_start = False
    if pos < len(s) and s[pos] == "^":
        a_start = True; pos += 1
    body = alt()
    ws()
    a_end = False
    if pos < len(s) and s[pos] == "$":
        a_end = True; pos += 1
    ws()
    if pos != len(s):
        raise ReErr("trailing text at %d" % pos)
    return a_start, a_end, body

def read_regexes(toks):
    out, i = {}, 0
    while True:
        i = find_seq(toks, [("id", "static"), ("id", "ref"), ("id", None), ("p", ":"), ("id", "Regex"), ("p", "="),
                            ("id", "Regex"), ("p", "::"), ("id", "new"), ("p", "(")], i)
        if i < 0:
            return out
        name = toks[i + 2].v
        lit = toks[i + 10]
        if lit.k == "str" and toks[i + 11].k == "p" and toks[i + 11].v in (")", ","):
            out[name] = lit.v
        i += 10

# ------------------------------------------------------------------------------------------------ functions

def fn_body(toks, name):
    """Tokens of the body `{ … }` of the first `fn name`, and of its parameter list."""
    i = find_seq(toks, [("id", "fn"), ("id", name)])
    if i < 0:
        return None, None
    j = i + 2
    while not (toks[j].k == "p" and toks[j].v == "("):
        j += 1
    pe = matching(toks, j)
    params = toks[j + 1:pe]
    k = pe
    while not (toks[k].k == "p" and toks[k].v == "{"):
        k += 1
    e = matching(toks, k)
    return params, toks[k + 1:e]

def fn_sig(toks, name):
    """(params, return-type tokens, body tokens) of the first `fn name`."""
    i = find_seq(toks, [("id", "fn"), ("id", name)])
    if i < 0:
        return None
    j = i + 2
    while not (toks[j].k == "p" and toks[j].v == "("):
        j += 1
    pe = matching(toks, j)
    k = pe + 1
    ret = []
    if toks[k].k == "p" and toks[k].v == "->":
        k += 1
        while not (toks[k].k == "p" and toks[k].v == "{"):
            ret.append(toks[k]); k += 1
    while not (toks[k].k == "p" and toks[k].v == "{"):
        k += 1
    e = matching(toks, k)
    return toks[j + 1:pe], ret, toks[k + 1:e]

def read_match_table(toks, fname, consts, value_of):
    """`fn fname(&self) -> T { match self { Self::A(_) | Self::B(_) => V, …, _ => V } }` -> {kind: value}."""
    _, body = fn_body(toks, fname)
    if body is None or len(body) < 4 or body[0].v != "match" or body[1].v != "self" or body[2].v != "{":
        return None
    end = matching(body, 2)
    if end != len(body) - 1:
        return None
    arms = body[3:end]
    table, default, i = {}, None, 0
    while i < len(arms):
        pats = []
        wildcard = False
        while True:
            if arms[i].k == "id" and arms[i].v == "_":
                wildcard = True; i += 1
            elif arms[i].k == "id" and arms[i].v in ("Self", "SignatureError") and arms[i + 1].v == "::":
                pats.append(arms[i + 2].v); i += 3
                if i < len(arms) and arms[i].k == "p" and arms[i].v == "(":
                    i = matching(arms, i) + 1
                elif i < len(arms) and arms[i].k == "p" and arms[i].v == "{":
                    i = matching(arms, i) + 1
            else:
                return None
            if arms[i].k == "p" and arms[i].v == "|":
                i += 1; continue
            break
        if not (arms[i].k == "p" and arms[i].v == "=>"):
            return None
        i += 1
        e = []
        while i < len(arms) and not (arms[i].k == "p" and arms[i].v == ","):
            e.append(arms[i]); i += 1
        i += 1
        v = value_of(e, consts)
        if v is None:
            return None
        for p in pats:
            if p not in KINDS:
                return None
            table.setdefault(p, v)          # first matching arm wins
        if wildcard:
            default = v
            break
    full = {}
    for k in KINDS:
        if k in table: full[k] = table[k]
        elif default is not None: full[k] = default
        else: return None
    return full

def val_code(e, consts):
    if len(e) == 1 and e[0].k == "id" and consts.get(e[0].v, ("",))[0] == "bytes":
        return bytes(consts[e[0].v][1]).decode("utf-8")
    if len(e) == 1 and e[0].k == "str":
        return bytes(e[0].v).decode("utf-8")
    return None

def val_status(e, consts):
    if len(e) == 3 and e[0].v == "StatusCode" and e[1].v == "::" and e[2].v in STATUS:
        return STATUS[e[2].v]
    return None

U8_METHODS = {"is_ascii_alphanumeric": "Rust.isAsciiAlphanumeric", "is_ascii_alphabetic": "Rust.isAsciiAlphabetic",
              "is_ascii_digit": "Rust.isAsciiDigit", "is_ascii_uppercase": "Rust.isAsciiUppercase",
              "is_ascii_lowercase": "Rust.isAsciiLowercase", "is_ascii_hexdigit": "Rust.isAsciiHexdigit",
              "is_ascii_whitespace": "Rust.isAsciiWhitespace", "is_ascii_punctuation": "Rust.isAsciiPunctuation",
              "is_ascii_graphic": "Rust.isAsciiGraphic", "is_ascii": "Rust.isAscii"}

class ExprErr(Exception):
    pass

def translate_u8_expr(toks, var, tables):
    """Boolean / u8 expression over the single u8 variable `var` -> Lean term (precedence climbing)."""
    pos = 0
    def peek():
        return toks[pos] if pos < len(toks) else None
    def eat(v=None):
        nonlocal pos
        t = toks[pos]
        if v is not None and t.v != v:
            raise ExprErr(f"expected {v} got {t.v}")
        pos += 1
        return t
    def primary():
        nonlocal pos
        t = eat()
        if t.k == "p" and t.v == "(":
            e = expr(0); eat(")"); r = f"({e})"
        elif t.k == "p" and t.v == "!":
            return f"(!{primary()})"
        elif t.k == "p" and t.v == "*":          # deref of a &u8
            return primary()
        elif t.k == "byte":
            r = "(0x%02X : UInt8)" % t.v
        elif t.k == "num":
            r = "(%d : UInt8)" % t.v if t.v < 256 else None
            if r is None: raise ExprErr("literal out of u8 range")
        elif t.k == "id" and t.v == var:
            r = var
        elif t.k == "id" and t.v in tables and peek() is not None and peek().v == "[":
            eat("["); e = expr(0); eat("]")
            r = f"(Rust.index {tables[t.v]} ({e}).toNat)"
        elif t.k == "id" and t.v in ("true", "false"):
            r = t.v
        else:
            raise ExprErr(f"unsupported token {t!r}")
        while peek() is not None and peek().k == "p" and peek().v == ".":
            eat(".")
            m = eat()
            if m.v not in U8_METHODS: raise ExprErr("method " + str(m.v))
            eat("("); eat(")")
            r = f"({U8_METHODS[m.v]} {r})"
        while peek() is not None and peek().k == "id" and peek().v == "as":
            eat(); ty = eat()
            if ty.v not in ("usize", "u8", "u32", "u64"): raise ExprErr("cast to " + str(ty.v))
        return r
    PREC = {"||": 1, "&&": 2, "==": 3, "!=": 3, "<": 3, ">": 3, "<=": 3, ">=": 3, "|": 4, "^": 5, "&": 6, "<<": 7, ">>": 7,
            "+": 8, "-": 8}
    LEANOP = {"||": "||", "&&": "&&", "==": "==", "!=": "!=", "<": "<", ">": ">", "<=": "≤", ">=": "≥", "|": "|||", "^": "^^^",
              "&": "&&&", "<<": "<<<", ">>": ">>>", "+": "+", "-": "-"}
    def expr(minp):
        lhs = primary()
        while True:
            t = peek()
            if t is None or t.k != "p" or t.v not in PREC or PREC[t.v] < minp:
                return lhs
            op = eat().v
            rhs = expr(PREC[op] + 1)
            if op in ("<", ">", "<=", ">="):
                lhs = f"(decide ({lhs} {LEANOP[op]} {rhs}))"
            else:
                lhs = f"({lhs} {LEANOP[op]} {rhs})"
    e = expr(0)
    if pos != len(toks):
        raise ExprErr("trailing tokens")
    return e

def single_u8_param(params):
    """`c: u8` -> 'c'."""
    if len(params) == 3 and params[0].k == "id" and params[1].v == ":" and params[2].v == "u8":
        return params[0].v
    return None

# ------------------------------------------------------------------------------------------------ main

def generate(repo):
    src = {}
    for f in ("auth", "canonical", "chronoutil", "error", "signature", "signing_key"):
        p = os.path.join(repo, "src", f + ".rs")
        try:
            src[f] = lex(open(p, encoding="utf-8").read())
        except Exception as ex:                                     # noqa
            src[f] = None
    consts = {f: (read_consts(t) if t else {}) for f, t in src.items()}
    items, lines = {}, []
    emit = lines.append

    def const_item(f, name, kind):
        v = consts[f].get(name)
        key = f"{f}.{name}"
        if v is not None and v[0] == kind == "bytes":
            emit(f"def {key} : Option Bytes := some {lean_bytes(v[1])}   -- {printable(v[1])!r}")
            items[key] = "read"
        elif v is not None and v[0] == kind == "int":
            emit(f"def {key} : Option Int := some ({v[1]})")
            items[key] = "read"
        elif v is not None and v[0] == kind == "array":
            emit(f"def {key} : Option Bytes := some {lean_bytes(v[1])}")
            items[key] = "read"
        else:
            ty = "Int" if kind == "int" else "Bytes"
            emit(f"def {key} : Option {ty} := none   -- not a plain literal constant in the source as it is now")
            items[key] = "unreadable"

    emit("-- src/auth.rs")
    for n in ("AWS4_HMAC_SHA256", "AWS4_REQUEST", "ISO8601_COMPACT_FORMAT"):
        const_item("auth", n, "bytes")
    emit("-- src/canonical.rs")
    for n in ("APPLICATION_X_WWW_FORM_URLENCODED", "AUTHORIZATION", "AWS4_HMAC_SHA256", "CHARSET", "CONTENT_TYPE", "CREDENTIAL", "DATE",
              "SIGNATURE", "SIGNED_HEADERS", "X_AMZ_ALGORITHM", "X_AMZ_CREDENTIAL", "X_AMZ_DATE", "X_AMZ_DATE_LOWER",
              "X_AMZ_SECURITY_TOKEN", "X_AMZ_SECURITY_TOKEN_LOWER", "X_AMZ_SIGNATURE", "X_AMZ_SIGNED_HEADERS"):
        const_item("canonical", n, "bytes")
    const_item("canonical", "HEX_DIGITS_UPPER", "array")
    emit("-- src/signing_key.rs")
    const_item("signing_key", "AWS4_REQUEST", "bytes")
    emit("-- src/signature.rs")
    const_item("signature", "ALLOWED_MISMATCH_MINUTES", "int")

    # the window the entry point passes on: Duration::<unit>(CONST)
    key = "signature.allowed_mismatch_seconds"
    done = False
    t = src["signature"]
    if t:
        i = find_seq(t, [("id", "Duration"), ("p", "::"), ("id", None), ("p", "("), ("id", None), ("p", ")")])
        unit = {"minutes": 60, "seconds": 1, "hours": 3600, "milliseconds": None}
        if i >= 0 and find_seq(t, [("id", "Duration"), ("p", "::"), ("id", None), ("p", "(")], i + 1) < 0:
            u, c = t[i + 2].v, consts["signature"].get(t[i + 4].v)
            if unit.get(u) and c and c[0] == "int":
                emit(f"def {key} : Option Int := some ({c[1]} * {unit[u]})   -- Duration::{u}({t[i + 4].v})")
                items[key] = "read"; done = True
        if not done:
            i = find_seq(t, [("id", "Duration"), ("p", "::"), ("id", None), ("p", "("), ("num", None), ("p", ")")])
            if i >= 0 and unit.get(t[i + 2].v) and find_seq(t, [("id", "Duration"), ("p", "::"), ("id", None), ("p", "(")], i + 1) < 0:
                emit(f"def {key} : Option Int := some ({t[i + 4].v} * {unit[t[i + 2].v]})   -- Duration::{t[i + 2].v}({t[i + 4].v})")
                items[key] = "read"; done = True
    if not done:
        emit(f"def {key} : Option Int := none")
        items[key] = "unreadable"

    emit("-- src/error.rs: kind -> error code, kind -> HTTP status")
    for fname, valf, ty, fmt in (("error_code", val_code, "String", lambda v: json.dumps(v)), ("http_status", val_status, "Nat", str)):
        key = f"error.{fname}"
        tab = None
        try:
            tab = read_match_table(src["error"], fname, consts["error"], valf) if src["error"] else None
        except Exception:                                           # noqa
            tab = None
        if tab is None:
            emit(f"def {key} : Option (ErrKind → {ty}) := none")
            items[key] = "unreadable"
        else:
            emit(f"def {key} : Option (ErrKind → {ty}) := some fun")
            for k in KINDS:
                emit(f"  | .{k} => {fmt(tab[k])}")
            items[key] = "read"

    emit("-- src/canonical.rs: byte-level helpers")
    key = "canonical.is_rfc3986_unreserved"
    term = None
    try:
        params, body = fn_body(src["canonical"], "is_rfc3986_unreserved")
        var = single_u8_param(params)
        if var and body and not any(t.k == "p" and t.v in (";", "{") for t in body):
            term = translate_u8_expr(body, var, {})
    except Exception:                                               # noqa
        term = None
    if term:
        emit(f"def {key} : Option (UInt8 → Bool) := some fun {var} => {term}")
        items[key] = "read"
    else:
        emit(f"def {key} : Option (UInt8 → Bool) := none")
        items[key] = "unreadable"

    key = "canonical.u8_to_upper_hex"
    term = None
    try:
        params, body = fn_body(src["canonical"], "u8_to_upper_hex")
        var = single_u8_param(params)
        hexd = consts["canonical"].get("HEX_DIGITS_UPPER")
        if var and body and hexd and hexd[0] == "array":
            # accept `let r: [u8; 2] = [e1, e2]; r`  or  `[e1, e2]`
            b = body
            if b[0].v == "let":
                i = find_seq(b, [("p", "=")])
                semi = find_seq(b, [("p", ";")], i)
                name = b[1].v if b[1].v != "mut" else b[2].v
                if [t.v for t in b[semi + 1:]] != [name]:
                    raise ExprErr("shape")
                b = b[i + 1:semi]
            if b[0].v == "[" and matching(b, 0) == len(b) - 1:
                inner, parts, depth, cur = b[1:-1], [], 0, []
                for t in inner:
                    if t.k == "p" and t.v in "([": depth += 1
                    if t.k == "p" and t.v in ")]": depth -= 1
                    if t.k == "p" and t.v == "," and depth == 0:
                        parts.append(cur); cur = []
                    else:
                        cur.append(t)
                if cur: parts.append(cur)
                tab = {"HEX_DIGITS_UPPER": lean_bytes(hexd[1])}
                term = "[" + ", ".join(translate_u8_expr(p, var, tab) for p in parts) + "]"
    except Exception:                                               # noqa
        term = None
    if term:
        emit(f"def {key} : Option (UInt8 → Bytes) := some fun {var} => {term}")
        items[key] = "read"
    else:
        emit(f"def {key} : Option (UInt8 → Bytes) := none")
        items[key] = "unreadable"

    emit("-- regular expressions (`Regex::new(<literal>)`): (anchored at start, anchored at end, pattern)")
    regs = {}
    for f in ("chronoutil", "canonical"):
        if src[f]:
            try:
                regs[f] = read_regexes(src[f])
            except Exception:                                       # noqa
                regs[f] = {}
    for f, name in (("chronoutil", "ISO_8601_REGEX"), ("canonical", "MULTISLASH")):
        key = f"{f}.{name}"
        lit = regs.get(f, {}).get(name)
        term = None
        if lit is not None:
            try:
                term = parse_regex(lit)
            except Exception as ex:                                 # noqa
                term = None
        if term:
            a, b, body = term
            emit(f"def {key} : Option (Bool × Bool × RE) := some ({str(a).lower()}, {str(b).lower()},")
            emit(f"  {body})")
            items[key] = "read"
        else:
            emit(f"def {key} : Option (Bool × Bool × RE) := none")
            items[key] = "unreadable"

    header = [
        "/-",
        "  GENERATED by /verif/srcgen/srcgen.py from /repo/src — do not edit; regenerated on every run of ./check.",
        "  Each definition is `some v` when the item could be read from the source, `none` otherwise.",
        "-/",
        "import SigV4.Source.RE",
        "import SigV4.Source.Rust",
        "",
        "namespace SigV4.Src",
        "",
    ]
    return "\n".join(header + lines + ["", "end SigV4.Src", ""]), items


LEAF_FNS = ["latin1_to_string", "normalize_header_value", "trim_ascii_start", "trim_ascii_end", "trim_ascii"]
LEAF_TYPES = {"latin1_to_string": "Nat → Bytes → Option Rust.Str", "normalize_header_value": "Nat → Bytes → Option Bytes",
              "trim_ascii_start": "Nat → Bytes → Option Bytes", "trim_ascii_end": "Nat → Bytes → Option Bytes",
              "trim_ascii": "Nat → Bytes → Option Bytes"}

def generate_fns(repo):
    """SigV4/Source/GeneratedFns.lean: the leaf functions of src/canonical.rs translated statement by statement."""
    import rustlite
    items, defs, wraps = {}, [], []
    try:
        toks = lex(open(os.path.join(repo, "src", "canonical.rs"), encoding="utf-8").read())
    except Exception:                                               # noqa
        toks = None
    known = {}
    for name in LEAF_FNS:
        key = f"canonical.{name}"
        text = None
        if toks is not None:
            try:
                sig = fn_sig(toks, name)
                if sig is not None:
                    text, ty = rustlite.translate_fn(name, sig[0], sig[1], sig[2], known)
                    want = LEAF_TYPES[name]
                    got = "Nat → " + " → ".join(rustlite.LEAN_TY[t] for t in ty[0]) + " → Option " + rustlite.LEAN_TY[ty[1]]
                    if got != want:
                        text = None
                    else:
                        known[name] = ty
            except Exception as ex:                                 # noqa
                text = None
        if text:
            defs.append(text + "\n")
            wraps.append(f"def canonical.{name}? : Option ({LEAF_TYPES[name]}) := some fn.{name}")
            items[key] = "read"
        else:
            defs.append(f"def {name} : {LEAF_TYPES[name]} := fun _ _ => none   -- stub: the function is outside the translator's subset on this tree\n")
            wraps.append(f"def canonical.{name}? : Option ({LEAF_TYPES[name]}) := none   -- outside the translator's subset on this tree")
            items[key] = "unreadable"
    header = [
        "/-",
        "  GENERATED by /verif/srcgen/srcgen.py (rustlite.py) from /repo/src/canonical.rs — do not edit; regenerated on",
        "  every run of ./check.  Each function is the statement-by-statement translation of the Rust function of the same",
        "  name into Lean's `do` notation in the `Option` monad; `fuel` bounds every `while` loop (`none` = fuel exhausted).",
        "-/",
        "import SigV4.Source.Rust",
        "",
        "set_option linter.unusedVariables false",
        "",
        "namespace SigV4.Src.fn",
        "",
    ]
    text = "\n".join(header + defs + ["end SigV4.Src.fn", "", "namespace SigV4.Src", ""] + wraps + ["", "end SigV4.Src", ""])
    return text, items


OUT_FNS = ["normalize_uri_element", "normalize_query_string_element", "normalize_uri_path_component", "canonicalize_uri_path",
           "query_string_to_normalized_map", "unescape_uri_encoding"]
OUT_TYPES = {"normalize_uri_element": "Nat → Bytes → UriElement → Outcome Bytes", "normalize_query_string_element": "Nat → Bytes → Outcome Bytes",
             "normalize_uri_path_component": "Nat → Bytes → Outcome Bytes", "canonicalize_uri_path": "Nat → Bytes → Bool → Outcome Bytes",
             "query_string_to_normalized_map": "Nat → Bytes → Outcome (List (Bytes × List Bytes))",
             "unescape_uri_encoding": "Nat → Bytes → Outcome Bytes"}
OUT_STUB = {"normalize_uri_element": "fun _ _ _ => .panic \"untranslated\"", "normalize_query_string_element": "fun _ _ => .panic \"untranslated\"",
            "normalize_uri_path_component": "fun _ _ => .panic \"untranslated\"", "canonicalize_uri_path": "fun _ _ _ => .panic \"untranslated\"",
            "query_string_to_normalized_map": "fun _ _ => .panic \"untranslated\"", "unescape_uri_encoding": "fun _ _ => .panic \"untranslated\""}

def read_enum(toks, name):
    """`enum Name { A, B, … }` (unit variants only) -> [A, B, …] or None."""
    i = find_seq(toks, [("id", "enum"), ("id", name), ("p", "{")])
    if i < 0:
        return None
    e = matching(toks, i + 2)
    out = []
    for t in toks[i + 3:e]:
        if t.k == "id":
            out.append(t.v)
        elif not (t.k == "p" and t.v == ","):
            return None
    return out

def generate_fns_o(repo):
    """SigV4/Source/GeneratedFnsO.lean: Result-returning functions of src/canonical.rs in the model's Outcome monad."""
    import rustout, rustlite
    items, defs, wraps = {}, [], []
    try:
        toks = lex(open(os.path.join(repo, "src", "canonical.rs"), encoding="utf-8").read())
    except Exception:                                               # noqa
        toks = None
    ctx = {"enums": {}, "pure": {}, "monadic": {}, "regexes": {}, "consts": {}}
    pre = []
    if toks is not None:
        try:
            ev = read_enum(toks, "UriElement")
            if ev == ["Path", "Query"]:
                ctx["enums"]["UriElement"] = ev
            consts = read_consts(toks)
            ctx["consts"] = {k: v[1] for k, v in consts.items() if v[0] == "bytes"}
            # pure byte helpers (re-read here so that this file stands on its own)
            params, body = fn_body(toks, "is_rfc3986_unreserved")
            var = single_u8_param(params)
            if var and not any(t.k == "p" and t.v in (";", "{") for t in body):
                pre.append(f"def is_rfc3986_unreserved ({var} : UInt8) : Bool := {translate_u8_expr(body, var, {})}\n")
                ctx["pure"]["is_rfc3986_unreserved"] = (["u8"], "bool")
            hexd = consts.get("HEX_DIGITS_UPPER")
            sig = fn_sig(toks, "u8_to_upper_hex")
            if hexd and hexd[0] == "array" and sig:
                var = single_u8_param(sig[0])
                b = sig[2]
                if b[0].v == "let":
                    i = find_seq(b, [("p", "=")]); semi = find_seq(b, [("p", ";")], i)
                    b = b[i + 1:semi]
                if var and b[0].v == "[" and matching(b, 0) == len(b) - 1:
                    inner, parts, depth, cur = b[1:-1], [], 0, []
                    for t in inner:
                        if t.k == "p" and t.v in "([": depth += 1
                        if t.k == "p" and t.v in ")]": depth -= 1
                        if t.k == "p" and t.v == "," and depth == 0:
                            parts.append(cur); cur = []
                        else:
                            cur.append(t)
                    if cur: parts.append(cur)
                    tab = {"HEX_DIGITS_UPPER": lean_bytes(hexd[1])}
                    pre.append(f"def u8_to_upper_hex ({var} : UInt8) : Bytes := [" + ", ".join(translate_u8_expr(q, var, tab) for q in parts) + "]\n")
                    ctx["pure"]["u8_to_upper_hex"] = (["u8"], "vec")
            regs = read_regexes(toks)
            if "MULTISLASH" in regs:
                a, b_, body = parse_regex(regs["MULTISLASH"])
                if not a and not b_:
                    ctx["regexes"]["MULTISLASH"] = body
        except Exception:                                           # noqa
            pass
    for name in OUT_FNS:
        key = f"canonical.{name}"
        text = None
        if toks is not None:
            try:
                sig = fn_sig(toks, name)
                if sig is not None:
                    text, ty = rustout.translate_result_fn(name, sig[0], sig[1], sig[2], ctx)
                    got = "Nat → " + " → ".join(rustout.lean_ty(t).replace("Rust.", "") for t in ty[0]) + " → Outcome " + (rustout.lean_ty(ty[1]) if " " not in rustout.lean_ty(ty[1]) else "(" + rustout.lean_ty(ty[1]) + ")")
                    if got != OUT_TYPES[name]:
                        text = None
                    else:
                        ctx["monadic"][name] = ty
            except Exception as ex:                                 # noqa
                if os.environ.get("SRCGEN_DEBUG"):
                    print("rustout:", name, ex)
                text = None
        if text:
            defs.append(text.replace("Rust.UriElement", "UriElement") + "\n")
            wraps.append(f"def canonical.{name}? : Option ({OUT_TYPES[name].replace('UriElement', 'fnO.UriElement')}) := some fnO.{name}")
            items[key] = "read"
        else:
            defs.append(f"def {name} : {OUT_TYPES[name]} := {OUT_STUB[name]}   -- stub: outside the translator's subset on this tree\n")
            wraps.append(f"def canonical.{name}? : Option ({OUT_TYPES[name].replace('UriElement', 'fnO.UriElement')}) := none   -- outside the translator's subset on this tree")
            items[key] = "unreadable"
    # src/canonical.rs: canonicalize_query_to_string (plain String result; HashMap entries in representation order, then sorted)
    CQ_TY = "Nat → List (Bytes × List Bytes) → Outcome Bytes"
    textq = None
    try:
        qctx = {"enums": {}, "pure": {}, "monadic": {}, "regexes": {}, "consts": ctx["consts"]}
        sg = fn_sig(toks, "canonicalize_query_to_string")
        if sg is not None:
            textq, ty = rustout.translate_result_fn("canonicalize_query_to_string", sg[0], sg[1], sg[2], qctx)
            got = "Nat → " + " → ".join(rustout.lean_ty(t) for t in ty[0]) + " → Outcome " + rustout.lean_ty(ty[1])
            if got != CQ_TY:
                if os.environ.get("SRCGEN_DEBUG"):
                    print("rustout: canonicalize_query_to_string type", got)
                textq = None
    except Exception as ex:                                         # noqa
        if os.environ.get("SRCGEN_DEBUG"):
            print("rustout: canonicalize_query_to_string", ex)
        textq = None
    if textq:
        defs.append(textq + "\n")
        wraps.append(f"def canonical.canonicalize_query_to_string? : Option ({CQ_TY}) := some fnO.canonicalize_query_to_string")
        items["canonical.canonicalize_query_to_string"] = "read"
    else:
        defs.append(f"def canonicalize_query_to_string : {CQ_TY} := fun _ _ => .panic \"untranslated\"   -- stub: outside the translator's subset on this tree\n")
        wraps.append(f"def canonical.canonicalize_query_to_string? : Option ({CQ_TY}) := none   -- outside the translator's subset on this tree")
        items["canonical.canonicalize_query_to_string"] = "unreadable"
    # src/canonical.rs: CanonicalRequest::canonical_request (the canonical query string, computed by another function, enters as a parameter)
    CR_TY = "Nat → Bytes → Bytes → Bytes → Bytes → List (Bytes × List Bytes) → List Bytes → Outcome Bytes"
    text0 = None
    try:
        getters = {}
        for g, shape in (("request_method", ["&", "self", ".", "request_method"]), ("canonical_path", ["&", "self", ".", "canonical_path"]),
                         ("canonical_query_string", ["canonicalize_query_to_string", "(", "&", "self", ".", "query_parameters", ")"]),
                         ("body_sha256", ["&", "self", ".", "body_sha256"])):
            sg = fn_sig(toks, g)
            if sg is not None and [t.v for t in sg[0]] == ["&", "self"] and [t.v for t in sg[2]] == shape:
                getters[g] = "string"
        if len(getters) == 4:
            cctx = {"enums": {}, "pure": {}, "monadic": {}, "regexes": {}, "consts": {}, "self_getters": getters, "self_fields": {"headers": "map"}}
            sg = fn_sig(toks, "canonical_request")
            if sg is not None:
                text0, ty = rustout.translate_result_fn("canonical_request", sg[0], sg[1], sg[2], cctx)
                got = "Nat → " + " → ".join(rustout.lean_ty(t) for t in ty[0]) + " → Outcome " + rustout.lean_ty(ty[1])
                if got != CR_TY:
                    if os.environ.get("SRCGEN_DEBUG"):
                        print("rustout: canonical_request type", got)
                    text0 = None
    except Exception as ex:                                         # noqa
        if os.environ.get("SRCGEN_DEBUG"):
            print("rustout: canonical_request", ex)
        text0 = None
    if text0:
        defs.append(text0 + "\n")
        wraps.append(f"def canonical.canonical_request? : Option ({CR_TY}) := some fnO.canonical_request")
        items["canonical.canonical_request"] = "read"
    else:
        defs.append(f"def canonical_request : {CR_TY} := fun _ _ _ _ _ _ _ => .panic \"untranslated\"   -- stub: outside the translator's subset on this tree\n")
        wraps.append(f"def canonical.canonical_request? : Option ({CR_TY}) := none   -- outside the translator's subset on this tree")
        items["canonical.canonical_request"] = "unreadable"
    # src/auth.rs: SigV4Authenticator::prevalidate (a method: the two fields it reads through trivial getters become parameters)
    PRE_TY = "Nat → Bytes → Int → Bytes → Bytes → Int → Int → Outcome Unit"
    text = None
    try:
        atoks = lex(open(os.path.join(repo, "src", "auth.rs"), encoding="utf-8").read())
        getters = {}
        for g, gty, shapes in (("credential", "string", (["&", "self", ".", "credential"],)), ("request_timestamp", "time", (["self", ".", "request_timestamp"],))):
            sg = fn_sig(atoks, g)
            if sg is not None and [t.v for t in sg[0]] == ["&", "self"] and [t.v for t in sg[2]] in [list(x) for x in shapes]:
                getters[g] = gty
        if len(getters) == 2:
            actx = {"enums": {}, "pure": {}, "monadic": {}, "regexes": {}, "self_getters": getters,
                    "consts": {k: v[1] for k, v in read_consts(atoks).items() if v[0] == "bytes"}}
            sg = fn_sig(atoks, "prevalidate")
            if sg is not None:
                text, ty = rustout.translate_result_fn("prevalidate", sg[0], sg[1], sg[2], actx)
                got = "Nat → " + " → ".join(rustout.lean_ty(t) for t in ty[0]) + " → Outcome " + rustout.lean_ty(ty[1])
                if got != PRE_TY:
                    text = None
    except Exception as ex:                                         # noqa
        if os.environ.get("SRCGEN_DEBUG"):
            print("rustout: prevalidate", ex)
        text = None
    # src/auth.rs: SigV4Authenticator::get_string_to_sign
    STS_TY = "Nat → Bytes → Bytes → Int → Outcome Bytes"
    text2 = None
    try:
        getters = {}
        for g, gty, shape in (("canonical_request_sha256", "vec", ["self", ".", "canonical_request_sha256"]), ("credential", "string", ["&", "self", ".", "credential"]),
                              ("request_timestamp", "time", ["self", ".", "request_timestamp"])):
            sg = fn_sig(atoks, g)
            if sg is not None and [t.v for t in sg[0]] == ["&", "self"] and [t.v for t in sg[2]] == shape:
                getters[g] = gty
        if len(getters) == 3:
            actx = {"enums": {}, "pure": {}, "monadic": {}, "regexes": {}, "self_getters": getters,
                    "consts": {k: v[1] for k, v in read_consts(atoks).items() if v[0] == "bytes"}}
            sg = fn_sig(atoks, "get_string_to_sign")
            if sg is not None:
                text2, ty = rustout.translate_result_fn("get_string_to_sign", sg[0], sg[1], sg[2], actx)
                got = "Nat → " + " → ".join(rustout.lean_ty(t) for t in ty[0]) + " → Outcome " + rustout.lean_ty(ty[1])
                if got != STS_TY:
                    text2 = None
    except Exception as ex:                                         # noqa
        if os.environ.get("SRCGEN_DEBUG"):
            print("rustout: get_string_to_sign", ex)
        text2 = None
    if text2:
        defs.append(text2 + "\n")
        wraps.append(f"def auth.get_string_to_sign? : Option ({STS_TY}) := some fnO.get_string_to_sign")
        items["auth.get_string_to_sign"] = "read"
    else:
        defs.append(f"def get_string_to_sign : {STS_TY} := fun _ _ _ _ => .panic \"untranslated\"   -- stub: outside the translator's subset on this tree\n")
        wraps.append(f"def auth.get_string_to_sign? : Option ({STS_TY}) := none   -- outside the translator's subset on this tree")
        items["auth.get_string_to_sign"] = "unreadable"
    if text:
        defs.append(text + "\n")
        wraps.append(f"def auth.prevalidate? : Option ({PRE_TY}) := some fnO.prevalidate")
        items["auth.prevalidate"] = "read"
    else:
        defs.append(f"def prevalidate : {PRE_TY} := fun _ _ _ _ _ _ _ => .panic \"untranslated\"   -- stub: outside the translator's subset on this tree\n")
        wraps.append(f"def auth.prevalidate? : Option ({PRE_TY}) := none   -- outside the translator's subset on this tree")
        items["auth.prevalidate"] = "unreadable"
    if "is_rfc3986_unreserved" not in ctx["pure"]:
        pre.append("def is_rfc3986_unreserved (_ : UInt8) : Bool := false   -- stub\n")
    if "u8_to_upper_hex" not in ctx["pure"]:
        pre.append("def u8_to_upper_hex (_ : UInt8) : Bytes := []   -- stub\n")
    header = [
        "/-",
        "  GENERATED by /verif/srcgen/srcgen.py (rustout.py) from /repo/src/canonical.rs — do not edit; regenerated on every",
        "  run of ./check.  Statement-by-statement translations into Lean `do` notation in the model's `Outcome` monad:",
        "  `Err(kind)` is `Outcome.err kind`, an out-of-range index / failed assert / `unwrap` on `None` is `Outcome.panic`,",
        "  `fuel` bounds every `while` loop (`panic \"fuel\"` when exhausted).",
        "-/",
        "import SigV4.Source.RustO",
        "import SigV4.Source.RE",
        "import SigV4.Source.Rust",
        "",
        "set_option linter.unusedVariables false",
        "",
        "namespace SigV4.Src.fnO",
        "",
        "inductive UriElement where",
        "  | Path",
        "  | Query",
        "  deriving DecidableEq, Repr",
        "",
    ]
    text = "\n".join(header + pre + defs + ["end SigV4.Src.fnO", "", "namespace SigV4.Src", ""] + wraps + ["", "end SigV4.Src", ""])
    return text, items


def main():
    repo, out, js = "/repo", None, None
    a = sys.argv[1:]
    while a:
        if a[0] == "--repo": repo = a[1]; a = a[2:]
        elif a[0] == "--out": out = a[1]; a = a[2:]
        elif a[0] == "--json": js = a[1]; a = a[2:]
        else: a = a[1:]
    here = os.path.dirname(os.path.abspath(__file__))
    out = out or os.path.join(here, "..", "lean", "SigV4", "Source", "Generated.lean")
    text, items = generate(repo)
    old = open(out).read() if os.path.exists(out) else None
    if old != text:
        open(out, "w").write(text)
    out2 = os.path.join(os.path.dirname(out), "GeneratedFns.lean")
    text2, items2 = generate_fns(repo)
    old2 = open(out2).read() if os.path.exists(out2) else None
    if old2 != text2:
        open(out2, "w").write(text2)
    items.update(items2)
    out3 = os.path.join(os.path.dirname(out), "GeneratedFnsO.lean")
    text3, items3 = generate_fns_o(repo)
    old3 = open(out3).read() if os.path.exists(out3) else None
    if old3 != text3:
        open(out3, "w").write(text3)
    items.update(items3)
    import keychain
    out4 = os.path.join(os.path.dirname(out), "GeneratedKeys.lean")
    text4, items4 = keychain.generate_keys(sys.modules[__name__], repo)
    old4 = open(out4).read() if os.path.exists(out4) else None
    if old4 != text4:
        open(out4, "w").write(text4)
    items.update(items4)
    if js:
        json.dump({"items": items, "changed": old != text or old2 != text2 or old3 != text3 or old4 != text4}, open(js, "w"), indent=1)
    print("srcgen: %d items read, %d unreadable%s" % (sum(v == "read" for v in items.values()),
          sum(v != "read" for v in items.values()), "" if old == text and old2 == text2 and old3 == text3 and old4 == text4 else " (generated files rewritten)"))


if __name__ == "__main__":
    main()
