/-
  SigV4.Tie.FromSourceKeys — C06 stated about the derivation methods *as translated from /repo/src on this run*:
  tie theorem (generated method = model function) composed with the property theorem about the model.
-/
import SigV4.Tie.Keys
import SigV4.Props.C06

namespace SigV4.Tie.FromSource

open SigV4

/-- C06, from the source: for a key object built from secret `s` (any capacity up to one HMAC block), `to_ksigning` as read
from /repo/src is HMAC(HMAC(HMAC(HMAC("AWS4"+s, YYYYMMDD), region), service), "aws4_request"), for every hash, secret,
date, region and service. -/
theorem to_ksigning_is_sigv4_chain : ∀ f, Src.signing_key.KSecretKey_to_ksigning? = some f →
    ∀ (H : Bytes → Bytes) (M : Nat), M ≤ 64 → ∀ (s : Bytes) (k : SecretKey), secretFromStr M s = .ok k →
    ∀ (date : Int × Int × Int) (region service : Bytes),
      f H k date region service =
        hmac H (hmac H (hmac H (hmac H (AWS4 ++ s) (fmtDate date)) region) service) AWS4_REQUEST := by
  intro f hf H M hM s k hk date region service
  rw [Tie.ksecret_to_ksigning f hf]
  exact (C06.ksigning_spec H M hM s k hk date region service).1

/-- Every way the source offers to reach the signing key gives the same key as the step-by-step derivation. -/
theorem shortcuts_agree : ∀ f1 f2 f3 f4 f5 f6 f7,
    Src.signing_key.KSecretKey_to_ksigning? = some f1 → Src.signing_key.KSecretKey_to_kdate? = some f2 →
    Src.signing_key.KDateKey_to_ksigning? = some f3 → Src.signing_key.KDateKey_to_kregion? = some f4 →
    Src.signing_key.KRegionKey_to_ksigning? = some f5 → Src.signing_key.KRegionKey_to_kservice? = some f6 →
    Src.signing_key.KServiceKey_to_ksigning? = some f7 →
    ∀ (H : Bytes → Bytes) (k : SecretKey) (date : Int × Int × Int) (region service : Bytes),
      let kd := f2 H k date
      let kr := f4 H kd region
      let ks := f6 H kr service
      f1 H k date region service = f7 H ks ∧ f3 H kd region service = f7 H ks ∧ f5 H kr service = f7 H ks := by
  intro f1 f2 f3 f4 f5 f6 f7 h1 h2 h3 h4 h5 h6 h7 H k date region service
  simp only [Tie.ksecret_to_ksigning f1 h1, Tie.ksecret_to_kdate f2 h2, Tie.kdate_to_ksigning f3 h3, Tie.kdate_to_kregion f4 h4,
    Tie.kregion_to_ksigning f5 h5, Tie.kregion_to_kservice f6 h6, Tie.kservice_to_ksigning f7 h7]
  exact ⟨rfl, rfl, rfl⟩

end SigV4.Tie.FromSource

#print axioms SigV4.Tie.FromSource.to_ksigning_is_sigv4_chain
#print axioms SigV4.Tie.FromSource.shortcuts_agree
