//! The Lean model driver as a child process speaking the line protocol.
use std::io::{BufRead, BufReader, Write};
use std::process::{Child, ChildStdin, ChildStdout, Command, Stdio};

pub struct Driver {
    child: Child,
    stdin: Option<ChildStdin>,
    stdout: BufReader<ChildStdout>,
    pub asked: u64,
}

impl Driver {
    pub fn spawn() -> Driver {
        let path = std::env::var("SIGV4_MODEL").unwrap_or_else(|_| "/verif/lean/.lake/build/bin/sigv4model".to_string());
        let mut child = Command::new(&path)
            .stdin(Stdio::piped())
            .stdout(Stdio::piped())
            .spawn()
            .unwrap_or_else(|e| panic!("cannot start model driver {}: {}", path, e));
        let stdin = child.stdin.take();
        let stdout = BufReader::new(child.stdout.take().unwrap());
        Driver { child, stdin, stdout, asked: 0 }
    }

    /// One request, one answer.
    pub fn ask(&mut self, line: &str) -> String {
        let w = self.stdin.as_mut().unwrap();
        w.write_all(line.as_bytes()).unwrap();
        w.write_all(b"\n").unwrap();
        w.flush().unwrap();
        self.read_line()
    }

    fn read_line(&mut self) -> String {
        let mut s = String::new();
        let n = self.stdout.read_line(&mut s).unwrap();
        if n == 0 {
            panic!("model driver closed its output");
        }
        self.asked += 1;
        s.trim_end().to_string()
    }

    /// Many requests pipelined (writer thread avoids pipe deadlock).
    pub fn ask_all(&mut self, lines: &[String]) -> Vec<String> {
        let mut w = self.stdin.take().unwrap();
        let mut out = Vec::with_capacity(lines.len());
        std::thread::scope(|s| {
            let h = s.spawn(move || {
                for l in lines {
                    w.write_all(l.as_bytes()).unwrap();
                    w.write_all(b"\n").unwrap();
                }
                w.flush().unwrap();
                w
            });
            for _ in 0..lines.len() {
                out.push(self.read_line());
            }
            self.stdin = Some(h.join().unwrap());
        });
        out
    }
}

impl Drop for Driver {
    fn drop(&mut self) {
        drop(self.stdin.take());
        let _ = self.child.wait();
    }
}
