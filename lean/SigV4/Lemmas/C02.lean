/- Helper lemmas for C02. -/
import SigV4.Spec.Signer
import SigV4.Lemmas.Uri
import SigV4.Lemmas.Query
import SigV4.Lemmas.Headers
import SigV4.Lemmas.C01
import SigV4.Lemmas.C03
import SigV4.Lemmas.C04
import SigV4.Lemmas.C12
import SigV4.Lemmas.C14
import SigV4.Lemmas.C19

namespace SigV4

/-! ### The canonical request is the reference one -/

theorem c02_canonQuery_merge (A B : List (Bytes × Bytes)) :
    canonQuery (mergeParams (groupPairs (A.map encPair)) (groupPairs (B.map encPair)))
      = refCanonQuery (A ++ B) := by
  rw [← canonQuery_groupPairs]
  apply c12_canonQuery_of_flatten_perm
  refine (c12_flattenMap_mergeParams_perm _ _).trans ?_
  refine List.Perm.trans ?_ (groupPairs_perm' _).symm
  rw [List.map_append]
  exact (groupPairs_perm' _).append (groupPairs_perm' _)

theorem c02_headerBlock (hs : HeaderList) (signed : List Bytes) :
    signed.flatMap (headerLine (normalizeHeaders hs [])) = signed.flatMap (refHeaderLine hs) :=
  flatMap_congr' _ _ _ fun n _ => headerLine_eq_ref hs n

theorem c02_canonicalRequest_eq_ref (H : Bytes → Bytes) (opts : Options) (other : OtherCharset) (req : Request)
    (fp : FromParts) (signed : List Bytes) (h : fromRequestParts H opts other req = .ok fp) :
    refCanonicalRequest H opts other req signed = some (canonicalRequest fp.creq signed) := by
  unfold fromRequestParts at h
  unfold refCanonicalRequest
  rw [canonPath_eq_ref, parseQuery_eq_spec'] at h
  cases hp : refPath true opts.s3 req.path with
  | none => rw [hp] at h; simp [optToOutcome] at h
  | some cp =>
    rw [hp] at h
    cases hq : refQueryPairs (req.query.getD []) with
    | none => rw [hq] at h; simp [optToOutcome] at h
    | some ps =>
      rw [hq] at h
      simp only [optToOutcome, Option.map_some] at h ⊢
      by_cases hf : foldsBody opts req.headers = true
      · simp only [hf, if_true] at h ⊢
        cases hd : decodeFormBody ((contentTypeCharset req.headers).bind (·.2)) other req.body with
        | err k => rw [hd] at h; simp at h
        | panic s => rw [hd] at h; simp at h
        | ok text =>
          rw [hd] at h
          simp only at h ⊢
          rw [parseQuery_eq_spec'] at h
          cases hb : refQueryPairs text with
          | none => rw [hb] at h; simp [optToOutcome] at h
          | some bs =>
            rw [hb] at h
            simp only [optToOutcome, Option.map_some] at h ⊢
            repeat' split at h
            all_goals cases h
            all_goals simp only [canonicalRequest, c02_canonQuery_merge, c02_headerBlock]
      · simp only [hf] at h ⊢
        injection h with h
        subst h
        simp only [canonicalRequest, canonQuery_groupPairs, c02_headerBlock]
        simp

theorem c02_fromRequestParts_complete (H : Bytes → Bytes) (opts : Options) (other : OtherCharset) (req : Request)
    (signed : List Bytes) (creq : Bytes) (h : refCanonicalRequest H opts other req signed = some creq) :
    (∃ fp, fromRequestParts H opts other req = .ok fp) ∨
    (foldsBody opts req.headers = true ∧ fromRequestParts H opts other req = .err .MalformedQueryString) := by
  unfold refCanonicalRequest at h
  unfold fromRequestParts
  rw [canonPath_eq_ref, parseQuery_eq_spec']
  cases hp : refPath true opts.s3 req.path with
  | none => rw [hp] at h; simp at h
  | some cp =>
    rw [hp] at h
    cases hq : refQueryPairs (req.query.getD []) with
    | none => rw [hq] at h; simp at h
    | some ps =>
      rw [hq] at h
      simp only [optToOutcome, Option.map_some] at h ⊢
      by_cases hf : foldsBody opts req.headers = true
      · simp only [hf, if_true] at h ⊢
        cases hd : decodeFormBody ((contentTypeCharset req.headers).bind (·.2)) other req.body with
        | err k => rw [hd] at h; simp at h
        | panic s => rw [hd] at h; simp at h
        | ok text =>
          rw [hd] at h
          simp only at h ⊢
          rw [parseQuery_eq_spec']
          cases hb : refQueryPairs text with
          | none => rw [hb] at h; simp at h
          | some bs =>
            simp only [optToOutcome, Option.map_some]
            generalize (if canonQuery (mergeParams (groupPairs (List.map encPair ps)) (groupPairs (List.map encPair bs))) = [] then cp else _) = pq
            by_cases hl : pq.length > URI_MAX_LEN
            · rw [if_pos hl]; exact .inr ⟨trivial, rfl⟩
            · rw [if_neg hl]; exact .inl ⟨_, rfl⟩
      · simp only [hf]
        exact .inl ⟨_, rfl⟩

theorem c02_spelling_independent (H : Bytes → Bytes) (opts : Options) (other : OtherCharset) (w w' : Request)
    (signed : List Bytes) (ps ps' : List (Bytes × Bytes))
    (hf : foldsBody opts w.headers = false) (hf' : foldsBody opts w'.headers = false)
    (hm : w.method = w'.method) (hp : refPath true opts.s3 w.path = refPath true opts.s3 w'.path)
    (hq : refQueryPairs (w.query.getD []) = some ps) (hq' : refQueryPairs (w'.query.getD []) = some ps')
    (hperm : ps.Perm ps')
    (hh : ∀ n ∈ signed, refHeaderLine w.headers n = refHeaderLine w'.headers n)
    (hb : w.body = w'.body) :
    refCanonicalRequest H opts other w signed = refCanonicalRequest H opts other w' signed := by
  unfold refCanonicalRequest
  rw [hp, hq, hq', hf, hf', hm, hb]
  simp only [Bool.false_eq_true, if_false, refCanonQuery_perm hperm, flatMap_congr' _ _ _ hh]

theorem c02_spelling_examples :
    refPath true false b!"/%61/b%2fc/%7E" = refPath true false b!"/a/b%2Fc/~" ∧
    (refQueryPairs b!"a=b+c&a=%31&%61=x").map List.length = some 3 ∧
    refQueryPairs b!"k=b+c" = refQueryPairs b!"%6b=b%20c" ∧
    refHeaderValue b!"  a   b " = refHeaderValue b!"a b" := by
  decide

/-! ### Completeness -/

theorem c02_accept_of {σ : Type} (H : Bytes → Bytes) (cfg : Config) (P : Provider σ) (s : σ) (req : Request)
    (a : Authenticator) (resp : ProviderResp) (sts : Bytes)
    (ha : authOf H cfg req = .ok a) (hpre : prevalidate a cfg.region cfg.service cfg.now = .ok ())
    (hr : (P.ready s).1 = none)
    (hcall : (P.call (P.ready s).2 (providerReqOf a cfg.region cfg.service)).1 = .ok resp)
    (hsts : stringToSign a = .ok sts) (hsig : a.signature = hexLower (hmac H resp.key sts)) :
    ∃ r, (validate H cfg P s req).out = .ok r := by
  obtain ⟨fp, _, _, hv⟩ := validate_of_authOf_ok H cfg P s req a ha
  rw [hv, validateSignature_of_prevalidate_ok H P s a _ _ _ sts hpre hsts]
  rcases getSigningKey_cases P s a cfg.region cfg.service with
    ⟨e, he, _⟩ | ⟨_, e, he, _⟩ | ⟨_, resp', hcall', hg⟩
  · rw [hr] at he; cases he
  · rw [hcall] at he; cases he
  · rw [hcall] at hcall'
    injection hcall' with hcall'
    subst hcall'
    rw [hg]
    simp only [finish, if_pos hsig, Outcome.map_ok]
    exact ⟨_, rfl⟩

theorem c02_complete {σ : Type} (H : Bytes → Bytes) (cfg : Config) (P : Provider σ) (s : σ) (req : Request)
    (fp : FromParts) (ap : AuthParams) (t : Int) (ak creq : Bytes) (resp : ProviderResp)
    (hfp : fromRequestParts H cfg.opts cfg.other req = .ok fp)
    (hap : extractAuthParams fp.creq = .ok ap)
    (hreq : requirementsMet cfg.reqs fp.creq.headers ap.signedHeaders = true)
    (ht : parseIso ap.timestampStr = some t) (hw : inWindow t cfg.now) (hrep : nowRepresentable cfg.now)
    (hcred : splitOn 0x2F ap.credential = [ak, fmtDate (utcDate t), cfg.region, cfg.service, b!"aws4_request"])
    (hready : (P.ready s).1 = none)
    (hkey : (P.call (P.ready s).2 (ProviderReq.mk ak ap.sessionToken (utcDate t) cfg.region cfg.service)).1 = .ok resp)
    (hcreq : refCanonicalRequest H cfg.opts cfg.other req ap.signedHeaders = some creq)
    (hsig : ap.signature = refSignature H resp.key t (fmtDate (utcDate t)) cfg.region cfg.service creq) :
    ∃ r, (validate H cfg P s req).out = .ok r := by
  let a : Authenticator :=
    { creqSha := H (canonicalRequest fp.creq ap.signedHeaders), credential := ap.credential,
      sessionToken := ap.sessionToken, signature := ap.signature, timestamp := t }
  have ha : authOf H cfg req = .ok a := by
    unfold authOf
    rw [hfp]
    simp only [getAuthenticator, getAuthParams, hap, hreq, if_true, authenticatorOf, ht]
    rfl
  have hcred' : splitOn 0x2F a.credential =
      [ak, fmtDate (utcDate a.timestamp), cfg.region, cfg.service, b!"aws4_request"] := hcred
  have hpre : prevalidate a cfg.region cfg.service cfg.now = .ok () := by
    rw [prevalidate_eq_scopeCheck_of_inWindow a cfg.region cfg.service cfg.now hrep hw]
    exact (scopeCheck_ok_iff' a cfg.region cfg.service).2 ⟨ak, hcred'⟩
  have hsts := c01_stringToSign_of_five a ak _ _ _ _ hcred'
  have hsf := c01_splitFirst_of_splitOn 0x2F a.credential ak _ _ hcred'
  have hce := c02_canonicalRequest_eq_ref H cfg.opts cfg.other req fp ap.signedHeaders hfp
  rw [hcreq] at hce
  injection hce with hce
  refine c02_accept_of H cfg P s req a resp _ ha hpre hready ?_ hsts ?_
  · simp only [providerReqOf, hsf]
    exact hkey
  · show ap.signature = _
    rw [hsig, hce]
    rfl

/-! ### The query carrier -/

theorem c02_unescapeUri_pct (h1 h2 a b : UInt8) (rest : Bytes)
    (ha : hexVal h1 = some a) (hb : hexVal h2 = some b) :
    unescapeUri (0x25 :: h1 :: h2 :: rest) = (unescapeUri rest).map (latin1Byte (a * 16 + b) ++ ·) := by
  rw [unescapeUri.eq_def]; simp [radix16Pair_of_hexVal ha hb]

theorem c02_unescapeUri_other (c : UInt8) (rest : Bytes) (h : c ≠ 0x25) :
    unescapeUri (c :: rest) = (unescapeUri rest).map (latin1Byte c ++ ·) := by
  rw [unescapeUri.eq_def]; simp [h]

theorem c02_unescapeUri_pctEncodeAll (v : Bytes) :
    unescapeUri (pctEncodeAll v) = .ok (latin1ToString v) := by
  induction v with
  | nil => simp [pctEncodeAll_nil, unescapeUri, latin1ToString]
  | cons x d ih =>
    rw [pctEncodeAll_cons]
    by_cases hx : isUnreserved x = true
    · obtain ⟨h1, -, -, -⟩ := unreserved_facts x hx
      simp only [hx, if_true, List.singleton_append]
      rw [c02_unescapeUri_other _ _ h1, ih]
      simp [latin1ToString]
    · obtain ⟨f1, f2, f3, -⟩ := pctEncode_facts x
      simp only [hx, pctEncode]
      show unescapeUri (37 :: _ :: _ :: pctEncodeAll d) = _
      rw [c02_unescapeUri_pct _ _ _ _ _ f1 f2, ih, f3]
      simp [latin1ToString]

theorem c02_latin1ToString_ascii (v : Bytes) (h : ∀ x ∈ v, x < 0x80) : latin1ToString v = v := by
  induction v with
  | nil => rfl
  | cons x d ih =>
    have hx : x < 0x80 := h x (by simp)
    have := ih (fun y hy => h y (by simp [hy]))
    unfold latin1ToString at this ⊢
    simp only [List.flatMap_cons, this, latin1Byte, hx, if_true, List.singleton_append]

theorem c02_firstOf_groupPairs (l : List (Bytes × Bytes)) (k : Bytes) :
    firstOf (groupPairs l) k = (l.find? fun kv => kv.1 = k).map (·.2) := by
  unfold firstOf
  rw [groupPairs_get, ← List.head?_filter]
  cases List.filter (fun kv : Bytes × Bytes => decide (kv.1 = k)) l <;> simp

theorem c02_find_encPair (pairs : List (Bytes × Bytes)) (name : Bytes) (hname : pctEncodeAll name = name) :
    ((pairs.map encPair).find? fun kv => kv.1 = name) = (pairs.find? fun kv => kv.1 = name).map encPair := by
  induction pairs with
  | nil => rfl
  | cons p ps ih =>
    simp only [List.map_cons, List.find?_cons]
    by_cases hp : p.1 = name
    · have : (encPair p).1 = name := by simp [encPair, hp, hname]
      simp [hp, this]
    · have : (encPair p).1 ≠ name := by
        intro he
        apply hp
        apply pctEncodeAll_inj
        rw [hname]
        exact he
      simp [hp, this, ih]

theorem c02_query_carrier_decoded (q : Bytes) (m : QueryMap) (name value : Bytes) (pairs : List (Bytes × Bytes))
    (hq : parseQuery q = .ok m) (hp : refQueryPairs q = some pairs)
    (hfirst : (pairs.find? fun kv => kv.1 = name) = some (name, value))
    (hname : pctEncodeAll name = name) (hascii : ∀ x ∈ value, x < 0x80) :
    ∃ v, firstOf m name = some v ∧ unescapeUri v = .ok value := by
  rw [parseQuery_eq_spec', hp] at hq
  simp only [Option.map_some, optToOutcome, Outcome.ok.injEq] at hq
  subst hq
  refine ⟨pctEncodeAll value, ?_, ?_⟩
  · rw [c02_firstOf_groupPairs, c02_find_encPair _ _ hname, hfirst]
    rfl
  · rw [c02_unescapeUri_pctEncodeAll, c02_latin1ToString_ascii _ hascii]

/-! ### The header carrier -/

theorem c02_splitFirst_append_sep (sep : UInt8) (x r : Bytes) (h : sep ∉ x) :
    splitFirst sep (x ++ sep :: r) = (x, some r) := by
  induction x with
  | nil => simp [splitFirst]
  | cons c x ih =>
    simp only [List.mem_cons, not_or] at h
    rw [List.cons_append, splitFirst, if_neg (Ne.symm h.1), ih h.2]

theorem c02_splitOn_commaSpace (x : Bytes) (l : List Bytes) (h : ∀ y ∈ x :: l, (0x2C : UInt8) ∉ y) :
    splitOn 0x2C (joinWith [0x2C, 0x20] (x :: l)) = x :: l.map (0x20 :: ·) := by
  induction l generalizing x with
  | nil => simpa [joinWith] using splitOn_no_sep 0x2C x (h x List.mem_cons_self)
  | cons y rest ih =>
    rw [joinWith_cons_cons]
    have e : x ++ [0x2C, 0x20] ++ joinWith [0x2C, 0x20] (y :: rest)
        = x ++ 0x2C :: (0x20 :: joinWith [0x2C, 0x20] (y :: rest)) := by simp
    rw [e, splitOn_append_sep _ _ _ (h x List.mem_cons_self)]
    obtain ⟨hd, tl, e1, e2⟩ := splitOn_cons_ne 0x2C 0x20 (joinWith [0x2C, 0x20] (y :: rest)) (by decide)
    rw [ih y (fun z hz => h z (List.mem_cons_of_mem _ hz))] at e1
    injection e1 with e1 e1'
    subst e1; subst e1'
    rw [e2]
    rfl

/-! ### trimming -/

theorem c02_trimAscii_eq_self (s : Bytes) (hh : ∀ c, s.head? = some c → isAsciiWs c = false)
    (hl : ∀ c, s.getLast? = some c → isAsciiWs c = false) : trimAscii s = s := by
  have h1 : trimAsciiStart s = s := by
    cases s with
    | nil => rfl
    | cons a t =>
      have := hh a rfl
      simp [trimAsciiStart, this]
  unfold trimAscii trimAsciiEnd
  rw [h1]
  exact dropWhileEnd_eq_self _ _ hl

theorem c02_trimAscii_noWs (p : Bytes) (h : ∀ x ∈ p, isAsciiWs x = false) : trimAscii p = p := by
  apply c02_trimAscii_eq_self
  · intro c hc
    exact h c (List.mem_of_mem_head? hc)
  · intro c hc
    exact h c (List.mem_of_getLast? hc)

theorem c02_trimAscii_space_cons (p : Bytes) : trimAscii (0x20 :: p) = trimAscii p := by
  have : isAsciiWs 0x20 = true := by decide
  simp [trimAscii, trimAsciiStart, this]

theorem c02_joinWith_getLast (sep : Bytes) (l : List Bytes) (hne : ∀ x ∈ l, x ≠ []) (hl : l ≠ []) :
    joinWith sep l ≠ [] ∧ ∀ c, (joinWith sep l).getLast? = some c → ∃ x ∈ l, c ∈ x := by
  induction l with
  | nil => exact absurd rfl hl
  | cons x l ih =>
    cases l with
    | nil =>
      simp only [joinWith]
      exact ⟨hne x List.mem_cons_self, fun c hc => ⟨x, List.mem_cons_self, List.mem_of_getLast? hc⟩⟩
    | cons y rest =>
      obtain ⟨i1, i2⟩ := ih (fun z hz => hne z (List.mem_cons_of_mem _ hz)) (by simp)
      rw [joinWith_cons_cons]
      refine ⟨by simp [i1], fun c hc => ?_⟩
      rw [List.getLast?_append] at hc
      cases hg : (joinWith sep (y :: rest)).getLast? with
      | none => exact absurd (List.getLast?_eq_none_iff.1 hg) i1
      | some d =>
        rw [hg] at hc
        injection hc with hc
        subst hc
        obtain ⟨z, hz, hcz⟩ := i2 d hg
        exact ⟨z, List.mem_cons_of_mem _ hz, hcz⟩

/-! ### the parameter loop -/

theorem c02_loop_ok (l : List Bytes) (m0 : List (Bytes × Bytes))
    (h : ∀ p ∈ l, ∃ k v, splitFirst 0x3D (trimAscii p) = (k, some v)) :
    ∃ m, authHeaderParamLoop l m0 = .ok m := by
  induction l generalizing m0 with
  | nil => exact ⟨m0, by simp [authHeaderParamLoop]⟩
  | cons p rest ih =>
    obtain ⟨k, v, hkv⟩ := h p List.mem_cons_self
    have hrest := fun q hq => h q (List.mem_cons_of_mem _ hq)
    unfold authHeaderParamLoop
    simp only
    split
    · exact ih _ hrest
    · rw [hkv]
      exact ih _ hrest

theorem c02_findSome_unique {α β : Type} (f : α → Option β) (l : List α) (v : β)
    (h1 : ∀ x ∈ l, f x = some v ∨ f x = none) (h2 : ∃ x ∈ l, f x = some v) :
    l.findSome? f = some v := by
  induction l with
  | nil => obtain ⟨x, hx, _⟩ := h2; simp at hx
  | cons a t ih =>
    rw [List.findSome?_cons]
    rcases h1 a List.mem_cons_self with ha | ha
    · rw [ha]
    · rw [ha]
      apply ih (fun x hx => h1 x (List.mem_cons_of_mem _ hx))
      obtain ⟨x, hx, hfx⟩ := h2
      rcases List.mem_cons.1 hx with rfl | hx
      · rw [ha] at hfx; cases hfx
      · exact ⟨x, hx, hfx⟩

def c02_render (kv : Bytes × Bytes) : Bytes := kv.1 ++ 0x3D :: kv.2

theorem c02_paramSel_of_trim (k : Bytes) (p : Bytes) (kv : Bytes × Bytes) (hk : (0x3D : UInt8) ∉ kv.1)
    (h : trimAscii p = c02_render kv) : paramSel k p = if kv.1 = k then some kv.2 else none := by
  unfold paramSel
  rw [h, c02_render, c02_splitFirst_append_sep _ _ _ hk]

/-- The loop over the comma-split parameter text of any ordering of distinct `key=value`
parameters whose bytes are neither whitespace nor commas delivers every value. -/
theorem c02_loop_delivers (kvs : List (Bytes × Bytes)) (ps : List Bytes) (hps : ps ≠ [])
    (hperm : ps.Perm (kvs.map c02_render))
    (hkey : ∀ kv ∈ kvs, (0x3D : UInt8) ∉ kv.1)
    (hbytes : ∀ kv ∈ kvs, ∀ x ∈ c02_render kv, isAsciiWs x = false ∧ x ≠ 0x2C)
    (hinj : ∀ kv ∈ kvs, ∀ kv' ∈ kvs, kv.1 = kv'.1 → kv.2 = kv'.2) :
    ∃ m, authHeaderParamLoop (splitOn 0x2C (joinWith [0x2C, 0x20] ps)) [] = .ok m ∧
      ∀ kv ∈ kvs, assocGet m kv.1 = some kv.2 := by
  obtain ⟨p0, rest, rfl⟩ := List.exists_cons_of_ne_nil hps
  have hmem : ∀ p, p ∈ p0 :: rest ↔ ∃ kv ∈ kvs, p = c02_render kv := by
    intro p
    rw [hperm.mem_iff, List.mem_map]
    constructor
    · rintro ⟨kv, h1, h2⟩; exact ⟨kv, h1, h2.symm⟩
    · rintro ⟨kv, h1, h2⟩; exact ⟨kv, h1, h2.symm⟩
  have hnc : ∀ y ∈ p0 :: rest, (0x2C : UInt8) ∉ y := by
    intro y hy hc
    obtain ⟨kv, hkv, rfl⟩ := (hmem y).1 hy
    exact (hbytes kv hkv _ hc).2 rfl
  rw [c02_splitOn_commaSpace p0 rest hnc]
  -- every piece trims to a rendered parameter
  have hA : ∀ p' ∈ p0 :: rest.map (0x20 :: ·), ∃ kv ∈ kvs, trimAscii p' = c02_render kv := by
    intro p' hp'
    rcases List.mem_cons.1 hp' with rfl | hp'
    · obtain ⟨kv, hkv, e⟩ := (hmem p').1 List.mem_cons_self
      refine ⟨kv, hkv, ?_⟩
      rw [e]
      exact c02_trimAscii_noWs _ fun x hx => (hbytes kv hkv x hx).1
    · obtain ⟨q, hq, rfl⟩ := List.mem_map.1 hp'
      obtain ⟨kv, hkv, e⟩ := (hmem q).1 (List.mem_cons_of_mem _ hq)
      refine ⟨kv, hkv, ?_⟩
      rw [c02_trimAscii_space_cons, e]
      exact c02_trimAscii_noWs _ fun x hx => (hbytes kv hkv x hx).1
  have hB : ∀ kv ∈ kvs, ∃ p' ∈ p0 :: rest.map (0x20 :: ·), trimAscii p' = c02_render kv := by
    intro kv hkv
    have hm := (hmem (c02_render kv)).2 ⟨kv, hkv, rfl⟩
    have ht : trimAscii (c02_render kv) = c02_render kv :=
      c02_trimAscii_noWs _ fun x hx => (hbytes kv hkv x hx).1
    rcases List.mem_cons.1 hm with e | hm
    · exact ⟨p0, List.mem_cons_self, by rw [← e, ht]⟩
    · refine ⟨0x20 :: c02_render kv, List.mem_cons_of_mem _ (List.mem_map.2 ⟨_, hm, rfl⟩), ?_⟩
      rw [c02_trimAscii_space_cons, ht]
  obtain ⟨m, hm⟩ := c02_loop_ok (p0 :: rest.map (0x20 :: ·)) [] (by
    intro p' hp'
    obtain ⟨kv, hkv, e⟩ := hA p' hp'
    exact ⟨kv.1, kv.2, by rw [e, c02_render, c02_splitFirst_append_sep _ _ _ (hkey kv hkv)]⟩)
  refine ⟨m, hm, fun kv hkv => ?_⟩
  rw [authHeaderParamLoop_get _ _ _ kv.1 hm]
  have : List.findSome? (paramSel kv.1) (p0 :: rest.map (0x20 :: ·)).reverse = some kv.2 := by
    apply c02_findSome_unique
    · intro p' hp'
      obtain ⟨kv', hkv', e⟩ := hA p' (List.mem_reverse.1 hp')
      rw [c02_paramSel_of_trim _ _ kv' (hkey kv' hkv') e]
      by_cases hk : kv'.1 = kv.1
      · left; rw [if_pos hk, hinj kv' hkv' kv hkv hk]
      · right; rw [if_neg hk]
    · obtain ⟨p', hp', e⟩ := hB kv hkv
      refine ⟨p', List.mem_reverse.2 hp', ?_⟩
      rw [c02_paramSel_of_trim _ _ kv (hkey kv hkv) e, if_pos rfl]
  rw [this]
  rfl

theorem c02_authValueByte_facts : ∀ x : UInt8, isAuthValueByte x = true →
    x < 0x80 ∧ isAsciiWs x = false ∧ x ≠ 0x2C := by
  apply u8_forall; decide +kernel

theorem c02_map_latin1_ascii (l : List Bytes) (h : ∀ s ∈ l, ∀ x ∈ s, x < 0x80) :
    l.map latin1ToString = l := by
  induction l with
  | nil => rfl
  | cons a t ih =>
    rw [List.map_cons, c02_latin1ToString_ascii a (h a List.mem_cons_self),
      ih (fun s hs => h s (List.mem_cons_of_mem _ hs))]

theorem c02_header_carrier_extraction (c : CanonReq) (cred sh sig : Bytes) (ps : List Bytes) (date : Bytes)
    (hq : assocGet c.params X_AMZ_ALGORITHM = none)
    (hperm : ps.Perm [b!"Credential=" ++ cred, b!"SignedHeaders=" ++ sh, b!"Signature=" ++ sig])
    (hv : ∀ x ∈ cred ++ sh ++ sig, isAuthValueByte x = true)
    (rest : List Bytes)
    (hah : assocGet c.headers AUTHORIZATION = some ((AWS4_HMAC_SHA256 ++ [0x20] ++ joinWith b!", " ps) :: rest))
    (hdate : (match firstOf c.headers X_AMZ_DATE_LOWER with
              | some d => some d
              | none => firstOf c.headers DATE) = some date) :
    extractAuthParams c = .ok (AuthParams.mk cred sig ((firstOf c.headers X_AMZ_SECURITY_TOKEN_LOWER).map latin1ToString)
        (sortNames (splitOn 0x3B sh)) (latin1ToString date)) := by
  have hvc : ∀ x ∈ cred, isAuthValueByte x = true := fun x hx => hv x (by simp [hx])
  have hvh : ∀ x ∈ sh, isAuthValueByte x = true := fun x hx => hv x (by simp [hx])
  have hvs : ∀ x ∈ sig, isAuthValueByte x = true := fun x hx => hv x (by simp [hx])
  have hperm' : ps.Perm ([(CREDENTIAL, cred), (SIGNED_HEADERS, sh), (SIGNATURE, sig)].map c02_render) := hperm
  have hps : ps ≠ [] := by
    intro h
    rw [h] at hperm
    exact absurd hperm.length_eq (by simp)
  have hlit : ∀ k ∈ [CREDENTIAL, SIGNED_HEADERS, SIGNATURE],
      (0x3D : UInt8) ∉ k ∧ ∀ x ∈ k ++ [0x3D], isAsciiWs x = false ∧ x ≠ 0x2C := by decide
  have hbytes : ∀ k ∈ [CREDENTIAL, SIGNED_HEADERS, SIGNATURE], ∀ v : Bytes,
      (∀ x ∈ v, isAuthValueByte x = true) →
      ∀ x ∈ c02_render (k, v), isAsciiWs x = false ∧ x ≠ 0x2C := by
    intro k hk v hvv x hx
    unfold c02_render at hx
    rcases List.mem_append.1 hx with h1 | h1
    · exact (hlit k hk).2 x (by simp [h1])
    · rcases List.mem_cons.1 h1 with rfl | h1
      · exact (hlit k hk).2 _ (by simp)
      · exact (c02_authValueByte_facts x (hvv x h1)).2
  obtain ⟨m, hm, hget⟩ := c02_loop_delivers
    [(CREDENTIAL, cred), (SIGNED_HEADERS, sh), (SIGNATURE, sig)] ps hps hperm'
    (by
      intro kv hkv
      simp only [List.mem_cons, List.not_mem_nil, or_false] at hkv
      rcases hkv with rfl | rfl | rfl
      · exact (hlit CREDENTIAL (by simp)).1
      · exact (hlit SIGNED_HEADERS (by simp)).1
      · exact (hlit SIGNATURE (by simp)).1)
    (by
      intro kv hkv
      simp only [List.mem_cons, List.not_mem_nil, or_false] at hkv
      rcases hkv with rfl | rfl | rfl
      · exact hbytes CREDENTIAL (by simp) cred hvc
      · exact hbytes SIGNED_HEADERS (by simp) sh hvh
      · exact hbytes SIGNATURE (by simp) sig hvs)
    (by
      have d1 : CREDENTIAL ≠ SIGNED_HEADERS := by decide
      have d2 : CREDENTIAL ≠ SIGNATURE := by decide
      have d3 : SIGNED_HEADERS ≠ SIGNATURE := by decide
      intro kv hkv kv' hkv' he
      simp only [List.mem_cons, List.not_mem_nil, or_false] at hkv hkv'
      rcases hkv with rfl | rfl | rfl <;> rcases hkv' with rfl | rfl | rfl <;>
        first
          | rfl
          | exact absurd he d1 | exact absurd he d2 | exact absurd he d3
          | exact absurd he.symm d1 | exact absurd he.symm d2 | exact absurd he.symm d3)
  have gc := hget (CREDENTIAL, cred) (by simp)
  have gh := hget (SIGNED_HEADERS, sh) (by simp)
  have gs := hget (SIGNATURE, sig) (by simp)
  simp only at gc gh gs
  -- the whole header value is already trimmed
  obtain ⟨jne, jlast⟩ := c02_joinWith_getLast [0x2C, 0x20] ps (by
      intro x hx he
      have := hperm'.mem_iff.1 hx
      simp only [List.map_cons, List.map_nil, List.mem_cons, List.not_mem_nil, or_false] at this
      rcases this with rfl | rfl | rfl <;> simp [c02_render] at he) hps
  have htrim : trimAscii (AWS4_HMAC_SHA256 ++ [0x20] ++ joinWith [0x2C, 0x20] ps)
      = AWS4_HMAC_SHA256 ++ [0x20] ++ joinWith [0x2C, 0x20] ps := by
    apply c02_trimAscii_eq_self
    · intro a ha
      simp [AWS4_HMAC_SHA256] at ha
      subst ha
      decide
    · intro a ha
      rw [List.getLast?_append] at ha
      cases hg : (joinWith [0x2C, 0x20] ps).getLast? with
      | none => exact absurd (List.getLast?_eq_none_iff.1 hg) jne
      | some d =>
        rw [hg] at ha
        injection ha with ha
        subst ha
        obtain ⟨x, hx, hdx⟩ := jlast d hg
        have := hperm'.mem_iff.1 hx
        simp only [List.map_cons, List.map_nil, List.mem_cons, List.not_mem_nil, or_false] at this
        rcases this with rfl | rfl | rfl
        · exact (hbytes CREDENTIAL (by simp) cred hvc d hdx).1
        · exact (hbytes SIGNED_HEADERS (by simp) sh hvh d hdx).1
        · exact (hbytes SIGNATURE (by simp) sig hvs d hdx).1
  have hsf : splitFirst 0x20 (AWS4_HMAC_SHA256 ++ [0x20] ++ joinWith [0x2C, 0x20] ps)
      = (AWS4_HMAC_SHA256, some (joinWith [0x2C, 0x20] ps)) := by
    rw [List.append_assoc, List.singleton_append]
    exact c02_splitFirst_append_sep _ _ _ (by decide)
  have hasc : ∀ v : Bytes, (∀ x ∈ v, isAuthValueByte x = true) → latin1ToString v = v :=
    fun v hvv => c02_latin1ToString_ascii v fun x hx => (c02_authValueByte_facts x (hvv x hx)).1
  unfold extractAuthParams
  rw [hah, hq]
  simp only
  unfold authParamsFromHeader
  simp only [htrim, hsf, ne_eq, not_true_eq_false, if_false, Option.getD_some, hm, gc, gh, gs]
  have hfin : ∀ s ∈ splitOn 0x3B sh, ∀ x ∈ s, x < 0x80 := by
    intro s hs x hx
    exact (c02_authValueByte_facts x (hvh x (splitOn_mem _ _ s hs x hx))).1
  cases hx : firstOf c.headers X_AMZ_DATE_LOWER with
  | some d =>
    rw [hx] at hdate
    simp only [Option.some.injEq] at hdate
    subst hdate
    simp only
    rw [hasc cred hvc, hasc sig hvs, c02_map_latin1_ascii _ hfin]
  | none =>
    rw [hx] at hdate
    simp only at hdate
    simp only [hdate]
    rw [hasc cred hvc, hasc sig hvs, c02_map_latin1_ascii _ hfin]

end SigV4
