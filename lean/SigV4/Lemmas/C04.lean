/- Helper lemmas for C04. -/
import SigV4.Spec.ValidateSpec

namespace SigV4

end SigV4
