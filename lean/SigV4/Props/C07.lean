/-
  Property C07 — the signature comparison is constant-time with respect to the secret expected
  value. PARTIAL: these theorems are about the abstract step semantics of `SigV4.Model.CtEq`
  (one observable step per unit of work); the instruction stream the compiler emits is tied to
  the model by the ptrace trace-comparison run of the harness, which is a test.
-/
import SigV4.Model.CtEq
import SigV4.Model.Validate
import SigV4.Lemmas.CtEq

namespace SigV4.C07

/-- The comparison decides equality. -/
theorem ctEq_correct (a b : Bytes) : (ctEq a b).1 = true ↔ a = b := by
  unfold ctEq
  by_cases h : a.length = b.length
  · have := ctFold_fst_eq_zero a b 0 h
    simp only [h, ne_eq, not_true_eq_false, if_false, beq_iff_eq, this, true_and]
  · have hne : a ≠ b := fun e => h (by rw [e])
    simp [h, hne]

/-- Its step trace depends only on the two lengths, never on the contents. -/
theorem ctEq_trace_length_only (a b a' b' : Bytes) (ha : a.length = a'.length) (hb : b.length = b'.length) :
    (ctEq a b).2 = (ctEq a' b').2 := by
  rw [ctEq_snd, ctEq_snd, ha, hb]

/-- Exact trace: one length test, one xor-or per index, one reduction. -/
theorem ctEq_trace (a b : Bytes) (h : a.length = b.length) :
    (ctEq a b).2 = Step.lenCheck :: List.replicate a.length Step.xorOr ++ [Step.reduce] := by
  rw [ctEq_snd]; simp [h]

/-- Contrast: an early-exit comparison's trace reveals the first differing index, so the step
semantics is able to tell the two kinds of comparison apart (the theorem above is not vacuous). -/
theorem earlyExit_trace_leaks (pre a b : Bytes) (x y : UInt8) (hxy : x ≠ y) :
    (earlyExitEq (pre ++ x :: a) (pre ++ y :: b)).2.length = pre.length + 1 := by
  exact earlyExitEq_prefix pre a b x y hxy

/-- For a fixed request and key, refusing a wrong signature of the correct length takes the same
comparison steps whichever of its characters are wrong. -/
theorem refusal_trace_independent_of_position (expected s s' : Bytes)
    (hs : s.length = expected.length) (hs' : s'.length = expected.length) :
    (ctEq s expected).2 = (ctEq s' expected).2 := by
  rw [ctEq_snd, ctEq_snd, hs, hs']

example : (ctEq b!"abcd" b!"abcx").2 = (ctEq b!"xbcd" b!"abcx").2 := by decide
example : (earlyExitEq b!"abcd" b!"abcx").2.length ≠ (earlyExitEq b!"xbcd" b!"abcx").2.length := by decide

end SigV4.C07

#print axioms SigV4.C07.ctEq_correct
#print axioms SigV4.C07.ctEq_trace_length_only
#print axioms SigV4.C07.ctEq_trace
#print axioms SigV4.C07.earlyExit_trace_leaks
#print axioms SigV4.C07.refusal_trace_independent_of_position
