/-
  SigV4.Source.RE — the fragment of the `regex` crate's pattern language the crate uses, as an
  abstract syntax with a denotational semantics over bytes.

  The patterns themselves are *not* written here: `SigV4/Source/Generated.lean` is regenerated from
  /repo/src on every run by /verif/srcgen/srcgen.py and contains, for every `Regex::new(<literal>)`
  of the crate, the abstract syntax of the literal.  The theorems in `SigV4/Tie/Regex.lean` relate
  those terms to the hand-written scanners of the model (`matchIso`, `collapseSlashes`).

  Semantics.  `RE.Matches r s` is the textbook language semantics (`s ∈ L(r)`).  The crate applies
  the ISO-8601 pattern through `Regex::captures` with both anchors present, i.e. to the whole
  string; `//+` through `Regex::replace_all`, whose meaning (leftmost, non-overlapping; the greedy
  `+` takes the longest run) is `RE.replaceAll` below, defined with the executable derivative matcher
  `RE.matchesB`.  Not modelled: which substring a capture group reports (the ISO pattern is
  unambiguous: every field has fixed width), Unicode classes (the patterns use none after fix
  3b591e9), flags other than `(?x)`.
-/
import SigV4.Model.Basic

namespace SigV4

/-- Abstract syntax. `cls rs` is a byte class: the union of the inclusive ranges `rs`. -/
inductive RE where
  | eps : RE
  | cls : List (UInt8 × UInt8) → RE
  | seq : RE → RE → RE
  | alt : RE → RE → RE
  | star : RE → RE
  | group : RE → RE            -- `( … )`, `(?: … )`, `(?P<name> … )`: no effect on the language
  deriving Repr, DecidableEq, Inhabited

namespace RE

/-- The empty language (an empty class). -/
def empty : RE := cls []

/-- A single byte. -/
def byte (c : UInt8) : RE := cls [(c, c)]

/-- `r+`. -/
def plus (r : RE) : RE := seq r (star r)

/-- `r?`. -/
def opt (r : RE) : RE := alt r eps

/-- `r{n}`. -/
def rep (r : RE) : Nat → RE
  | 0 => eps
  | n + 1 => seq r (rep r n)

/-- Concatenation / alternation of a list of pieces (right-nested; `seqs [] = eps`, `alts [] = empty`). -/
def seqs : List RE → RE
  | [] => eps
  | [r] => r
  | r :: rs => seq r (seqs rs)

def alts : List RE → RE
  | [] => empty
  | [r] => r
  | r :: rs => alt r (alts rs)

def inClass (rs : List (UInt8 × UInt8)) (c : UInt8) : Bool := rs.any fun lh => lh.1 ≤ c && c ≤ lh.2

/-- `s ∈ L(r)`. -/
inductive Matches : RE → Bytes → Prop where
  | eps : Matches .eps []
  | cls {rs c} : inClass rs c = true → Matches (.cls rs) [c]
  | seq {a b s t} : Matches a s → Matches b t → Matches (.seq a b) (s ++ t)
  | altL {a b s} : Matches a s → Matches (.alt a b) s
  | altR {a b s} : Matches b s → Matches (.alt a b) s
  | starNil {a} : Matches (.star a) []
  | starCons {a s t} : Matches a s → Matches (.star a) t → Matches (.star a) (s ++ t)
  | group {a s} : Matches a s → Matches (.group a) s

/-! ### Executable matcher (Brzozowski derivatives) -/

def nullable : RE → Bool
  | .eps => true
  | .cls _ => false
  | .seq a b => nullable a && nullable b
  | .alt a b => nullable a || nullable b
  | .star _ => true
  | .group a => nullable a

def deriv (c : UInt8) : RE → RE
  | .eps => empty
  | .cls rs => if inClass rs c then .eps else empty
  | .seq a b => if nullable a then .alt (.seq (deriv c a) b) (deriv c b) else .seq (deriv c a) b
  | .alt a b => .alt (deriv c a) (deriv c b)
  | .star a => .seq (deriv c a) (.star a)
  | .group a => deriv c a

def matchesB (r : RE) : Bytes → Bool
  | [] => nullable r
  | c :: s => matchesB (deriv c r) s

/-- Length of the longest non-empty prefix of `s` in `L(r)`, if any (scan with derivatives). -/
def longestAux : RE → Bytes → Nat → Option Nat → Option Nat
  | _, [], _, best => best
  | r, c :: s, n, best =>
    let r' := deriv c r
    longestAux r' s (n + 1) (if nullable r' then some (n + 1) else best)

def longestPrefix (r : RE) (s : Bytes) : Option Nat := longestAux r s 0 none

/-- `Regex::replace_all(s, rep)` for a pattern whose leftmost-first match at a position is its
longest one there (true of `//+`): scan left to right; where a non-empty match starts, emit `rep`
and skip it; otherwise copy one byte.  `fuel` bounds the number of steps (`s.length + 1` suffices). -/
def replaceAllAux (r : RE) (rep : Bytes) : Nat → Bytes → Bytes
  | 0, s => s
  | _ + 1, [] => []
  | fuel + 1, c :: s =>
    match longestPrefix r (c :: s) with
    | some n => rep ++ replaceAllAux r rep fuel ((c :: s).drop n)
    | none => c :: replaceAllAux r rep fuel s

def replaceAll (r : RE) (rep : Bytes) (s : Bytes) : Bytes := replaceAllAux r rep (s.length + 1) s

/-- Canonical text of a pattern (classes as hex ranges); used to print what was read from the source. -/
def render : RE → String
  | .eps => ""
  | .cls rs => "[" ++ String.join (rs.map fun lh =>
      if lh.1 = lh.2 then s!"\\x{String.ofList (Nat.toDigits 16 lh.1.toNat)}"
      else s!"\\x{String.ofList (Nat.toDigits 16 lh.1.toNat)}-\\x{String.ofList (Nat.toDigits 16 lh.2.toNat)}") ++ "]"
  | .seq a b => render a ++ render b
  | .alt a b => "(?:" ++ render a ++ "|" ++ render b ++ ")"
  | .star a => "(?:" ++ render a ++ ")*"
  | .group a => "(" ++ render a ++ ")"

end RE
end SigV4
