/-
  SigV4.Model.Basic — byte strings, outcomes and the small string helpers the crate uses.

  Conventions (see DESIGN.md §3):
  * a Rust `&[u8]` / `Vec<u8>` is `Bytes`; a Rust `String` / `&str` is its UTF-8 bytes;
  * every Rust `panic!`/`expect`/`unwrap`/`assert!` site is an explicit `Outcome.panic site`;
  * model files import neither Mathlib nor Batteries (the driver is linked as an executable).
-/
namespace SigV4

abbrev Bytes := List UInt8

open Lean in
/-- `b!"text"` is the list of the UTF-8 bytes of the literal, as an explicit list literal, so that
it reduces in the kernel and under `decide` (string literals do not). -/
macro:max "b!" s:str : term => do
  let bs := s.getString.toUTF8.toList
  let elems ← bs.toArray.mapM fun b => `(($(quote b.toNat) : UInt8))
  `(([$elems,*] : List UInt8))

/-- The kinds of `SignatureError` (src/error.rs:44-96). -/
inductive ErrKind where
  | ExpiredToken
  | IO
  | InternalServiceError
  | InvalidBodyEncoding
  | InvalidClientTokenId
  | InvalidContentType
  | InvalidRequestMethod
  | IncompleteSignature
  | InvalidURIPath
  | MalformedQueryString
  | MissingAuthenticationToken
  | SignatureDoesNotMatch
  deriving DecidableEq, Repr, Inhabited

def ErrKind.all : List ErrKind :=
  [.ExpiredToken, .IO, .InternalServiceError, .InvalidBodyEncoding, .InvalidClientTokenId,
   .InvalidContentType, .InvalidRequestMethod, .IncompleteSignature, .InvalidURIPath,
   .MalformedQueryString, .MissingAuthenticationToken, .SignatureDoesNotMatch]

def ErrKind.name : ErrKind → String
  | .ExpiredToken => "ExpiredToken"
  | .IO => "IO"
  | .InternalServiceError => "InternalServiceError"
  | .InvalidBodyEncoding => "InvalidBodyEncoding"
  | .InvalidClientTokenId => "InvalidClientTokenId"
  | .InvalidContentType => "InvalidContentType"
  | .InvalidRequestMethod => "InvalidRequestMethod"
  | .IncompleteSignature => "IncompleteSignature"
  | .InvalidURIPath => "InvalidURIPath"
  | .MalformedQueryString => "MalformedQueryString"
  | .MissingAuthenticationToken => "MissingAuthenticationToken"
  | .SignatureDoesNotMatch => "SignatureDoesNotMatch"

/-- Result of a modelled operation: a value, a `SignatureError` of some kind, or a Rust panic at a
named source site. -/
inductive Outcome (α : Type) where
  | ok : α → Outcome α
  | err : ErrKind → Outcome α
  | panic : String → Outcome α
  deriving Repr, DecidableEq

namespace Outcome

def bind {α β : Type} (x : Outcome α) (f : α → Outcome β) : Outcome β :=
  match x with
  | .ok a => f a
  | .err k => .err k
  | .panic s => .panic s

def map {α β : Type} (f : α → β) (x : Outcome α) : Outcome β :=
  match x with
  | .ok a => .ok (f a)
  | .err k => .err k
  | .panic s => .panic s

instance : Monad Outcome where
  pure := .ok
  bind := bind

def isOk {α : Type} : Outcome α → Bool
  | .ok _ => true
  | _ => false

def isPanic {α : Type} : Outcome α → Bool
  | .panic _ => true
  | _ => false

@[simp] theorem bind_ok {α β : Type} (a : α) (f : α → Outcome β) : bind (.ok a) f = f a := rfl
@[simp] theorem bind_err {α β : Type} (k : ErrKind) (f : α → Outcome β) : bind (.err k) f = .err k := rfl
@[simp] theorem bind_panic {α β : Type} (s : String) (f : α → Outcome β) :
    bind (.panic s) f = .panic s := rfl
@[simp] theorem map_ok {α β : Type} (a : α) (f : α → β) : map f (.ok a) = .ok (f a) := rfl
@[simp] theorem map_err {α β : Type} (k : ErrKind) (f : α → β) : map f (.err k : Outcome α) = .err k := rfl
@[simp] theorem map_panic {α β : Type} (s : String) (f : α → β) :
    map f (.panic s : Outcome α) = .panic s := rfl

end Outcome

/-! ### ASCII helpers -/

def isUpper (c : UInt8) : Bool := 0x41 ≤ c && c ≤ 0x5A
def isLower (c : UInt8) : Bool := 0x61 ≤ c && c ≤ 0x7A
def isDigit (c : UInt8) : Bool := 0x30 ≤ c && c ≤ 0x39

/-- `u8::to_ascii_lowercase`. -/
def toLowerByte (c : UInt8) : UInt8 := if isUpper c then c + 0x20 else c

/-- ASCII lower-casing of a byte string (`str::to_ascii_lowercase`; equals `str::to_lowercase`
on ASCII input, and on Latin-1-derived input as far as comparison with an ASCII literal goes). -/
def asciiLower (s : Bytes) : Bytes := s.map toLowerByte

/-- `u8::is_ascii_whitespace`: space, HT, LF, FF, CR (not VT). -/
def isAsciiWs (c : UInt8) : Bool :=
  c == 0x20 || c == 0x09 || c == 0x0A || c == 0x0C || c == 0x0D

def trimAsciiStart (s : Bytes) : Bytes := s.dropWhile isAsciiWs

def dropWhileEnd (p : UInt8 → Bool) (s : Bytes) : Bytes := (s.reverse.dropWhile p).reverse

def trimAsciiEnd (s : Bytes) : Bytes := dropWhileEnd isAsciiWs s

/-- `trim_ascii` (src/canonical.rs:1299). -/
def trimAscii (s : Bytes) : Bytes := trimAsciiEnd (trimAsciiStart s)

/-- `latin1_to_string` (src/canonical.rs:1049): each byte becomes the code point of the same number,
rendered here as the UTF-8 bytes of the resulting `String`. -/
def latin1Byte (b : UInt8) : Bytes :=
  if b < 0x80 then [b] else [(0xC0 : UInt8) ||| (b >>> (6 : UInt8)), (0x80 : UInt8) ||| (b &&& (0x3F : UInt8))]

def latin1ToString (s : Bytes) : Bytes := s.flatMap latin1Byte

/-! ### Splitting and joining -/

/-- `slice::split(|c| c == sep)` / `str::split(sep)`: always at least one piece. -/
def splitOn (sep : UInt8) : Bytes → List Bytes
  | [] => [[]]
  | c :: cs =>
    if c = sep then [] :: splitOn sep cs
    else
      match splitOn sep cs with
      | [] => [[c]]            -- unreachable: `splitOn` never returns `[]`
      | p :: ps => (c :: p) :: ps

/-- `splitn(2, sep)`: the piece before the first separator and, if there is one, the rest. -/
def splitFirst (sep : UInt8) : Bytes → Bytes × Option Bytes
  | [] => ([], none)
  | c :: cs =>
    if c = sep then ([], some cs)
    else
      let (a, b) := splitFirst sep cs
      (c :: a, b)

/-- `[a, b, c].join(sep)`. -/
def joinWith (sep : Bytes) : List Bytes → Bytes
  | [] => []
  | [x] => x
  | x :: y :: rest => x ++ sep ++ joinWith sep (y :: rest)

/-! ### Association lists standing in for `HashMap<K, Vec<V>>` -/

/-- Append `v` to the values of key `k`, creating the entry (at the end) if absent
(`entry(k).or_default().push(v)` / the `get_mut … insert` idiom at canonical.rs:1234-1238). -/
def assocPush {β : Type} (m : List (Bytes × List β)) (k : Bytes) (v : β) : List (Bytes × List β) :=
  match m with
  | [] => [(k, [v])]
  | (k', vs) :: rest => if k' = k then (k', vs ++ [v]) :: rest else (k', vs) :: assocPush rest k v

def assocGet {β : Type} (m : List (Bytes × β)) (k : Bytes) : Option β :=
  match m with
  | [] => none
  | (k', v) :: rest => if k' = k then some v else assocGet rest k

/-- `HashMap::insert` (last value wins). -/
def assocInsert {β : Type} (m : List (Bytes × β)) (k : Bytes) (v : β) : List (Bytes × β) :=
  match m with
  | [] => [(k, v)]
  | (k', v') :: rest => if k' = k then (k', v) :: rest else (k', v') :: assocInsert rest k v

/-- Append all values `vs` to key `k` (`entry(k).or_default().extend(vs)`). -/
def assocExtend {β : Type} (m : List (Bytes × List β)) (k : Bytes) (vs : List β) :
    List (Bytes × List β) :=
  match m with
  | [] => [(k, vs)]
  | (k', vs') :: rest =>
    if k' = k then (k', vs' ++ vs) :: rest else (k', vs') :: assocExtend rest k vs

/-! ### Sorting (insertion sort: structurally recursive, so it reduces under `decide`; for a total
order the sorted result is unique, so it is the list Rust's `sort`/`sort_unstable` produce) -/

def insertBy {α : Type} (le : α → α → Bool) (x : α) : List α → List α
  | [] => [x]
  | y :: ys => if le x y then x :: y :: ys else y :: insertBy le x ys

def sortBy {α : Type} (le : α → α → Bool) : List α → List α
  | [] => []
  | x :: xs => insertBy le x (sortBy le xs)

/-! ### Hex -/

def hexDigitLower (n : UInt8) : UInt8 := if n < 10 then 0x30 + n else 0x61 + (n - 10)
def hexDigitUpper (n : UInt8) : UInt8 := if n < 10 then 0x30 + n else 0x41 + (n - 10)

/-- `hex::encode`. -/
def hexLower (s : Bytes) : Bytes := s.flatMap fun b => [hexDigitLower (b >>> (4 : UInt8)), hexDigitLower (b &&& (0xF : UInt8))]

/-- Value of one hexadecimal digit, either case (`hex::decode`). -/
def hexVal (c : UInt8) : Option UInt8 :=
  if isDigit c then some (c - 0x30)
  else if 0x61 ≤ c && c ≤ 0x66 then some (c - 0x61 + 10)
  else if 0x41 ≤ c && c ≤ 0x46 then some (c - 0x41 + 10)
  else none

/-- True when every byte is ASCII (for the strings the crate builds this is `from_utf8(..).is_ok()`). -/
def allAscii (s : Bytes) : Bool := s.all (· < 0x80)

end SigV4
