//! Regression corpus: inputs that once exposed a (seeded or real) defect are re-run first on every run,
//! so that their detection does not depend on what the random generators happen to draw.
//! File format (`/verif/corpus/<property>.cases`, one entry per line):
//!   `V <expect> <calls|-> <case line>`   a validation case with its oracle expectation
//!   `T <protocol line>`                  a direct operation (ELEM/PATH/QCANON/ISO) re-evaluated three-way
use crate::case::Case;
use crate::props_direct::{elem_tri, iso_tri, path_tri, qcanon_tri, run_tris, Tri};
use crate::props_validate::{job, run_jobs, Expect};
use crate::util::*;
use crate::Ctx;

pub fn run_corpus(ctx: &mut Ctx, prop: &str) {
    let dir = std::env::var("SIGV4_CORPUS").unwrap_or_else(|_| "/verif/corpus".to_string());
    let text = match std::fs::read_to_string(format!("{}/{}.cases", dir, prop)) {
        Ok(t) => t,
        Err(_) => return,
    };
    let mut jobs = Vec::new();
    let mut tris: Vec<Tri> = Vec::new();
    for line in text.lines() {
        let line = line.trim();
        if line.is_empty() || line.starts_with('#') {
            continue;
        }
        if let Some(rest) = line.strip_prefix("V ") {
            let mut it = rest.splitn(3, ' ');
            let (e, calls, case) = (it.next().unwrap_or("-"), it.next().unwrap_or("-"), it.next().unwrap_or(""));
            let parsed = std::panic::catch_unwind(|| Case::from_line(case));
            if let Ok(c) = parsed {
                let mut j = job(c, Expect::decode(e), "corpus", "corpus entry: an input that once exposed a defect behaves as its oracle expects");
                j.expect_calls = calls.parse().ok();
                jobs.push(j);
            }
        } else if let Some(rest) = line.strip_prefix("T ") {
            let f: Vec<&str> = rest.split(' ').collect();
            let mut t = match (f.first().copied(), f.len()) {
                (Some("ELEM"), 3) => elem_tri(&unhx(f[2]), f[1] == "p"),
                (Some("PATH"), 3) => path_tri(&unhx(f[2]), f[1] == "1"),
                (Some("QCANON"), 2) => qcanon_tri(&unhx(f[1])),
                (Some("ISO"), 2) => iso_tri(&unhx(f[1])),
                _ => continue,
            };
            if t.class != "path-literal-plus" {
                t.class = "corpus".into();
            }
            tris.push(t);
        }
    }
    ctx.rep.add("corpus_entries", (jobs.len() + tris.len()) as u64);
    if !tris.is_empty() {
        run_tris(ctx, tris);
    }
    if !jobs.is_empty() {
        run_jobs(ctx, "VALIDATE", jobs);
    }
}
