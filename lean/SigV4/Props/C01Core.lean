/-
  Property C01 — forgery resistance: success implies a correct signature over the request.
  `H` is an arbitrary hash: the theorems reduce "a different request validates" to a collision of
  `hmac H` (or of `H`); unforgeability of HMAC itself is a cryptographic assumption outside this
  development and is stated as such in DESIGN.md.
-/
import SigV4.Spec.ValidateSpec
import SigV4.Lemmas.C01

namespace SigV4.C01

/-- A byte string without a line feed. -/
def NoNL (b : Bytes) : Prop := (0x0A : UInt8) ∉ b

/-- Acceptance characterised: a request is accepted exactly when every check passes, the provider
is ready and hands out a key, and the presented signature is the lower-case hex HMAC, under that
key, of the string-to-sign. -/
theorem accept_iff {σ : Type} (H : Bytes → Bytes) (cfg : Config) (P : Provider σ) (s : σ) (req : Request) :
    (∃ r, (validate H cfg P s req).out = .ok r) ↔
      ∃ a resp sts, authOf H cfg req = .ok a ∧ prevalidate a cfg.region cfg.service cfg.now = .ok () ∧
        (P.ready s).1 = none ∧ (P.call (P.ready s).2 (providerReqOf a cfg.region cfg.service)).1 = .ok resp ∧
        stringToSign a = .ok sts ∧ a.signature = hexLower (hmac H resp.key sts) := by
  constructor
  · rintro ⟨r, h⟩
    obtain ⟨a, fp, resp, sts, ha, _, hpre, hr, hcall, hsts, hsig, _⟩ := validate_ok_inv H cfg P s req r h
    exact ⟨a, resp, sts, ha, hpre, hr, hcall, hsts, hsig⟩
  · rintro ⟨a, resp, sts, ha, hpre, hr, hcall, hsts, hsig⟩
    obtain ⟨fp, _, _, hv⟩ := validate_of_authOf_ok H cfg P s req a ha
    rw [hv, validateSignature_of_prevalidate_ok H P s a _ _ _ sts hpre hsts]
    rcases getSigningKey_cases P s a cfg.region cfg.service with
      ⟨e, he, _⟩ | ⟨_, e, he, _⟩ | ⟨_, resp', hcall', hg⟩
    · rw [hr] at he; cases he
    · rw [hcall] at he; cases he
    · rw [hcall] at hcall'
      injection hcall' with hcall'
      subst hcall'
      rw [hg]
      simp only [finish, if_pos hsig, Outcome.map_ok]
      exact ⟨_, rfl⟩

/-- Success implies the presented signature is the HMAC of the SigV4 string-to-sign of the request
as received: algorithm line, compact UTC timestamp, credential scope, and the hex hash of the
canonical request built from the received method, canonical path, canonical query, the signed
headers and their list, and the payload hash. -/
theorem accept_implies_signature {σ : Type} (H : Bytes → Bytes) (cfg : Config) (P : Provider σ) (s : σ)
    (req : Request) (r : Returned) (h : (validate H cfg P s req).out = .ok r) :
    ∃ fp ap t resp ak date,
      fromRequestParts H cfg.opts cfg.other req = .ok fp ∧ getAuthParams cfg.reqs fp.creq = .ok ap ∧
      parseIso ap.timestampStr = some t ∧
      splitOn 0x2F ap.credential = [ak, date, cfg.region, cfg.service, b!"aws4_request"] ∧
      (P.call (P.ready s).2 { accessKey := ak, sessionToken := ap.sessionToken, date := utcDate t,
                              region := cfg.region, service := cfg.service }).1 = .ok resp ∧
      ap.signature = hexLower (hmac H resp.key
        (AWS4_HMAC_SHA256 ++ [0x0A] ++ compactUtc t ++ [0x0A]
          ++ (date ++ [0x2F] ++ cfg.region ++ [0x2F] ++ cfg.service ++ [0x2F] ++ b!"aws4_request") ++ [0x0A]
          ++ hexLower (H (canonicalRequest fp.creq ap.signedHeaders)))) := by
  obtain ⟨a, fp, resp, sts, ha, hfp, hpre, hr, hcall, hsts, hsig, _⟩ := validate_ok_inv H cfg P s req r h
  unfold authOf at ha
  rw [hfp] at ha
  simp only at ha
  obtain ⟨ap, t, hap, ht, hae⟩ := getAuthenticator_inv H cfg.reqs fp.creq a ha
  have hcred : a.credential = ap.credential := by rw [hae]
  have htime : a.timestamp = t := by rw [hae]
  have htok : a.sessionToken = ap.sessionToken := by rw [hae]
  have hsg : a.signature = ap.signature := by rw [hae]
  have hsha : a.creqSha = H (canonicalRequest fp.creq ap.signedHeaders) := by rw [hae]
  obtain ⟨ak, hak⟩ := c01_prevalidate_ok _ _ _ _ hpre
  have hs5 := c01_stringToSign_of_five a ak _ _ _ _ hak
  rw [hsts] at hs5
  injection hs5 with hs5
  have hsf := c01_splitFirst_of_splitOn 0x2F a.credential ak _ _ hak
  rw [hcred, htime] at hak
  refine ⟨fp, ap, t, resp, ak, fmtDate (utcDate t), hfp, hap, ht, hak, ?_, ?_⟩
  · simp only [providerReqOf, hsf, htok, htime] at hcall
    exact hcall
  · rw [← hsg, hsig, hs5, htime, hsha]

/-- What the canonical request is made of (the request as received). -/
theorem canonicalRequest_components (H : Bytes → Bytes) (opts : Options) (other : OtherCharset) (req : Request)
    (fp : FromParts) (signed : List Bytes) (h : fromRequestParts H opts other req = .ok fp) :
    canonPath opts.s3 req.path = .ok fp.creq.path ∧ fp.creq.method = req.method ∧
    fp.creq.headers = normalizeHeaders req.headers [] ∧
    fp.creq.bodySha = hexLower (H fp.body) ∧
    canonicalRequest fp.creq signed =
      req.method ++ [0x0A] ++ fp.creq.path ++ [0x0A] ++ canonQuery fp.creq.params ++ [0x0A]
        ++ signed.flatMap (headerLine fp.creq.headers) ++ [0x0A] ++ joinWith [0x3B] signed ++ [0x0A]
        ++ hexLower (H fp.body) := by
  obtain ⟨hp, hm, hh, hb, _⟩ := fromRequestParts_inv H opts other req fp h
  refine ⟨hp, hm, hh, hb, ?_⟩
  rw [canonicalRequest, hm, hh, hb]

theorem hexLower_injective (a b : Bytes) (h : hexLower a = hexLower b) : a = b := by
  exact hexLower_inj a b h

theorem hexLower_length (a : Bytes) : (hexLower a).length = 2 * a.length := by
  exact hexLower_length' a

/-- The string-to-sign determines its components: two authenticators (with timestamps in years
0-9999 and canonical-request hashes of equal length, as for any fixed `H`) that have the same
string-to-sign have the same timestamp second, the same scope and the same canonical-request hash. -/
theorem stringToSign_injective (a a' : Authenticator) (sts : Bytes)
    (h : stringToSign a = .ok sts) (h' : stringToSign a' = .ok sts)
    (hy : 0 ≤ (utcDate a.timestamp).1 ∧ (utcDate a.timestamp).1 ≤ 9999)
    (hy' : 0 ≤ (utcDate a'.timestamp).1 ∧ (utcDate a'.timestamp).1 ≤ 9999)
    (hl : a.creqSha.length = a'.creqSha.length) :
    compactUtc a.timestamp = compactUtc a'.timestamp ∧
    (splitFirst 0x2F a.credential).2 = (splitFirst 0x2F a'.credential).2 ∧ a.creqSha = a'.creqSha := by
  exact stringToSign_inj a a' sts h h' hy hy' hl

/-- The canonical request determines its components: if method, path, canonical query, signed list
and payload hash are newline-free (they always are for requests the `http` crate admits: see
`components_newline_free`), equal canonical requests have equal method, path, query, header
block, signed-header list and payload hash. -/
theorem canonicalRequest_injective (c c' : CanonReq) (signed signed' : List Bytes)
    (h : canonicalRequest c signed = canonicalRequest c' signed')
    (hm : NoNL c.method ∧ NoNL c'.method) (hp : NoNL c.path ∧ NoNL c'.path)
    (hq : NoNL (canonQuery c.params) ∧ NoNL (canonQuery c'.params))
    (hs : NoNL (joinWith [0x3B] signed) ∧ NoNL (joinWith [0x3B] signed'))
    (hb : NoNL c.bodySha ∧ NoNL c'.bodySha) :
    c.method = c'.method ∧ c.path = c'.path ∧ canonQuery c.params = canonQuery c'.params ∧
    signed.flatMap (headerLine c.headers) = signed'.flatMap (headerLine c'.headers) ∧
    joinWith [0x3B] signed = joinWith [0x3B] signed' ∧ c.bodySha = c'.bodySha := by
  unfold NoNL at hm hp hq hs hb
  simp only [canonicalRequest, List.append_assoc, List.cons_append, List.nil_append] at h
  obtain ⟨e1, h⟩ := nl_split_left _ _ _ _ hm.1 hm.2 h
  obtain ⟨e2, h⟩ := nl_split_left _ _ _ _ hp.1 hp.2 h
  obtain ⟨e3, h⟩ := nl_split_left _ _ _ _ hq.1 hq.2 h
  have reassoc : ∀ x y z : Bytes, x ++ 0x0A :: (y ++ 0x0A :: z) = (x ++ 0x0A :: y) ++ 0x0A :: z := by
    intro x y z; simp
  rw [reassoc, reassoc] at h
  obtain ⟨h, e6⟩ := nl_split_right _ _ _ _ hb.1 hb.2 h
  obtain ⟨e4, e5⟩ := nl_split_right _ _ _ _ hs.1 hs.2 h
  exact ⟨e1, e2, e3, e4, e5, e6⟩

/-- The canonical path and payload hash never contain a line feed. -/
theorem components_newline_free (H : Bytes → Bytes) (opts : Options) (other : OtherCharset) (req : Request)
    (fp : FromParts) (h : fromRequestParts H opts other req = .ok fp) :
    NoNL fp.creq.path ∧ NoNL fp.creq.bodySha ∧ NoNL (canonQuery fp.creq.params) := by
  exact fromRequestParts_noNL H opts other req fp h

/-- No cross-validation: if the same presented signature is accepted for two authenticators under
one key, either their strings-to-sign are identical — so (by the two injectivity theorems) every
covered component is — or the pair is an explicit HMAC collision. -/
theorem no_cross_validation (H : Bytes → Bytes) (key sig : Bytes) (a a' : Authenticator) (sts sts' : Bytes)
    (h : stringToSign a = .ok sts) (h' : stringToSign a' = .ok sts')
    (hs : a.signature = sig ∧ a'.signature = sig)
    (hv : (ctEq a.signature (hexLower (hmac H key sts))).1 = true)
    (hv' : (ctEq a'.signature (hexLower (hmac H key sts'))).1 = true) :
    sts = sts' ∨ (sts ≠ sts' ∧ hmac H key sts = hmac H key sts') := by
  have _ := h
  have _ := h'
  have e := (ctEq_true_iff _ _).1 hv
  have e' := (ctEq_true_iff _ _).1 hv'
  rw [hs.1] at e
  rw [hs.2] at e'
  have hh : hmac H key sts = hmac H key sts' := hexLower_inj _ _ (e.symm.trans e')
  by_cases hne : sts = sts'
  · exact .inl hne
  · exact .inr ⟨hne, hh⟩

/-- A signature of the wrong length is refused (for any key the provider may return). -/
theorem wrong_length_refused {σ : Type} (H : Bytes → Bytes) (cfg : Config) (P : Provider σ) (s : σ)
    (req : Request) (a : Authenticator) (ha : authOf H cfg req = .ok a)
    (hl : ∀ k m, (hmac H k m).length = 32) (hlen : a.signature.length ≠ 64) :
    ∀ r, (validate H cfg P s req).out ≠ .ok r := by
  intro r hok
  obtain ⟨a', fp, resp, sts, ha', _, _, _, _, _, hsig, _⟩ := validate_ok_inv H cfg P s req r hok
  rw [ha] at ha'
  injection ha' with ha'
  subst ha'
  apply hlen
  rw [hsig, hexLower_length', hl]

/-- Any change of a single signature byte is refused: a signature is accepted for at most one value. -/
theorem signature_unique {σ : Type} (H : Bytes → Bytes) (cfg : Config) (P : Provider σ) (s : σ)
    (req req' : Request) (a a' : Authenticator) (ha : authOf H cfg req = .ok a) (ha' : authOf H cfg req' = .ok a')
    (hsame : a' = { a with signature := a'.signature }) (hdiff : a'.signature ≠ a.signature)
    (r : Returned) (hok : (validate H cfg P s req).out = .ok r) :
    ∀ r', (validate H cfg P s req').out ≠ .ok r' := by
  intro r' hok'
  obtain ⟨a1, _, resp, sts, ha1, _, _, _, hcall, hsts, hsig, _⟩ := validate_ok_inv H cfg P s req r hok
  obtain ⟨a2, _, resp', sts', ha2, _, _, _, hcall', hsts', hsig', _⟩ :=
    validate_ok_inv H cfg P s req' r' hok'
  rw [ha] at ha1; injection ha1 with ha1; subst ha1
  rw [ha'] at ha2; injection ha2 with ha2; subst ha2
  have hprov : providerReqOf a' cfg.region cfg.service = providerReqOf a cfg.region cfg.service := by
    rw [hsame]; rfl
  have hstr : stringToSign a' = stringToSign a := by
    rw [hsame]; rfl
  rw [hprov, hcall] at hcall'
  injection hcall' with hcall'
  rw [hstr, hsts] at hsts'
  injection hsts' with hsts'
  apply hdiff
  rw [hsig, hsig', hcall', hsts']

end SigV4.C01

