/- Helper lemmas for C12. -/
import SigV4.Spec.ValidateSpec
import SigV4.Spec.UriSpec
import SigV4.Lemmas.Uri
import SigV4.Lemmas.Query
import SigV4.Lemmas.C15

namespace SigV4

/-! ### `splitOn` over an append with the separator in between -/

theorem c12_splitOn_ne_nil (sep : UInt8) (s : Bytes) : splitOn sep s ≠ [] := by
  induction s with
  | nil => simp [splitOn]
  | cons c cs ih =>
    unfold splitOn
    split
    · simp
    · split
      · simp
      · simp

theorem c12_splitOn_append_sep (sep : UInt8) (a b : Bytes) :
    splitOn sep (a ++ sep :: b) = splitOn sep a ++ splitOn sep b := by
  induction a with
  | nil => simp [splitOn]
  | cons c cs ih =>
    rw [List.cons_append]
    rw [splitOn.eq_2 sep c (cs ++ sep :: b), splitOn.eq_2 sep c cs]
    by_cases hc : c = sep
    · simp [hc, ih]
    · rw [if_neg hc, if_neg hc, ih]
      cases hs : splitOn sep cs with
      | nil => exact absurd hs (c12_splitOn_ne_nil sep cs)
      | cons p ps => simp

/-! ### `mapM` in `Option` over an append -/

theorem c12_optMapM_append {α β : Type} (f : α → Option β) (l₁ l₂ : List α) :
    (l₁ ++ l₂).mapM f = (l₁.mapM f).bind fun a => (l₂.mapM f).map (a ++ ·) := by
  induction l₁ with
  | nil =>
    simp only [List.nil_append, List.mapM_nil]
    cases l₂.mapM f <;> rfl
  | cons x xs ih =>
    rw [List.cons_append, optMapM_cons, optMapM_cons, ih]
    cases f x with
    | none => rfl
    | some y =>
      cases xs.mapM f with
      | none => rfl
      | some ys =>
        cases l₂.mapM f with
        | none => rfl
        | some zs => rfl

theorem c12_refQueryPairs_append (q text : Bytes) :
    refQueryPairs (q ++ [0x26] ++ text) =
      (refQueryPairs q).bind fun a => (refQueryPairs text).map (a ++ ·) := by
  unfold refQueryPairs
  rw [List.append_assoc, List.singleton_append, c12_splitOn_append_sep, List.filter_append,
    c12_optMapM_append]

/-! ### What a successful parse says -/

theorem c12_parseQuery_ok (q : Bytes) (m : QueryMap) (h : parseQuery q = .ok m) :
    ∃ ps, refQueryPairs q = some ps ∧ m = groupPairs (ps.map encPair) := by
  rw [parseQuery_eq_spec'] at h
  cases hr : refQueryPairs q with
  | none => rw [hr] at h; simp [optToOutcome] at h
  | some ps =>
    rw [hr] at h
    simp only [Option.map_some, optToOutcome, Outcome.ok.injEq] at h
    exact ⟨ps, rfl, h.symm⟩

theorem c12_nodup_keys_foldl (l : List (Bytes × Bytes)) (m0 : QueryMap) (h : (m0.map (·.1)).Nodup) :
    ((l.foldl (fun m kv => assocPush m kv.1 kv.2) m0).map (·.1)).Nodup := by
  induction l generalizing m0 with
  | nil => exact h
  | cons x xs ih =>
    simp only [List.foldl_cons]
    exact ih _ (nodup_keys_assocPush m0 x.1 x.2 h)

theorem c12_nodup_keys_groupPairs (l : List (Bytes × Bytes)) : ((groupPairs l).map (·.1)).Nodup := by
  unfold groupPairs
  exact c12_nodup_keys_foldl l [] (by simp)

theorem c12_parseQuery_nodup (q : Bytes) (m : QueryMap) (h : parseQuery q = .ok m) :
    (m.map (·.1)).Nodup := by
  obtain ⟨ps, _, rfl⟩ := c12_parseQuery_ok q m h
  exact c12_nodup_keys_groupPairs _

/-! ### Merging is a permutation of the two pair lists -/

theorem c12_flattenMap_assocExtend_perm (m : QueryMap) (k : Bytes) (vs : List Bytes) :
    (flattenMap (assocExtend m k vs)).Perm (flattenMap m ++ vs.map fun v => (k, v)) := by
  induction m with
  | nil => simp [assocExtend, flattenMap]
  | cons kv rest ih =>
    obtain ⟨k', vs'⟩ := kv
    simp only [assocExtend]
    split
    · rename_i hk
      subst hk
      simp only [flattenMap_cons, List.map_append, List.append_assoc]
      exact List.Perm.append_left _ List.perm_append_comm
    · simp only [flattenMap_cons, List.append_assoc]
      exact List.Perm.append_left _ ih

theorem c12_flattenMap_mergeParams_perm (up bp : QueryMap) :
    (flattenMap (mergeParams up bp)).Perm (flattenMap up ++ flattenMap bp) := by
  unfold mergeParams
  induction bp generalizing up with
  | nil => simp [flattenMap_nil]
  | cons kv rest ih =>
    simp only [List.foldl_cons]
    refine (ih _).trans ?_
    rw [flattenMap_cons, ← List.append_assoc]
    exact (c12_flattenMap_assocExtend_perm up kv.1 kv.2).append_right _

theorem c12_canonQuery_of_flatten_perm (m m' : QueryMap) (h : (flattenMap m).Perm (flattenMap m')) :
    canonQuery m = canonQuery m' := by
  unfold canonQuery
  rw [queryPairs_eq_filter, queryPairs_eq_filter]
  congr 2
  exact sortBy_pairLe_eq_of_perm (h.filter _)

/-! ### `hexLower` is injective -/

theorem c12_hexLower_facts : ∀ c : UInt8,
    hexVal (hexDigitLower (c >>> (4 : UInt8))) = some (c >>> (4 : UInt8)) ∧
    hexVal (hexDigitLower (c &&& (0xF : UInt8))) = some (c &&& (0xF : UInt8)) ∧
    (c >>> (4 : UInt8)) * 16 + (c &&& (0xF : UInt8)) = c := by
  apply u8_forall; decide +kernel

theorem c12_hexByte_inj : ∀ a b : UInt8,
    hexDigitLower (a >>> (4 : UInt8)) = hexDigitLower (b >>> (4 : UInt8)) →
    hexDigitLower (a &&& (0xF : UInt8)) = hexDigitLower (b &&& (0xF : UInt8)) → a = b := by
  intro a b h1 h2
  obtain ⟨a1, a2, a3⟩ := c12_hexLower_facts a
  obtain ⟨b1, b2, b3⟩ := c12_hexLower_facts b
  rw [h1, b1] at a1
  rw [h2, b2] at a2
  rw [← a3, ← b3, Option.some.inj a1, Option.some.inj a2]

theorem c12_hexLower_inj (a b : Bytes) (h : hexLower a = hexLower b) : a = b := by
  induction a generalizing b with
  | nil =>
    cases b with
    | nil => rfl
    | cons y ys => simp [hexLower] at h
  | cons x xs ih =>
    cases b with
    | nil => simp [hexLower] at h
    | cons y ys =>
      simp only [hexLower, List.flatMap_cons, List.cons_append, List.nil_append, List.cons.injEq] at h
      obtain ⟨h1, h2, h3⟩ := h
      rw [c12_hexByte_inj x y h1 h2, ih ys h3]

end SigV4
