"""
rustout.py — second-stage function translator: Rust functions that return `Result<_, SignatureError>`, index
slices, return early and may panic, translated into Lean `do` blocks in the model's own `Outcome` monad
(`ok v | err kind | panic site`).

  Rust                                         Lean (inside `do`, monad `Outcome`)
  -------------------------------------------  ------------------------------------------------------------
  fn f(a: &str, t: UriElement) -> Result<String, SignatureError>   def f (fuel : Nat) (a : Bytes) (t : UriElement) : Outcome Bytes
  return Err(SignatureError::K(msg));          (Outcome.err ErrKind.K : Outcome Unit)      -- aborts the block
  return Ok(e);  /  tail Ok(e)                 return e
  e?                                           (← e)
  v[i]                                         (← Rust.idx v i "site")                     -- panic when out of range
  &v[a..b]                                     (← Rust.slice v a b "site")
  i += n; i -= n                               i := i + n;  i := (← Rust.subUsize i n "site")
  v.push(x); v.extend(xs); v.extend_from_slice(xs); v.remove(i); v[i] = x
  while c { … }                                for _ in List.range fuel do if c then … else done := true; break  (+ panic "fuel")
  match hex::decode(x) { Ok(v) => {…} Err(_) => {…} }     match Rust.hexDecode x with | some v => … | none => …
  match t { UriElement::Path => A, UriElement::Query => B }   match t with | .Path => A | .Query => B
  match n { 1 => A, _ => B }                   match n with | 1 => A | _ => B
  assert!(c); assert_eq!(a, b);                Rust.assert c "site"
  from_utf8(x).unwrap()                        (← Rust.unwrapOpt (Rust.fromUtf8 x) "site")
  format!(…), CONST.to_string() as error text  dropped (error messages are not part of what is compared)
  R.replace_all(x, "lit")                      RE.replaceAll <regex read from the source> lit x
  x.split('c').map(|s| s.to_string()).collect()   Rust.split c x

Anything else raises Untranslatable; the function is then reported unreadable.
"""
from srcgen import Tok, matching   # noqa: E402
from rustlite import Untranslatable, U8_METHODS   # noqa: E402

LEAN_TY = {"vec": "Bytes", "string": "Bytes", "u8": "UInt8", "bool": "Bool", "usize": "Nat", "vecstr": "List Bytes",
           "time": "Int", "dur": "Int", "unit": "Unit", "msgvec": "Nat", "map": "List (Bytes × List Bytes)", "vecpair": "List (Bytes × Bytes)", "byteiter": "Bytes"}

KINDS = ["ExpiredToken", "IO", "InternalServiceError", "InvalidBodyEncoding", "InvalidClientTokenId", "InvalidContentType",
         "InvalidRequestMethod", "IncompleteSignature", "InvalidURIPath", "MalformedQueryString", "MissingAuthenticationToken",
         "SignatureDoesNotMatch"]


def parse_type(toks, enums):
    s = "".join(str(t.v) for t in toks if t.k != "life").replace("mut", "")
    if s in ("&[u8]", "Vec<u8>", "&Vec<u8>", "&mutVec<u8>"):
        return "vec"
    if s in ("String", "&str", "&String", "Cow<str>", "Cow<'_,str>"):
        return "string"
    if s in ("Vec<String>", "&Vec<String>", "Vec<&str>"):
        return "vecstr"
    if s in ("u8", "bool", "usize"):
        return s
    if s in enums:
        return "enum:" + s
    if s == "Result<String,SignatureError>":
        return "result:string"
    if s == "Result<(),SignatureError>":
        return "result:unit"
    if s in ("HashMap<String,Vec<String>>", "&HashMap<String,Vec<String>>"):
        return "map"
    if s == "Result<HashMap<String,Vec<String>>,SignatureError>":
        return "result:map"
    if s.startswith("[u8;") and s.endswith("]"):
        return "vec"
    if s == "DateTime<Utc>":
        return "time"
    if s == "Duration":
        return "dur"
    raise Untranslatable("type " + s)


def lean_ty(t):
    if t.startswith("enum:"):
        return "Rust." + t[5:]
    return LEAN_TY[t]


class OFn:
    def __init__(self, name, toks, ctx):
        self.name, self.toks, self.pos = name, toks, 0
        self.ctx = ctx                      # dict: enums {name: [variants]}, pure {fn: (ptys, rty)}, monadic {fn: (ptys, rty)}, regexes {NAME: lean term}, consts {NAME: bytes}
        self.types = {}
        self.loop = 0
        self.counter = 0
        self.site = 0

    def sitestr(self, what):
        self.site += 1
        return f'"{self.name}:{what}#{self.site}"'

    # ---------------------------------------------------------------- tokens
    def peek(self, o=0):
        return self.toks[self.pos + o] if self.pos + o < len(self.toks) else Tok("eof", None, -1)

    def eat(self, v=None, k=None):
        t = self.peek()
        if (v is not None and t.v != v) or (k is not None and t.k != k):
            raise Untranslatable(f"{self.name}: expected {v or k}, got {t!r} at token {self.pos}")
        self.pos += 1
        return t

    def at(self, v, o=0):
        t = self.peek(o)
        return t.v == v and t.k in ("p", "id")

    def skip_balanced(self):
        """Skip a parenthesised argument list starting at `(`."""
        assert self.at("(")
        j = matching(self.toks, self.pos)
        self.pos = j + 1

    # ---------------------------------------------------------------- expressions -> (term, type)
    def args(self):
        self.eat("(")
        out = []
        while not self.at(")"):
            out.append(self.expr(0))
            if self.at(","):
                self.eat()
        self.eat(")")
        return out

    def errkind(self):
        """`SignatureError::Kind(anything)` -> ErrKind term."""
        self.eat("SignatureError"); self.eat("::")
        k = self.eat(k="id").v
        if k not in KINDS:
            raise Untranslatable("error kind " + k)
        if self.at("("):
            self.skip_balanced()
        return (f"ErrKind.{k}", "errkind")

    def match_expr(self):
        """`match scrut { Pat => expr, … }` in expression position."""
        self.eat("match")
        scrut, sty = self.expr(0, no_struct=True)
        self.eat("{")
        arms = []
        rty = None
        while not self.at("}"):
            pat = self.pattern(sty)
            self.eat("=>")
            if self.at("{"):
                # `{ // comment \n expr }` block with a single tail expression
                self.eat("{"); e, t = self.expr(0); self.eat("}")
            else:
                e, t = self.expr(0)
            rty = rty or t
            arms.append(f"| {pat} => {e}")
            if self.at(","):
                self.eat()
        self.eat("}")
        return ("(match " + scrut + " with " + " ".join(arms) + ")", rty)

    def pattern(self, sty):
        t = self.peek()
        if t.k == "id" and t.v == "_":
            self.eat(); return "_"
        if t.k == "num":
            self.eat(); return str(t.v)
        if sty and sty.startswith("enum:") and t.k == "id" and t.v == sty[5:]:
            self.eat(); self.eat("::"); v = self.eat(k="id").v
            if v not in self.ctx["enums"][sty[5:]]:
                raise Untranslatable("variant " + v)
            return "." + v
        raise Untranslatable(f"pattern {t!r}")

    def primary(self):
        t = self.peek()
        if t.k == "p" and t.v == "(" and self.at(")", 1):
            self.eat(); self.eat(); r = ("()", "unit")
        elif t.k == "id" and t.v == "self" and self.at(".", 1) and self.peek(2).k == "id" and self.at("(", 3) and self.at(")", 4):
            g = self.peek(2).v
            if g not in self.ctx.get("self_getters", {}):
                raise Untranslatable("self." + g + "()")
            self.pos += 5
            r = ("self_" + g, self.ctx["self_getters"][g])
        elif t.k == "id" and t.v == "self" and self.at(".", 1) and self.peek(2).k == "id" and not self.at("(", 3) and self.peek(2).v in self.ctx.get("self_fields", {}):
            g = self.peek(2).v
            self.pos += 3
            r = ("self_" + g, self.ctx["self_fields"][g])
        elif t.k == "p" and t.v == "(":
            self.eat(); e, ty = self.expr(0); self.eat(")"); r = (f"({e})", ty)
        elif t.k == "p" and t.v in ("*",):
            self.eat(); return self.primary()
        elif t.k == "p" and t.v == "&":
            self.eat()
            if self.at("mut"):
                self.eat()
            return self.primary()
        elif t.k == "p" and t.v == "!":
            self.eat(); e, ty = self.primary(); return (f"(!{e})", "bool")
        elif t.k == "byte":
            self.eat(); r = ("(0x%02X : UInt8)" % t.v, "u8")
        elif t.k == "char":
            self.eat()
            if len(t.v) != 1:
                raise Untranslatable("non-ASCII char literal")
            r = ("(0x%02X : UInt8)" % t.v[0], "u8")
        elif t.k == "num":
            self.eat(); r = (str(t.v), "num")
        elif t.k in ("str", "bstr"):
            self.eat(); r = ("([" + ", ".join("0x%02X" % b for b in t.v) + "] : Bytes)", "string" if t.k == "str" else "vec")
        elif t.k == "id" and t.v in ("true", "false"):
            self.eat(); r = (t.v, "bool")
        elif t.k == "p" and t.v == "[" and self.peek(1).k == "num" and self.at(";", 2) and self.peek(3).k == "num" and self.at("]", 4):
            v, n = self.peek(1).v, self.peek(3).v
            self.pos += 5
            if v > 255 or n > 64:
                raise Untranslatable("array literal")
            r = ("([" + ", ".join(str(v) for _ in range(n)) + "] : Bytes)", "vec")
        elif t.k == "id" and t.v == "u8" and self.at("::", 1) and self.peek(2).v == "from_str_radix":
            self.pos += 3
            a = self.args()
            if a[1][0] != "16" or a[0][1] != "string":
                raise Untranslatable("from_str_radix other than (str, 16)")
            r = (f"(Rust.u8FromStrRadix16 {a[0][0]})", "opt:u8")
        elif t.k == "id" and t.v == "match":
            return self.match_expr()
        elif t.k == "id" and t.v == "if":
            self.eat()
            c, _ = self.expr(0, no_struct=True)
            self.eat("{"); a, ta = self.expr(0); self.eat("}")
            self.eat("else")
            self.eat("{"); b, tb = self.expr(0); self.eat("}")
            if "←" in a or "←" in b:
                # each branch gets its own `do`, so that an index/unwrap inside a branch is only evaluated when the branch is taken
                return (f"(if {c} then (do return {a}) else (do return {b}))", "m:" + str(ta))
            return (f"(if {c} then {a} else {b})", ta)
        elif t.k == "id" and t.v == "SignatureError" and self.at("::", 1):
            r = self.errkind()
        elif t.k == "id" and t.v == "format" and self.at("!", 1):
            self.eat(); self.eat("!"); self.skip_balanced(); r = ("()", "msg")
        elif t.k == "id" and t.v == "Cow" and self.at("::", 1):
            self.eat(); self.eat("::"); self.eat("Borrowed"); a = self.args()
            r = a[0]
        elif t.k == "id" and t.v == "Vec" and self.at("::", 1):
            self.eat(); self.eat("::")
            if self.at("<"):
                while not self.at(">"):
                    self.eat()
                self.eat(">"); self.eat("::")
            m = self.eat(k="id").v
            if m == "with_capacity":
                self.skip_balanced()          # a capacity hint has no observable effect
                a = [("_", "usize")]
            else:
                a = self.args()
            if m == "new" and not a and self.ctx.get("_vecpair_next"):
                self.ctx["_vecpair_next"] = False
                r = ("([] : List (Bytes × Bytes))", "vecpair")
            elif m == "new" and not a and self.ctx.get("_msgvec_next"):
                self.ctx["_msgvec_next"] = False
                r = ("(0 : Nat)", "msgvec")
            elif m == "new" and not a:
                r = ("([] : Bytes)", "vec")
            elif m == "with_capacity" and len(a) == 1:
                r = ("([] : Bytes)", "vec")
            else:
                raise Untranslatable("Vec::" + m)
        elif t.k == "id" and t.v == "HashMap" and self.at("::", 1):
            self.eat(); self.eat("::")
            if self.at("<"):
                d = 0
                while True:
                    tk = self.eat()
                    if tk.v == "<": d += 1
                    if tk.v == ">": d -= 1
                    if tk.v == ">>": d -= 2
                    if d <= 0: break
                self.eat("::")
            self.eat("new"); self.eat("("); self.eat(")")
            r = ("([] : List (Bytes × List Bytes))", "map")
        elif t.k == "id" and t.v == "String" and self.at("::", 1):
            self.eat(); self.eat("::"); m = self.eat(k="id").v; a = self.args()
            if m in ("new", "with_capacity"):
                r = ("([] : Bytes)", "string")
            else:
                raise Untranslatable("String::" + m)
        elif t.k == "id" and t.v == "hex" and self.at("::", 1) and self.peek(2).v == "encode":
            self.eat(); self.eat("::"); self.eat("encode"); a = self.args()
            r = (f"(Rust.hexEncode {a[0][0]})", "string")
        elif t.k == "id" and t.v == "hex" and self.at("::", 1):
            self.eat(); self.eat("::"); self.eat("decode"); a = self.args()
            r = (f"(Rust.hexDecode {a[0][0]})", "opt:vec")
        elif t.k == "id" and t.v == "from_utf8" and self.at("(", 1):
            self.eat(); a = self.args()
            r = (f"(Rust.fromUtf8 {a[0][0]})", "opt:string")
        elif t.k == "id" and t.v in self.ctx["regexes"] and self.at(".", 1) and self.peek(2).v == "replace_all":
            self.eat(); self.eat("."); self.eat("replace_all"); a = self.args()
            r = (f"(RE.replaceAll {self.ctx['regexes'][t.v]} {a[1][0]} {a[0][0]})", "string")
        elif t.k == "id" and t.v in self.ctx["consts"] and not self.at("(", 1):
            self.eat()
            r = ("([" + ", ".join("0x%02X" % b for b in self.ctx["consts"][t.v]) + "] : Bytes)", "string")
        elif t.k == "id" and self.at("(", 1) and t.v in self.ctx["pure"]:
            self.eat(); a = self.args()
            ptys, rty = self.ctx["pure"][t.v]
            r = (f"({t.v} " + " ".join(x[0] for x in a) + ")", rty)
        elif t.k == "id" and self.at("(", 1) and t.v in self.ctx["monadic"]:
            self.eat(); a = self.args()
            ptys, rty = self.ctx["monadic"][t.v]
            r = (f"({t.v} fuel " + " ".join(x[0] for x in a) + ")", "result:" + rty)
        elif t.k == "id" and t.v in self.types:
            self.eat(); r = (t.v, self.types[t.v])
        elif t.k == "id" and t.v in self.ctx["enums"] and self.at("::", 1):
            self.eat(); self.eat("::"); v = self.eat(k="id").v
            r = (f"Rust.{t.v}.{v}", "enum:" + t.v)
        else:
            raise Untranslatable(f"{self.name}: token {t!r} at {self.pos}")
        return self.postfix(r)

    def postfix(self, r):
        while True:
            e, ty = r
            if self.at("?"):
                self.eat()
                if not (isinstance(ty, str) and ty.startswith("result:")):
                    raise Untranslatable("? on " + str(ty))
                r = (f"(← {e})", ty[7:])
            elif self.at("[") and ty in ("vec", "string", "vecstr"):
                self.eat("[")
                a, _ = self.expr(0)
                if self.at(".."):
                    self.eat(); b, _ = self.expr(0); self.eat("]")
                    r = (f"(← Rust.slice {e} ({a}) ({b}) {self.sitestr('slice')})", ty)
                else:
                    self.eat("]")
                    if ty == "vecstr":
                        r = (f"(← Rust.idxS {e} ({a}) {self.sitestr('index')})", "string")
                    else:
                        r = (f"(← Rust.idx {e} ({a}) {self.sitestr('index')})", "u8")
            elif self.at(".") and self.peek(1).k == "id":
                m = self.peek(1).v
                if m in ("push", "extend", "extend_from_slice", "remove", "sort", "sort_unstable") and ty in ("vec", "vecstr", "string", "msgvec", "vecpair") and e in self.types:
                    return r            # statement-level methods: handled by stmt()
                self.eat("."); self.eat()
                if m in ("as_bytes", "as_slice", "to_string", "clone", "to_owned", "as_str", "into_owned", "as_ref") and ty in ("vec", "string", "msg", "vecstr"):
                    self.eat("("); self.eat(")")
                    r = (e, ty if ty != "msg" else "msg")
                elif m == "len" and ty in ("vec", "string", "vecstr"):
                    self.eat("("); self.eat(")"); r = (f"({e}).length", "usize")
                elif m == "is_empty" and ty in ("vec", "string", "vecstr"):
                    self.eat("("); self.eat(")"); r = (f"(List.isEmpty {e})", "bool")
                elif m == "starts_with" and ty == "string":
                    a = self.args()
                    if a[0][1] != "u8":
                        raise Untranslatable("starts_with(non-char)")
                    r = (f"(Rust.startsWithByte {e} {a[0][0]})", "bool")
                elif m == "into_iter" and ty == "vecpair":
                    self.eat("("); self.eat(")")
                    self.eat("."); self.eat("map"); self.eat("("); self.eat("|"); self.eat("(")
                    k = self.eat(k="id").v; self.eat(","); v = self.eat(k="id").v; self.eat(")"); self.eat("|")
                    self.eat("format"); self.eat("!"); self.eat("(")
                    fmt = self.eat(k="str").v
                    self.eat(","); self.eat(k); self.eat(","); self.eat(v); self.eat(")"); self.eat(")")
                    if bytes(fmt) != b"{}={}":
                        raise Untranslatable("format string")
                    self.eat("."); self.eat("collect")
                    if self.at("::"):
                        self.eat(); self.eat("<")
                        d = 1
                        while d:
                            tk = self.eat()
                            if tk.v == "<": d += 1
                            if tk.v == ">": d -= 1
                            if tk.v == ">>": d -= 2
                    self.eat("("); self.eat(")")
                    r = (f"(List.map (fun kv => kv.1 ++ [(0x3D : UInt8)] ++ kv.2) {e})", "vecstr")
                elif m == "join" and ty == "vecstr":
                    a = self.args(); r = (f"(Rust.join {a[0][0]} {e})", "string")
                elif m == "split" and ty == "string":
                    a = self.args()
                    if a[0][1] != "u8":
                        raise Untranslatable("split(non-char)")
                    # followed by [.map(|s| s.to_string())].collect()  (all pieces, owned or borrowed)
                    if self.at(".") and self.at("map", 1):
                        self.eat("."); self.eat("map"); self.eat("(")
                        self.eat("|"); v = self.eat(k="id").v; self.eat("|")
                        self.eat(v); self.eat("."); self.eat("to_string"); self.eat("("); self.eat(")"); self.eat(")")
                    if not (self.at(".") and self.at("collect", 1)):
                        r = (f"(Rust.split {a[0][0]} {e})", "vecstr")     # the iterator itself, consumed by a `for`
                        continue
                    self.eat("."); self.eat("collect")
                    if self.at("::"):
                        self.eat(); self.eat("<")
                        d = 1
                        while d:
                            t = self.eat()
                            if t.v == "<": d += 1
                            if t.v == ">": d -= 1
                            if t.v == ">>": d -= 2
                    self.eat("("); self.eat(")")
                    r = (f"(Rust.split {a[0][0]} {e})", "vecstr")
                elif m in ("checked_sub_signed", "checked_add_signed") and ty == "time":
                    a = self.args()
                    if a[0][1] != "dur":
                        raise Untranslatable("checked_*_signed(non-duration)")
                    f = "Rust.Chrono.checkedSubSigned" if m == "checked_sub_signed" else "Rust.Chrono.checkedAddSigned"
                    r = (f"({f} {e} {a[0][0]})", "opt:time")
                elif m == "unwrap_or" and isinstance(ty, str) and ty.startswith("opt:"):
                    a = self.args(); r = (f"(Option.getD {e} {a[0][0]})", ty[4:])
                elif m == "format" and ty == "time":
                    a = self.args()
                    if a[0][0] == "([0x25, 0x59, 0x25, 0x6D, 0x25, 0x64] : Bytes)":
                        r = (f"(Rust.Chrono.formatYmd {e})", "string")
                    elif a[0][0] == "([0x25, 0x59, 0x25, 0x6D, 0x25, 0x64, 0x54, 0x25, 0x48, 0x25, 0x4D, 0x25, 0x53, 0x5A] : Bytes)":
                        r = (f"(Rust.Chrono.formatCompact {e})", "string")
                    else:
                        raise Untranslatable("format string other than %Y%m%d / %Y%m%dT%H%M%SZ in value position")
                elif m == "is_empty" and ty == "msgvec":
                    self.eat("("); self.eat(")"); r = (f"({e} == 0)", "bool")
                elif m == "bytes" and ty == "string":
                    self.eat("("); self.eat(")")
                    r = (e, "byteiter")
                elif m == "iter" and ty == "vecstr":
                    self.eat("("); self.eat(")")
                    r = (e, ty)
                elif m == "get" and ty == "map":
                    a = self.args()
                    r = (f"(Rust.mapGet {e} {a[0][0]})", "opt:vecstr")
                elif m == "splitn" and ty == "string":
                    a = self.args()
                    if a[0][0] != "2" or a[1][1] != "u8":
                        raise Untranslatable("splitn other than (2, char)")
                    self.eat("."); self.eat("collect")
                    if self.at("::"):
                        self.eat(); self.eat("<")
                        d = 1
                        while d:
                            tk = self.eat()
                            if tk.v == "<": d += 1
                            if tk.v == ">": d -= 1
                            if tk.v == ">>": d -= 2
                    self.eat("("); self.eat(")")
                    r = (f"(Rust.splitn2 {a[1][0]} {e})", "vecstr")
                elif m == "split_once" and ty == "string":
                    a = self.args()
                    if a[0][1] != "u8":
                        raise Untranslatable("split_once(non-char)")
                    r = (f"(Rust.splitOnce {a[0][0]} {e})", "opt:pair")
                    if self.at(".") and self.at("map", 1):
                        self.eat("."); self.eat("map"); self.eat("("); self.eat("|"); v = self.eat(k="id").v; self.eat("|")
                        self.eat(v); self.eat("."); idx = self.eat(k="num").v; self.eat(")")
                        if idx not in (0, 1):
                            raise Untranslatable("tuple field")
                        r = (f"(Option.map (fun x => x.{idx + 1}) {r[0]})", "opt:string")
                elif m == "expect" and isinstance(ty, str) and ty.startswith("opt:"):
                    self.skip_balanced()
                    r = (f"(← Rust.unwrapOpt {e} {self.sitestr('expect')})", ty[4:])
                elif m == "unwrap" and isinstance(ty, str) and ty.startswith("opt:"):
                    self.eat("("); self.eat(")")
                    r = (f"(← Rust.unwrapOpt {e} {self.sitestr('unwrap')})", ty[4:])
                elif m in U8_METHODS and ty == "u8":
                    self.eat("("); self.eat(")"); r = (f"({U8_METHODS[m]} {e})", "bool")
                else:
                    raise Untranslatable(f"{self.name}: method .{m} on {ty}")
            elif self.at("as"):
                self.eat(); ty2 = self.eat(k="id").v
                if ty == "u8" and ty2 == "char":
                    r = (f"({e}).toNat", "char")
                elif ty == "u8" and ty2 == "usize":
                    r = (f"({e}).toNat", "usize")
                else:
                    raise Untranslatable(f"cast {ty} as {ty2}")
            else:
                return r

    PREC = {"||": 1, "&&": 2, "==": 3, "!=": 3, "<": 3, ">": 3, "<=": 3, ">=": 3, "+": 8, "-": 8}
    LEANOP = {"||": "||", "&&": "&&", "==": "==", "!=": "!=", "<": "<", ">": ">", "<=": "≤", ">=": "≥", "+": "+"}

    def expr(self, minp, no_struct=False):
        lhs, lty = self.primary()
        while True:
            t = self.peek()
            if t.k != "p" or t.v not in self.PREC or self.PREC[t.v] < minp:
                return lhs, lty
            op = self.eat().v
            rhs, rty = self.expr(self.PREC[op] + 1)
            if lty == "num" and rty == "u8": lhs = f"({lhs} : UInt8)"
            if rty == "num" and lty == "u8": rhs = f"({rhs} : UInt8)"
            if op in ("<", ">", "<=", ">="):
                lhs, lty = f"(decide ({lhs} {self.LEANOP[op]} {rhs}))", "bool"
            elif op in ("==", "!=", "&&", "||"):
                lhs, lty = f"({lhs} {self.LEANOP[op]} {rhs})", "bool"
            elif op == "+":
                lhs, lty = f"({lhs} + {rhs})", (lty if lty != "num" else rty)
            else:
                if lty in ("usize", "num") and rty in ("usize", "num"):
                    lhs, lty = f"(← Rust.subUsize ({lhs}) ({rhs}) {self.sitestr('sub')})", "usize"
                else:
                    raise Untranslatable("subtraction on " + str(lty))

    # ---------------------------------------------------------------- statements
    def block(self, ind):
        self.eat("{")
        lines = []
        while not self.at("}"):
            lines += self.stmt(ind)
        self.eat("}")
        return lines or [ind + "pure ()"]

    def abort_err(self, ind):
        """after `return Err(` … `)` `;`"""
        e, ty = self.expr(0)
        if ty != "errkind":
            raise Untranslatable("return Err(non-error)")
        return [f"{ind}let _ ← (Outcome.err ({e}) : Outcome Unit)"]

    def stmt(self, ind):
        t = self.peek()
        if t.k == "id" and t.v in ("trace", "debug", "info", "warn", "error") and self.at("!", 1) and t.v not in self.types:
            if t.v != "trace":
                raise Untranslatable("log record at " + t.v + " level")   # records at debug or above are observable (C17): not dropped silently
            self.eat(); self.eat("!"); self.skip_balanced(); self.eat(";")
            return []
        if t.k == "id" and t.v == "let":
            # `let mut x = Vec::new();` later filled with `x.push(format!(…))`: a list of message texts, kept as a count
            if self.at("mut", 1) and self.peek(2).k == "id" and self.at("=", 3):
                nm = self.peek(2).v
                for j in range(self.pos, len(self.toks) - 5):
                    tk = self.toks
                    if tk[j].k == "id" and tk[j].v == nm and tk[j + 1].v == "." and tk[j + 2].v == "push" and tk[j + 3].v == "(" and tk[j + 4].v == "format" and tk[j + 5].v == "!":
                        self.ctx["_msgvec_next"] = True
                        break
                    if tk[j].k == "id" and tk[j].v == nm and tk[j + 1].v == "." and tk[j + 2].v == "push" and tk[j + 3].v == "(" and tk[j + 4].v == "(":
                        self.ctx["_vecpair_next"] = True
                        break
            self.eat()
            mut = False
            if self.at("mut"):
                self.eat(); mut = True
            name = self.eat(k="id").v
            decl = None
            if self.at(":"):
                self.eat()
                tt = []
                while not self.at("="):
                    tt.append(self.eat())
                decl = parse_type(tt, self.ctx["enums"])
            self.eat("=")
            if self.at("&") and self.at("mut", 1):
                mut = True
            e, ty = self.expr(0)
            self.eat(";")
            if ty == "msg":
                self.types[name] = "msg"
                return []
            monadic_rhs = isinstance(ty, str) and ty.startswith("m:")
            if monadic_rhs:
                ty = ty[2:]
            ty = decl or ty
            if ty == "num":
                ty = "usize"
            if isinstance(ty, str) and ty == "opt:vecstr":
                self.types[name] = ty
                return [f"{ind}let {name} : Option (List Bytes) := {e}"]
            if not isinstance(ty, str) or (ty not in LEAN_TY and not ty.startswith("enum:")):
                raise Untranslatable(f"type of let {name}: {ty}")
            self.types[name] = ty
            return [f"{ind}let {'mut ' if mut else ''}{name} : {lean_ty(ty)} {'←' if monadic_rhs else ':='} {e}"]
        if t.k == "id" and t.v == "if" and self.at("let", 1) and self.at("Some", 2) and self.peek(7).k == "id" and str(self.types.get(self.peek(7).v, "")).startswith("opt:") and self.at("{", 8):
            # if let Some(x) = optvar { … }   (no else branch)
            self.eat("if"); self.eat("let"); self.eat("Some"); self.eat("(")
            x = self.eat(k="id").v
            self.eat(")"); self.eat("=")
            o = self.eat(k="id").v
            oty = self.types[o]
            saved = self.types.get(x)
            self.types[x] = oty[4:]
            body = self.block(ind + "  ")
            if self.at("else"):
                raise Untranslatable("if let … else")
            if saved is None:
                del self.types[x]
            else:
                self.types[x] = saved
            return [f"{ind}match {o} with", f"{ind}| some {x} =>"] + body + [f"{ind}| none => pure ()"]
        if t.k == "id" and t.v == "if" and self.at("let", 1):
            return self.if_let_map_push(ind)
        if t.k == "id" and t.v == "for" and self.at("(", 1):
            # for (i, x) in xs.iter().enumerate() { … }
            self.eat("for"); self.eat("(")
            i = self.eat(k="id").v; self.eat(","); x = self.eat(k="id").v; self.eat(")"); self.eat("in")
            xs = self.eat(k="id").v
            if self.types.get(xs) == "map":
                # for (key, values) in map.iter() { … }: the entries, in the order the representation lists them
                self.eat("."); self.eat("iter"); self.eat("("); self.eat(")")
                self.types[i] = "string"
                self.types[x] = "vecstr"
                self.in_for = getattr(self, "in_for", 0) + 1
                body = self.block(ind + "  ")
                self.in_for -= 1
                return [f"{ind}for ({i}, {x}) in {xs} do"] + body
            if self.types.get(xs) != "vecstr":
                raise Untranslatable("enumerate over " + xs)
            self.eat("."); self.eat("iter"); self.eat("("); self.eat(")"); self.eat("."); self.eat("enumerate"); self.eat("("); self.eat(")")
            self.types[i] = "usize"
            self.types[x] = "string"
            start = self.pos
            body = self.block(ind + "  ")
            if any(tk.k == "id" and tk.v in ("continue", "break") for tk in self.toks[start:self.pos]):
                raise Untranslatable("continue/break inside an enumerate loop")
            return [f"{ind}let mut {i} : Nat := 0", f"{ind}for {x} in {xs} do"] + body + [f"{ind}  {i} := {i} + 1"]
        if t.k == "id" and t.v == "if":
            return self.if_stmt(ind)
        if t.k == "id" and t.v == "for":
            self.eat()
            x = self.eat(k="id").v
            self.eat("in")
            e, ty = self.expr(0, no_struct=True)
            if ty != "vecstr":
                raise Untranslatable("for over " + str(ty))
            self.types[x] = "string"
            self.in_for = getattr(self, "in_for", 0) + 1
            body = self.block(ind + "  ")
            self.in_for -= 1
            return [f"{ind}for {x} in {e} do"] + body
        if t.k == "id" and t.v == "continue":
            self.eat(); self.eat(";")
            if not getattr(self, "in_for", 0) or self.loop:
                raise Untranslatable("continue outside a plain for loop")
            return [f"{ind}continue"]
        if t.k == "id" and t.v == "while":
            return self.while_stmt(ind)
        if t.k == "id" and t.v == "return":
            self.eat()
            if self.at("Err"):
                self.eat(); self.eat("(")
                out = self.abort_err(ind)
                self.eat(")"); self.eat(";")
                return out
            if self.at("Ok"):
                self.eat(); self.eat("("); e, ty = self.expr(0); self.eat(")"); self.eat(";")
                return [f"{ind}return {e}"]
            raise Untranslatable("return of something else")
        if t.k == "id" and t.v in ("assert", "assert_eq") and self.at("!", 1):
            self.eat(); self.eat("!"); a = self.args(); self.eat(";")
            cond = a[0][0] if t.v == "assert" else f"({a[0][0]} == {a[1][0]})"
            return [f"{ind}Rust.assert {cond} {self.sitestr('assert')}"]
        if t.k == "id" and t.v == "match":
            return self.match_stmt(ind)
        if t.k == "id" and t.v in self.types:
            name = t.v
            ty = self.types[name]
            n1 = self.peek(1)
            if n1.k == "p" and n1.v == "=" :
                self.eat(); self.eat("="); e, _ = self.expr(0); self.eat(";")
                return [f"{ind}{name} := {e}"]
            if n1.k == "p" and n1.v in ("+", "-") and self.peek(2).v == "=":
                self.eat(); op = self.eat().v; self.eat("="); e, _ = self.expr(0); self.eat(";")
                if op == "+":
                    return [f"{ind}{name} := {name} + {e}"]
                return [f"{ind}{name} := (← Rust.subUsize {name} ({e}) {self.sitestr('sub')})"]
            if n1.k == "p" and n1.v == "[":
                # v[i] = x;
                self.eat(); self.eat("["); i, _ = self.expr(0); self.eat("]"); self.eat("=")
                if self.peek().k == "id" and self.types.get(self.peek().v) == "byteiter" and self.at(".", 1) and self.peek(2).v == "next":
                    it = self.eat().v; self.eat("."); self.eat("next"); self.eat("("); self.eat(")")
                    self.eat("."); self.eat("expect"); self.skip_balanced(); self.eat(";")
                    self.counter += 1
                    k = self.counter
                    return [f"{ind}let nx_{k} ← Rust.unwrapOpt (Rust.iterNext {it}) {self.sitestr('expect')}", f"{ind}{it} := nx_{k}.2",
                            f"{ind}{name} := (← Rust.setIdx {name} ({i}) nx_{k}.1 {self.sitestr('index-assign')})"]
                e, _ = self.expr(0); self.eat(";")
                f = "Rust.setIdxS" if ty == "vecstr" else "Rust.setIdx"
                return [f"{ind}{name} := (← {f} {name} ({i}) {e} {self.sitestr('index-assign')})"]
            if n1.k == "p" and n1.v == ".":
                m = self.peek(2).v
                if m == "push" and ty == "vecpair":
                    self.eat(); self.eat("."); self.eat("push"); self.eat("("); self.eat("(")
                    a1, t1 = self.expr(0); self.eat(","); a2, t2 = self.expr(0); self.eat(")"); self.eat(")")
                    if self.at(";"):
                        self.eat(";")
                    if t1 != "string" or t2 != "string":
                        raise Untranslatable("pair of non-strings")
                    return [f"{ind}{name} := {name} ++ [({a1}, {a2})]"]
                if m in ("sort_unstable", "sort") and ty == "vecpair":
                    self.eat(); self.eat("."); self.eat(); self.eat("("); self.eat(")"); self.eat(";")
                    return [f"{ind}{name} := Rust.sortPairs {name}"]
                if m in ("push", "extend", "extend_from_slice", "remove"):
                    self.eat(); self.eat("."); self.eat(); a = self.args()
                    if self.at(";"):
                        self.eat(";")
                    elif not self.at("}"):
                        raise Untranslatable("expected ; or }")
                    if m == "push" and ty == "string":
                        if a[0][1] != "char":
                            raise Untranslatable("push of a non-char onto a String")
                        return [f"{ind}{name} := {name} ++ Rust.utf8 ({a[0][0]})"]
                    if m == "push" and ty == "msgvec":
                        if a[0][1] != "msg":
                            raise Untranslatable("push of a non-message onto a message list")
                        return [f"{ind}{name} := {name} + 1"]
                    if m == "push":
                        return [f"{ind}{name} := {name} ++ [{a[0][0]}]"]
                    if m in ("extend", "extend_from_slice"):
                        return [f"{ind}{name} := {name} ++ {a[0][0]}"]
                    f = "Rust.removeS" if ty == "vecstr" else "Rust.remove"
                    return [f"{ind}{name} := (← {f} {name} ({a[0][0]}) {self.sitestr('remove')})"]
        raise Untranslatable(f"{self.name}: statement starting with {t!r} at {self.pos}")

    def if_let_map_push(self, ind):
        """`if let Some(v) = m.get_mut(&k) { v.push(x); } else { m.insert(k, vec![x]); }`  ->  m := Rust.mapPush m k x"""
        want = None
        def ids(n):
            return [self.eat().v for _ in range(n)]
        self.eat("if"); self.eat("let"); self.eat("Some"); self.eat("(")
        v = self.eat(k="id").v
        self.eat(")"); self.eat("=")
        m = self.eat(k="id").v
        if self.types.get(m) != "map":
            raise Untranslatable("if let on " + m)
        self.eat("."); self.eat("get_mut"); self.eat("("); self.eat("&")
        k = self.eat(k="id").v
        self.eat(")"); self.eat("{")
        self.eat(v); self.eat("."); self.eat("push"); self.eat("(")
        x = self.eat(k="id").v
        self.eat(")"); self.eat(";"); self.eat("}")
        self.eat("else"); self.eat("{")
        self.eat(m); self.eat("."); self.eat("insert"); self.eat("("); self.eat(k); self.eat(",")
        self.eat("vec"); self.eat("!"); self.eat("["); self.eat(x); self.eat("]"); self.eat(")"); self.eat(";"); self.eat("}")
        if self.types.get(k) != "string" or self.types.get(x) != "string":
            raise Untranslatable("map idiom types")
        return [f"{ind}{m} := Rust.mapPush {m} {k} {x}"]

    def if_stmt(self, ind):
        self.eat("if")
        c, _ = self.expr(0, no_struct=True)
        then = self.block(ind + "  ")
        lines = [f"{ind}if {c} then"] + then
        if self.at("else"):
            self.eat()
            if self.at("if"):
                lines += [f"{ind}else"] + self.if_stmt(ind + "  ")
            else:
                lines += [f"{ind}else"] + self.block(ind + "  ")
        return lines

    def while_stmt(self, ind):
        self.eat("while")
        if self.at("let"):
            return self.while_let_next(ind)
        outer = self.loop
        self.counter += 1
        n = self.counter
        self.loop = n
        i2, i3 = ind + "  ", ind + "    "
        c, _ = self.expr(0, no_struct=True)
        body = self.block(i3)
        lines = [f"{ind}let mut done{n} := false", f"{ind}for _ in List.range fuel do", f"{i2}if {c} then"] + body + \
                [f"{i2}else", f"{i3}done{n} := true", f"{i3}break", f"{ind}if !done{n} then", f"{i2}let _ ← (Outcome.panic \"fuel\" : Outcome Unit)"]
        self.loop = outer
        return lines

    def while_let_next(self, ind):
        """`while let Some(c) = it.next() { … }` over a byte iterator."""
        self.eat("let"); self.eat("Some"); self.eat("(")
        c = self.eat(k="id").v
        self.eat(")"); self.eat("=")
        it = self.eat(k="id").v
        if self.types.get(it) != "byteiter":
            raise Untranslatable("while let over " + it)
        self.eat("."); self.eat("next"); self.eat("("); self.eat(")")
        outer = self.loop
        self.counter += 1
        n = self.counter
        self.loop = n
        i2, i3 = ind + "  ", ind + "    "
        self.types[c] = "u8"
        body = self.block(i3)
        lines = [f"{ind}let mut done{n} := false", f"{ind}for _ in List.range fuel do", f"{i2}match Rust.iterNext {it} with",
                 f"{i2}| some ({c}, rest_{n}) =>", f"{i3}{it} := rest_{n}"] + body + \
                [f"{i2}| none =>", f"{i3}done{n} := true", f"{i3}break", f"{ind}if !done{n} then", f"{i2}let _ ← (Outcome.panic \"fuel\" : Outcome Unit)"]
        self.loop = outer
        return lines

    def arm_body(self, ind):
        """A match arm that is either a block or a single statement-like expression ending at `,`."""
        if self.at("{"):
            return self.block(ind)
        if self.at("panic") and self.at("!", 1):
            self.eat(); self.eat("!"); self.skip_balanced()
            return [f"{ind}let _ ← (Outcome.panic {self.sitestr('panic')} : Outcome Unit)"]
        # x.push(e)
        t = self.peek()
        if t.k == "id" and t.v in self.types and self.at(".", 1) and self.peek(2).v == "push":
            name = self.eat().v; self.eat("."); self.eat("push"); a = self.args()
            if self.types[name] == "string" and a[0][1] == "char":
                return [f"{ind}{name} := {name} ++ Rust.utf8 ({a[0][0]})"]
            if self.types[name] in ("vec",) and a[0][1] in ("u8", "num"):
                return [f"{ind}{name} := {name} ++ [{a[0][0]}]"]
        raise Untranslatable("match arm body")

    def match_stmt(self, ind):
        """statement-level `match e { Ok(v) => {…} Err(_) => {…} }` on an Option-like value (hex::decode)."""
        self.eat("match")
        scrut, sty = self.expr(0, no_struct=True)
        if not (isinstance(sty, str) and sty.startswith("opt:")):
            raise Untranslatable("statement match on " + str(sty))
        self.eat("{")
        lines = [f"{ind}match {scrut} with"]
        for _ in range(2):
            if self.at("Ok"):
                self.eat(); self.eat("("); v = self.eat(k="id").v; self.eat(")"); self.eat("=>")
                saved = self.types.get(v)
                self.types[v] = sty[4:]
                body = self.arm_body(ind + "  ")
                lines += [f"{ind}| some {v} =>"] + body
                if saved is None:
                    del self.types[v]
                else:
                    self.types[v] = saved
            elif self.at("Err"):
                self.eat(); self.eat("("); self.eat("_"); self.eat(")"); self.eat("=>")
                body = self.arm_body(ind + "  ")
                lines += [f"{ind}| none =>"] + body
            else:
                raise Untranslatable("match arm")
            if self.at(","):
                self.eat()
        self.eat("}")
        return lines


def split_params(params):
    ps, cur, depth = [], [], 0
    for t in params:
        if t.k == "p" and t.v in "([<": depth += 1
        if t.k == "p" and t.v in ")]>": depth -= 1
        if t.k == "p" and t.v == "," and depth == 0:
            ps.append(cur); cur = []
        else:
            cur.append(t)
    if cur:
        ps.append(cur)
    return ps


def translate_result_fn(name, params, ret, body, ctx):
    """-> (lean text, (param types, ok type))"""
    f = OFn(name, body, ctx)
    sig, ptys = [], []
    for p in split_params(params):
        if [t.v for t in p] == ["&", "self"]:
            for g, gty in list(ctx.get("self_getters", {}).items()) + list(ctx.get("self_fields", {}).items()):
                f.types["self_" + g] = gty
                ptys.append(gty)
                sig.append(f"(self_{g} : {lean_ty(gty)})")
            continue
        if len(p) < 3 or p[1].v != ":":
            raise Untranslatable("parameter")
        ty = parse_type(p[2:], ctx["enums"])
        f.types[p[0].v] = ty
        ptys.append(ty)
        sig.append(f"({p[0].v} : {lean_ty(ty)})")
    rty = parse_type(ret, ctx["enums"])
    plain = not rty.startswith("result:")
    okty = rty if plain else rty[7:]
    lines = []
    STMT_START = ("let", "if", "while", "for", "return", "assert", "assert_eq", "trace", "debug", "info", "warn", "error")
    while True:
        t = f.peek()
        if t.k == "eof":
            raise Untranslatable("no tail expression")
        is_stmt = t.k == "id" and (t.v in STMT_START) and not (t.v == "if" and _if_is_tail(f))
        if t.k == "id" and t.v == "match":
            is_stmt = _match_is_stmt(f)
        if t.k == "id" and t.v in f.types and f.peek(1).k == "p" and (f.peek(1).v in ("=", "[", "+", "-") or (f.peek(1).v == "." and f.peek(2).v in ("push", "extend", "extend_from_slice", "remove", "sort", "sort_unstable"))):
            is_stmt = True
        if not is_stmt:
            break
        lines += f.stmt("  ")
    # tail: Ok(e) | match n { 1 => Ok(a), _ => Ok(b) } | call returning the same Result | (plain return type) an expression
    if plain:
        e, _ = f.expr(0)
        lines.append(f"  return {e}")
    else:
        lines += tail(f, "  ")
    if f.peek().k != "eof":
        raise Untranslatable(f"{name}: trailing tokens after the tail expression: {f.peek()!r}")
    text = f"def {name} (fuel : Nat) " + " ".join(sig) + f" : Outcome {('(' + lean_ty(okty) + ')') if ' ' in lean_ty(okty) else lean_ty(okty)} := do\n" + "\n".join(lines)
    return text, (ptys, okty)


def _if_is_tail(f):
    return False


def _match_is_stmt(f):
    """A `match` whose arms are blocks of statements (hex::decode) is a statement; one whose arms are `Ok(..)` values is the tail."""
    i = f.pos
    while not (f.toks[i].k == "p" and f.toks[i].v == "{"):
        i += 1
    t = f.toks[i + 1]
    if not (t.k == "id" and t.v in ("Ok", "Err") and f.toks[i + 2].v == "(" and f.toks[matching(f.toks, i + 2) + 1].v == "=>"):
        return False
    nxt = f.toks[matching(f.toks, i + 2) + 2]
    return nxt.v == "{" or (nxt.k == "id" and (nxt.v == "panic" or nxt.v in f.types))


def tail(f, ind):
    if f.at("Ok"):
        f.eat(); f.eat("("); e, _ = f.expr(0); f.eat(")")
        return [f"{ind}return {e}"]
    if f.at("match"):
        f.eat("match")
        scrut, sty = f.expr(0, no_struct=True)
        f.eat("{")
        lines = [f"{ind}match {scrut} with"]
        while not f.at("}"):
            pat = f.pattern(sty)
            f.eat("=>")
            sub = tail(f, ind + "  ")
            lines += [f"{ind}| {pat} =>"] + sub
            if f.at(","):
                f.eat()
        f.eat("}")
        return lines
    # a call of a translated function returning the same Result type
    e, ty = f.expr(0)
    if isinstance(ty, str) and ty.startswith("result:"):
        return [f"{ind}return (← {e})"]
    raise Untranslatable("tail expression")
