/- Helper lemmas for C09/C10 (element normalisation, paths, queries). -/
import SigV4.Spec.UriSpec

namespace SigV4

end SigV4
