/-
  SigV4.Tie.REMatch — general facts about `RE.Matches`: constructor-wise characterisations,
  correctness of the derivative matcher.
-/
import SigV4.Source.RE

namespace SigV4
namespace RE

/-! ### Constructor-wise characterisation of `Matches` -/

theorem matches_eps_iff {s : Bytes} : Matches .eps s ↔ s = [] := by
  constructor
  · intro h; cases h; rfl
  · rintro rfl; exact .eps

theorem matches_cls_iff {rs : List (UInt8 × UInt8)} {s : Bytes} :
    Matches (.cls rs) s ↔ ∃ c, s = [c] ∧ inClass rs c = true := by
  constructor
  · intro h; cases h with | cls hc => exact ⟨_, rfl, hc⟩
  · rintro ⟨c, rfl, hc⟩; exact .cls hc

theorem matches_seq_iff {a b : RE} {s : Bytes} :
    Matches (.seq a b) s ↔ ∃ s1 s2, s = s1 ++ s2 ∧ Matches a s1 ∧ Matches b s2 := by
  constructor
  · intro h; cases h with | seq h1 h2 => exact ⟨_, _, rfl, h1, h2⟩
  · rintro ⟨s1, s2, rfl, h1, h2⟩; exact .seq h1 h2

theorem matches_alt_iff {a b : RE} {s : Bytes} :
    Matches (.alt a b) s ↔ Matches a s ∨ Matches b s := by
  constructor
  · intro h
    cases h with
    | altL h => exact Or.inl h
    | altR h => exact Or.inr h
  · rintro (h | h)
    · exact .altL h
    · exact .altR h

theorem matches_group_iff {a : RE} {s : Bytes} : Matches (.group a) s ↔ Matches a s := by
  constructor
  · intro h; cases h with | group h => exact h
  · intro h; exact .group h

theorem not_matches_empty {s : Bytes} : ¬ Matches empty s := by
  intro h
  unfold empty at h
  rw [matches_cls_iff] at h
  obtain ⟨c, _, hc⟩ := h
  simp [inClass] at hc

theorem matches_opt_iff {a : RE} {s : Bytes} : Matches (opt a) s ↔ Matches a s ∨ s = [] := by
  unfold opt
  rw [matches_alt_iff, matches_eps_iff]

theorem matches_byte_iff {c : UInt8} {s : Bytes} : Matches (byte c) s ↔ s = [c] := by
  unfold byte
  rw [matches_cls_iff]
  constructor
  · rintro ⟨x, rfl, hx⟩
    simp only [inClass, List.any_cons, List.any_nil, Bool.or_false, Bool.and_eq_true,
      decide_eq_true_eq] at hx
    rw [UInt8.le_antisymm hx.2 hx.1]
  · rintro rfl
    exact ⟨c, rfl, by simp [inClass]⟩

theorem seqs_cons_cons (a b : RE) (rs : List RE) : seqs (a :: b :: rs) = .seq a (seqs (b :: rs)) := rfl
theorem seqs_single (a : RE) : seqs [a] = a := rfl
theorem alts_cons_cons (a b : RE) (rs : List RE) : alts (a :: b :: rs) = .alt a (alts (b :: rs)) := rfl
theorem alts_single (a : RE) : alts [a] = a := rfl
theorem rep_succ (r : RE) (n : Nat) : rep r (n + 1) = .seq r (rep r n) := rfl
theorem rep_zero (r : RE) : rep r 0 = .eps := rfl

/-! ### Star -/

theorem star_ind_aux {P : Bytes → Prop} {a : RE} (h0 : P [])
    (hstep : ∀ s t, Matches a s → Matches (.star a) t → P t → P (s ++ t))
    {r : RE} {s : Bytes} (h : Matches r s) : r = .star a → P s := by
  induction h with
  | starNil => intro _; exact h0
  | starCons h1 h2 _ ih2 =>
    intro hr
    cases hr
    exact hstep _ _ h1 h2 (ih2 rfl)
  | eps => intro hr; cases hr
  | cls _ => intro hr; cases hr
  | seq _ _ _ _ => intro hr; cases hr
  | altL _ _ => intro hr; cases hr
  | altR _ _ => intro hr; cases hr
  | group _ _ => intro hr; cases hr

/-- Induction over a `star` match. -/
theorem star_ind {P : Bytes → Prop} {a : RE} {s : Bytes} (h : Matches (.star a) s) (h0 : P [])
    (hstep : ∀ s t, Matches a s → Matches (.star a) t → P t → P (s ++ t)) : P s :=
  star_ind_aux h0 hstep h rfl

/-- A non-empty `star` match starts with a non-empty match of the body. -/
theorem star_inv {a : RE} {c : UInt8} {s : Bytes} (h : Matches (.star a) (c :: s)) :
    ∃ s1 s2, s = s1 ++ s2 ∧ Matches a (c :: s1) ∧ Matches (.star a) s2 := by
  have key : ∀ w, Matches (.star a) w → ∀ c s, w = c :: s →
      ∃ s1 s2, s = s1 ++ s2 ∧ Matches a (c :: s1) ∧ Matches (.star a) s2 := by
    intro w hw
    refine star_ind (P := fun w => ∀ c s, w = c :: s →
      ∃ s1 s2, s = s1 ++ s2 ∧ Matches a (c :: s1) ∧ Matches (.star a) s2) hw ?_ ?_
    · intro c s h; cases h
    · intro u t hu ht ih c s hcs
      cases u with
      | nil => exact ih c s hcs
      | cons x xs =>
        simp only [List.cons_append, List.cons.injEq] at hcs
        obtain ⟨rfl, rfl⟩ := hcs
        exact ⟨xs, t, rfl, hu, ht⟩
  exact key _ h c s rfl

theorem matches_star_cls_iff {rs : List (UInt8 × UInt8)} {s : Bytes} :
    Matches (.star (.cls rs)) s ↔ ∀ c ∈ s, inClass rs c = true := by
  constructor
  · intro h
    refine star_ind (P := fun s => ∀ c ∈ s, inClass rs c = true) h ?_ ?_
    · intro c hc; cases hc
    · intro u t hu _ ih c hc
      rw [matches_cls_iff] at hu
      obtain ⟨x, rfl, hx⟩ := hu
      simp only [List.cons_append, List.nil_append, List.mem_cons] at hc
      rcases hc with rfl | hc
      · exact hx
      · exact ih c hc
  · intro h
    induction s with
    | nil => exact .starNil
    | cons c s ih =>
      have h1 : Matches (.cls rs) [c] := .cls (h c (List.mem_cons_self ..))
      have h2 := ih (fun x hx => h x (List.mem_cons_of_mem _ hx))
      exact Matches.starCons h1 h2

theorem matches_plus_cls_iff {rs : List (UInt8 × UInt8)} {s : Bytes} :
    Matches (plus (.cls rs)) s ↔ s ≠ [] ∧ ∀ c ∈ s, inClass rs c = true := by
  unfold plus
  rw [matches_seq_iff]
  constructor
  · rintro ⟨s1, s2, rfl, h1, h2⟩
    rw [matches_cls_iff] at h1
    obtain ⟨c, rfl, hc⟩ := h1
    rw [matches_star_cls_iff] at h2
    refine ⟨by simp, ?_⟩
    intro x hx
    simp only [List.cons_append, List.nil_append, List.mem_cons] at hx
    rcases hx with rfl | hx
    · exact hc
    · exact h2 x hx
  · rintro ⟨hne, h⟩
    cases s with
    | nil => exact absurd rfl hne
    | cons c s =>
      refine ⟨[c], s, rfl, .cls (h c (List.mem_cons_self ..)), ?_⟩
      rw [matches_star_cls_iff]
      exact fun x hx => h x (List.mem_cons_of_mem _ hx)

/-! ### The derivative matcher -/

theorem nullable_iff (r : RE) : nullable r = true ↔ Matches r [] := by
  induction r with
  | eps => simp [nullable, matches_eps_iff]
  | cls rs => simp [nullable, matches_cls_iff]
  | seq a b iha ihb =>
    simp only [nullable, Bool.and_eq_true, iha, ihb, matches_seq_iff]
    constructor
    · rintro ⟨h1, h2⟩; exact ⟨[], [], rfl, h1, h2⟩
    · rintro ⟨s1, s2, h, h1, h2⟩
      have h' := h.symm
      simp only [List.append_eq_nil_iff] at h'
      obtain ⟨rfl, rfl⟩ := h'
      exact ⟨h1, h2⟩
  | alt a b iha ihb => simp only [nullable, Bool.or_eq_true, iha, ihb, matches_alt_iff]
  | star a _ => simp only [nullable, true_iff]; exact .starNil
  | group a iha => simp only [nullable, iha, matches_group_iff]

theorem deriv_iff (c : UInt8) (r : RE) : ∀ s : Bytes, Matches (deriv c r) s ↔ Matches r (c :: s) := by
  induction r with
  | eps =>
    intro s
    simp only [deriv, matches_eps_iff]
    constructor
    · intro h; exact absurd h not_matches_empty
    · intro h; cases h
  | cls rs =>
    intro s
    simp only [deriv, matches_cls_iff]
    by_cases hc : inClass rs c = true
    · rw [if_pos hc, matches_eps_iff]
      constructor
      · rintro rfl; exact ⟨c, rfl, hc⟩
      · rintro ⟨x, hx, _⟩
        simp only [List.cons.injEq] at hx
        exact hx.2
    · rw [if_neg hc]
      constructor
      · intro h; exact absurd h not_matches_empty
      · rintro ⟨x, hx, hx'⟩
        simp only [List.cons.injEq] at hx
        obtain ⟨rfl, _⟩ := hx
        exact absurd hx' hc
  | seq a b iha ihb =>
    intro s
    have hcons : Matches (.seq a b) (c :: s) ↔
        (∃ s1 s2, s = s1 ++ s2 ∧ Matches a (c :: s1) ∧ Matches b s2) ∨
        (Matches a [] ∧ Matches b (c :: s)) := by
      rw [matches_seq_iff]
      constructor
      · rintro ⟨s1, s2, h, h1, h2⟩
        cases s1 with
        | nil =>
          simp only [List.nil_append] at h
          subst h
          exact Or.inr ⟨h1, h2⟩
        | cons x xs =>
          simp only [List.cons_append, List.cons.injEq] at h
          obtain ⟨rfl, rfl⟩ := h
          exact Or.inl ⟨xs, s2, rfl, h1, h2⟩
      · rintro (⟨s1, s2, rfl, h1, h2⟩ | ⟨h1, h2⟩)
        · exact ⟨c :: s1, s2, rfl, h1, h2⟩
        · exact ⟨[], c :: s, rfl, h1, h2⟩
    rw [hcons]
    simp only [deriv]
    by_cases hn : nullable a = true
    · rw [if_pos hn, matches_alt_iff, matches_seq_iff, ihb]
      have hn' := (nullable_iff a).mp hn
      constructor
      · rintro (⟨s1, s2, rfl, h1, h2⟩ | h)
        · exact Or.inl ⟨s1, s2, rfl, (iha s1).mp h1, h2⟩
        · exact Or.inr ⟨hn', h⟩
      · rintro (⟨s1, s2, rfl, h1, h2⟩ | ⟨_, h⟩)
        · exact Or.inl ⟨s1, s2, rfl, (iha s1).mpr h1, h2⟩
        · exact Or.inr h
    · rw [if_neg hn, matches_seq_iff]
      constructor
      · rintro ⟨s1, s2, rfl, h1, h2⟩
        exact Or.inl ⟨s1, s2, rfl, (iha s1).mp h1, h2⟩
      · rintro (⟨s1, s2, rfl, h1, h2⟩ | ⟨h, _⟩)
        · exact ⟨s1, s2, rfl, (iha s1).mpr h1, h2⟩
        · exact absurd ((nullable_iff a).mpr h) hn
  | alt a b iha ihb =>
    intro s
    simp only [deriv, matches_alt_iff, iha, ihb]
  | star a iha =>
    intro s
    simp only [deriv, matches_seq_iff]
    constructor
    · rintro ⟨s1, s2, rfl, h1, h2⟩
      have := Matches.starCons ((iha s1).mp h1) h2
      simpa using this
    · intro h
      obtain ⟨s1, s2, rfl, h1, h2⟩ := star_inv h
      exact ⟨s1, s2, rfl, (iha s1).mpr h1, h2⟩
  | group a iha =>
    intro s
    simp only [deriv, matches_group_iff, iha]

theorem matchesB_iff_matches' (r : RE) (s : Bytes) : matchesB r s = true ↔ Matches r s := by
  induction s generalizing r with
  | nil => simp only [matchesB, nullable_iff]
  | cons c s ih => simp only [matchesB, ih, deriv_iff]

end RE
end SigV4
