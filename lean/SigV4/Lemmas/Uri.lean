import SigV4.Spec.UriSpec
namespace SigV4

theorem u8_forall {P : UInt8 → Prop} (h : ∀ n : Fin 256, P (UInt8.ofNat n.val)) : ∀ c, P c := by
  intro c; have := h ⟨c.toNat, c.toNat_lt⟩; simpa using this

theorem unreserved_facts : ∀ c : UInt8, isUnreserved c = true →
    (c ≠ 0x25 ∧ c ≠ 0x2B ∧ c ≠ 0x2F ∧ c < 0x80) := by
  apply u8_forall; decide +kernel

theorem pctEncode_facts : ∀ c : UInt8,
    hexVal (hexDigitUpper (c >>> (4 : UInt8))) = some (c >>> (4 : UInt8)) ∧
    hexVal (hexDigitUpper (c &&& (0xF : UInt8))) = some (c &&& (0xF : UInt8)) ∧
    (c >>> (4 : UInt8)) * 16 + (c &&& (0xF : UInt8)) = c ∧
    isUnreserved (hexDigitUpper (c >>> (4 : UInt8))) = true ∧
    isUnreserved (hexDigitUpper (c &&& (0xF : UInt8))) = true ∧
    isUpperHexDigit (hexDigitUpper (c >>> (4 : UInt8))) = true ∧
    isUpperHexDigit (hexDigitUpper (c &&& (0xF : UInt8))) = true := by
  apply u8_forall; decide +kernel

@[simp] theorem optToOutcome_some {α} (k : ErrKind) (a : α) : optToOutcome k (some a) = .ok a := rfl
@[simp] theorem optToOutcome_none {α} (k : ErrKind) : optToOutcome k (none : Option α) = .err k := rfl

theorem optToOutcome_map {α β} (k : ErrKind) (f : α → β) (o : Option α) :
    (optToOutcome k o).map f = optToOutcome k (o.map f) := by
  cases o <;> rfl

theorem pctEncodeAll_nil : pctEncodeAll [] = [] := rfl
theorem pctEncodeAll_cons (c : UInt8) (d : Bytes) :
    pctEncodeAll (c :: d) = (if isUnreserved c then [c] else pctEncode c) ++ pctEncodeAll d := by
  simp [pctEncodeAll]

theorem pctDecode_nil (p : Bool) : pctDecode p [] = some [] := by simp [pctDecode]
theorem pctDecode_pct_some (p : Bool) (h1 h2 a b : UInt8) (rest : Bytes)
    (ha : hexVal h1 = some a) (hb : hexVal h2 = some b) :
    pctDecode p (0x25 :: h1 :: h2 :: rest) = (pctDecode p rest).map ((a * 16 + b) :: ·) := by
  rw [pctDecode.eq_2]; simp [ha, hb]
theorem pctDecode_pct_none (p : Bool) (h1 h2 : UInt8) (rest : Bytes)
    (h : ∀ a b, hexVal h1 = some a → hexVal h2 = some b → False) :
    pctDecode p (0x25 :: h1 :: h2 :: rest) = none := by
  rw [pctDecode.eq_2]; simp only [if_true]
theorem pctDecode_pct_short (p : Bool) (rest : Bytes)
    (h : ∀ h1 h2 rest', rest = h1 :: h2 :: rest' → False) :
    pctDecode p (0x25 :: rest) = none := by
  rw [pctDecode.eq_3 _ _ _ h]; simp
theorem pctDecode_plus (rest : Bytes) :
    pctDecode true (0x2B :: rest) = (pctDecode true rest).map (0x20 :: ·) := by
  rw [pctDecode.eq_def]; simp
theorem pctDecode_other (p : Bool) (c : UInt8) (rest : Bytes) (h1 : c ≠ 0x25)
    (h2 : c ≠ 0x2B ∨ p = false) :
    pctDecode p (c :: rest) = (pctDecode p rest).map (c :: ·) := by
  rw [pctDecode.eq_def]
  rcases h2 with h2 | h2 <;> simp [h1, h2]


theorem normElemRaw_eq_spec (isPath : Bool) (s : Bytes) :
    normElemRaw isPath s = optToOutcome (elemErr isPath) ((pctDecode true s).map pctEncodeAll) := by
  fun_induction normElemRaw isPath s with
  | case1 => simp [pctDecode_nil, pctEncodeAll_nil]
  | case2 c rest hc ih =>
    obtain ⟨h1, h2, -, -⟩ := unreserved_facts c hc
    rw [ih, optToOutcome_map, pctDecode_other _ _ _ h1 (.inl h2)]
    simp [Option.map_map, Function.comp_def, pctEncodeAll_cons, hc]
  | case3 h1 h2 rest a b hb ha v hv _ ih => 
    rw [ih, optToOutcome_map, pctDecode_pct_some _ _ _ _ _ _ ha hb]
    simp [Option.map_map, Function.comp_def, pctEncodeAll_cons, v, hv]
  | case4 h1 h2 rest a b hb ha v hv _ ih =>
    rw [ih, optToOutcome_map, pctDecode_pct_some _ _ _ _ _ _ ha hb]
    simp [Option.map_map, Function.comp_def, pctEncodeAll_cons, v, hv]
  | case5 h1 h2 rest h _ => rw [pctDecode_pct_none _ _ _ _ h]; rfl
  | case6 rest h _ => rw [pctDecode_pct_short _ _ h]; rfl
  | case7 rest _ _ ih => 
    rw [ih, optToOutcome_map, pctDecode_plus]
    have e : (if isUnreserved 32 = true then [32] else pctEncode 32) = b!"%20" := by decide
    simp [Option.map_map, Function.comp_def, pctEncodeAll_cons, e]
  | case8 c rest hc h1 h2 ih =>
    rw [ih, optToOutcome_map, pctDecode_other _ _ _ h1 (.inl h2)]
    simp [Option.map_map, Function.comp_def, pctEncodeAll_cons, hc]

/-! ### Output alphabet, ASCII-ness and the dead panic branch -/

theorem pctEncodeAll_alphabet (d : Bytes) :
    ∀ c ∈ pctEncodeAll d, isUnreserved c = true ∨ c = 0x25 := by
  induction d with
  | nil => simp [pctEncodeAll_nil]
  | cons x d ih =>
    intro c hc
    rw [pctEncodeAll_cons, List.mem_append] at hc
    rcases hc with hc | hc
    · by_cases hx : isUnreserved x = true
      · simp [hx] at hc; subst hc; exact .inl hx
      · obtain ⟨-, -, -, f1, f2, -, -⟩ := pctEncode_facts x
        simp [hx, pctEncode] at hc
        rcases hc with rfl | rfl | rfl
        · exact .inr rfl
        · exact .inl f1
        · exact .inl f2
    · exact ih c hc

theorem pctEncodeAll_allAscii (d : Bytes) : allAscii (pctEncodeAll d) = true := by
  simp only [allAscii, List.all_eq_true, decide_eq_true_eq]
  intro c hc
  rcases pctEncodeAll_alphabet d c hc with h | rfl
  · exact (unreserved_facts c h).2.2.2
  · decide

theorem pctEncodeAll_no_slash (d : Bytes) : (0x2F : UInt8) ∉ pctEncodeAll d := by
  intro hc
  rcases pctEncodeAll_alphabet d _ hc with h | h
  · exact absurd h (by decide)
  · exact absurd h (by decide)

theorem normElem_eq_spec (isPath : Bool) (s : Bytes) :
    normElem isPath s = optToOutcome (elemErr isPath) ((pctDecode true s).map pctEncodeAll) := by
  unfold normElem
  rw [normElemRaw_eq_spec]
  cases pctDecode true s with
  | none => rfl
  | some d => simp [pctEncodeAll_allAscii]

/-! ### decode ∘ encode -/

theorem pctDecode_pctEncodeAll (plus : Bool) (d : Bytes) :
    pctDecode plus (pctEncodeAll d) = some d := by
  induction d with
  | nil => simp [pctEncodeAll_nil, pctDecode_nil]
  | cons x d ih =>
    rw [pctEncodeAll_cons]
    by_cases hx : isUnreserved x = true
    · obtain ⟨h1, h2, -, -⟩ := unreserved_facts x hx
      simp only [hx, if_true, List.singleton_append]
      rw [pctDecode_other _ _ _ h1 (.inl h2), ih]; rfl
    · obtain ⟨f1, f2, f3, -⟩ := pctEncode_facts x
      simp only [hx, pctEncode]
      show pctDecode plus (37 :: _ :: _ :: pctEncodeAll d) = _
      rw [pctDecode_pct_some _ _ _ _ _ _ f1 f2, ih, f3]; rfl

theorem pctEncodeAll_inj {d d' : Bytes} (h : pctEncodeAll d = pctEncodeAll d') : d = d' := by
  have := pctDecode_pctEncodeAll true d
  rw [h, pctDecode_pctEncodeAll] at this
  exact (Option.some.inj this).symm

theorem pctDecode_eq_of_no_plus (s : Bytes) (h : (0x2B : UInt8) ∉ s) :
    pctDecode false s = pctDecode true s := by
  fun_induction pctDecode false s with
  | case1 => simp [pctDecode_nil]
  | case2 h1 h2 rest a b hb ha ih =>
    simp only [List.mem_cons, not_or] at h
    rw [pctDecode_pct_some _ _ _ _ _ _ ha hb, ih h.2.2.2]
  | case3 h1 h2 rest hh => rw [pctDecode_pct_none _ _ _ _ hh]
  | case4 rest hh => rw [pctDecode_pct_short _ _ hh]
  | case5 c rest hc hp => simp at hp
  | case6 c rest hc hp ih =>
    simp only [List.mem_cons, not_or] at h
    rw [pctDecode_other true c rest hc (.inl (Ne.symm h.1)), ih h.2]


/-! ### splitOn / joinWith / collapseSlashes / dropMiddleEmpties -/

theorem splitOn_ne_nil (sep : UInt8) (s : Bytes) : splitOn sep s ≠ [] := by
  fun_induction splitOn sep s <;> simp_all

theorem splitOn_nil (sep : UInt8) : splitOn sep [] = [[]] := by simp [splitOn]

theorem splitOn_cons_sep (sep : UInt8) (cs : Bytes) : splitOn sep (sep :: cs) = [] :: splitOn sep cs := by
  simp [splitOn]

theorem splitOn_cons_ne (sep c : UInt8) (cs : Bytes) (h : c ≠ sep) :
    ∃ hd tl, splitOn sep cs = hd :: tl ∧ splitOn sep (c :: cs) = (c :: hd) :: tl := by
  cases hs : splitOn sep cs with
  | nil => exact absurd hs (splitOn_ne_nil _ _)
  | cons hd tl => exact ⟨hd, tl, rfl, by simp [splitOn, h, hs]⟩

theorem splitOn_mem (sep : UInt8) (s : Bytes) :
    ∀ seg ∈ splitOn sep s, ∀ c ∈ seg, c ∈ s := by
  induction s with
  | nil => simp [splitOn_nil]
  | cons x s ih =>
    by_cases hx : x = sep
    · subst hx
      rw [splitOn_cons_sep]
      intro seg hseg c hc
      rcases List.mem_cons.1 hseg with rfl | hseg
      · simp at hc
      · exact List.mem_cons_of_mem _ (ih seg hseg c hc)
    · obtain ⟨hd, tl, e1, e2⟩ := splitOn_cons_ne sep x s hx
      rw [e2]
      rw [e1] at ih
      intro seg hseg c hc
      rcases List.mem_cons.1 hseg with rfl | hseg
      · rcases List.mem_cons.1 hc with rfl | hc
        · exact List.mem_cons_self
        · exact List.mem_cons_of_mem _ (ih hd List.mem_cons_self c hc)
      · exact List.mem_cons_of_mem _ (ih seg (List.mem_cons_of_mem _ hseg) c hc)

theorem splitOn_no_sep (sep : UInt8) (x : Bytes) (h : sep ∉ x) : splitOn sep x = [x] := by
  induction x with
  | nil => exact splitOn_nil _
  | cons c x ih =>
    simp only [List.mem_cons, not_or] at h
    obtain ⟨hd, tl, e1, e2⟩ := splitOn_cons_ne sep c x (Ne.symm h.1)
    rw [ih h.2] at e1
    rw [e2]; simp_all

theorem splitOn_append_sep (sep : UInt8) (x r : Bytes) (h : sep ∉ x) :
    splitOn sep (x ++ sep :: r) = x :: splitOn sep r := by
  induction x with
  | nil => exact splitOn_cons_sep _ _
  | cons c x ih =>
    simp only [List.mem_cons, not_or] at h
    obtain ⟨hd, tl, e1, e2⟩ := splitOn_cons_ne sep c (x ++ sep :: r) (Ne.symm h.1)
    rw [ih h.2] at e1
    rw [List.cons_append, e2]; simp_all

theorem joinWith_cons_cons (sep x y : Bytes) (rest : List Bytes) :
    joinWith sep (x :: y :: rest) = x ++ sep ++ joinWith sep (y :: rest) := by
  simp [joinWith]

theorem splitOn_joinWith (sep : UInt8) (l : List Bytes) (hl : l ≠ []) (h : ∀ x ∈ l, sep ∉ x) :
    splitOn sep (joinWith [sep] l) = l := by
  induction l with
  | nil => exact absurd rfl hl
  | cons x l ih =>
    cases l with
    | nil => simpa [joinWith] using splitOn_no_sep sep x (h x List.mem_cons_self)
    | cons y rest =>
      rw [joinWith_cons_cons, List.append_assoc, List.singleton_append,
        splitOn_append_sep _ _ _ (h x List.mem_cons_self),
        ih (by simp) (fun z hz => h z (List.mem_cons_of_mem _ hz))]

theorem dme_cons (x : Bytes) (l : List Bytes) :
    dropMiddleEmpties (x :: l) =
      if x = [] ∧ l ≠ [] then dropMiddleEmpties l else x :: dropMiddleEmpties l := by
  cases l with
  | nil => simp [dropMiddleEmpties]
  | cons y rest => by_cases hx : x = [] <;> simp [dropMiddleEmpties, hx]

theorem collapse_split (q : Bytes) :
    splitOn 0x2F (collapseAux true q) = dropMiddleEmpties (splitOn 0x2F q) ∧
    ∃ hd tl, splitOn 0x2F q = hd :: tl ∧
      splitOn 0x2F (collapseAux false q) = hd :: dropMiddleEmpties tl := by
  induction q with
  | nil => exact ⟨by simp [collapseAux, splitOn_nil, dropMiddleEmpties], [], [], by
      simp [collapseAux, splitOn_nil, dropMiddleEmpties]⟩
  | cons c r ih =>
    obtain ⟨ihA, hd, tl, e, ihB⟩ := ih
    by_cases hc : c = 0x2F
    · subst hc
      rw [splitOn_cons_sep]
      refine ⟨?_, [], splitOn 0x2F r, rfl, ?_⟩
      · simp [collapseAux, ihA, dme_cons, splitOn_ne_nil]
      · simp [collapseAux, splitOn_cons_sep, ihA]
    · obtain ⟨hd', tl', e1, e2⟩ := splitOn_cons_ne 0x2F c r hc
      obtain ⟨hd'', tl'', e1', e2'⟩ := splitOn_cons_ne 0x2F c (collapseAux false r) hc
      have : hd' = hd ∧ tl' = tl := by rw [e] at e1; simpa using e1.symm
      obtain ⟨rfl, rfl⟩ := this
      have : hd'' = hd' ∧ tl'' = dropMiddleEmpties tl' := by rw [ihB] at e1'; simpa using e1'.symm
      obtain ⟨rfl, rfl⟩ := this
      refine ⟨?_, c :: hd'', tl', e2, ?_⟩
      · simp [collapseAux, hc, e2, e2', dme_cons]
      · simp [collapseAux, hc, e2']

theorem collapseSlashes_split (q : Bytes) :
    splitOn 0x2F (collapseSlashes (0x2F :: q)) = [] :: dropMiddleEmpties (splitOn 0x2F q) := by
  simp [collapseSlashes, collapseAux, splitOn_cons_sep, (collapse_split q).1]


/-! ### mapM, pathLoop, resolveDots and the path theorem -/

theorem mapM_cons' {α β} (f : α → Option β) (x : α) (l : List α) :
    (x :: l).mapM f = (f x).bind (fun y => (l.mapM f).map (y :: ·)) := by
  rw [List.mapM_cons]
  cases f x <;> simp
  cases l.mapM f <;> simp

theorem mapM_nil' {α β} (f : α → Option β) : ([] : List α).mapM f = some [] := rfl

theorem mapM_length {α β} (f : α → Option β) (l : List α) (r : List β) (h : l.mapM f = some r) :
    r.length = l.length := by
  induction l generalizing r with
  | nil => simp at h; simp [← h]
  | cons x l ih =>
    rw [mapM_cons'] at h
    cases hx : f x with
    | none => simp [hx] at h
    | some y =>
      cases hl : l.mapM f with
      | none => simp [hx, hl] at h
      | some r' => simp [hx, hl] at h; subst h; simp [ih r' hl]

theorem pathLoop_nil (s3 : Bool) (done : List Bytes) : pathLoop s3 done [] = .ok done.reverse := by
  simp [pathLoop]

theorem pathLoop_cons (s3 : Bool) (done : List Bytes) (c : Bytes) (todo : List Bytes) :
    pathLoop s3 done (c :: todo) =
      match pctDecode true c with
      | none => .err .InvalidURIPath
      | some d =>
        if d = DOT ∧ s3 = false then pathLoop s3 done todo
        else if d = DOTDOT ∧ s3 = false then
          match done with
          | _ :: x :: done' => pathLoop s3 (x :: done') todo
          | _ => .err .InvalidURIPath
        else pathLoop s3 (pctEncodeAll d :: done) todo := by
  have e1 : ∀ d, pctEncodeAll d = DOT ↔ d = DOT := fun d =>
    ⟨fun h => pctEncodeAll_inj (d' := DOT) (by rw [h]; decide), fun h => by rw [h]; decide⟩
  have e2 : ∀ d, pctEncodeAll d = DOTDOT ↔ d = DOTDOT := fun d =>
    ⟨fun h => pctEncodeAll_inj (d' := DOTDOT) (by rw [h]; decide), fun h => by rw [h]; decide⟩
  rw [pathLoop.eq_def]
  simp only [normElem_eq_spec]
  cases pctDecode true c with
  | none => rfl
  | some d =>
    simp only [Option.map_some, optToOutcome_some, e1, e2]
    rfl



theorem pathLoop_s3 (done : List Bytes) (l : List Bytes) :
    pathLoop true done l = optToOutcome .InvalidURIPath
      ((l.mapM (pctDecode true)).map (fun segs => done.reverse ++ segs.map pctEncodeAll)) := by
  induction l generalizing done with
  | nil => simp [pathLoop_nil]
  | cons c l ih =>
    rw [pathLoop_cons, mapM_cons']
    cases pctDecode true c with
    | none => rfl
    | some d =>
      simp only [Bool.true_eq_false, and_false, if_false, ih, Option.bind_some, Option.map_map]
      cases l.mapM (pctDecode true) <;> simp

theorem resolveDots_nil (st : List Bytes) : resolveDots st [] = some st.reverse := by
  simp [resolveDots]

theorem resolveDots_cons (st : List Bytes) (seg : Bytes) (rest : List Bytes) :
    resolveDots st (seg :: rest) =
      if seg = DOT then resolveDots st rest
      else if seg = DOTDOT then
        match st with
        | [] => none
        | _ :: st' => resolveDots st' rest
      else resolveDots (seg :: st) rest := by
  rw [resolveDots.eq_def]; rfl

theorem pathLoop_std (first : Bytes) (st : List Bytes) (l : List Bytes) :
    pathLoop false (st.map pctEncodeAll ++ [first]) l = optToOutcome .InvalidURIPath
      ((l.mapM (pctDecode true)).bind fun segs =>
        (resolveDots st segs).map fun r => first :: r.map pctEncodeAll) := by
  induction l generalizing st with
  | nil => simp [pathLoop_nil, resolveDots_nil]
  | cons c l ih =>
    rw [pathLoop_cons, mapM_cons']
    cases pctDecode true c with
    | none => rfl
    | some d =>
      simp only [and_true, Option.bind_some]
      by_cases h1 : d = DOT
      · simp only [h1, if_true, ih]
        cases l.mapM (pctDecode true) with
        | none => rfl
        | some segs => simp [resolveDots_cons]
      · by_cases h2 : d = DOTDOT
        · subst h2
          have hne : DOTDOT ≠ DOT := by decide
          simp only [hne, if_true, if_false]
          cases st with
          | nil =>
            cases l.mapM (pctDecode true) with
            | none => rfl
            | some segs => simp [resolveDots_cons, hne]
          | cons x st' =>
            have := ih st'
            cases st' with
            | nil =>
              simp only [List.map_nil, List.nil_append] at this
              simp only [List.map_cons, List.map_nil, List.nil_append, List.cons_append, this]
              cases l.mapM (pctDecode true) with
              | none => rfl
              | some segs => simp [resolveDots_cons, hne]
            | cons y st'' =>
              simp only [List.map_cons, List.cons_append] at this
              simp only [List.map_cons, List.cons_append, this]
              cases l.mapM (pctDecode true) with
              | none => rfl
              | some segs => simp [resolveDots_cons, hne]
        · simp only [h1, h2, if_false]
          have := ih (d :: st)
          simp only [List.map_cons, List.cons_append] at this
          rw [this]
          cases l.mapM (pctDecode true) with
          | none => rfl
          | some segs => simp [resolveDots_cons, h1, h2]


theorem pctDecode_ne_nil (p : Bool) (s d : Bytes) (hs : s ≠ []) (h : pctDecode p s = some d) :
    d ≠ [] := by
  rw [pctDecode.eq_def] at h
  split at h
  · exact absurd rfl hs
  · split at h
    · split at h
      · split at h
        · cases hr : pctDecode p ‹_› <;> simp_all <;> (rw [← h]; simp)
        · simp at h
      · simp at h
    · split at h <;> (cases hr : pctDecode p ‹_› <;> simp_all) <;> (rw [← h]; simp)

theorem mapM_ne_nil {α β} (f : α → Option β) (l : List α) (r : List β) (hl : l ≠ [])
    (h : l.mapM f = some r) : r ≠ [] := by
  have := mapM_length f l r h
  intro hr; subst hr; cases l <;> simp_all

theorem dme_mapM (p : Bool) (l : List Bytes) :
    (dropMiddleEmpties l).mapM (pctDecode p) = (l.mapM (pctDecode p)).map dropMiddleEmpties := by
  induction l with
  | nil => simp [dropMiddleEmpties]
  | cons x l ih =>
    rw [dme_cons]
    by_cases hx : x = [] ∧ l ≠ []
    · obtain ⟨rfl, hl⟩ := hx
      simp only [hl, ne_eq, not_false_eq_true, and_self, if_true, ih, mapM_cons', pctDecode_nil,
        Option.bind_some, Option.map_map]
      cases hm : l.mapM (pctDecode p) with
      | none => rfl
      | some r =>
        have := mapM_ne_nil _ _ _ hl hm
        simp [dme_cons, this]
    · rw [if_neg hx, mapM_cons', mapM_cons', ih]
      cases hd : pctDecode p x with
      | none => rfl
      | some d =>
        simp only [Option.bind_some, Option.map_map]
        cases hm : l.mapM (pctDecode p) with
        | none => rfl
        | some r =>
          simp only [Option.map_some, Function.comp_apply, dme_cons]
          by_cases hl : l = []
          · subst hl; simp at hm; subst hm; simp
          · have hx' : x ≠ [] := fun h => hx ⟨h, hl⟩
            have := pctDecode_ne_nil p x d hx' hd
            simp [this]

theorem refPath_nil (plus s3 : Bool) : refPath plus s3 [] = some [0x2F] := rfl
theorem refPath_cons (plus s3 : Bool) (c : UInt8) (q : Bytes) : refPath plus s3 (c :: q) =
    if c ≠ 0x2F then none
    else
      match (splitOn 0x2F q).mapM (pctDecode plus) with
      | none => none
      | some segs =>
        if s3 then some (0x2F :: joinWith [0x2F] (segs.map pctEncodeAll))
        else
          match resolveDots [] (dropMiddleEmpties segs) with
          | none => none
          | some st => some (0x2F :: joinWith [0x2F] (st.map pctEncodeAll)) := rfl

theorem canonPath_eq_ref (s3 : Bool) (p : Bytes) :
    canonPath s3 p = optToOutcome .InvalidURIPath (refPath true s3 p) := by
  cases p with
  | nil => rfl
  | cons c q =>
    by_cases hc : c = 0x2F
    · subst hc
      by_cases hq : q = []
      · subst hq; cases s3 <;> decide
      · rw [refPath_cons]
        unfold canonPath
        simp only [hq, List.cons.injEq, and_false, or_false, reduceCtorEq, if_false, ne_eq,
          not_true_eq_false]
        cases s3 with
        | true =>
          simp only [if_true, splitOn_cons_sep, pathLoop_s3]
          cases hm : (splitOn 0x2F q).mapM (pctDecode true) with
          | none => rfl
          | some segs =>
            have := mapM_ne_nil _ _ _ (splitOn_ne_nil _ _) hm
            cases segs with
            | nil => exact absurd rfl this
            | cons y rest => simp [joinWith_cons_cons]
        | false =>
          simp only [Bool.false_eq_true, if_false, collapseSlashes_split]
          have := pathLoop_std [] [] (dropMiddleEmpties (splitOn 0x2F q))
          simp only [List.map_nil, List.nil_append] at this
          rw [this, dme_mapM]
          cases hm : (splitOn 0x2F q).mapM (pctDecode true) with
          | none => rfl
          | some segs =>
            simp only [Option.map_some, Option.bind_some]
            cases resolveDots [] (dropMiddleEmpties segs) with
            | none => rfl
            | some st =>
              cases st with
              | nil => rfl
              | cons y rest => simp [joinWith_cons_cons]
    · rw [refPath_cons]
      unfold canonPath
      simp [hc]

theorem pctEncodeAll_eq_DOT (d : Bytes) : pctEncodeAll d = DOT ↔ d = DOT :=
  ⟨fun h => pctEncodeAll_inj (d' := DOT) (by rw [h]; decide), fun h => by rw [h]; decide⟩
theorem pctEncodeAll_eq_DOTDOT (d : Bytes) : pctEncodeAll d = DOTDOT ↔ d = DOTDOT :=
  ⟨fun h => pctEncodeAll_inj (d' := DOTDOT) (by rw [h]; decide), fun h => by rw [h]; decide⟩

theorem mapM_congr {α β} (f g : α → Option β) (l : List α) (h : ∀ x ∈ l, f x = g x) :
    l.mapM f = l.mapM g := by
  induction l with
  | nil => rfl
  | cons x l ih =>
    rw [mapM_cons', mapM_cons', h x List.mem_cons_self, ih (fun y hy => h y (List.mem_cons_of_mem _ hy))]

theorem mapM_dec_enc (plus : Bool) (l : List Bytes) :
    (l.map pctEncodeAll).mapM (pctDecode plus) = some l := by
  induction l with
  | nil => rfl
  | cons x l ih => rw [List.map_cons, mapM_cons', pctDecode_pctEncodeAll, ih]; rfl

theorem refPath_no_plus (s3 : Bool) (p : Bytes) (h : (0x2B : UInt8) ∉ p) :
    refPath false s3 p = refPath true s3 p := by
  cases p with
  | nil => rfl
  | cons c q =>
    rw [refPath_cons, refPath_cons]
    have : (splitOn 0x2F q).mapM (pctDecode false) = (splitOn 0x2F q).mapM (pctDecode true) := by
      apply mapM_congr
      intro seg hseg
      apply pctDecode_eq_of_no_plus
      intro hc
      exact h (List.mem_cons_of_mem _ (splitOn_mem _ _ seg hseg _ hc))
    rw [this]

/-! ### shape of the reference output -/

def midOK (l : List Bytes) : Prop := ∀ x ∈ l.dropLast, x ≠ []

theorem midOK_cons (x : Bytes) (l : List Bytes) :
    midOK (x :: l) ↔ (l ≠ [] → x ≠ []) ∧ midOK l := by
  cases l with
  | nil => simp [midOK]
  | cons y l => simp [midOK, List.dropLast]

theorem midOK_of_all (l : List Bytes) (h : ∀ x ∈ l, x ≠ []) : midOK l :=
  fun x hx => h x (List.dropLast_subset l hx)

theorem midOK_concat (l : List Bytes) (s : Bytes) (h : ∀ x ∈ l, x ≠ []) : midOK (l ++ [s]) := by
  intro x hx; simp at hx; exact h x hx

theorem dme_ne_nil (l : List Bytes) (h : l ≠ []) : dropMiddleEmpties l ≠ [] := by
  induction l with
  | nil => exact absurd rfl h
  | cons x l ih =>
    rw [dme_cons]
    by_cases hx : x = [] ∧ l ≠ []
    · rw [if_pos hx]; exact ih hx.2
    · rw [if_neg hx]; simp

theorem dme_midOK (l : List Bytes) : midOK (dropMiddleEmpties l) := by
  induction l with
  | nil => simp [dropMiddleEmpties, midOK]
  | cons x l ih =>
    rw [dme_cons]
    by_cases hx : x = [] ∧ l ≠ []
    · rw [if_pos hx]; exact ih
    · rw [if_neg hx, midOK_cons]
      refine ⟨fun hne hx' => hx ⟨hx', fun hl => hne (by rw [hl]; rfl)⟩, ih⟩

theorem dme_id (l : List Bytes) (h : midOK l) : dropMiddleEmpties l = l := by
  induction l with
  | nil => rfl
  | cons x l ih =>
    rw [midOK_cons] at h
    rw [dme_cons, ih h.2]
    by_cases hx : x = [] ∧ l ≠ []
    · exact absurd hx.1 (h.1 hx.2)
    · rw [if_neg hx]

theorem resolveDots_midOK (st l r : List Bytes) (h : resolveDots st l = some r)
    (hst : ∀ x ∈ st, x ≠ []) (hl : midOK l) : midOK r := by
  induction l generalizing st with
  | nil =>
    rw [resolveDots_nil] at h; cases h
    exact midOK_of_all _ (fun x hx => hst x (List.mem_reverse.1 hx))
  | cons seg rest ih =>
    rw [midOK_cons] at hl
    rw [resolveDots_cons] at h
    split at h
    · exact ih st h hst hl.2
    · split at h
      · cases st with
        | nil => simp at h
        | cons y st' => exact ih st' h (fun x hx => hst x (List.mem_cons_of_mem _ hx)) hl.2
      · by_cases hr : rest = []
        · subst hr
          rw [resolveDots_nil] at h; cases h
          rw [List.reverse_cons]
          exact midOK_concat _ _ (fun x hx => hst x (List.mem_reverse.1 hx))
        · refine ih (seg :: st) h ?_ hl.2
          intro x hx
          rcases List.mem_cons.1 hx with rfl | hx
          · exact hl.1 hr
          · exact hst x hx

theorem resolveDots_no_dots (st l r : List Bytes) (h : resolveDots st l = some r)
    (hst : ∀ x ∈ st, x ≠ DOT ∧ x ≠ DOTDOT) : ∀ x ∈ r, x ≠ DOT ∧ x ≠ DOTDOT := by
  induction l generalizing st with
  | nil =>
    rw [resolveDots_nil] at h; cases h
    exact fun x hx => hst x (List.mem_reverse.1 hx)
  | cons seg rest ih =>
    rw [resolveDots_cons] at h
    split at h
    · exact ih st h hst
    · split at h
      · cases st with
        | nil => simp at h
        | cons y st' => exact ih st' h (fun x hx => hst x (List.mem_cons_of_mem _ hx))
      · refine ih (seg :: st) h ?_
        intro x hx
        rcases List.mem_cons.1 hx with rfl | hx
        · exact ⟨‹_›, ‹_›⟩
        · exact hst x hx

theorem resolveDots_id (st l : List Bytes) (h : ∀ x ∈ l, x ≠ DOT ∧ x ≠ DOTDOT) :
    resolveDots st l = some (st.reverse ++ l) := by
  induction l generalizing st with
  | nil => simp [resolveDots_nil]
  | cons seg rest ih =>
    have := h seg List.mem_cons_self
    rw [resolveDots_cons, if_neg this.1, if_neg this.2,
      ih _ (fun x hx => h x (List.mem_cons_of_mem _ hx))]
    simp

/-- The reference applied to an already-canonical rendering of decoded segments. -/
theorem refPath_of_rendered (plus s3 : Bool) (l : List Bytes) (hl : l ≠ []) :
    refPath plus s3 (0x2F :: joinWith [0x2F] (l.map pctEncodeAll)) =
      if s3 then some (0x2F :: joinWith [0x2F] (l.map pctEncodeAll))
      else (resolveDots [] (dropMiddleEmpties l)).map
        fun st => 0x2F :: joinWith [0x2F] (st.map pctEncodeAll) := by
  rw [refPath_cons, splitOn_joinWith _ _ (by simpa using hl), mapM_dec_enc]
  · simp only [ne_eq, not_true_eq_false, if_false]
    cases s3 with
    | true => rfl
    | false => cases resolveDots [] (dropMiddleEmpties l) <;> rfl
  · intro x hx
    obtain ⟨d, -, rfl⟩ := List.mem_map.1 hx
    exact pctEncodeAll_no_slash d

theorem splitOn_rendered (l : List Bytes) (hl : l ≠ []) :
    splitOn 0x2F (0x2F :: joinWith [0x2F] (l.map pctEncodeAll)) = [] :: l.map pctEncodeAll := by
  rw [splitOn_cons_sep, splitOn_joinWith _ _ (by simpa using hl)]
  intro x hx
  obtain ⟨d, -, rfl⟩ := List.mem_map.1 hx
  exact pctEncodeAll_no_slash d

/-- What a successful reference result looks like. -/
theorem refPath_some (plus s3 : Bool) (p r : Bytes) (h : refPath plus s3 p = some r) :
    r = [0x2F] ∨ ∃ q segs st, p = 0x2F :: q ∧ (splitOn 0x2F q).mapM (pctDecode plus) = some segs ∧
      st ≠ [] ∧ r = 0x2F :: joinWith [0x2F] (st.map pctEncodeAll) ∧
      (s3 = true → st = segs) ∧
      (s3 = false → midOK st ∧ ∀ x ∈ st, x ≠ DOT ∧ x ≠ DOTDOT) := by
  cases p with
  | nil => left; cases h; rfl
  | cons c q =>
    rw [refPath_cons] at h
    by_cases hc : c = 0x2F
    · subst hc
      simp only [ne_eq, not_true_eq_false, if_false] at h
      cases hm : (splitOn 0x2F q).mapM (pctDecode plus) with
      | none => simp [hm] at h
      | some segs =>
        simp only [hm] at h
        cases s3 with
        | true =>
          simp only [if_true, Option.some.injEq] at h
          right
          exact ⟨q, segs, segs, rfl, hm, mapM_ne_nil _ _ _ (splitOn_ne_nil _ _) hm, h.symm,
            fun _ => rfl, fun h => by simp at h⟩
        | false =>
          simp only [Bool.false_eq_true, if_false] at h
          cases hr : resolveDots [] (dropMiddleEmpties segs) with
          | none => simp [hr] at h
          | some st =>
            simp only [hr, Option.some.injEq] at h
            by_cases hst : st = []
            · left; subst hst; exact h.symm
            · right
              exact ⟨q, segs, st, rfl, hm, hst, h.symm, fun h => by simp at h, fun _ =>
                ⟨resolveDots_midOK _ _ _ hr (by simp) (dme_midOK _),
                 resolveDots_no_dots _ _ _ hr (by simp)⟩⟩
    · simp [hc] at h

theorem refPath_idempotent (s3 : Bool) (p r : Bytes) (h : refPath true s3 p = some r) :
    refPath true s3 r = some r := by
  rcases refPath_some _ _ _ _ h with rfl | ⟨q, segs, st, -, -, hst, rfl, h3, hstd⟩
  · cases s3 <;> decide
  · rw [refPath_of_rendered _ _ _ hst]
    cases s3 with
    | true => rfl
    | false =>
      obtain ⟨h1, h2⟩ := hstd rfl
      simp [dme_id _ h1, resolveDots_id _ _ h2]



/-! ### the reference as a function of the decoded raw segments -/

theorem mapM_id_map {α β} (f : α → Option β) (l : List α) : (l.map f).mapM id = l.mapM f := by
  induction l with
  | nil => rfl
  | cons x l ih => rw [List.map_cons, mapM_cons', mapM_cons', ih]; rfl

/-- `refPath true` reads the path only through the decoded raw segments. -/
def refOfDecoded (s3 : Bool) : List (Option Bytes) → Option Bytes
  | [some []] => some [0x2F]
  | some [] :: rest =>
    match rest.mapM id with
    | none => none
    | some segs =>
      if s3 then some (0x2F :: joinWith [0x2F] (segs.map pctEncodeAll))
      else
        match resolveDots [] (dropMiddleEmpties segs) with
        | none => none
        | some st => some (0x2F :: joinWith [0x2F] (st.map pctEncodeAll))
  | _ => none

theorem refPath_eq_refOfDecoded (s3 : Bool) (p : Bytes) :
    refPath true s3 p = refOfDecoded s3 ((splitOn 0x2F p).map (pctDecode true)) := by
  cases p with
  | nil => rfl
  | cons c q =>
    rw [refPath_cons]
    by_cases hc : c = 0x2F
    · subst hc
      rw [splitOn_cons_sep, List.map_cons, pctDecode_nil]
      cases hs : splitOn 0x2F q with
      | nil => exact absurd hs (splitOn_ne_nil _ _)
      | cons y ys =>
        rw [List.map_cons, refOfDecoded, ← List.map_cons, mapM_id_map]
        · simp only [ne_eq, not_true_eq_false, if_false]
        · simp
    · obtain ⟨hd, tl, -, e⟩ := splitOn_cons_ne 0x2F c q hc
      rw [e, List.map_cons, if_pos hc]
      cases hd' : pctDecode true (c :: hd) with
      | none => simp [refOfDecoded]
      | some d =>
        have := pctDecode_ne_nil _ _ _ (by simp) hd'
        cases d with
        | nil => exact absurd rfl this
        | cons a d => simp [refOfDecoded]

theorem canonPath_s3_segments (p r : Bytes) (hp : p ≠ []) (h : refPath true true p = some r) :
    (splitOn 0x2F r).length = (splitOn 0x2F p).length := by
  rcases refPath_some _ _ _ _ h with rfl | ⟨q, segs, st, rfl, hm, hst, rfl, h3, -⟩
  · cases p with
    | nil => exact absurd rfl hp
    | cons c q =>
      rw [refPath_cons] at h
      by_cases hc : c = 0x2F
      · subst hc
        simp only [ne_eq, not_true_eq_false, if_false, if_true] at h
        cases hm : (splitOn 0x2F q).mapM (pctDecode true) with
        | none => simp [hm] at h
        | some segs =>
          have hne := mapM_ne_nil _ _ _ (splitOn_ne_nil _ _) hm
          have hlen := mapM_length _ _ _ hm
          simp only [hm, Option.some.injEq, List.cons.injEq, true_and] at h
          cases segs with
          | nil => exact absurd rfl hne
          | cons y ys =>
            cases ys with
            | nil =>
              simp [splitOn_cons_sep, splitOn_nil, ← hlen]
            | cons z zs => simp [joinWith_cons_cons] at h
      · simp [hc] at h
  · rw [splitOn_rendered _ hst, splitOn_cons_sep, h3 rfl]
    simp [mapM_length _ _ _ hm]

theorem canonPath_std_no_dots (p r : Bytes) (h : refPath true false p = some r) :
    ∀ seg ∈ (splitOn 0x2F r).drop 1, seg ≠ DOT ∧ seg ≠ DOTDOT := by
  rcases refPath_some _ _ _ _ h with rfl | ⟨q, segs, st, rfl, hm, hst, rfl, -, hstd⟩
  · decide
  · rw [splitOn_rendered _ hst]
    intro seg hseg
    simp only [List.drop_succ_cons, List.drop_zero] at hseg
    obtain ⟨d, hd, rfl⟩ := List.mem_map.1 hseg
    have := (hstd rfl).2 d hd
    rw [Ne, Ne, pctEncodeAll_eq_DOT, pctEncodeAll_eq_DOTDOT]
    exact this

end SigV4
