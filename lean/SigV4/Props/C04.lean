/-
  Property C04 — freshness: only requests within 15 minutes of server time are accepted.
-/
import SigV4.Spec.ValidateSpec
import SigV4.Lemmas.C04

namespace SigV4.C04

/-- The allowed mismatch is exactly 15 minutes, in nanoseconds. -/
theorem allowed_mismatch_value : ALLOWED_MISMATCH = 900 * 1000000000 := by
  sorry

/-- Outside the window the authenticator is refused as a signature mismatch (expired / not yet
current), whatever its credential looks like. -/
theorem prevalidate_outside (a : Authenticator) (region service : Bytes) (now : Int)
    (hr : nowRepresentable now) (h : ¬ inWindow a.timestamp now) :
    prevalidate a region service now = .err .SignatureDoesNotMatch := by
  sorry

/-- Inside the window (bounds inclusive) the timestamp alone never causes rejection: the verdict is
that of the credential-scope rule. -/
theorem prevalidate_inside (a : Authenticator) (region service : Bytes) (now : Int)
    (hr : nowRepresentable now) (h : inWindow a.timestamp now) :
    prevalidate a region service now = scopeCheck a region service := by
  sorry

/-- The decision depends only on the instant: authenticators with the same instant (whatever text
denoted it) get the same freshness verdict. -/
theorem freshness_depends_only_on_instant (a a' : Authenticator) (region service : Bytes) (now : Int)
    (hr : nowRepresentable now) (ht : a.timestamp = a'.timestamp) :
    (prevalidate a region service now = scopeCheck a region service) ↔
    (prevalidate a' region service now = scopeCheck a' region service) := by
  sorry

/-- Acceptance implies freshness. -/
theorem accept_implies_inWindow {σ : Type} (H : Bytes → Bytes) (cfg : Config) (P : Provider σ) (s : σ)
    (req : Request) (r : Returned) (hr : nowRepresentable cfg.now)
    (h : (validate H cfg P s req).out = .ok r) :
    ∃ a, authOf H cfg req = .ok a ∧ inWindow a.timestamp cfg.now := by
  sorry

/-- Outside the window the request is refused before any key lookup: no provider call, provider
state untouched, whatever the provider would have answered. -/
theorem outside_window_no_key_lookup {σ : Type} (H : Bytes → Bytes) (cfg : Config) (P : Provider σ) (s : σ)
    (req : Request) (a : Authenticator) (hr : nowRepresentable cfg.now)
    (ha : authOf H cfg req = .ok a) (h : ¬ inWindow a.timestamp cfg.now) :
    (validate H cfg P s req).out = .err .SignatureDoesNotMatch ∧ (validate H cfg P s req).calls = [] ∧
    (validate H cfg P s req).state = s := by
  sorry

/-- Both bounds are inclusive and sharp at nanosecond resolution. -/
theorem window_bounds_sharp (now : Int) :
    inWindow (now - ALLOWED_MISMATCH) now ∧ inWindow (now + ALLOWED_MISMATCH) now ∧
    ¬ inWindow (now - ALLOWED_MISMATCH - 1) now ∧ ¬ inWindow (now + ALLOWED_MISMATCH + 1) now := by
  sorry

/-- Every server time between year 0001 and year 9999 is representable (so the theorems above apply
to all of them, including day, month, year and leap-day boundaries). -/
theorem civil_years_representable (now : Int)
    (h : daysFromCivil 1 1 1 * 86400 * NS_PER_SEC ≤ now ∧ now < daysFromCivil 10000 1 1 * 86400 * NS_PER_SEC) :
    nowRepresentable now := by
  sorry

example : nowRepresentable 1440938160000000000 := by decide
example : inWindow 1440938160000000000 (1440938160000000000 + 900 * 1000000000) := by decide
example : ¬ inWindow 1440938160000000000 (1440938160000000000 + 900 * 1000000000 + 1) := by decide

end SigV4.C04

#print axioms SigV4.C04.allowed_mismatch_value
#print axioms SigV4.C04.prevalidate_outside
#print axioms SigV4.C04.prevalidate_inside
#print axioms SigV4.C04.freshness_depends_only_on_instant
#print axioms SigV4.C04.accept_implies_inWindow
#print axioms SigV4.C04.outside_window_no_key_lookup
#print axioms SigV4.C04.window_bounds_sharp
#print axioms SigV4.C04.civil_years_representable
